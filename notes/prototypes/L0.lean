/-! Prototype of the frame-level connection machine (L0) and the C06 order invariant. -/
abbrev Bytes := List UInt8

inductive Intent | status | login | transfer deriving DecidableEq, Repr
structure Handshake where
  proto : Int
  host : Bytes
  port : Nat
  intent : Intent
deriving DecidableEq, Repr
structure Ident where
  name : Bytes
  uuid : Nat
  props : List Bytes
deriving DecidableEq, Repr
structure Target where
  id : Bytes
  ip : Bytes      -- textual form via Env.showIp in the real model
  port : Nat
deriving DecidableEq, Repr
structure AuthCookie where
  ts : Nat
  ip : Bytes
  ident : Ident
deriving DecidableEq, Repr

inductive Err | unexpectedId | decode | closed | crypto | badToken | adapter | json | missedKA | noTarget
deriving DecidableEq, Repr

inductive Cb
  | statusResponse (json : Bytes) | pong (p : Nat)
  | cookieReqSession | cookieReqAuth
  | encReq (token : Bytes) (shouldAuth : Bool)
  | loginSuccess (name : Bytes) (uuid : Nat)
  | keepAlive (id : Nat)
  | storeAuth (payload : Bytes) | storeSession (host : Bytes) (port : Nat)
  | transfer (host : Bytes) (port : Nat)
  | disconnect (reason : Bytes)
deriving DecidableEq, Repr

inductive Out
  | send (p : Cb)
  | callAuth (claim : Ident) (secret : Bytes)
  | callDiscover
  | callFilter (user : Ident) (ts : List Target)
  | callSelect (user : Ident) (ts : List Target)
  | finish (r : Option Err)
deriving DecidableEq, Repr

/-- decoded serverbound packets; decoding itself is M1's job (here: an oracle in Env) -/
inductive Sb
  | handshake (h : Handshake) | statusReq | ping (p : Nat)
  | loginStart (name : Bytes) (uuid : Nat)
  | cookieResp (payload : Option Bytes)
  | encResp (secretCt tokenCt : Bytes)
  | loginAck
  | clientInfo (locale : Bytes) | keepAlive (id : Nat) | ignorable
deriving DecidableEq, Repr

inductive Phase | handshake | status | login | config deriving DecidableEq, Repr

structure Env where
  decode : Phase → Int → Bytes → Except Err Sb       -- M1; `unexpectedId` when id not of that phase
  status : Handshake → Except Err Bytes
  auth : Ident → Bytes → Except Err Ident
  discover : Except Err (List Target)
  filter : Ident → List Target → Except Err (List Target)
  select : Ident → List Target → Except Err (Option Target)
  localize : Option Bytes → Bytes → Except Err Bytes
  rsaDecrypt : Bytes → Option Bytes
  token : Bytes
  hmac : Bytes → Bytes → Bytes
  parseCookie : Bytes → Except Err AuthCookie
  serCookie : AuthCookie → Bytes
  sessionPayloadOk : Bytes → Bool
  now : Nat
  kaId : Nat → Nat      -- id of the n-th keep-alive

structure Cfg where
  secret : Option Bytes
  expiry : Nat
  clientIp : Bytes

inductive Pc
  | awaitHandshake | awaitStatusReq | awaitPing
  | awaitLoginStart | awaitSessionCookie | awaitAuthCookie | awaitEncResp
  | awaitLoginAck | awaitClientInfo | discovering | filtering | selecting | done
deriving DecidableEq, Repr

structure St where
  pc : Pc := .awaitHandshake
  hs : Handshake := ⟨0, [], 0, .status⟩
  ident : Ident := ⟨[], 0, []⟩
  shouldAuth : Bool := true
  sessPresent : Bool := false
  ka : Option Nat := none
  kaCount : Nat := 0
  locale : Option Bytes := none
  targets : List Target := []
deriving Repr

inductive In
  | frame (id : Int) (body : Bytes) | bad (e : Err) | eof | tick | adapterDone
deriving Repr

def fail (st : St) (e : Err) : St × List Out := ({ st with pc := .done }, [.finish (some e)])

def phaseOf : Pc → Phase
  | .awaitHandshake => .handshake
  | .awaitStatusReq | .awaitPing => .status
  | .awaitLoginStart | .awaitSessionCookie | .awaitAuthCookie | .awaitEncResp | .awaitLoginAck => .login
  | _ => .config

def verifyCookie (E : Env) (s x : Bytes) : Option Bytes :=
  if x.length < 32 then none
  else if x.take 32 = E.hmac s (x.drop 32) then some (x.drop 32) else none

/-- Encryption Request step, shared by all entries into it. -/
def sendEncReq (E : Env) (st : St) (pre : List Out) : St × List Out :=
  ({ st with pc := .awaitEncResp }, pre ++ [.send (.encReq E.token st.shouldAuth)])

/-- after select: cookies + transfer, or disconnect -/
def finishRouting (C : Cfg) (E : Env) (st : St) (sel : Option Target) (pre : List Out) : St × List Out :=
  match sel with
  | none =>
    match E.localize st.locale "disconnect_no_target".toUTF8.toList with
    | .error e => ({ st with pc := .done }, pre ++ [.finish (some e)])
    | .ok r => ({ st with pc := .done }, pre ++ [.send (.disconnect r), .finish (some .noTarget)])
  | some t =>
    let a : List Out := match st.shouldAuth, C.secret with
      | true, some s =>
        let j := E.serCookie ⟨E.now, C.clientIp, st.ident⟩
        [.send (.storeAuth (E.hmac s j ++ j))]
      | _, _ => []
    let b : List Out := if st.sessPresent then [] else [.send (.storeSession st.hs.host st.hs.port)]
    ({ st with pc := .done }, pre ++ a ++ b ++ [.send (.transfer t.ip t.port), .finish none])

def kaTick (E : Env) (st : St) : St × List Out :=
  match st.ka with
  | some _ =>
    match E.localize st.locale "disconnect_timeout".toUTF8.toList with
    | .error e => fail st e
    | .ok r => ({ st with pc := .done }, [.send (.disconnect r), .finish (some .missedKA)])
  | none =>
    let id := E.kaId st.kaCount
    ({ st with ka := some id, kaCount := st.kaCount + 1 }, [.send (.keepAlive id)])

def kaEcho (st : St) (id : Nat) : St := if st.ka = some id then { st with ka := none } else st

def step (C : Cfg) (E : Env) (st : St) (i : In) : St × List Out :=
  match st.pc with
  | .done => (st, [])
  | pc =>
  match i with
  | .bad e => fail st e
  | .eof => fail st .closed
  | .tick =>
    (match pc with
     | .awaitClientInfo | .discovering | .filtering | .selecting => kaTick E st
     | _ => (st, []))
  | .adapterDone =>
    (match pc with
     | .discovering =>
       (match E.discover with
        | .error e => fail st e
        | .ok ts => ({ st with pc := .filtering, targets := ts }, [.callFilter st.ident ts]))
     | .filtering =>
       (match E.filter st.ident st.targets with
        | .error e => fail st e
        | .ok ts => ({ st with pc := .selecting, targets := ts }, [.callSelect st.ident ts]))
     | .selecting =>
       (match E.select st.ident st.targets with
        | .error e => fail st e
        | .ok sel => finishRouting C E st sel [])
     | _ => (st, []))
  | .frame id body =>
    match E.decode (phaseOf pc) id body with
    | .error e => fail st e
    | .ok p =>
    match pc, p with
    | .awaitHandshake, .handshake h =>
      ({ st with hs := h, pc := if h.intent = .status then .awaitStatusReq else .awaitLoginStart }, [])
    | .awaitStatusReq, .statusReq =>
      (match E.status st.hs with
       | .error e => fail st e
       | .ok j => ({ st with pc := .awaitPing }, [.send (.statusResponse j)]))
    | .awaitPing, .ping x => ({ st with pc := .done }, [.send (.pong x), .finish none])
    | .awaitLoginStart, .loginStart n u =>
      ({ st with ident := ⟨n, u, []⟩, pc := .awaitSessionCookie }, [.send .cookieReqSession])
    | .awaitSessionCookie, .cookieResp pl =>
      (match pl with
       | some b => if E.sessionPayloadOk b then
           (let st := { st with sessPresent := true }
            if st.hs.intent = .transfer ∧ C.secret.isSome then
              ({ st with pc := .awaitAuthCookie }, [.send .cookieReqAuth])
            else sendEncReq E st [])
         else fail st .json
       | none =>
          if st.hs.intent = .transfer ∧ C.secret.isSome then
            ({ st with pc := .awaitAuthCookie }, [.send .cookieReqAuth])
          else sendEncReq E st [])
    | .awaitAuthCookie, .cookieResp pl =>
      (match pl, C.secret with
       | some x, some s =>
         (match verifyCookie E s x with
          | none => sendEncReq E st []
          | some m =>
            match E.parseCookie m with
            | .error e => fail st e
            | .ok c =>
              if c.ip ≠ C.clientIp ∨ c.ts + C.expiry < E.now then sendEncReq E st []
              else sendEncReq E { st with shouldAuth := false, ident := c.ident } [])
       | _, _ => sendEncReq E st [])
    | .awaitEncResp, .encResp sct tct =>
      (match E.rsaDecrypt sct, E.rsaDecrypt tct with
       | some secret, some tok =>
         if tok ≠ E.token then fail st .badToken else
         if st.shouldAuth then
           (match E.auth st.ident secret with
            | .error e => ({ st with pc := .done }, [.callAuth st.ident secret, .finish (some e)])
            | .ok prof =>
              ({ st with ident := prof, pc := .awaitLoginAck },
               [.callAuth st.ident secret, .send (.loginSuccess prof.name prof.uuid)]))
         else ({ st with pc := .awaitLoginAck }, [.send (.loginSuccess st.ident.name st.ident.uuid)])
       | _, _ => fail st .crypto)
    | .awaitLoginAck, .loginAck => ({ st with pc := .awaitClientInfo }, [])
    | .awaitClientInfo, .clientInfo loc =>
      ({ st with locale := some loc, pc := .discovering }, [.callDiscover])
    | .awaitClientInfo, .keepAlive id => (kaEcho st id, [])
    | .awaitClientInfo, .ignorable => (st, [])
    | .discovering, .keepAlive id | .filtering, .keepAlive id | .selecting, .keepAlive id => (kaEcho st id, [])
    | .discovering, .clientInfo _ | .filtering, .clientInfo _ | .selecting, .clientInfo _ => (st, [])
    | .discovering, .ignorable | .filtering, .ignorable | .selecting, .ignorable => (st, [])
    | _, _ => fail st .unexpectedId

def run (C : Cfg) (E : Env) : St → List In → St × List Out
  | st, [] => (st, [])
  | st, i :: is =>
    let (st1, o1) := step C E st i
    let (st2, o2) := run C E st1 is
    (st2, o1 ++ o2)

/-! ### C06: order of clientbound packets as a DFA over packet kinds -/
inductive Q | start | statusSent | loginCookie1 | loginCookie2 | encSent | success | stored1 | stored2 | closed
deriving DecidableEq, Repr

def delta : Q → Cb → Option Q
  | .start, .statusResponse _ => some .statusSent
  | .statusSent, .pong _ => some .closed
  | .start, .cookieReqSession => some .loginCookie1
  | .loginCookie1, .cookieReqAuth => some .loginCookie2
  | .loginCookie1, .encReq _ _ | .loginCookie2, .encReq _ _ => some .encSent
  | .encSent, .loginSuccess _ _ => some .success
  | .success, .keepAlive _ => some .success
  | .success, .storeAuth _ => some .stored1
  | .success, .storeSession _ _ | .stored1, .storeSession _ _ => some .stored2
  | .success, .transfer _ _ | .stored1, .transfer _ _ | .stored2, .transfer _ _ => some .closed
  | .success, .disconnect _ => some .closed
  | _, _ => none

def sends : List Out → List Cb
  | [] => []
  | .send p :: r => p :: sends r
  | _ :: r => sends r

def dfaRun : Q → List Cb → Option Q
  | q, [] => some q
  | q, p :: r => match delta q p with | some q' => dfaRun q' r | none => none

/-- which DFA states are compatible with a program counter -/
def okQ : Pc → Q → Prop
  | .awaitHandshake, q | .awaitStatusReq, q | .awaitLoginStart, q => q = .start
  | .awaitPing, q => q = .statusSent
  | .awaitSessionCookie, q => q = .loginCookie1
  | .awaitAuthCookie, q => q = .loginCookie2
  | .awaitEncResp, q => q = .encSent
  | .awaitLoginAck, q | .awaitClientInfo, q | .discovering, q | .filtering, q | .selecting, q => q = .success
  | .done, _ => True

theorem sends_append (a b : List Out) : sends (a ++ b) = sends a ++ sends b := by
  induction a with
  | nil => rfl
  | cons x xs ih => cases x <;> simp [sends, ih]

theorem dfaRun_append (q : Q) (a b : List Cb) :
    dfaRun q (a ++ b) = (dfaRun q a).bind (fun q' => dfaRun q' b) := by
  induction a generalizing q with
  | nil => simp [dfaRun]
  | cons x xs ih => simp [dfaRun]; cases delta q x <;> simp [ih]

theorem step_order (C : Cfg) (E : Env) (st : St) (i : In) (q : Q) (h : okQ st.pc q) :
    ∃ q', dfaRun q (sends (step C E st i).2) = some q' ∧ okQ (step C E st i).1.pc q' := by
  unfold step kaTick finishRouting sendEncReq fail kaEcho
  repeat' split
  all_goals (try simp_all [sends, dfaRun, okQ, delta, sends_append, dfaRun_append])
  all_goals (repeat' split)
  all_goals (try simp_all [sends, dfaRun, okQ, delta, sends_append, dfaRun_append])

theorem run_order (C : Cfg) (E : Env) (st : St) (ins : List In) (q : Q) (h : okQ st.pc q) :
    ∃ q', dfaRun q (sends (run C E st ins).2) = some q' ∧ okQ (run C E st ins).1.pc q' := by
  induction ins generalizing st q with
  | nil => exact ⟨q, by simp [run, sends, dfaRun], by simpa [run] using h⟩
  | cons i is ih =>
    obtain ⟨q1, h1, h2⟩ := step_order C E st i q h
    obtain ⟨q2, h3, h4⟩ := ih (step C E st i).1 q1 h2
    refine ⟨q2, ?_, ?_⟩
    · simp [run, sends_append, dfaRun_append, h1, h3]
    · simpa [run] using h4

/-- C06 (order): every run from the initial state emits a word accepted as a prefix by the DFA. -/
theorem c06_order (C : Cfg) (E : Env) (ins : List In) :
    (dfaRun .start (sends (run C E {} ins).2)).isSome := by
  obtain ⟨q', h, _⟩ := run_order C E {} ins .start (by simp [okQ])
  simp [h]
#print axioms c06_order

