/-! Prototype: Minecraft signed hex digest formatting (C11). -/
abbrev Bytes := List UInt8

def hexDigit (n : Nat) : Char := if n < 10 then Char.ofNat (48 + n) else Char.ofNat (87 + n)

/-- most-significant-first hex digits of n, no leading zeros, [] for 0 -/
def hexDigits : Nat → List Nat
  | 0 => []
  | n+1 => hexDigits ((n+1) / 16) ++ [(n+1) % 16]
decreasing_by omega

def fromDigits (ds : List Nat) : Nat := ds.foldl (fun a d => a * 16 + d) 0

theorem fromDigits_append (a : List Nat) (d : Nat) : fromDigits (a ++ [d]) = fromDigits a * 16 + d := by
  simp [fromDigits, List.foldl_append]

theorem from_hexDigits (n : Nat) : fromDigits (hexDigits n) = n := by
  induction n using Nat.strongRecOn with
  | _ n ih =>
    cases n with
    | zero => simp [hexDigits, fromDigits]
    | succ m =>
      rw [hexDigits, fromDigits_append, ih ((m+1)/16) (by omega)]
      omega

theorem hexDigits_lt (n : Nat) : ∀ d ∈ hexDigits n, d < 16 := by
  induction n using Nat.strongRecOn with
  | _ n ih =>
    cases n with
    | zero => simp [hexDigits]
    | succ m =>
      rw [hexDigits]
      intro d hd
      simp at hd
      rcases hd with hd | hd
      · exact ih _ (by omega) d hd
      · omega

theorem hexDigits_head_ne_zero (n : Nat) : (hexDigits n).head? ≠ some 0 := by
  induction n using Nat.strongRecOn with
  | _ n ih =>
    cases n with
    | zero => simp [hexDigits]
    | succ m =>
      rw [hexDigits]
      by_cases h : (m+1)/16 = 0
      · simp [h, hexDigits]; omega
      · have := ih ((m+1)/16) (by omega)
        cases hh : hexDigits ((m+1)/16) with
        | nil =>
          have := from_hexDigits ((m+1)/16)
          simp [hh, fromDigits] at this; omega
        | cons x xs => simp [hh] at this ⊢; exact this

def beNat (bs : Bytes) : Nat := bs.foldl (fun a b => a * 256 + b.toNat) 0

def hexStr (n : Nat) : String := if n = 0 then "0" else String.ofList ((hexDigits n).map hexDigit)

/-- model of `BigInt::from_signed_bytes_be(d).to_str_radix(16)` -/
def signedHex (d : Bytes) : String :=
  let n := beNat d
  let w := 8 * d.length
  if d = [] then "0"
  else if n < 2 ^ (w - 1) then hexStr n
  else "-" ++ hexStr (2 ^ w - n)

/-- two's-complement reading of a byte string -/
def toInt (d : Bytes) : Int :=
  let n := beNat d
  let w := 8 * d.length
  if d = [] then 0 else if n < 2 ^ (w - 1) then n else (n : Int) - 2 ^ w

#eval signedHex [0x80, 0, 0]
#eval signedHex [0x00, 0x0a, 0xff]
#eval signedHex [0xff, 0xff]
#eval signedHex [0x7f]
example : signedHex [0x80, 0, 0] = "-800000" := by decide
#print axioms hexDigits_head_ne_zero
