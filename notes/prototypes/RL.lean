/-! Prototype: sliding-window-counter limiter, abstract admission arithmetic. -/
structure Arith where
  admit : (prev cur limit age d : Nat) → Bool
  sound : ∀ {prev cur limit age d}, admit prev cur limit age d = true → cur < limit
  fresh : ∀ {cur limit age d}, 0 < d → admit 0 cur limit age d = (decide (cur < limit))

structure Bucket where
  win : Nat
  prev : Nat
  cur : Nat
deriving Repr, DecidableEq

structure Cfg where
  d : Nat
  limit : Nat

def roll (c : Cfg) (now : Nat) (b : Bucket) : Bucket :=
  if now - b.win ≥ c.d then
    { win := now, prev := if now - b.win ≥ 2 * c.d then 0 else b.cur, cur := 0 }
  else b

def stepB (A : Arith) (c : Cfg) (b : Bucket) (now : Nat) : Bucket × Bool :=
  let b1 := roll c now b
  if A.admit b1.prev b1.cur c.limit (now - b1.win) c.d then ({ b1 with cur := b1.cur + 1 }, true)
  else (b1, false)

def freshB (now : Nat) : Bucket := { win := now, prev := 0, cur := 0 }

def step1 (A : Arith) (c : Cfg) (b : Option Bucket) (now : Nat) : Bucket × Bool :=
  stepB A c (b.getD (freshB now)) now

def BInv (c : Cfg) (b : Bucket) : Prop := b.cur ≤ c.limit ∧ b.prev ≤ c.limit

theorem roll_inv (c : Cfg) (now : Nat) (b : Bucket) (h : BInv c b) : BInv c (roll c now b) := by
  unfold roll BInv at *
  split
  · split <;> simp <;> omega
  · exact h

theorem stepB_inv (A : Arith) (c : Cfg) (b : Bucket) (now : Nat) (h : BInv c b) :
    BInv c (stepB A c b now).1 := by
  have h1 := roll_inv c now b h
  unfold stepB
  simp only []
  split
  · rename_i hadm
    have := A.sound hadm
    unfold BInv at *
    simp; omega
  · exact h1

theorem idle_readmit (A : Arith) (c : Cfg) (b : Bucket) (now : Nat)
    (hl : 0 < c.limit) (hidle : now - b.win ≥ 2 * c.d) (hd : 0 < c.d) :
    (stepB A c b now).2 = true := by
  have h1 : now - b.win ≥ c.d := by omega
  simp [stepB, roll, h1, hidle, A.fresh hd, hl]

theorem reject_no_consume (A : Arith) (c : Cfg) (b : Bucket) (now : Nat)
    (hrej : (stepB A c b now).2 = false) : (stepB A c b now).1 = roll c now b := by
  unfold stepB at *
  simp only [] at *
  split at hrej
  · simp at hrej
  · rename_i h; simp [h]

theorem stale_eq_absent (A : Arith) (c : Cfg) (b : Bucket) (now : Nat) (hd : 0 < c.d)
    (hstale : now - b.win ≥ 2 * c.d) : step1 A c (some b) now = step1 A c none now := by
  have h1 : now - b.win ≥ c.d := by omega
  have h2 : ¬ (0 ≥ c.d) := by omega
  simp [step1, stepB, roll, freshB, h1, hstale, h2]

def exactArith : Arith where
  admit prev cur limit age d := decide (prev * (d - age) + cur * d < limit * d)
  sound := by
    intro prev cur limit age d h
    simp at h
    have : cur * d < limit * d := by omega
    exact Nat.lt_of_mul_lt_mul_right this
  fresh := by
    intro cur limit age d hd
    simp
    constructor
    · intro h; exact Nat.lt_of_mul_lt_mul_right h
    · intro h; exact Nat.mul_lt_mul_of_pos_right h hd

/-! multi-key limiter with cleanup, as assoc list -/
structure RL where
  buckets : List (Nat × Bucket)
  lastCleanup : Nat

def lookup (k : Nat) : List (Nat × Bucket) → Option Bucket
  | [] => none
  | (k', b) :: r => if k' = k then some b else lookup k r

def upsert (k : Nat) (b : Bucket) : List (Nat × Bucket) → List (Nat × Bucket)
  | [] => [(k, b)]
  | (k', b') :: r => if k' = k then (k, b) :: r else (k', b') :: upsert k b r

def enqueue (A : Arith) (c : Cfg) (s : RL) (k now : Nat) : RL × Bool :=
  let (b', ok) := step1 A c (lookup k s.buckets) now
  let bs := upsert k b' s.buckets
  if ok then
    if now - s.lastCleanup ≥ 2 * c.d then
      ({ buckets := bs.filter (fun kb => now - kb.2.win < 2 * c.d), lastCleanup := now }, true)
    else ({ s with buckets := bs }, true)
  else ({ s with buckets := bs }, false)

theorem lookup_upsert (k k' : Nat) (b : Bucket) (l : List (Nat × Bucket)) :
    lookup k' (upsert k b l) = if k = k' then some b else lookup k' l := by
  induction l with
  | nil => simp [upsert, lookup]
  | cons hd tl ih =>
    obtain ⟨kk, bb⟩ := hd
    simp only [upsert]
    split
    · subst_vars; simp [lookup]; split <;> simp_all
    · simp only [lookup]; split
      · subst_vars; simp_all
      · simp [ih]

#eval (enqueue exactArith ⟨10, 3⟩ ⟨[], 0⟩ 7 0)
#print axioms lookup_upsert
