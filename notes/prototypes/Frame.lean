/-! Prototype: incremental frame splitter; prefix-stability and segmentation independence. -/
abbrev Bytes := List UInt8

inductive VR | need | done (v : Nat) (used : Nat)   -- unsigned value accumulated, bytes used
deriving DecidableEq, Repr

/-- Rust read_varint: up to 5 groups, stops at the first byte without continuation bit or after 5. -/
def readVar : (fuel : Nat) → (shift : Nat) → (acc : Nat) → (used : Nat) → Bytes → VR
  | 0, _, acc, used, _ => .done acc used
  | _+1, _, _, _, [] => .need
  | f+1, sh, acc, used, b :: bs =>
    let acc' := acc + (b.toNat % 128) * 2 ^ sh
    if b.toNat < 128 then .done acc' (used + 1) else readVar f (sh + 7) acc' (used + 1) bs

theorem readVar_stable (f sh acc used : Nat) (a b : Bytes) (v u : Nat)
    (h : readVar f sh acc used a = .done v u) : readVar f sh acc used (a ++ b) = .done v u := by
  induction f generalizing sh acc used a with
  | zero => simpa [readVar] using h
  | succ f ih =>
    cases a with
    | nil => simp [readVar] at h
    | cons x xs =>
      simp only [readVar, List.cons_append] at *
      split
      · simp_all
      · rename_i hx; simp [hx] at h; exact ih _ _ _ _ h

inductive FR
  | need                       -- more bytes required
  | bad                        -- illegal length
  | frame (body : Bytes) (rest : Bytes)   -- id+payload bytes of one frame, remaining bytes
deriving DecidableEq, Repr

def toI32 (v : Nat) : Int := if v % 2^32 < 2^31 then (v % 2^32 : Nat) else ((v % 2^32 : Nat) : Int) - 2^32

def parse1 (max : Nat) (rx : Bytes) : FR :=
  match readVar 5 0 0 0 rx with
  | .need => .need
  | .done v used =>
    let len := toI32 v
    if len ≤ 0 ∨ len > (max : Int) then .bad
    else
      let n := len.toNat
      let r := rx.drop used
      if r.length < n then .need else .frame (r.take n) (r.drop n)

theorem readVar_used_le (f sh acc used : Nat) (a : Bytes) (v u : Nat)
    (h : readVar f sh acc used a = .done v u) : u ≤ used + a.length := by
  induction f generalizing sh acc used a with
  | zero => simp [readVar] at h; omega
  | succ f ih =>
    cases a with
    | nil => simp [readVar] at h
    | cons x xs =>
      simp only [readVar] at h
      split at h
      · simp at h; simp; omega
      · have := ih _ _ _ _ h; simp; omega

/-- prefix stability of one-frame parsing -/
theorem parse1_stable (max : Nat) (a b body rest : Bytes)
    (h : parse1 max a = .frame body rest) : parse1 max (a ++ b) = .frame body (rest ++ b) := by
  unfold parse1 at *
  cases hv : readVar 5 0 0 0 a with
  | need => simp [hv] at h
  | done v used =>
    have hs := readVar_stable 5 0 0 0 a b v used hv
    have hu := readVar_used_le 5 0 0 0 a v used hv
    simp only [hv, hs] at *
    split at h
    · simp at h
    · rename_i hlen
      simp only [hlen, if_false] at *
      split at h
      · simp at h
      · rename_i hn
        simp at h
        obtain ⟨h1, h2⟩ := h
        have hdrop : (a ++ b).drop used = a.drop used ++ b := by
          rw [List.drop_append_of_le_length (by omega)]
        simp only [hdrop]
        have : ¬ ((a.drop used ++ b).length < (toI32 v).toNat) := by
          simp at hn ⊢; omega
        simp only [this, if_false]
        have hn' : (toI32 v).toNat ≤ (a.drop used).length := by simp at hn ⊢; omega
        simp [List.take_append_of_le_length hn', List.drop_append_of_le_length hn', h1, h2]

theorem parse1_bad_stable (max : Nat) (a b : Bytes) (h : parse1 max a = .bad) : parse1 max (a ++ b) = .bad := by
  unfold parse1 at *
  cases hv : readVar 5 0 0 0 a with
  | need => simp [hv] at h
  | done v used =>
    have hs := readVar_stable 5 0 0 0 a b v used hv
    simp only [hv, hs] at *
    split at h
    · rename_i hl; simp [hl]
    · split at h <;> simp at h
#print axioms parse1_stable
