/-! Prototype: CipherStream write path over an abstract byte-stream cipher. -/
abbrev Bytes := List UInt8

structure StreamCipher (σ : Type) where
  encByte : σ → UInt8 → σ × UInt8

namespace StreamCipher
variable {σ : Type} (C : StreamCipher σ)

def encBytes (s : σ) : Bytes → σ × Bytes
  | [] => (s, [])
  | b :: bs =>
    let (s1, c) := C.encByte s b
    let (s2, cs) := encBytes s1 bs
    (s2, c :: cs)

theorem encBytes_append (s : σ) (xs ys : Bytes) :
    C.encBytes s (xs ++ ys) =
      let r := C.encBytes s xs
      let r2 := C.encBytes r.1 ys
      (r2.1, r.2 ++ r2.2) := by
  induction xs generalizing s with
  | nil => simp [encBytes]
  | cons x xs ih => simp [encBytes, ih]

theorem encBytes_length (s : σ) (xs : Bytes) : (C.encBytes s xs).2.length = xs.length := by
  induction xs generalizing s with
  | nil => simp [encBytes]
  | cons x xs ih => simp [encBytes, ih]
end StreamCipher

/-- transport's answer to one poll_write call -/
inductive Resp | pending | accept (n : Nat)

/-- fixed poll_write: encrypt tentatively, commit only accepted prefix -/
def pollWriteFixed {σ} (C : StreamCipher σ) (s : σ) (buf : Bytes) (r : Resp) : σ × Option Nat × Bytes :=
  match r with
  | .pending => (s, none, [])
  | .accept n =>
    let k := min n buf.length
    let (s', ct) := C.encBytes s (buf.take k)
    (s', some k, ct)

/-- pinned poll_write: encrypt whole buffer, advance state, transport takes a prefix -/
def pollWritePinned {σ} (C : StreamCipher σ) (s : σ) (buf : Bytes) (r : Resp) : σ × Option Nat × Bytes :=
  let (s', ct) := C.encBytes s buf
  match r with
  | .pending => (s', none, [])
  | .accept n => let k := min n buf.length; (s', some k, ct.take k)

/-- tokio write_all loop driven by a schedule; returns (state, plaintext reported written, bytes accepted by transport).
    `accept 0` on non-empty buffer = WriteZero error: stop. Schedule exhausted = still pending: stop. -/
def writeAll {σ} (pw : σ → Bytes → Resp → σ × Option Nat × Bytes) (s : σ) (buf : Bytes) :
    List Resp → σ × Bytes × Bytes
  | [] => (s, [], [])
  | r :: rs =>
    if buf = [] then (s, [], []) else
    match pw s buf r with
    | (s', none, _) => writeAll pw s' buf rs
    | (s', some 0, _) => (s', [], [])
    | (s', some (k+1), ct) =>
      let (s'', w, a) := writeAll pw s' (buf.drop (k+1)) rs
      (s'', buf.take (k+1) ++ w, ct ++ a)

theorem writeAll_fixed_continuous {σ} (C : StreamCipher σ) (s : σ) (buf : Bytes) (sch : List Resp) :
    let r := writeAll (pollWriteFixed C) s buf sch
    C.encBytes s r.2.1 = (r.1, r.2.2) := by
  induction sch generalizing s buf with
  | nil => simp [writeAll, StreamCipher.encBytes]
  | cons r rs ih =>
    unfold writeAll
    split
    · simp [StreamCipher.encBytes]
    · cases r with
      | pending => simp [pollWriteFixed]; exact ih s buf
      | accept n =>
        simp only [pollWriteFixed]
        generalize hk : min n buf.length = k
        cases k with
        | zero => simp [StreamCipher.encBytes]
        | succ k =>
          simp only []
          have := ih (C.encBytes s (List.take (k+1) buf)).1 (buf.drop (k+1))
          simp only [] at this
          rw [C.encBytes_append]
          simp [this]

-- pinned code: concrete counterexample with a toy cipher (state = running xor)
def toy : StreamCipher UInt8 := ⟨fun s b => let c := s ^^^ b; (c + 1, c)⟩
example :
    let r := writeAll (pollWritePinned toy) 7 [1, 2] [.accept 1, .accept 1]
    toy.encBytes 7 r.2.1 ≠ (r.1, r.2.2) := by decide
#print axioms writeAll_fixed_continuous
