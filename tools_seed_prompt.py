# builds the prompt for a fresh sub-agent: property text + template seeded/PROMPT.tmpl (copied to /tmp/seed/PROMPT.tmpl) + titles of all earlier changes; usage: tools_seed_prompt.py Cnn r5
import json,glob,sys,os
pid=sys.argv[1]  # e.g. C10
ID=pid+sys.argv[2] if len(sys.argv)>2 else pid+'r4'
props={json.loads(l)['id']:json.loads(l) for l in open('/verif/properties.jsonl')}
tmpl=open('/tmp/seed/PROMPT.tmpl').read()
titles=[]
for d in sorted(glob.glob(f'/verif/seeded/{pid}*-*/meta.json'))+sorted(glob.glob(f'/tmp/seed/{pid}r3.out/*/meta.json'))+sorted(glob.glob(f'/tmp/seed/{pid}r4.out/*/meta.json')):
    try:
        m=json.load(open(d)); t=m.get('title','').strip(); f=', '.join(m.get('files',[]))
        if t and t not in [x[0] for x in titles]: titles.append((t,f))
    except Exception as e: pass
extra="\n\nOther engineers have ALREADY produced the following changes for this property; do not repeat them or close variants of them — find different mechanisms, different places in the code, different triggers (think about: other code paths that reach the same behaviour, configuration and plumbing in src/ (lib.rs, config.rs, src/adapter/*.rs wrappers and factories) and the adapter crates, boundary values, error paths, state carried between steps or between connections or between calls on one long-lived object, concurrency and scheduling (several connections or calls at once on a multi-threaded runtime), interactions between two features, platform behaviour):\n"+"\n".join(f"- {t} ({f})" for t,f in titles)+"\n\nNote: anchors' line numbers may have drifted slightly. Other CPU-heavy jobs run on this machine at the same time, so keep timing margins in any timing-based demonstration generous. If you cannot find three changes that are genuinely different from the ones listed, deliver fewer.\n"
s=tmpl.replace('@ID@',ID).replace('@PROPERTY@',json.dumps(props[pid],indent=1,ensure_ascii=False)+"\n"+extra)
open(f'/tmp/seed/{ID}.prompt.txt','w').write(s)
open(f'/tmp/seed/{ID}.property.json','w').write(json.dumps(props[pid],indent=1,ensure_ascii=False))
print(ID,len(titles),'previous titles')
