-- This module serves as the root of the `Passage` library.
-- Import modules here that should be built as part of the library.
import Passage.Basic
