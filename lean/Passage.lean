-- Root of the `Passage` library: every model, lemma and property module.
import Passage.Props.C01
import Passage.Props.C02
import Passage.Props.C03
import Passage.Props.C05
import Passage.Props.C06
import Passage.Props.C09
import Passage.Props.C10
import Passage.Props.C11
import Passage.Props.C13
import Passage.Props.C18
import Passage.Driver.C05
import Passage.Driver.C09
import Passage.Driver.C11
import Passage.Driver.C13
import Passage.Driver.C18
import Passage.Driver.Conn
import Passage.Crypto.SelfTest
