import Passage.Util.Bytes
/-
  Concrete model of std::net's text forms for IPv4 addresses (`Ipv4Addr`'s `Display` and `FromStr`,
  library/core/src/net/{display,parser}.rs): dotted decimal, four groups; the parser takes one to three
  ASCII digits per group, refuses a leading zero on a group of more than one digit, refuses values
  above 255, refuses anything before, between or after (no sign, no blank, no fifth group, no trailing dot).
  IPv6 text stays abstract (recorded verdicts), see Grpc.lean.
  No imports beyond core: links into the `passage-model` executable.
-/
namespace Passage.NetText

abbrev Octet := Fin 256

structure V4 where
  a : Octet
  b : Octet
  c : Octet
  d : Octet
  deriving DecidableEq, Repr

def dig (n : Nat) : UInt8 := UInt8.ofNat (48 + n)

/-- `u8`'s `Display`: decimal, no padding -/
def showOctet (n : Octet) : Bytes :=
  if n.val < 10 then [dig n.val]
  else if n.val < 100 then [dig (n.val / 10), dig (n.val % 10)]
  else [dig (n.val / 100), dig (n.val / 10 % 10), dig (n.val % 10)]

/-- `Ipv4Addr`'s `Display` -/
def showV4 (x : V4) : Bytes :=
  showOctet x.a ++ 46 :: (showOctet x.b ++ 46 :: (showOctet x.c ++ 46 :: showOctet x.d))

def digVal (b : UInt8) : Option Nat :=
  if 48 ≤ b.toNat ∧ b.toNat ≤ 57 then some (b.toNat - 48) else none

def mkOctet (v : Nat) : Option Octet := if h : v < 256 then some ⟨v, h⟩ else none

/-- `read_number(10, Some(3), allow_zero_prefix = false)` into a `u8`, on one whole group -/
def parseOctet : Bytes → Option Octet
  | [x] => (digVal x).bind mkOctet
  | [x, y] =>
    match digVal x, digVal y with
    | some p, some q => if p = 0 then none else mkOctet (10 * p + q)
    | _, _ => none
  | [x, y, z] =>
    match digVal x, digVal y, digVal z with
    | some p, some q, some r => if p = 0 then none else mkOctet (100 * p + 10 * q + r)
    | _, _, _ => none
  | _ => none

/-- the groups between dots (always at least one group) -/
def splitDot : Bytes → List Bytes
  | [] => [[]]
  | b :: r =>
    if b = 46 then [] :: splitDot r
    else match splitDot r with
      | [] => [[b]]
      | p :: ps => (b :: p) :: ps

/-- `Ipv4Addr::from_str` -/
def parseV4 (s : Bytes) : Option V4 :=
  match splitDot s with
  | [p1, p2, p3, p4] =>
    match parseOctet p1, parseOctet p2, parseOctet p3, parseOctet p4 with
    | some a, some b, some c, some d => some ⟨a, b, c, d⟩
    | _, _, _, _ => none
  | _ => none

def ofOctets (a b c d : Nat) : V4 := ⟨Fin.ofNat 256 a, Fin.ofNat 256 b, Fin.ofNat 256 c, Fin.ofNat 256 d⟩

end Passage.NetText

namespace Passage.NetText

/-- the address as the four octets the PROXY header model and the listener carry -/
def v4Octets (x : V4) : Bytes := [UInt8.ofNat x.a.val, UInt8.ofNat x.b.val, UInt8.ofNat x.c.val, UInt8.ofNat x.d.val]

/-- `Ipv4Addr::from_str(..).octets()` -/
def parseV4Octets (t : Bytes) : Option Bytes := (parseV4 t).map v4Octets

end Passage.NetText
