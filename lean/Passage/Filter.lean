import Passage.Util.Bytes
/-
  C18 — built-in filters and strategies.
  `Impl`: transliteration of passage-adapters/src/filter/{meta,option,player_allow,player_block,mod}.rs
  and strategy/{any,player_fill}.rs.  Regular expressions are oracle bits recorded from the real
  engine: `host` = verdict of the filter's host-name pattern on the handshake host, `rx` = verdict
  of the user-name pattern on the player's name.
  `Spec`: the declarative reading of the property.
-/
namespace Passage.Filter

structure Target where
  id : Bytes
  md : List (Bytes × Bytes)          -- HashMap<String,String>: keys unique, order irrelevant
  deriving DecidableEq, Repr

def metaGet (k : Bytes) : List (Bytes × Bytes) → Option Bytes
  | [] => none
  | (k', v) :: r => if k' = k then some v else metaGet k r

inductive Op
  | eq (v : Bytes) | ne (v : Bytes) | ex | nex | isIn (vs : List Bytes) | notIn (vs : List Bytes)
  deriving DecidableEq, Repr

structure Rule where
  key : Bytes
  op : Op
  deriving DecidableEq, Repr

structure Player where
  name : Bytes
  id : Nat
  deriving DecidableEq, Repr

structure PlayerList where
  names : Option (List Bytes)
  rx : Option Bool                    -- verdict of the user-name regex, when configured
  ids : Option (List Nat)
  deriving DecidableEq, Repr

inductive Kind
  | rules (rules : List Rule)
  | allow (l : PlayerList)
  | block (l : PlayerList)
  deriving DecidableEq, Repr

structure Filt where
  host : Option Bool                  -- none: no host-name scope; some m: the pattern's verdict
  kind : Kind
  deriving DecidableEq, Repr

/-- `FilterOperation::matches` -/
def opMatches : Op → Option Bytes → Bool
  | .eq v, fv => fv == some v
  | .ne v, fv => fv != some v
  | .ex, fv => fv.isSome
  | .nex, fv => fv.isNone
  | .isIn vs, fv => match fv with | some x => vs.any (· == x) | none => false
  | .notIn vs, fv => match fv with | some x => !(vs.any (· == x)) | none => true

def ruleMatches (r : Rule) (t : Target) : Bool := opMatches r.op (metaGet r.key t.md)

/-- the three checks of the allow/block adapters, in source order -/
def listed (l : PlayerList) (p : Player) : Bool :=
  (match l.names with | some ns => ns.any (· == p.name) | none => false) ||
  (match l.rx with | some m => m | none => false) ||
  (match l.ids with | some is => is.any (· == p.id) | none => false)

namespace Impl

def applyKind (k : Kind) (p : Player) (ts : List Target) : List Target :=
  match k with
  | .rules rules => ts.filter (fun t => rules.all (fun r => ruleMatches r t))
  | .allow l => if listed l p then ts else []
  | .block l => if listed l p then [] else ts

/-- `OptionFilterAdapter::filter`: pass everything through when the host pattern does not match -/
def applyFilt (f : Filt) (p : Player) (ts : List Target) : List Target :=
  match f.host with
  | some false => ts
  | _ => applyKind f.kind p ts

/-- `DynFilterAdapters::filter` / `Vec<T>`: sequential composition -/
def chain (fs : List Filt) (p : Player) (ts : List Target) : List Target :=
  fs.foldl (fun acc f => applyFilt f p acc) ts

/-- `AnyStrategyAdapter::select` -/
def selectAny (ts : List Target) : Option Target := ts.head?

/-- `str::parse::<u32>`: optional '+', then one or more ASCII digits, value ≤ u32::MAX -/
def parseU32 (s : Bytes) : Option Nat :=
  let ds := match s with | 43 :: r => r | r => r
  if ds.isEmpty then none
  else if ds.all (fun c => 48 ≤ c && c ≤ 57) then
    let v := ds.foldl (fun a c => a * 10 + (c.toNat - 48)) 0
    if v ≤ 4294967295 then some v else none
  else none

def players (field : Bytes) (t : Target) : Nat :=
  match metaGet field t.md with
  | some s => (parseU32 s).getD 0
  | none => 0

/-- `Iterator::max_by_key`: left fold that keeps the accumulator only when strictly greater -/
def maxByLast (key : Target → Nat) (ts : List Target) : Option Target :=
  ts.foldl (fun acc x => match acc with
    | none => some x
    | some a => if key a > key x then some a else some x) none

/-- `PlayerFillStrategyAdapter::select` -/
def selectFill (field : Bytes) (max : Nat) (ts : List Target) : Option Target :=
  maxByLast (players field) (ts.filter (fun t => players field t < max))

end Impl

namespace Spec

/-- a filter applies to this connection unless its host-name pattern rejects the handshake host -/
def applicable (f : Filt) : Bool := f.host != some false

/-- the target satisfies every metadata rule of every applicable meta filter -/
def qualifies (fs : List Filt) (t : Target) : Bool :=
  fs.all (fun f => match f.kind with
    | .rules rules => !applicable f || rules.all (fun r => ruleMatches r t)
    | _ => true)

/-- the player is on every applicable allow list and on no applicable block list -/
def playerPasses (fs : List Filt) (p : Player) : Bool :=
  fs.all (fun f => match f.kind with
    | .allow l => !applicable f || listed l p
    | .block l => !applicable f || !listed l p
    | _ => true)

/-- the eligible targets, in discovery order -/
def eligible (fs : List Filt) (p : Player) (discovered : List Target) : List Target :=
  if playerPasses fs p then discovered.filter (qualifies fs) else []

end Spec

end Passage.Filter
