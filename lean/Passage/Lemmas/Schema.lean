import Passage.Codec.Packets
import Passage.Lemmas.VarInt
/- helper lemmas for the schema round trip (C09) -/
namespace Passage.Codec
open Impl

theorem leb128_length_le (f n : Nat) : (Spec.leb128 f n).length ≤ f := by
  induction f generalizing n with
  | zero => simp [Spec.leb128]
  | succ f ih =>
    unfold Spec.leb128
    split
    · simp
    · simp; exact ih _

theorem writeVarint_spec (x : BitVec 32) : writeVarint x = Spec.varint x :=
  writeVarLoop_spec (by omega) mask32 hmask32 5 x

theorem writeVarlong_spec (x : BitVec 64) : writeVarlong x = Spec.varlong x :=
  writeVarLoop_spec (by omega) mask64 hmask64 10 x

theorem readVarint_writeVarint (x : BitVec 32) (rest : Bytes) :
    readVarint (writeVarint x ++ rest) = .ok (x, rest) := by
  rw [writeVarint_spec]
  unfold readVarint Spec.varint
  have hx := x.isLt
  rw [readVarLoop_leb128 5 0 0 x.toNat rest (by omega) (by omega) (by simp) (by simp; omega)]
  simp

theorem readVarlong_writeVarlong (x : BitVec 64) (rest : Bytes) :
    readVarlong (writeVarlong x ++ rest) = .ok (x, rest) := by
  rw [writeVarlong_spec]
  unfold readVarlong Spec.varlong varlongGroups
  have hx := x.isLt
  rw [readVarLoop_leb128 10 0 0 x.toNat rest (by omega) (by omega) (by simp) (by simp; omega)]
  simp

/-! ### big-endian fixed-width integers -/

theorem beBytes_length (k n : Nat) : (beBytes k n).length = k := by
  induction k with
  | zero => rfl
  | succ k ih => simp [beBytes, ih]

theorem beVal_beBytes (k n acc : Nat) : beVal acc (beBytes k n) = acc * 256 ^ k + n % 256 ^ k := by
  induction k generalizing acc with
  | zero => simp [beBytes, beVal, Nat.mod_one]
  | succ k ih =>
    simp only [beBytes, beVal]
    have hb : n / 256 ^ k % 256 < 256 := Nat.mod_lt _ (by omega)
    rw [uint8_ofNat_toNat _ hb, ih]
    have : n % 256 ^ (k + 1) = n % 256 ^ k + 256 ^ k * (n / 256 ^ k % 256) := by
      rw [Nat.pow_succ]; exact Nat.mod_mul
    rw [this, Nat.pow_succ, Nat.add_mul, Nat.mul_assoc, Nat.mul_comm 256 (256 ^ k),
      Nat.mul_comm (n / 256 ^ k % 256)]
    omega

theorem readBE_beBytes (k n : Nat) (rest : Bytes) (h : n < 256 ^ k) :
    readBE k (beBytes k n ++ rest) = .ok (n, rest) := by
  unfold readBE
  have hl := beBytes_length k n
  have : ¬ (beBytes k n ++ rest).length < k := by simp [hl]
  simp only [this, if_false]
  rw [List.take_left' hl, List.drop_left' hl, beVal_beBytes, Nat.mod_eq_of_lt h]
  simp

theorem ofSigned_nonneg (bits : Nat) (i : Int) (h0 : 0 ≤ i) (h1 : i < 2 ^ bits) :
    ofSigned bits i = i.toNat ∧ i.toNat < 2 ^ bits := by
  unfold ofSigned
  have : i % 2 ^ bits = i := Int.emod_eq_of_lt h0 h1
  rw [this]
  refine ⟨rfl, ?_⟩
  have : (i.toNat : Int) < ((2 ^ bits : Nat) : Int) := by
    rw [Int.toNat_of_nonneg h0]; simpa using h1
  exact Int.ofNat_lt.mp this

theorem ofSigned_lt (bits : Nat) (i : Int) : ofSigned bits i < 2 ^ bits := by
  unfold ofSigned
  have hp : (0 : Int) < 2 ^ bits := Int.pow_pos (by omega)
  have h1 := Int.emod_lt_of_pos i hp
  have h0 := Int.emod_nonneg i (Int.ne_of_gt hp)
  have : ((i % 2 ^ bits).toNat : Int) < ((2 ^ bits : Nat) : Int) := by
    rw [Int.toNat_of_nonneg h0]; simpa using h1
  exact Int.ofNat_lt.mp this

theorem toSigned_ofSigned (bits : Nat) (hb : 0 < bits) (i : Int)
    (h0 : -(2 : Int) ^ (bits - 1) ≤ i) (h1 : i < 2 ^ (bits - 1)) :
    toSigned bits (ofSigned bits i) = i := by
  unfold toSigned ofSigned
  have hp : (0 : Int) < 2 ^ bits := Int.pow_pos (by omega)
  have e : (2 : Int) ^ bits = 2 * 2 ^ (bits - 1) := by
    rw [show bits = (bits - 1) + 1 by omega, Int.pow_succ]; simp; omega
  have hnn := Int.emod_nonneg i (Int.ne_of_gt hp)
  have hcast : ((i % 2 ^ bits).toNat : Int) = i % 2 ^ bits := Int.toNat_of_nonneg hnn
  have hpow : (((2 : Nat) ^ (bits - 1) : Nat) : Int) = (2 : Int) ^ (bits - 1) := by simp
  by_cases hi : 0 ≤ i
  · have hm : i % 2 ^ bits = i := Int.emod_eq_of_lt hi (by omega)
    have : (i % 2 ^ bits).toNat < 2 ^ (bits - 1) := by
      apply Int.ofNat_lt.mp; rw [hcast, hm, hpow]; exact h1
    rw [if_pos this, hcast, hm]
  · have hm : i % 2 ^ bits = i + 2 ^ bits := by
      have : (i + 2 ^ bits) % 2 ^ bits = i % 2 ^ bits := by simp
      rw [← this]; exact Int.emod_eq_of_lt (by omega) (by omega)
    have : ¬ (i % 2 ^ bits).toNat < 2 ^ (bits - 1) := by
      intro hlt
      have := Int.ofNat_lt.mpr hlt
      rw [hcast, hm, hpow] at this; omega
    rw [if_neg this, hcast, hm]; omega

/-! ### VarInt values as integers -/

theorem ofInt32_toInt (i : Int) (h0 : -(2 : Int) ^ 31 ≤ i) (h1 : i < 2 ^ 31) :
    (BitVec.ofInt 32 i).toInt = i := by
  rw [BitVec.toInt_ofInt]; apply Int.bmod_eq_of_le <;> omega

theorem ofInt64_toInt (i : Int) (h0 : -(2 : Int) ^ 63 ≤ i) (h1 : i < 2 ^ 63) :
    (BitVec.ofInt 64 i).toInt = i := by
  rw [BitVec.toInt_ofInt]; apply Int.bmod_eq_of_le <;> omega

/-! ### length-prefixed byte strings -/

theorem readLenPrefixed_write (b rest : Bytes) (h : b.length < 2 ^ 31) :
    readLenPrefixed (writeLenPrefixed b ++ rest) = .ok (b, rest) := by
  unfold readLenPrefixed writeLenPrefixed
  rw [List.append_assoc, readVarint_writeVarint]
  simp only [Outcome.bind_ok]
  have hn : (BitVec.ofNat 32 b.length).toNat = b.length := by
    rw [BitVec.toNat_ofNat]; exact Nat.mod_eq_of_lt (by omega)
  have hi : ¬ (BitVec.ofNat 32 b.length).toInt < 0 := by
    rw [BitVec.toInt_eq_toNat_bmod, hn]
    have : ((b.length : Int)).bmod (2 ^ 32) = b.length := by
      apply Int.bmod_eq_of_le <;> omega
    rw [this]; omega
  simp only [hi, if_false, hn]
  have : ¬ (b ++ rest).length < b.length := by simp
  simp only [this, if_false]
  rw [List.take_left' rfl, List.drop_left' rfl]

end Passage.Codec

namespace Passage.Codec
open Impl

theorem readBE_one_cons (x : UInt8) (xs : Bytes) : readBE 1 (x :: xs) = .ok (x.toNat, xs) := by
  simp [readBE, beVal]

theorem nat_of_int (i : Int) (h : 0 ≤ i) : ((i.toNat : Nat) : Int) = i := Int.toNat_of_nonneg h

/-- one value: decoding what the encoder produced yields the value and leaves the rest -/
theorem decTy_encTy (t : Ty) (v : Val) (b rest : Bytes) (hwf : WFv t v) (henc : encTy t v = some b) :
    decTy t (b ++ rest) = .ok (v, rest) := by
  cases t <;> cases v <;> simp only [WFv] at hwf <;> simp only [encTy, Option.some.injEq] at henc <;> subst henc
  case varint.int i =>
    simp only [decTy, readVarint_writeVarint, Outcome.bind_ok, Outcome.pure_eq, ofInt32_toInt i hwf.1 hwf.2]
  case varlong.int i =>
    simp only [decTy, readVarlong_writeVarlong, Outcome.bind_ok, Outcome.pure_eq, ofInt64_toInt i hwf.1 hwf.2]
  case string.bytes s =>
    simp only [decTy, readLenPrefixed_write s rest hwf.1, Outcome.bind_ok, hwf.2, if_true, Outcome.pure_eq]
  case bytes.bytes s =>
    simp only [decTy, readLenPrefixed_write s rest hwf, Outcome.bind_ok, Outcome.pure_eq]
  case bool.bool x =>
    cases x <;> simp [decTy, readBE_one_cons]
  case u8.int i =>
    obtain ⟨e, hlt⟩ := ofSigned_nonneg 8 i hwf.1 hwf.2
    simp only [decTy, e, readBE_beBytes 1 i.toNat rest (by simpa using hlt), Outcome.bind_ok, Outcome.pure_eq, nat_of_int i hwf.1]
  case i8.int i =>
    simp only [decTy, readBE_beBytes 1 _ rest (by simpa using ofSigned_lt 8 i), Outcome.bind_ok, Outcome.pure_eq,
      toSigned_ofSigned 8 (by omega) i hwf.1 hwf.2]
  case u16.int i =>
    obtain ⟨e, hlt⟩ := ofSigned_nonneg 16 i hwf.1 hwf.2
    simp only [decTy, e, readBE_beBytes 2 i.toNat rest (by simpa using hlt), Outcome.bind_ok, Outcome.pure_eq, nat_of_int i hwf.1]
  case i32.int i =>
    simp only [decTy, readBE_beBytes 4 _ rest (by simpa using ofSigned_lt 32 i), Outcome.bind_ok, Outcome.pure_eq,
      toSigned_ofSigned 32 (by omega) i hwf.1 hwf.2]
  case u64.int i =>
    obtain ⟨e, hlt⟩ := ofSigned_nonneg 64 i hwf.1 hwf.2
    simp only [decTy, e, readBE_beBytes 8 i.toNat rest (by simpa using hlt), Outcome.bind_ok, Outcome.pure_eq, nat_of_int i hwf.1]
  case uuid.int i =>
    obtain ⟨e, hlt⟩ := ofSigned_nonneg 128 i hwf.1 hwf.2
    simp only [decTy, e, readBE_beBytes 16 i.toNat rest (by simpa using hlt), Outcome.bind_ok, Outcome.pure_eq, nat_of_int i hwf.1]
  case text.bytes s =>
    have hmod : s.length % 65536 = s.length := Nat.mod_eq_of_lt hwf.1
    simp only [decTy, List.cons_append, readBE_one_cons, Outcome.bind_ok, List.append_assoc]
    have h8 : ((8 : UInt8).toNat == 8) = true := by decide
    simp only [h8, if_true]
    rw [readBE_beBytes 2 _ _ (by rw [hmod]; omega)]
    simp only [Outcome.bind_ok, hmod]
    have : ¬ (s ++ rest).length < s.length := by simp
    simp only [this, if_false, List.take_left' rfl, List.drop_left' rfl, hwf.2, if_true, Outcome.pure_eq]
  case enumv.int lo hi i =>
    have h0 : -(2 : Int) ^ 31 ≤ i := by omega
    have h1 : i < 2 ^ 31 := by omega
    simp only [decTy, readVarint_writeVarint, Outcome.bind_ok, ofInt32_toInt i h0 h1, hwf.1, hwf.2.1, and_self, if_true, Outcome.pure_eq]
  case token32.bytes s =>
    simp only [decTy, readLenPrefixed_write s rest (by omega), Outcome.bind_ok, hwf, if_true, Outcome.pure_eq]
  case portVarint.int i =>
    have h0 : -(2 : Int) ^ 31 ≤ i := by omega
    have h1 : i < 2 ^ 31 := by omega
    simp only [decTy, readVarint_writeVarint, Outcome.bind_ok, Outcome.pure_eq]
    have hn : (BitVec.ofInt 32 i).toNat = i.toNat := by
      rw [BitVec.toNat_ofInt]
      have : i % ((2 ^ 32 : Nat) : Int) = i := Int.emod_eq_of_lt hwf.1 (by simp; omega)
      rw [this]
    rw [hn]
    have hlt : i.toNat < 65536 := by
      have := nat_of_int i hwf.1; omega
    rw [nat_of_int i hwf.1]
    have : i % 65536 = i := Int.emod_eq_of_lt hwf.1 (by omega)
    rw [this]
  case zeroVarint.unit =>
    simp only [decTy, readVarint_writeVarint, Outcome.bind_ok, Outcome.pure_eq]

theorem decField_encField (f : Field) (v : Option Val) (b rest : Bytes) (hwf : WFf f v)
    (henc : encField f v = some b) : decField f (b ++ rest) = .ok (v, rest) := by
  cases f with
  | req t =>
    cases v with
    | none => simp [WFf] at hwf
    | some x =>
      simp only [encField] at henc
      simp only [decField, decTy_encTy t x b rest hwf henc, Outcome.bind_ok, Outcome.pure_eq]
  | opt t =>
    cases v with
    | none =>
      simp only [encField, Option.some.injEq] at henc; subst henc
      simp [decField, readBE_one_cons]
    | some x =>
      simp only [encField, Option.map_eq_some_iff] at henc
      obtain ⟨b', hb', rfl⟩ := henc
      have h1 : ((1 : UInt8).toNat == 1) = true := by decide
      simp only [decField, List.cons_append, readBE_one_cons, Outcome.bind_ok, h1, if_true,
        decTy_encTy t x b' rest hwf hb', Outcome.pure_eq]

/-- the generic schema round trip, by induction over the field list -/
theorem decFields_encFields (sch : Schema) (vals : List (Option Val)) (b rest : Bytes)
    (hwf : WFs sch vals) (henc : encFields sch vals = some b) :
    decFields sch (b ++ rest) = .ok (vals, rest) := by
  induction sch generalizing vals b with
  | nil =>
    cases vals with
    | nil => simp only [encFields, Option.some.injEq] at henc; subst henc; rfl
    | cons v vs => simp [WFs] at hwf
  | cons f fs ih =>
    cases vals with
    | nil => simp [WFs] at hwf
    | cons v vs =>
      simp only [WFs] at hwf
      simp only [encFields] at henc
      cases ha : encField f v with
      | none => simp [ha] at henc
      | some a =>
        cases hb : encFields fs vs with
        | none => simp [ha, hb] at henc
        | some b' =>
          simp [ha, hb] at henc; subst henc
          simp only [decFields, List.append_assoc, decField_encField f v a _ hwf.1 ha, Outcome.bind_ok,
            ih vs b' hwf.2 hb, Outcome.pure_eq]

/-- well-formed values of the right shape always encode -/
theorem encTy_isSome (t : Ty) (v : Val) (hwf : WFv t v) : (encTy t v).isSome := by
  cases t <;> cases v <;> simp only [WFv] at hwf <;> simp [encTy]

theorem encFields_isSome (sch : Schema) (vals : List (Option Val)) (hwf : WFs sch vals) :
    (encFields sch vals).isSome := by
  induction sch generalizing vals with
  | nil => cases vals <;> simp_all [WFs, encFields]
  | cons f fs ih =>
    cases vals with
    | nil => simp [WFs] at hwf
    | cons v vs =>
      simp only [WFs] at hwf
      have h1 : (encField f v).isSome := by
        cases f <;> cases v <;> simp_all [WFf, encField, encTy_isSome]
      have h2 := ih vs hwf.2
      simp only [encFields]
      obtain ⟨a, ha⟩ := Option.isSome_iff_exists.mp h1
      obtain ⟨b, hb⟩ := Option.isSome_iff_exists.mp h2
      simp [ha, hb]

end Passage.Codec
