import Passage.Agones
/- helper lemmas for the Agones cache reducer (C20) -/
namespace Passage.Agones

def cnt (id : Bytes) (ts : List Target) : Nat := (ts.filter (fun t => t.id = id)).length

/-- identifiers occur at most once -/
def U (ts : List Target) : Prop := ∀ id, cnt id ts ≤ 1

theorem cnt_nil (id : Bytes) : cnt id [] = 0 := rfl
theorem cnt_cons (id : Bytes) (t : Target) (r : List Target) :
    cnt id (t :: r) = (if t.id = id then 1 else 0) + cnt id r := by
  unfold cnt; by_cases h : t.id = id <;> simp [List.filter_cons, h]; omega
theorem cnt_append (id : Bytes) (a b : List Target) : cnt id (a ++ b) = cnt id a + cnt id b := by
  unfold cnt; simp [List.filter_append]

theorem cnt_pos_of_mem (ts : List Target) (x : Target) (h : x ∈ ts) : 0 < cnt x.id ts := by
  induction ts with
  | nil => simp at h
  | cons a r ih =>
    rw [cnt_cons]
    simp only [List.mem_cons] at h
    rcases h with rfl | h
    · simp; omega
    · have := ih h; omega

theorem cnt_zero_not_mem (ts : List Target) (id : Bytes) (h : cnt id ts = 0) : ∀ x ∈ ts, x.id ≠ id := by
  intro x hx hid
  have := cnt_pos_of_mem ts x hx
  rw [hid] at this; omega

theorem U_tail (a : Target) (r : List Target) (h : U (a :: r)) : U r := by
  intro id; have := h id; rw [cnt_cons] at this; omega

theorem unique_of_U (ts : List Target) (h : U ts) (x y : Target) (hx : x ∈ ts) (hy : y ∈ ts)
    (hid : x.id = y.id) : x = y := by
  induction ts with
  | nil => simp at hx
  | cons a r ih =>
    simp only [List.mem_cons] at hx hy
    have hc := h a.id
    rw [cnt_cons] at hc
    simp at hc
    rcases hx with rfl | hx <;> rcases hy with rfl | hy
    · rfl
    · have := cnt_pos_of_mem r y hy; rw [← hid] at this; omega
    · have := cnt_pos_of_mem r x hx; rw [hid] at this; omega
    · exact ih (U_tail a r h) hx hy

theorem position_none (id : Bytes) (ts : List Target) : position id ts = none ↔ cnt id ts = 0 := by
  induction ts with
  | nil => simp [position, cnt_nil]
  | cons a r ih =>
    rw [cnt_cons]
    by_cases h : a.id = id
    · simp [position, h]
    · simp [position, h, ih]

theorem position_some_lt (id : Bytes) (ts : List Target) (i : Nat) (h : position id ts = some i) :
    ∃ t, ts[i]? = some t ∧ t.id = id := by
  induction ts generalizing i with
  | nil => simp [position] at h
  | cons a r ih =>
    simp only [position] at h
    split at h
    · next ha => simp at h; subst h; exact ⟨a, by simp, ha⟩
    · cases hp : position id r with
      | none => simp [hp] at h
      | some j => simp [hp] at h; subst h; obtain ⟨t, ht, hid⟩ := ih j hp; exact ⟨t, by simpa using ht, hid⟩

/-! ### replace in place -/

theorem cnt_setAt (ts : List Target) (id : Bytes) (i : Nat) (t : Target) (hp : position id ts = some i)
    (ht : t.id = id) (k : Bytes) : cnt k (setAt ts i t) = cnt k ts := by
  induction ts generalizing i with
  | nil => simp [position] at hp
  | cons a r ih =>
    simp only [position] at hp
    split at hp
    · next ha => simp at hp; subst hp; simp [setAt, cnt_cons, ha, ht]
    · cases hq : position id r with
      | none => simp [hq] at hp
      | some j => simp [hq] at hp; subst hp; simp [setAt, cnt_cons, ih j hq]

theorem mem_setAt (ts : List Target) (id : Bytes) (i : Nat) (t : Target) (hp : position id ts = some i)
    (hu : U ts) (x : Target) : x ∈ setAt ts i t ↔ x = t ∨ (x ∈ ts ∧ x.id ≠ id) := by
  induction ts generalizing i with
  | nil => simp [position] at hp
  | cons a r ih =>
    simp only [position] at hp
    split at hp
    · next ha =>
      simp at hp; subst hp
      simp only [setAt, List.mem_cons]
      constructor
      · rintro (h | h)
        · exact Or.inl h
        · right; refine ⟨Or.inr h, ?_⟩
          intro hx
          have h1 := hu id; rw [cnt_cons] at h1; simp [ha] at h1
          have := cnt_pos_of_mem r x h; rw [hx] at this; omega
      · rintro (h | ⟨h | h, hne⟩)
        · exact Or.inl h
        · subst h; exact absurd ha hne
        · exact Or.inr h
    · next ha =>
      cases hq : position id r with
      | none => simp [hq] at hp
      | some j =>
        simp [hq] at hp; subst hp
        simp only [setAt, List.mem_cons, ih j hq (U_tail a r hu)]
        constructor
        · rintro (h | h | ⟨h, hne⟩)
          · subst h; exact Or.inr ⟨Or.inl rfl, ha⟩
          · exact Or.inl h
          · exact Or.inr ⟨Or.inr h, hne⟩
        · rintro (h | ⟨h | h, hne⟩)
          · exact Or.inr (Or.inl h)
          · exact Or.inl h
          · exact Or.inr (Or.inr ⟨h, hne⟩)

/-! ### swap_remove -/

theorem cnt_last_dropLast (k : Bytes) (l : List Target) (h : l ≠ []) :
    cnt k (l.getLast h :: l.dropLast) = cnt k l := by
  have := List.dropLast_concat_getLast h
  conv => rhs; rw [← this]
  rw [cnt_cons, cnt_append, cnt_cons, cnt_nil]; omega

theorem mem_last_dropLast (l : List Target) (h : l ≠ []) (x : Target) :
    x ∈ l.getLast h :: l.dropLast ↔ x ∈ l := by
  have := List.dropLast_concat_getLast h
  conv => rhs; rw [← this]
  simp [or_comm]

theorem cnt_swapRemove (ts : List Target) (id : Bytes) (i : Nat) (hp : position id ts = some i) (k : Bytes) :
    cnt k (swapRemove ts i) + (if k = id then 1 else 0) = cnt k ts := by
  induction ts generalizing i with
  | nil => simp [position] at hp
  | cons a r ih =>
    simp only [position] at hp
    split at hp
    · next ha =>
      simp at hp; subst hp
      cases r with
      | nil => simp [swapRemove, cnt_cons, cnt_nil, ha]; split <;> simp_all [eq_comm]
      | cons y ys =>
        simp only [swapRemove]
        rw [cnt_last_dropLast, cnt_cons (t := a), ha]
        by_cases hk : k = id
        · subst hk; simp; omega
        · have : ¬ id = k := fun h => hk h.symm
          simp [hk, this]
    · next ha =>
      cases hq : position id r with
      | none => simp [hq] at hp
      | some j =>
        simp [hq] at hp; subst hp
        cases r with
        | nil => simp [position] at hq
        | cons y ys =>
          simp only [swapRemove]
          have := ih j hq
          rw [cnt_cons, cnt_cons (t := a)]; omega

theorem mem_swapRemove (ts : List Target) (id : Bytes) (i : Nat) (hp : position id ts = some i) (hu : U ts)
    (x : Target) : x ∈ swapRemove ts i ↔ x ∈ ts ∧ x.id ≠ id := by
  induction ts generalizing i with
  | nil => simp [position] at hp
  | cons a r ih =>
    simp only [position] at hp
    split at hp
    · next ha =>
      simp at hp; subst hp
      have hr0 : cnt id r = 0 := by have := hu id; rw [cnt_cons] at this; simp [ha] at this; omega
      cases r with
      | nil =>
        simp only [swapRemove, List.not_mem_nil, List.mem_singleton, false_iff]
        rintro ⟨rfl, hne⟩; exact hne ha
      | cons y ys =>
        simp only [swapRemove]
        rw [mem_last_dropLast]
        constructor
        · intro h; exact ⟨List.mem_cons_of_mem _ h, cnt_zero_not_mem _ _ hr0 x h⟩
        · rintro ⟨h, hne⟩
          simp only [List.mem_cons] at h ⊢
          rcases h with rfl | h
          · exact absurd ha hne
          · exact h
    · next ha =>
      cases hq : position id r with
      | none => simp [hq] at hp
      | some j =>
        simp [hq] at hp; subst hp
        cases r with
        | nil => simp [position] at hq
        | cons y ys =>
          simp only [swapRemove, List.mem_cons (a := x) (b := a), ih j hq (U_tail a _ hu)]
          constructor
          · rintro (h | ⟨h, hne⟩)
            · subst h; exact ⟨by simp, ha⟩
            · exact ⟨Or.inr h, hne⟩
          · rintro ⟨h, hne⟩
            simp only [List.mem_cons] at h
            rcases h with rfl | h
            · exact Or.inl rfl
            · exact Or.inr ⟨by simpa using h, hne⟩

/-! ### `update` as a finite-map operation -/

theorem update_spec (ts : List Target) (id : Bytes) (o : Option Target) (hu : U ts)
    (hid : ∀ t, o = some t → t.id = id) :
    U (update ts id o) ∧
    ∀ x, x ∈ update ts id o ↔ (o = some x ∨ (x ∈ ts ∧ x.id ≠ id)) := by
  unfold update
  cases hp : position id ts with
  | none =>
    have h0 := (position_none id ts).mp hp
    cases o with
    | none =>
      refine ⟨hu, fun x => ?_⟩
      simp only [reduceCtorEq, false_or]
      exact ⟨fun h => ⟨h, cnt_zero_not_mem ts id h0 x h⟩, fun h => h.1⟩
    | some t =>
      have ht := hid t rfl
      refine ⟨?_, fun x => ?_⟩
      · intro k
        rw [cnt_append, cnt_cons, cnt_nil]
        by_cases hk : t.id = k
        · subst hk; rw [ht, h0]; simp
        · have := hu k; simp [hk]; exact this
      · simp only [List.mem_append, List.mem_singleton, Option.some.injEq]
        constructor
        · rintro (h | h)
          · exact Or.inr ⟨h, cnt_zero_not_mem ts id h0 x h⟩
          · exact Or.inl h.symm
        · rintro (h | h)
          · exact Or.inr h.symm
          · exact Or.inl h.1
  | some i =>
    cases o with
    | none =>
      refine ⟨?_, fun x => ?_⟩
      · intro k; have h1 := cnt_swapRemove ts id i hp k; have h2 := hu k; simp only []; omega
      · simp only [reduceCtorEq, false_or]; exact mem_swapRemove ts id i hp hu x
    | some t =>
      have ht := hid t rfl
      refine ⟨?_, fun x => ?_⟩
      · intro k; rw [cnt_setAt ts id i t hp ht k]; exact hu k
      · simp only [Option.some.injEq]
        rw [mem_setAt ts id i t hp hu x]
        constructor
        · rintro (h | h)
          · exact Or.inl h.symm
          · exact Or.inr h
        · rintro (h | h)
          · exact Or.inl h.symm
          · exact Or.inr h

/-! ### store -/

theorem storeGet_put (k k' : Bytes) (g : GameServer) (st : Store) :
    storeGet k' (storePut k g st) = if k = k' then some g else storeGet k' st := by
  induction st with
  | nil => simp [storePut, storeGet]
  | cons e r ih =>
    obtain ⟨a, b⟩ := e
    simp only [storePut]
    by_cases h1 : a = k
    · subst h1; by_cases h2 : a = k' <;> simp [storeGet, h2]
    · simp only [h1, if_false, storeGet]
      by_cases h2 : a = k'
      · subst h2; simp [Ne.symm h1]
      · simp [h2, ih]

theorem storeGet_del (k k' : Bytes) (st : Store) :
    storeGet k' (storeDel k st) = if k = k' then none else storeGet k' st := by
  induction st with
  | nil => simp [storeDel, storeGet]
  | cons e r ih =>
    obtain ⟨a, b⟩ := e
    simp only [storeDel]
    by_cases h1 : a = k
    · subst h1
      simp only [if_true, ih, storeGet]
      by_cases h2 : a = k' <;> simp [h2]
    · simp only [h1, if_false, storeGet, ih]
      by_cases h2 : a = k'
      · subst h2; simp [Ne.symm h1]
      · simp [h2]

theorem readyTarget_id (parseIp : Bytes → Option Bytes) (g : GameServer) (t : Target)
    (h : readyTarget parseIp g = some t) : t.id = nameAny g := by
  unfold readyTarget at h
  cases hc : convert parseIp g with
  | none => simp [hc] at h
  | some t' =>
    simp only [hc] at h
    split at h
    · simp at h; subst h
      unfold convert at hc
      cases hn : g.name with
      | none => simp [hn] at hc
      | some name =>
        cases hs : g.status with
        | none => simp [hn, hs] at hc
        | some st =>
          simp only [hn, hs] at hc
          cases hi : parseIp st.address with
          | none => simp [hi] at hc
          | some ip =>
            cases hpo : st.ports with
            | nil => simp [hi, hpo] at hc
            | cons p ps =>
              simp [hi, hpo] at hc
              rw [← hc]; simp [nameAny, hn]
    · cases h

end Passage.Agones
