import Passage.Codec.VarInt
/- helper lemmas for VarInt / VarLong (C09) -/
namespace Passage.Codec
open Impl

theorem maskbit (w k i : Nat) (hk : k ≤ w) (hi : i < w) :
    (BitVec.ofNat w (2 ^ k - 1))[i] = decide (i < k) := by
  rw [BitVec.getElem_eq_testBit_toNat, BitVec.toNat_ofNat]
  have : 2 ^ k ≤ 2 ^ w := Nat.pow_le_pow_right (by omega) hk
  have hp : 0 < 2 ^ k := Nat.pow_pos (by omega)
  rw [Nat.mod_eq_of_lt (by omega), Nat.testBit_two_pow_sub_one]

theorem mask32_eq : mask32 = BitVec.ofNat 32 (2 ^ 25 - 1) := by decide
theorem mask64_eq : mask64 = BitVec.ofNat 64 (2 ^ 57 - 1) := by decide

theorem hmask_gen (w : Nat) (hw : 7 ≤ w) (v : BitVec w) :
    v.sshiftRight 7 &&& BitVec.ofNat w (2 ^ (w - 7) - 1) = v >>> 7 := by
  ext i hi
  rw [BitVec.getElem_and, maskbit w (w - 7) i (by omega) hi]
  simp only [BitVec.getElem_sshiftRight, BitVec.getElem_ushiftRight]
  by_cases h : 7 + i < w
  · have : i < w - 7 := by omega
    simp [h, this]
  · have : ¬ i < w - 7 := by omega
    simp [h, this, BitVec.getLsbD_of_ge v (7 + i) (by omega)]

theorem hmask32 (v : BitVec 32) : v.sshiftRight 7 &&& mask32 = v >>> 7 := by
  rw [mask32_eq]; exact hmask_gen 32 (by omega) v
theorem hmask64 (v : BitVec 64) : v.sshiftRight 7 &&& mask64 = v >>> 7 := by
  rw [mask64_eq]; exact hmask_gen 64 (by omega) v

theorem and7f {w} (v : BitVec w) (hw : 7 ≤ w) : (v &&& 0x7f).toNat = v.toNat % 128 := by
  rw [BitVec.toNat_and]
  show v.toNat &&& (BitVec.ofNat w 127).toNat = _
  have h2 : 2 ^ 7 ≤ 2 ^ w := Nat.pow_le_pow_right (by omega) hw
  rw [BitVec.toNat_ofNat, Nat.mod_eq_of_lt (by omega)]
  exact Nat.and_two_pow_sub_one_eq_mod v.toNat 7

theorem byte_and7f : ∀ n, n < 256 → (UInt8.ofNat n &&& 0x7f).toNat = n % 128 := by decide +kernel
theorem byte_cont : ∀ n, n < 256 → ((UInt8.ofNat n &&& 0x80) == 0) = decide (n < 128) := by decide +kernel
theorem byte_or80 : ∀ n, n < 128 → (UInt8.ofNat n ||| 0x80).toNat = n + 128 := by decide +kernel

theorem uint8_ofNat_toNat (n : Nat) (h : n < 256) : (UInt8.ofNat n).toNat = n := by
  simp [UInt8.toNat_ofNat', Nat.mod_eq_of_lt h]

theorem or80 (m : Nat) (h : m < 128) : UInt8.ofNat m ||| 0x80 = UInt8.ofNat (m + 128) := by
  apply UInt8.toNat_inj.mp
  rw [byte_or80 m h, uint8_ofNat_toNat _ (by omega)]

/-- the writer loop produces exactly the LEB128 groups of the unsigned value -/
theorem writeVarLoop_spec {w : Nat} (hw : 7 ≤ w) (mask : BitVec w)
    (hmask : ∀ v : BitVec w, v.sshiftRight 7 &&& mask = v >>> 7) :
    ∀ (f : Nat) (v : BitVec w), writeVarLoop mask f v = Spec.leb128 f v.toNat := by
  intro f
  induction f with
  | zero => intro v; rfl
  | succ f ih =>
    intro v
    unfold writeVarLoop Spec.leb128
    simp only [hmask, and7f v hw]
    have hv' : (v >>> 7).toNat = v.toNat / 128 := by
      rw [BitVec.toNat_ushiftRight, Nat.shiftRight_eq_div_pow]
    by_cases hlt : v.toNat < 128
    · have hz : v >>> 7 = 0 := by
        apply BitVec.toNat_inj.mp; rw [hv']; simp; omega
      simp [hz, hlt, Nat.mod_eq_of_lt hlt]
    · have hnz : v >>> 7 ≠ 0 := by
        intro h; have := congrArg BitVec.toNat h; rw [hv'] at this; simp at this; omega
      simp only [hnz, ne_eq, not_false_eq_true, if_true, hlt, if_false]
      rw [or80 _ (Nat.mod_lt _ (by omega)), ih, hv']

theorem or_shift_toNat {w : Nat} (ans : BitVec w) (m s : Nat)
    (hans : ans.toNat < 2 ^ s) (hfit : ans.toNat + m * 2 ^ s < 2 ^ w) :
    (ans ||| (BitVec.ofNat w m <<< s)).toNat = ans.toNat + m * 2 ^ s := by
  have hp : 0 < 2 ^ s := Nat.pow_pos (by omega)
  have hm : m < 2 ^ w := by
    have : m ≤ m * 2 ^ s := Nat.le_mul_of_pos_right m hp
    omega
  rw [BitVec.toNat_or, BitVec.toNat_shiftLeft, BitVec.toNat_ofNat, Nat.mod_eq_of_lt hm,
    Nat.shiftLeft_eq, Nat.mod_eq_of_lt (by omega)]
  rw [← Nat.shiftLeft_eq, Nat.or_comm, ← Nat.shiftLeft_add_eq_or_of_lt hans, Nat.shiftLeft_eq]
  omega

/-- reading what the LEB128 spec lays out accumulates the value (no truncation while it fits) -/
theorem readVarLoop_leb128 {w : Nat} :
    ∀ (f i : Nat) (ans : BitVec w) (n : Nat) (rest : Bytes),
      n < 128 ^ f → 0 < f → ans.toNat < 2 ^ (7 * i) → ans.toNat + n * 2 ^ (7 * i) < 2 ^ w →
      readVarLoop f i ans (Spec.leb128 f n ++ rest)
        = .ok (BitVec.ofNat w (ans.toNat + n * 2 ^ (7 * i)), rest) := by
  intro f
  induction f with
  | zero => intro i ans n rest _ hf; omega
  | succ f ih =>
    intro i ans n rest hn _ hans hfit
    unfold Spec.leb128
    by_cases hlt : n < 128
    · simp only [hlt, if_true, List.singleton_append, readVarLoop]
      rw [byte_and7f n (by omega), byte_cont n (by omega)]
      simp only [hlt, decide_true, if_true, Nat.mod_eq_of_lt hlt]
      congr 2
      apply BitVec.toNat_inj.mp
      rw [or_shift_toNat ans n (7 * i) hans hfit, BitVec.toNat_ofNat, Nat.mod_eq_of_lt hfit]
    · simp only [hlt, if_false, List.cons_append, readVarLoop]
      have hb : n % 128 + 128 < 256 := by omega
      rw [byte_and7f _ hb, byte_cont _ hb]
      have hnot : ¬ (n % 128 + 128 < 128) := by omega
      simp only [hnot, decide_false, Bool.false_eq_true, if_false]
      have hmod : (n % 128 + 128) % 128 = n % 128 := by omega
      rw [hmod]
      have hp : 0 < 2 ^ (7 * i) := Nat.pow_pos (by omega)
      have hsplit : n * 2 ^ (7 * i) = (n % 128) * 2 ^ (7 * i) + (n / 128) * 2 ^ (7 * (i + 1)) := by
        have : 2 ^ (7 * (i + 1)) = 128 * 2 ^ (7 * i) := by
          rw [show 7 * (i + 1) = 7 + 7 * i by omega, Nat.pow_add]
        rw [this]
        have h3 : n = n % 128 + 128 * (n / 128) := by omega
        generalize 2 ^ (7 * i) = P at *
        calc n * P = (n % 128 + 128 * (n / 128)) * P := by rw [← h3]
          _ = n % 128 * P + n / 128 * (128 * P) := by
            rw [Nat.add_mul, Nat.mul_comm 128 (n / 128), Nat.mul_assoc]
      have hfit1 : ans.toNat + (n % 128) * 2 ^ (7 * i) < 2 ^ w := by
        have : 0 ≤ (n / 128) * 2 ^ (7 * (i + 1)) := Nat.zero_le _
        omega
      have hans' : (ans ||| (BitVec.ofNat w (n % 128) <<< (7 * i))).toNat
          = ans.toNat + (n % 128) * 2 ^ (7 * i) := or_shift_toNat ans _ _ hans hfit1
      have hf0 : 0 < f := by
        cases f with
        | zero => simp at hn; omega
        | succ f => omega
      rw [ih (i + 1) _ (n / 128) rest
        (by rw [Nat.pow_succ] at hn; omega) hf0
        (by rw [hans']
            have : 2 ^ (7 * (i + 1)) = 128 * 2 ^ (7 * i) := by
              rw [show 7 * (i + 1) = 7 + 7 * i by omega, Nat.pow_add]
            have h127 : (n % 128) * 2 ^ (7 * i) ≤ 127 * 2 ^ (7 * i) :=
              Nat.mul_le_mul_right _ (by omega)
            omega)
        (by rw [hans']; omega)]
      rw [hans']
      congr 3
      omega

end Passage.Codec
