import Passage.Json.Str
/- helper lemmas for the JSON string token model (property theorems: Props/C10Json.lean) -/
namespace Passage.Json

theorem hex_low : ∀ n : Fin 32,
    hex4 48 48 (hexd (n.val / 16)) (hexd (n.val % 16)) = some n.val := by decide +kernel

theorem ofNat_toNat (b : UInt8) : UInt8.ofNat b.toNat = b := by simp

/-- reading back the writer's image of one byte yields that byte, whatever follows -/
theorem scan_escByte (b : UInt8) (T : Bytes) : scan (escByte b ++ T) = (scan T).push b := by
  unfold escByte
  split
  · next h => subst h; rw [List.cons_append, List.cons_append, List.nil_append, scan.eq_def]; simp [unesc1]
  split
  · next h => subst h; rw [List.cons_append, List.cons_append, List.nil_append, scan.eq_def]; simp [unesc1]
  split
  · next h => subst h; rw [List.cons_append, List.cons_append, List.nil_append, scan.eq_def]; simp [unesc1]
  split
  · next h => subst h; rw [List.cons_append, List.cons_append, List.nil_append, scan.eq_def]; simp [unesc1]
  split
  · next h => subst h; rw [List.cons_append, List.cons_append, List.nil_append, scan.eq_def]; simp [unesc1]
  split
  · next h => subst h; rw [List.cons_append, List.cons_append, List.nil_append, scan.eq_def]; simp [unesc1]
  split
  · next h => subst h; rw [List.cons_append, List.cons_append, List.nil_append, scan.eq_def]; simp [unesc1]
  split
  · next h34 h92 _ _ _ _ _ hlt =>
    have hx := hex_low ⟨b.toNat, hlt⟩
    simp only at hx
    have h128 : b.toNat < 128 := by omega
    simp only [List.cons_append, List.nil_append]
    rw [scan.eq_def]
    simp [hx, h128]
  · next h34 h92 _ _ _ _ _ hge =>
    rw [List.cons_append, List.nil_append, scan.eq_def]
    simp [h34, h92, hge]

end Passage.Json

namespace Passage.Json

theorem scan_escape (s rest : Bytes) : scan (escape s ++ 34 :: rest) = .ok s rest := by
  induction s with
  | nil => rw [escape, List.nil_append, scan.eq_def]; simp
  | cons b r ih => rw [escape, List.append_assoc, scan_escByte, ih]; rfl

end Passage.Json
