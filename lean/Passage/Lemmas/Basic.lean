/- small general-purpose lemmas (core only) -/
namespace Passage

theorem snoc_induction {α : Type _} {motive : List α → Prop} (nil : motive [])
    (append_singleton : ∀ init x, motive init → motive (init ++ [x])) : ∀ l, motive l := by
  have h : ∀ l : List α, motive l.reverse := by
    intro l
    induction l with
    | nil => simpa using nil
    | cons x xs ih => simpa using append_singleton _ x ih
  intro l
  simpa using h l.reverse

end Passage
