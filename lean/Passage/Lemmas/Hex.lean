import Passage.McHash
import Passage.Lemmas.Basic
/- helper lemmas for C11 (digits, two's complement by carry) -/
namespace Passage.McHash
open Impl Spec

theorem fromDigits_append (a : List Nat) (d : Nat) :
    fromDigits (a ++ [d]) = fromDigits a * 16 + d := by
  simp [fromDigits, List.foldl_append]

theorem fromDigits_cons_aux (acc : Nat) (ds : List Nat) :
    ds.foldl (fun a d => a * 16 + d) acc = acc * 16 ^ ds.length + fromDigits ds := by
  induction ds generalizing acc with
  | nil => simp [fromDigits]
  | cons x xs ih =>
    simp only [List.foldl_cons, List.length_cons, fromDigits]
    rw [ih (acc * 16 + x), ih (0 * 16 + x)]
    simp [Nat.pow_succ, Nat.add_mul]
    rw [Nat.mul_comm (16 ^ xs.length) 16, Nat.mul_assoc]
    omega

theorem fromDigits_cons (x : Nat) (ds : List Nat) :
    fromDigits (x :: ds) = x * 16 ^ ds.length + fromDigits ds := by
  have := fromDigits_cons_aux (0 * 16 + x) ds
  simp [fromDigits] at this ⊢
  exact this

/-- digits produced by the spec printer evaluate back to the number -/
theorem fromDigits_hexDigitsF (f n : Nat) (h : n ≤ f) : fromDigits (hexDigitsF f n) = n := by
  induction f generalizing n with
  | zero => have : n = 0 := by omega
            subst this; simp [hexDigitsF, fromDigits]
  | succ f ih =>
    unfold hexDigitsF
    split
    · next h0 => simp [h0, fromDigits]
    · next h0 =>
      rw [fromDigits_append, ih (n / 16) (by omega)]
      omega

def Canon (ds : List Nat) : Prop := (∀ d ∈ ds, d < 16) ∧ ds.head? ≠ some 0

theorem canon_pos (ds : List Nat) (hc : Canon ds) (hne : ds ≠ []) : 0 < fromDigits ds := by
  cases ds with
  | nil => exact absurd rfl hne
  | cons x xs =>
    rw [fromDigits_cons]
    have hx : x ≠ 0 := by
      intro h; exact hc.2 (by simp [h])
    have : 0 < 16 ^ xs.length := Nat.pow_pos (by omega)
    have : 0 < x * 16 ^ xs.length := Nat.mul_pos (by omega) this
    omega

/-- a canonical digit list is exactly what the spec printer produces for its value -/
theorem hexDigitsF_canon (ds : List Nat) (hc : Canon ds) :
    ∀ f, fromDigits ds ≤ f → hexDigitsF f (fromDigits ds) = ds := by
  induction ds using snoc_induction with
  | nil => intro f _; cases f <;> simp [hexDigitsF, fromDigits]
  | append_singleton init x ih =>
    intro f hf
    have hx : x < 16 := hc.1 x (by simp)
    have hinit : Canon init := by
      refine ⟨fun d hd => hc.1 d (by simp [hd]), ?_⟩
      cases init with
      | nil => simp
      | cons y ys => have := hc.2; simpa using this
    rw [fromDigits_append] at hf ⊢
    cases f with
    | zero =>
      have h0 : fromDigits init = 0 := by omega
      have hx0 : x = 0 := by omega
      have : init = [] := by
        apply Classical.byContradiction; intro hne
        have := canon_pos init hinit hne; omega
      subst this; subst hx0
      exact absurd (by simp) hc.2
    | succ f =>
      unfold hexDigitsF
      split
      · next h0 =>
        have h00 : fromDigits init = 0 := by omega
        have hx0 : x = 0 := by omega
        have : init = [] := by
          apply Classical.byContradiction; intro hne
          have := canon_pos init hinit hne; omega
        subst this; subst hx0
        exact absurd (by simp) hc.2
      · next h0 =>
        have h1 : (fromDigits init * 16 + x) / 16 = fromDigits init := by omega
        have h2 : (fromDigits init * 16 + x) % 16 = x := by omega
        rw [h1, h2, ih hinit f (by omega)]

theorem nibbles_lt (bs : Bytes) : ∀ d ∈ nibbles bs, d < 16 := by
  induction bs with
  | nil => simp [nibbles]
  | cons b bs ih =>
    intro d hd
    simp only [nibbles, List.mem_cons] at hd
    have hb : b.toNat < 256 := b.toNat_lt
    rcases hd with h | h | h
    · omega
    · omega
    · exact ih d h

theorem stripZeros_canon (ds : List Nat) (h : ∀ d ∈ ds, d < 16) : Canon (stripZeros ds) := by
  induction ds with
  | nil => simp [stripZeros, Canon]
  | cons x xs ih =>
    cases x with
    | zero => simpa [stripZeros] using ih (fun d hd => h d (by simp [hd]))
    | succ n => simp only [stripZeros]; exact ⟨h, by simp⟩

theorem fromDigits_stripZeros (ds : List Nat) : fromDigits (stripZeros ds) = fromDigits ds := by
  induction ds with
  | nil => simp [stripZeros]
  | cons x xs ih =>
    cases x with
    | zero => simp only [stripZeros]; rw [ih, fromDigits_cons]; simp
    | succ n => simp [stripZeros]

theorem beNat_aux (acc : Nat) (bs : Bytes) :
    bs.foldl (fun a b => a * 256 + b.toNat) acc = acc * 256 ^ bs.length + beNat bs := by
  induction bs generalizing acc with
  | nil => simp [beNat]
  | cons x xs ih =>
    simp only [List.foldl_cons, List.length_cons, beNat]
    rw [ih (acc * 256 + x.toNat), ih (0 * 256 + x.toNat)]
    simp [Nat.pow_succ, Nat.add_mul]
    rw [Nat.mul_comm (256 ^ xs.length) 256, Nat.mul_assoc]
    omega

theorem beNat_cons (b : UInt8) (bs : Bytes) :
    beNat (b :: bs) = b.toNat * 256 ^ bs.length + beNat bs := by
  have := beNat_aux (0 * 256 + b.toNat) bs
  simp [beNat] at this ⊢
  exact this

theorem beNat_append (a : Bytes) (b : UInt8) : beNat (a ++ [b]) = beNat a * 256 + b.toNat := by
  simp [beNat, List.foldl_append]

theorem beNat_lt (bs : Bytes) : beNat bs < 256 ^ bs.length := by
  induction bs using snoc_induction with
  | nil => simp [beNat]
  | append_singleton init x ih =>
    rw [beNat_append]
    have hx : x.toNat < 256 := x.toNat_lt
    simp [Nat.pow_succ]
    omega

theorem nibbles_length (bs : Bytes) : (nibbles bs).length = 2 * bs.length := by
  induction bs with
  | nil => simp [nibbles]
  | cons b bs ih => simp [nibbles, ih]; omega

theorem fromDigits_nibbles (bs : Bytes) : fromDigits (nibbles bs) = beNat bs := by
  induction bs with
  | nil => simp [nibbles, fromDigits, beNat]
  | cons b bs ih =>
    simp only [nibbles]
    rw [fromDigits_cons, fromDigits_cons, ih, beNat_cons, List.length_cons, nibbles_length]
    have hb : b.toNat < 256 := b.toNat_lt
    have e1 : (16:Nat) ^ (2 * bs.length + 1) = 16 * 256 ^ bs.length := by
      rw [Nat.pow_succ, Nat.pow_mul]; simp [Nat.mul_comm]
    have e2 : (16:Nat) ^ (2 * bs.length) = 256 ^ bs.length := by
      rw [Nat.pow_mul]
    rw [e1, e2]
    have : b.toNat = b.toNat / 16 * 16 + b.toNat % 16 := by omega
    generalize 256 ^ bs.length = P
    have h3 : b.toNat * P = (b.toNat / 16 * 16 + b.toNat % 16) * P := by rw [← this]
    rw [h3, Nat.add_mul, Nat.mul_assoc]
    omega

/-- the implementation's digit pipeline is the spec's digit list of the big-endian value -/
theorem strip_nibbles_eq (bs : Bytes) : stripZeros (nibbles bs) = hexDigits (beNat bs) := by
  have hc := stripZeros_canon (nibbles bs) (nibbles_lt bs)
  have hv : fromDigits (stripZeros (nibbles bs)) = beNat bs := by
    rw [fromDigits_stripZeros, fromDigits_nibbles]
  have := hexDigitsF_canon _ hc (beNat bs) (by omega)
  rw [hv] at this
  exact this.symm

theorem hexDigits_eq_nil (n : Nat) : hexDigits n = [] ↔ n = 0 := by
  constructor
  · intro h
    have := fromDigits_hexDigitsF n n (Nat.le_refl n)
    unfold hexDigits at h; rw [h] at this; simp [fromDigits] at this; omega
  · intro h; subst h; simp [hexDigits, hexDigitsF]

theorem hexMag_eq (bs : Bytes) : hexMag bs = hexStr (beNat bs) := by
  unfold hexMag hexStr
  rw [strip_nibbles_eq]
  split
  · next h => rw [(hexDigits_eq_nil _).mp h]; simp
  · next h =>
    have : beNat bs ≠ 0 := fun h0 => h ((hexDigits_eq_nil _).mpr h0)
    simp [this]

theorem hexDigitsF_lt (f n : Nat) : ∀ y ∈ hexDigitsF f n, y < 16 := by
  induction f generalizing n with
  | zero => intro y hy; simp [hexDigitsF] at hy
  | succ f ih =>
    intro y hy
    unfold hexDigitsF at hy
    split at hy
    · simp at hy
    · simp only [List.mem_append, List.mem_singleton] at hy
      rcases hy with hy | hy
      · exact ih _ _ hy
      · omega

theorem hexDigits_lt (n : Nat) : ∀ y ∈ hexDigits n, y < 16 := hexDigitsF_lt n n

theorem hexDigitsF_zero (f : Nat) : hexDigitsF f 0 = [] := by cases f <;> simp [hexDigitsF]

theorem hexDigitsF_head (f n : Nat) (h : n ≤ f) : (hexDigitsF f n).head? ≠ some 0 := by
  induction f generalizing n with
  | zero => simp [hexDigitsF]
  | succ f ih =>
    unfold hexDigitsF
    split
    · simp
    · next hn =>
      by_cases hq : n / 16 = 0
      · rw [hq, hexDigitsF_zero]; simp; omega
      · have hv := fromDigits_hexDigitsF f (n / 16) (by omega)
        cases hds : hexDigitsF f (n / 16) with
        | nil => rw [hds] at hv; simp [fromDigits] at hv; omega
        | cons x xs =>
          have := ih (n / 16) (by omega)
          rw [hds] at this
          simpa using this

theorem hexDigits_head (n : Nat) : (hexDigits n).head? ≠ some 0 := hexDigitsF_head n n (Nat.le_refl n)

/-! ### two's complement by carry -/

def leNat : Bytes → Nat
  | [] => 0
  | b :: bs => b.toNat + 256 * leNat bs

theorem leNat_lt (l : Bytes) : leNat l < 256 ^ l.length := by
  induction l with
  | nil => simp [leNat]
  | cons b bs ih =>
    have hb : b.toNat < 256 := b.toNat_lt
    simp [leNat, Nat.pow_succ]; omega

theorem negLE_length (c : Bool) (l : Bytes) : (negLE c l).length = l.length := by
  induction l generalizing c with
  | nil => simp [negLE]
  | cons b bs ih =>
    simp only [negLE]
    split <;> simp [ih]

theorem not_toNat (b : UInt8) : (~~~b).toNat = 255 - b.toNat := by
  simp [UInt8.toNat_not]

theorem negLE_false (l : Bytes) : leNat (negLE false l) = 256 ^ l.length - 1 - leNat l := by
  induction l with
  | nil => simp [negLE, leNat]
  | cons b bs ih =>
    have hb : b.toNat < 256 := b.toNat_lt
    have hl := leNat_lt bs
    simp only [negLE, leNat, Bool.false_eq_true, if_false, List.length_cons, ih, not_toNat, Nat.pow_succ]
    have : 0 < 256 ^ bs.length := Nat.pow_pos (by omega)
    omega

theorem negLE_true (l : Bytes) :
    leNat (negLE true l) = (256 ^ l.length - leNat l) % 256 ^ l.length := by
  induction l with
  | nil => simp [negLE, leNat]
  | cons b bs ih =>
    have hb : b.toNat < 256 := b.toNat_lt
    have hl := leNat_lt bs
    have hp : 0 < 256 ^ bs.length := Nat.pow_pos (by omega)
    simp only [negLE, if_true, List.length_cons, Nat.pow_succ]
    have hr : (~~~b + 1).toNat = (255 - b.toNat + 1) % 256 := by
      rw [UInt8.toNat_add, not_toNat]; rfl
    by_cases hb0 : b.toNat = 0
    · have hz : (~~~b + 1 == 0) = true := by
        rw [beq_iff_eq]; apply UInt8.toNat_inj.mp; rw [hr, hb0]; rfl
      simp only [hz, leNat, hr, hb0, ih]
      generalize 256 ^ bs.length = P at *
      by_cases hL : leNat bs = 0
      · simp [hL]
      · have h1 : (P - leNat bs) % P = P - leNat bs := Nat.mod_eq_of_lt (by omega)
        have h2 : (P * 256 - (0 + 256 * leNat bs)) % (P * 256) = P * 256 - 256 * leNat bs :=
          by rw [Nat.zero_add]; exact Nat.mod_eq_of_lt (by omega)
        rw [h1, h2]; omega
    · have hz : (~~~b + 1 == 0) = false := by
        rw [beq_eq_false_iff_ne]; intro h
        have := congrArg UInt8.toNat h
        rw [hr] at this; simp at this; omega
      simp only [hz, leNat, hr, negLE_false]
      generalize 256 ^ bs.length = P at *
      have h2 : (P * 256 - (b.toNat + 256 * leNat bs)) % (P * 256) = P * 256 - (b.toNat + 256 * leNat bs) :=
        Nat.mod_eq_of_lt (by omega)
      rw [h2]
      have : (255 - b.toNat + 1) % 256 = 256 - b.toNat := by omega
      rw [this]; omega

theorem beNat_eq_leNat_reverse (bs : Bytes) : beNat bs = leNat bs.reverse := by
  induction bs using snoc_induction with
  | nil => simp [beNat, leNat]
  | append_singleton init x ih =>
    rw [beNat_append, List.reverse_append]
    simp [leNat, ih]; omega

theorem beNat_negBE (d : Bytes) :
    beNat (negBE d) = (256 ^ d.length - beNat d) % 256 ^ d.length := by
  unfold negBE
  rw [beNat_eq_leNat_reverse, List.reverse_reverse, negLE_true, List.length_reverse,
    beNat_eq_leNat_reverse]

theorem pow256 (n : Nat) : (256 : Nat) ^ n = 2 ^ (8 * n) := by
  rw [Nat.pow_mul]

theorem topBitSet_iff (d : Bytes) : topBitSet d = true ↔ ¬ beNat d < 2 ^ (8 * d.length - 1) := by
  cases d with
  | nil => simp [topBitSet, beNat]
  | cons b bs =>
    have hb : b.toNat < 256 := b.toNat_lt
    have hl := beNat_lt bs
    rw [beNat_cons]
    have e : 8 * (b :: bs).length - 1 = 7 + 8 * bs.length := by simp; omega
    rw [e, Nat.pow_add, ← pow256]
    simp only [topBitSet, ge_iff_le, decide_eq_true_eq, UInt8.le_iff_toNat_le]
    have h128 : (128 : UInt8).toNat = 128 := rfl
    rw [h128]
    generalize 256 ^ bs.length = P at *
    constructor
    · intro h hlt
      have : 128 * P ≤ b.toNat * P := Nat.mul_le_mul_right P h
      omega
    · intro h
      apply Classical.byContradiction; intro hlt
      apply h
      have : b.toNat * P ≤ 127 * P := Nat.mul_le_mul_right P (by omega)
      omega

end Passage.McHash
