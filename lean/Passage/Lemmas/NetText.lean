import Passage.NetText
/-
  Helper lemmas for the IPv4 text model (the property theorems are in Props/C19V4.lean).
-/
namespace Passage.NetText

def noDot (s : Bytes) : Bool := s.all (fun b => b != 46)

theorem parseOctet_showOctet : ∀ n : Octet, parseOctet (showOctet n) = some n := by decide +kernel

theorem noDot_showOctet : ∀ n : Octet, noDot (showOctet n) = true := by decide +kernel

theorem showOctet_length : ∀ n : Octet, 1 ≤ (showOctet n).length ∧ (showOctet n).length ≤ 3 := by decide +kernel

theorem splitDot_ne_nil (s : Bytes) : splitDot s ≠ [] := by
  induction s with
  | nil => simp [splitDot]
  | cons b r ih =>
    unfold splitDot
    split
    · simp
    · split <;> simp

theorem splitDot_noDot (a : Bytes) (h : noDot a = true) : splitDot a = [a] := by
  induction a with
  | nil => rfl
  | cons b r ih =>
    simp only [noDot, List.all_cons, Bool.and_eq_true, bne_iff_ne, ne_eq] at h
    have hr : noDot r = true := h.2
    simp [splitDot, h.1, ih hr]

theorem splitDot_append (a r : Bytes) (h : noDot a = true) : splitDot (a ++ 46 :: r) = a :: splitDot r := by
  induction a with
  | nil => simp [splitDot]
  | cons b t ih =>
    simp only [noDot, List.all_cons, Bool.and_eq_true, bne_iff_ne, ne_eq] at h
    have ht : noDot t = true := h.2
    simp [splitDot, h.1, ih ht]

end Passage.NetText

namespace Passage.NetText

/-- inverse of `splitDot` -/
def joinDot : List Bytes → Bytes
  | [] => []
  | [p] => p
  | p :: q :: r => p ++ 46 :: joinDot (q :: r)

theorem joinDot_splitDot (s : Bytes) : joinDot (splitDot s) = s := by
  induction s with
  | nil => rfl
  | cons b r ih =>
    unfold splitDot
    split
    · next hb =>
      cases hs : splitDot r with
      | nil => exact absurd hs (splitDot_ne_nil r)
      | cons p ps => rw [hs] at ih; simp [joinDot, ih, hb]
    · cases hs : splitDot r with
      | nil => exact absurd hs (splitDot_ne_nil r)
      | cons p ps =>
        rw [hs] at ih
        cases ps with
        | nil => simpa [joinDot] using ih
        | cons q qs => simp only [joinDot] at ih ⊢; simp [ih]

theorem digVal_spec (x : UInt8) (p : Nat) (h : digVal x = some p) : p < 10 ∧ x = dig p := by
  unfold digVal at h
  split at h
  · next hr =>
    simp only [Option.some.injEq] at h
    subst h
    refine ⟨by omega, ?_⟩
    unfold dig
    have : 48 + (x.toNat - 48) = x.toNat := by omega
    rw [this]; simp
  · simp at h

theorem mkOctet_spec (v : Nat) (n : Octet) (h : mkOctet v = some n) : n.val = v := by
  unfold mkOctet at h
  split at h
  · simp only [Option.some.injEq] at h; subst h; rfl
  · simp at h

theorem show1 : ∀ p : Fin 10, showOctet ⟨p.val, by omega⟩ = [dig p.val] := by decide +kernel
theorem show2 : ∀ p q : Fin 10, p.val ≠ 0 → showOctet ⟨10 * p.val + q.val, by omega⟩ = [dig p.val, dig q.val] := by
  decide +kernel
theorem show3 : ∀ p q r : Fin 10, p.val ≠ 0 → (h : 100 * p.val + 10 * q.val + r.val < 256) →
    showOctet ⟨100 * p.val + 10 * q.val + r.val, h⟩ = [dig p.val, dig q.val, dig r.val] := by
  decide +kernel

/-- an accepted group is the canonical text of its value -/
theorem showOctet_parseOctet (s : Bytes) (n : Octet) (h : parseOctet s = some n) : showOctet n = s := by
  unfold parseOctet at h
  split at h
  · next x =>
    cases hx : digVal x with
    | none => simp [hx] at h
    | some p =>
      simp only [hx, Option.bind_some] at h
      obtain ⟨hp, rfl⟩ := digVal_spec x p hx
      have hv := mkOctet_spec _ _ h
      have := show1 ⟨p, hp⟩
      have hn : n = ⟨p, by omega⟩ := Fin.ext hv
      rw [hn]; exact this
  · next x y =>
    split at h
    · next p q hx hy =>
      split at h
      · simp at h
      · next hp0 =>
        obtain ⟨hp, rfl⟩ := digVal_spec x p hx
        obtain ⟨hq, rfl⟩ := digVal_spec y q hy
        have hv := mkOctet_spec _ _ h
        have := show2 ⟨p, hp⟩ ⟨q, hq⟩ hp0
        have hn : n = ⟨10 * p + q, by omega⟩ := Fin.ext hv
        rw [hn]; exact this
    · simp at h
  · next x y z =>
    split at h
    · next p q r hx hy hz =>
      split at h
      · simp at h
      · next hp0 =>
        obtain ⟨hp, rfl⟩ := digVal_spec x p hx
        obtain ⟨hq, rfl⟩ := digVal_spec y q hy
        obtain ⟨hr, rfl⟩ := digVal_spec z r hz
        have hv := mkOctet_spec _ _ h
        have hlt : 100 * p + 10 * q + r < 256 := by rw [← hv]; exact n.isLt
        have := show3 ⟨p, hp⟩ ⟨q, hq⟩ ⟨r, hr⟩ hp0 hlt
        have hn : n = ⟨100 * p + 10 * q + r, hlt⟩ := Fin.ext hv
        rw [hn]; exact this
    · simp at h
  · simp at h

end Passage.NetText

namespace Passage.NetText

theorem noSpace_showOctet : ∀ n : Octet, (32 : UInt8) ∉ showOctet n := by decide +kernel

theorem noSpace_showV4 (x : V4) : (32 : UInt8) ∉ showV4 x := by
  have ha := noSpace_showOctet x.a; have hb := noSpace_showOctet x.b
  have hc := noSpace_showOctet x.c; have hd := noSpace_showOctet x.d
  simp only [showV4, List.mem_append, List.mem_cons, not_or]
  refine ⟨ha, by decide, hb, by decide, hc, by decide, hd⟩

end Passage.NetText
