import Passage.Conn.Machine
/- generic lemmas about the L0 machine: runs, absorption of `done`, output projections -/
namespace Passage.Conn

theorem run_nil (C : Cfg) (E : Env) (st : St) : run C E st [] = (st, []) := rfl

theorem run_cons (C : Cfg) (E : Env) (st : St) (i : In) (is : List In) :
    run C E st (i :: is) =
      ((run C E (step C E st i).1 is).1, (step C E st i).2 ++ (run C E (step C E st i).1 is).2) := rfl

theorem step_done (C : Cfg) (E : Env) (st : St) (i : In) (h : st.pc = .done) :
    step C E st i = (st, []) := by
  simp [step, h]

/-- once finished the connection does nothing more, whatever arrives -/
theorem run_done (C : Cfg) (E : Env) (st : St) (ins : List In) (h : st.pc = .done) :
    run C E st ins = (st, []) := by
  induction ins with
  | nil => rfl
  | cons i is ih => rw [run_cons, step_done C E st i h]; simp [ih]

def sends : List Out → List Cb
  | [] => []
  | .send p :: r => p :: sends r
  | _ :: r => sends r

theorem sends_append (a b : List Out) : sends (a ++ b) = sends a ++ sends b := by
  induction a with
  | nil => rfl
  | cons x xs ih => cases x <;> simp [sends, ih]

/-- every state/output invariant proved for one step lifts to all runs -/
theorem run_induction {P : St → Prop} (C : Cfg) (E : Env)
    (hstep : ∀ st i, P st → P (step C E st i).1)
    (st : St) (h : P st) (ins : List In) : P (run C E st ins).1 := by
  induction ins generalizing st with
  | nil => exact h
  | cons i is ih => rw [run_cons]; exact ih _ (hstep st i h)

end Passage.Conn
