import Passage.RateLimiter
/- helper lemmas for the rate limiter (C13) -/
namespace Passage.RL

def BInv (c : Cfg) (b : Bucket) : Prop := b.cur ≤ c.limit ∧ b.prev ≤ c.limit

theorem roll_inv (c : Cfg) (now : Nat) (b : Bucket) (h : BInv c b) : BInv c (roll c now b) := by
  unfold roll BInv at *
  split
  · split <;> simp <;> omega
  · exact h

theorem stepB_inv (A : Arith) (c : Cfg) (b : Bucket) (now : Nat) (h : BInv c b) :
    BInv c (stepB A c b now).1 := by
  have h1 := roll_inv c now b h
  unfold stepB
  simp only []
  split
  · rename_i hadm
    have := A.sound hadm
    unfold BInv at *
    simp; omega
  · exact h1

theorem freshB_inv (c : Cfg) (now : Nat) : BInv c (freshB now) := by simp [BInv, freshB]

/-- the window start after an attempt: either kept (and younger than `d`) or set to `now` -/
theorem stepB_win (A : Arith) (c : Cfg) (b : Bucket) (now : Nat) :
    ((stepB A c b now).1.win = b.win ∧ now - b.win < c.d) ∨
    ((stepB A c b now).1.win = now ∧ now - b.win ≥ c.d) := by
  unfold stepB roll
  by_cases h : now - b.win ≥ c.d
  · right; simp only [h, if_true]; repeat' split
    all_goals simp
  · left; simp only [h, if_false]; split <;> simp <;> omega

theorem stepB_win_ge (A : Arith) (c : Cfg) (b : Bucket) (now : Nat) (hd : 0 < c.d) :
    b.win ≤ (stepB A c b now).1.win := by
  rcases stepB_win A c b now with h | h <;> omega

/-- the counter after an attempt, relative to whether the window was kept -/
theorem stepB_cur (A : Arith) (c : Cfg) (b : Bucket) (now : Nat) :
    (now - b.win < c.d → (stepB A c b now).1.cur = b.cur + (if (stepB A c b now).2 then 1 else 0)) ∧
    (now - b.win ≥ c.d → (stepB A c b now).1.cur = (if (stepB A c b now).2 then 1 else 0)) := by
  unfold stepB roll
  constructor
  · intro h
    have : ¬ now - b.win ≥ c.d := by omega
    simp only [this, if_false]; split <;> simp
  · intro h
    simp only [h, if_true]; repeat' split
    all_goals simp_all

theorem idle_readmit (A : Arith) (c : Cfg) (b : Bucket) (now : Nat)
    (hl : 0 < c.limit) (hidle : now - b.win ≥ 2 * c.d) (hd : 0 < c.d) :
    (stepB A c b now).2 = true := by
  have h1 : now - b.win ≥ c.d := by omega
  simp [stepB, roll, h1, hidle, A.fresh hd, hl]

theorem fresh_admit (A : Arith) (c : Cfg) (now : Nat) (hl : 0 < c.limit) (hd : 0 < c.d) :
    (step1 A c none now).2 = true := by
  have h2 : ¬ (0 ≥ c.d) := by omega
  simp [step1, stepB, roll, freshB, h2, A.fresh hd, hl]

theorem reject_no_consume (A : Arith) (c : Cfg) (b : Bucket) (now : Nat)
    (hrej : (stepB A c b now).2 = false) : (stepB A c b now).1 = roll c now b := by
  unfold stepB at *
  simp only [] at *
  split at hrej
  · simp at hrej
  · rename_i h; simp [h]

/-- a bucket at least two windows old behaves exactly like no bucket at all -/
theorem stale_eq_absent (A : Arith) (c : Cfg) (b : Bucket) (now : Nat) (hd : 0 < c.d)
    (hstale : now - b.win ≥ 2 * c.d) : step1 A c (some b) now = step1 A c none now := by
  have h1 : now - b.win ≥ c.d := by omega
  have h2 : ¬ (0 ≥ c.d) := by omega
  simp [step1, stepB, roll, freshB, h1, hstale, h2]

/-! ### association list -/

theorem lookup_upsert (k k' : Nat) (b : Bucket) (l : List (Nat × Bucket)) :
    lookup k' (upsert k b l) = if k = k' then some b else lookup k' l := by
  induction l with
  | nil => simp [upsert, lookup]
  | cons hd tl ih =>
    obtain ⟨kk, bb⟩ := hd
    simp only [upsert]
    by_cases h1 : kk = k
    · subst h1
      simp only [if_true, lookup]
      by_cases h2 : kk = k' <;> simp [h2]
    · simp only [h1, if_false, lookup]
      by_cases h2 : kk = k'
      · subst h2; simp [Ne.symm h1]
      · simp [h2, ih]

/-- keys occur at most once -/
def NoDup : List (Nat × Bucket) → Prop
  | [] => True
  | (k, _) :: r => lookup k r = none ∧ NoDup r

theorem upsert_mem (k : Nat) (b : Bucket) (l : List (Nat × Bucket)) (x : Nat × Bucket)
    (hx : x ∈ upsert k b l) : x = (k, b) ∨ x ∈ l := by
  induction l with
  | nil => simp [upsert] at hx; exact Or.inl hx
  | cons hd tl ih =>
    obtain ⟨kk, bb⟩ := hd
    simp only [upsert] at hx
    split at hx
    · simp at hx; rcases hx with h | h
      · exact Or.inl h
      · exact Or.inr (by simp [h])
    · simp at hx; rcases hx with h | h
      · exact Or.inr (by simp [h])
      · rcases ih h with h' | h'
        · exact Or.inl h'
        · exact Or.inr (by simp [h'])

theorem lookup_filter_keep (p : Nat × Bucket → Bool) (k : Nat) (l : List (Nat × Bucket)) :
    lookup k (l.filter p) = none ∨ lookup k (l.filter p) = lookup k l ∨
    (∃ b, lookup k l = some b ∧ p (k, b) = false) := by
  induction l with
  | nil => simp [lookup]
  | cons hd tl ih =>
    obtain ⟨kk, bb⟩ := hd
    by_cases hp : p (kk, bb) = true
    · simp only [List.filter, hp, lookup]
      by_cases hk : kk = k
      · simp [hk]
      · simpa [hk] using ih
    · have hp' : p (kk, bb) = false := by simpa using hp
      simp only [List.filter, hp', lookup]
      by_cases hk : kk = k
      · subst hk; right; right; exact ⟨bb, by simp, hp'⟩
      · simpa [hk] using ih

theorem lookup_mem (k : Nat) (b : Bucket) (l : List (Nat × Bucket)) (h : lookup k l = some b) :
    (k, b) ∈ l := by
  induction l with
  | nil => simp [lookup] at h
  | cons hd tl ih =>
    obtain ⟨kk, bb⟩ := hd
    simp only [lookup] at h
    split at h
    · next hk => subst hk; simp at h; subst h; simp
    · simp [ih h]

end Passage.RL

namespace Passage.RL

theorem lookup_filter (p : Nat × Bucket → Bool) (k : Nat) (l : List (Nat × Bucket)) (hn : NoDup l) :
    lookup k (l.filter p) = match lookup k l with
      | some b => if p (k, b) then some b else none
      | none => none := by
  induction l with
  | nil => simp [lookup]
  | cons hd tl ih =>
    obtain ⟨kk, bb⟩ := hd
    simp only [NoDup] at hn
    by_cases hk : kk = k
    · subst hk
      have htl : lookup kk (tl.filter p) = none := by rw [ih hn.2, hn.1]
      by_cases hp : p (kk, bb) = true
      · simp [List.filter, hp, lookup]
      · have hp' : p (kk, bb) = false := by simpa using hp
        simp [List.filter, hp', lookup, htl]
    · by_cases hp : p (kk, bb) = true
      · simp [List.filter, hp, lookup, hk, ih hn.2]
      · have hp' : p (kk, bb) = false := by simpa using hp
        simp [List.filter, hp', lookup, hk, ih hn.2]

theorem nodup_upsert (k : Nat) (b : Bucket) (l : List (Nat × Bucket)) (hn : NoDup l) :
    NoDup (upsert k b l) := by
  induction l with
  | nil => simp [upsert, NoDup, lookup]
  | cons hd tl ih =>
    obtain ⟨kk, bb⟩ := hd
    simp only [NoDup] at hn
    simp only [upsert]
    by_cases hk : kk = k
    · subst hk; simp only [if_true, NoDup]; exact hn
    · simp only [hk, if_false, NoDup]
      refine ⟨?_, ih hn.2⟩
      rw [lookup_upsert]; simp [Ne.symm hk, hn.1]

theorem nodup_filter (p : Nat × Bucket → Bool) (l : List (Nat × Bucket)) (hn : NoDup l) :
    NoDup (l.filter p) := by
  induction l with
  | nil => simp [NoDup]
  | cons hd tl ih =>
    obtain ⟨kk, bb⟩ := hd
    simp only [NoDup] at hn
    by_cases hp : p (kk, bb) = true
    · simp only [List.filter, hp, NoDup]
      refine ⟨?_, ih hn.2⟩
      rw [lookup_filter p kk tl hn.2, hn.1]
    · have hp' : p (kk, bb) = false := by simpa using hp
      simp only [List.filter, hp']; exact ih hn.2

theorem nodup_enqueue (A : Arith) (c : Cfg) (s : State) (k now : Nat) (hn : NoDup s.buckets) :
    NoDup (enqueue A c s k now).1.buckets := by
  unfold enqueue
  simp only []
  split
  · split
    · exact nodup_filter _ _ (nodup_upsert _ _ _ hn)
    · exact nodup_upsert _ _ _ hn
  · exact nodup_upsert _ _ _ hn

end Passage.RL
