import Passage.Driver.Common
import Passage.Conn.ByteLevel
import Passage.Crypto.Hmac
namespace Passage.Driver.Conn
open Passage Passage.Driver Passage.Conn

/-- `key=value` lookup over the tokens of one section -/
def kv (toks : List String) (k : String) : Option String :=
  toks.findSome? fun t => match t.splitOn "=" with
    | [a, b] => if a == k then some b else none
    | _ => none

def kvAll (toks : List String) (k : String) : List String :=
  toks.filterMap fun t => match t.splitOn "=" with
    | [a, b] => if a == k then some b else none
    | _ => none

def optHex (s : String) : Option (Option Bytes) := if s == "-" then some none else (hex? s).map some

def parseErr : String → Err
  | "closed" => .closed | "json" => .json | "crypto" => .crypto | "nbt" => .nbt
  | _ => .adapter

def parseTarget (s : String) : Option Target :=
  match s.splitOn ":" with
  | [i, ip, p] => do some ⟨← hex? i, ← hex? ip, ← p.toNat?⟩
  | _ => none

def parseIdent (parts : List String) : Option Ident :=
  match parts with
  | [n, u, p] => do some ⟨← hex? n, ← u.toNat?, ← hex? p⟩
  | _ => none

def idxList (univ : List Target) (s : String) : Option (List Target) :=
  if s == "" then some [] else (s.splitOn ",").mapM fun i => do univ[(← i.toNat?)]?

def sections (toks : List String) : List (List String) :=
  toks.foldr (fun t acc => if t == "|" then [] :: acc else match acc with
    | [] => [[t]]
    | a :: rest => (t :: a) :: rest) [[]]

def ctxStr (c : Ctx) : String :=
  s!"{Hex.encode c.clientAddr}/{Hex.encode c.host}/{c.port}/{c.proto}"

def tids (ts : List Target) : String := ",".intercalate (ts.map fun t => Hex.encode t.id)

def cbStr : Cb → String
  | .statusResponse j => s!"send:statusResponse:{Hex.encode j}"
  | .pong p => s!"send:pong:{p}"
  | .cookieRequest k => s!"send:cookieRequest:{Hex.encode k}"
  | .encRequest sid pk tok sa => s!"send:encRequest:{Hex.encode sid}:{Hex.encode pk}:{Hex.encode tok}:{boolStr sa}"
  | .loginSuccess u n => s!"send:loginSuccess:{u}:{Hex.encode n}"
  | .keepAlive i => s!"send:keepAlive:{i}"
  | .storeAuthCookie p => s!"send:storeAuth:{Hex.encode p}"
  | .storeSessionCookie h p => s!"send:storeSession:{Hex.encode h}:{p}"
  | .transfer h p => s!"send:transfer:{Hex.encode h}:{p}"
  | .disconnect r => s!"send:disconnect:{Hex.encode r}"

def outStr : Out → Option String
  | .send p => some (cbStr p)
  | .callStatus c => some s!"call:status:{ctxStr c}"
  | .callAuth c n u s pk => some s!"call:auth:{ctxStr c}:{Hex.encode n}:{u}:{Hex.encode s}:{Hex.encode pk}"
  | .callDiscover => some "call:discover"
  | .callFilter c n u ts => some s!"call:filter:{ctxStr c}:{Hex.encode n}:{u}:{tids ts}"
  | .callSelect c n u ts => some s!"call:select:{ctxStr c}:{Hex.encode n}:{u}:{tids ts}"
  | .callLocalize l k => some s!"call:localize:{match l with | some b => Hex.encode b | none => "-"}:{Hex.encode k}"
  | .enableCipher _ => none
  | .finish _ => none

def resultStr (outs : List Out) : String :=
  match outs.findSome? (fun o => match o with | .finish r => some r | _ => none) with
  | none => "running"
  | some none => "ok"
  | some (some e) => "err:" ++ e.name

def parseIn (t : String) : Option In :=
  if t == "T" then some .tick else if t == "A" then some .adapterDone else if t == "E" then some .eof
  else if t == "B" then some .badLength
  else match t.toList with
    | 'F' :: cs => (hex? (String.ofList ('x' :: cs))).map .frame
    | _ => none

def exceptOf {α} (s : String) (f : String → Option α) : Option (Except Err α) :=
  match s.splitOn ":" with
  | "err" :: e :: _ => some (.error (parseErr e))
  | ["err"] => some (.error .adapter)
  | "ok" :: rest => (f (":".intercalate rest)).map .ok
  | _ => none

/-- builds (Cfg, Env, inputs) from the three sections `cfg … | env … | in …` -/
def buildEnv (toks : List String) : Option (Cfg × Env × List String) :=
  match sections toks with
  | [cfg, env, ins] => do
    let secret ← optHex (← kv cfg "secret")
    let expiry ← (← kv cfg "expiry").toNat?
    let maxLen ← (← kv cfg "max").toNat?
    let addr ← hex? (← kv cfg "addr")
    let ip ← hex? (← kv cfg "ip")
    let univ ← (kvAll env "target").mapM parseTarget
    let status ← exceptOf ((kv env "status").getD "err") hex?
    let auth ← exceptOf ((kv env "auth").getD "err") (fun s => parseIdent (s.splitOn ":"))
    let discover ← exceptOf ((kv env "discover").getD "err") (idxList univ)
    let filter ← exceptOf ((kv env "filter").getD "err") (idxList univ)
    let select ← exceptOf ((kv env "select").getD "err")
      (fun s => if s == "none" then some none else do some (some (← univ[(← s.toNat?)]?)))
    let locs ← (kvAll env "loc").mapM fun s => match s.splitOn ":" with
      | l :: k :: rest => do
        let l ← optHex l; let k ← hex? k
        let r ← exceptOf (":".intercalate rest) hex?
        some (l, k, r)
      | _ => none
    let rsa ← (kvAll env "rsa").mapM fun s => match s.splitOn ":" with
      | [c, p] => do some (← hex? c, ← optHex p)
      | _ => none
    let sess ← (kvAll env "sess").mapM fun s => match s.splitOn ":" with
      | [p, c] => do some (← hex? p, if c == "p" then SessionClass.present else if c == "n" then .null else .invalid)
      | _ => none
    let cookies ← (kvAll env "cookie").mapM fun s => match s.splitOn ":" with
      | [m, "err"] => do some (← hex? m, (Except.error Err.json : Except Err AuthCookie))
      | [m, ts, cip, n, u, p] => do
        some (← hex? m, Except.ok ⟨← ts.toNat?, ← hex? cip, ⟨← hex? n, ← u.toNat?, ← hex? p⟩⟩)
      | _ => none
    let ser ← match kv env "ser" with | some s => hex? s | none => some []
    let kas ← match kv env "ka" with
      | some s => if s == "" then some [] else (s.splitOn ",").mapM String.toNat?
      | none => some []
    let token ← hex? ((kv env "token").getD "x")
    let pub ← hex? ((kv env "pub").getD "x")
    let now ← ((kv env "now").getD "0").toNat?
    let E : Env := {
      status := fun _ => status
      auth := fun _ _ _ _ _ => auth
      discover := discover
      filter := fun _ _ _ _ => filter
      select := fun _ _ _ _ => select
      localize := fun l k => match locs.find? (fun x => x.1 == l && x.2.1 == k) with
        | some x => x.2.2
        | none => .error .adapter
      rsaDecrypt := fun c => match rsa.find? (fun x => x.1 == c) with
        | some x => x.2
        | none => none
      token := token
      pubKey := pub
      hmac := Crypto.hmacSha256
      parseCookie := fun m => match cookies.find? (fun x => x.1 == m) with
        | some x => x.2
        | none => .error .json
      serCookie := fun _ _ => ser
      sessionClass := fun p => match sess.find? (fun x => x.1 == p) with
        | some x => x.2
        | none => .invalid
      now := now
      kaId := fun n => kas.getD n 0
      clientIp := ip }
    some (⟨secret, expiry, maxLen, addr⟩, E, ins)
  | _ => none

def build (toks : List String) : Option (Cfg × Env × List In) := do
  let (C, E, ins) ← buildEnv toks
  some (C, E, ← ins.mapM parseIn)

/-- byte-level inputs: `R<hex>` = these bytes arrive (one `byte` input each), `T`, `A`, `E` -/
def parseIn1 (t : String) : Option (List In1) :=
  if t == "T" then some [.tick] else if t == "A" then some [.adapterDone] else if t == "E" then some [.eof]
  else match t.toList with
    | 'R' :: cs => (hex? (String.ofList ('x' :: cs))).map (fun b => b.map In1.byte)
    | _ => none

/-- the handler races an adapter call against frame processing in a randomly ordered `select!`: when
    client input that is already buffered ends the connection in that very poll, whether the
    adapter call had been *started* is scheduler-dependent and without consequence.  Both sides drop
    a trailing routing call that is followed at once by a client-caused error. -/
def dropRacyCall (evs : List String) (res : String) : List String :=
  if res.startsWith "err:" && res != "err:adapter" && res != "err:no-target" then
    match evs.reverse with
    | last :: rest =>
      if last == "call:discover" || last.startsWith "call:filter:" || last.startsWith "call:select:" then rest.reverse else evs
    | [] => evs
  else evs

def render (outs : List Out) : String :=
  let res := resultStr outs
  let evs := dropRacyCall (outs.filterMap outStr) res
  (if evs.isEmpty then "" else ";".intercalate evs ++ " ") ++ "=> " ++ res

/-- `conn.run cfg … | env … | in …` → events `;`-joined, then ` => result` -/
def handle : List String → Option String
  | "conn.run" :: rest => do
    let (C, E, ins) ← build rest
    let r := run C E {} ins
    some (render r.2)
  | "conn1.run" :: rest => do
    let (C, E, ins) ← buildEnv rest
    let ins1 := (← ins.mapM parseIn1).flatten
    let r := run1 C E {} ins1
    some (render r.2)
  | _ => none

end Passage.Driver.Conn
