import Passage.Driver.Common
import Passage.Locale
/-
  `c03.loc <default> <locale|-> <key> <tables>` → the message of the built-in localisation model.
  tables: `loc=key:val,key:val;loc=…` (all hex), `-` when there is none.
-/
namespace Passage.Driver.C03
open Passage Passage.Driver Passage.Locale

def parseKv (s : String) : Option (Bytes × Bytes) :=
  match s.splitOn ":" with
  | [k, v] => do some (← hex? k, ← hex? v)
  | _ => none

def parseTable (s : String) : Option (Bytes × List (Bytes × Bytes)) :=
  match s.splitOn "=" with
  | [l, kvs] => do
    let l ← hex? l
    let kvs ← if kvs = "" then some [] else (kvs.splitOn ",").mapM parseKv
    some (l, kvs)
  | _ => none

def handle : List String → Option String
  | ["c03.loc", d, l, k, ts] => do
    let d ← hex? d
    let l ← if l = "-" then some none else (hex? l).map some
    let k ← hex? k
    let tables ← if ts = "-" then some [] else (ts.splitOn ";").mapM parseTable
    some (Hex.encode (localize d tables l k))
  | _ => none

end Passage.Driver.C03
