import Passage.Driver.Common
import Passage.McHash
namespace Passage.Driver.C11
open Passage Passage.Driver

/-- `c11.hash <serverId> <secret> <pub>` → hex text of the hash as produced by the Impl model, and
    `c11.fmt <digest>` → Impl and Spec formatting of an arbitrary digest (must agree). -/
def handle : List String → Option String
  | ["c11.hash", a, b, c] => do
    let a ← hex? a; let b ← hex? b; let c ← hex? c
    some (Hex.encode (McHash.Impl.mcHash a b c))
  | ["c11.fmt", d] => do
    let d ← hex? d
    some (Hex.encode (McHash.Impl.signedHex d) ++ " " ++ Hex.encode (McHash.Spec.signedHex d))
  | _ => none

end Passage.Driver.C11
