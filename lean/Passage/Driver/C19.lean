import Passage.Driver.Common
import Passage.Grpc
import Passage.NetText
namespace Passage.Driver.C19
open Passage Passage.Driver Passage.Grpc

def parseMd (s : String) : Option (List (Bytes × Bytes)) :=
  if s == "" then some [] else (s.splitOn ";").mapM fun kv => match kv.splitOn "=" with
    | [k, v] => do some (← hex? k, ← hex? v)
    | _ => none

/-- `<id>/<host|->/<port>/<k=v;k=v>` -/
def parseWire (s : String) : Option WireTarget :=
  match s.splitOn "/" with
  | [i, h, p, m] => do
    let i ← hex? i; let p ← p.toNat?; let m ← parseMd m
    if h == "-" then some ⟨i, none, m⟩ else some ⟨i, some (← hex? h, p), m⟩
  | _ => none

def sortMd (m : List (Bytes × Bytes)) : List (Bytes × Bytes) :=
  (m.toArray.qsort (fun a b => Hex.encode a.1 ++ "=" ++ Hex.encode a.2 < Hex.encode b.1 ++ "=" ++ Hex.encode b.2)).toList

def mdStr (m : List (Bytes × Bytes)) : String :=
  ";".intercalate ((sortMd m).map fun kv => Hex.encode kv.1 ++ "=" ++ Hex.encode kv.2)

def wireStr (w : WireTarget) : String :=
  match w.addr with
  | none => s!"{Hex.encode w.id}/-/0/{mdStr w.md}"
  | some (h, p) => s!"{Hex.encode w.id}/{Hex.encode h}/{p}/{mdStr w.md}"

def targetStr (t : Target Bytes) : String := s!"{Hex.encode t.id}/{Hex.encode t.ip}/{t.port}/{mdStr t.md}"

def parseTarget (s : String) : Option (Target Bytes) := do
  let w ← parseWire s
  let (h, p) ← w.addr
  some ⟨w.id, h, p, w.md⟩

def kvs (toks : List String) (k : String) : List String :=
  toks.filterMap fun t => if t.startsWith (k ++ "=") then some ((t.drop (k.length + 1)).toString) else none

/-- recorded verdicts of `IpAddr::from_str`: `ip=<host>:<canonical text|->` -/
def ipOracle (toks : List String) : Bytes → Option Bytes := fun h =>
  let hit : Option (Option Bytes) := (kvs toks "ip").findSome? fun e => match e.splitOn ":" with
    | [a, b] => if hex? a == some h then (if b == "-" then some (none : Option Bytes) else (hex? b).map some) else none
    | _ => none
  -- an IPv4 text is decided by the model's own parser and printed by its own printer (NetText); the recorded
  -- verdict of std::net is used for everything else (IPv6 text)
  match NetText.parseV4 h with
  | some x => some (NetText.showV4 x)
  | none =>
    match hit with
    | some r => r
    | none => none

def handle : List String → Option String
  | "c19.disc" :: rest => do
    let ws ← (kvs rest "w").mapM parseWire
    match discoverResult (ipOracle rest) ws with
    | none => some "err"
    | some ts => some (" ".intercalate ("ok" :: ts.map targetStr))
  | "c19.select" :: rest => do
    let cands ← (kvs rest "c").mapM parseTarget
    let get := fun k => (kvs rest k).head?
    let (ch, cp) ← match (← get "client").splitOn ":" with | [a, b] => do some (← hex? a, ← b.toNat?) | _ => none
    let (sh, sp) ← match (← get "server").splitOn ":" with | [a, b] => do some (← hex? a, ← b.toNat?) | _ => none
    let proto ← (← get "proto").toInt?
    let user ← hex? (← get "user")
    let uid ← hex? (← get "uid")
    let r := selectRequest id ch cp sh sp proto user uid cands
    let reply ← match (← get "reply") with
      | "none" => some none
      | "error" => some (some none)
      | s => (parseWire s).map (fun w => some (some w))
    let res := match reply with
      | none => "ok none"
      | some none => "err"
      | some (some w) => match fromWire (ipOracle rest) w with
        | none => "err"
        | some t => "ok " ++ targetStr t
    some s!"req {Hex.encode r.clientHost}:{r.clientPort} {Hex.encode r.serverHost}:{r.serverPort} {r.protocol} {Hex.encode r.username} {Hex.encode r.userId} [{" ".intercalate (r.targets.map wireStr)}] => {res}"
  | "c19.v4" :: rest => do
    let t ← hex? (← (kvs rest "t").head?)
    match NetText.parseV4 t with
    | none => some "v4 -"
    | some x => some s!"v4 {x.a.val}.{x.b.val}.{x.c.val}.{x.d.val} {Hex.encode (NetText.showV4 x)}"
  | _ => none

end Passage.Driver.C19
