import Passage.Driver.Common
import Passage.Listener
import Passage.Extracted.Listener
import Passage.Conn.ByteLevel
import Passage.Proxy
import Passage.NetText
/-
  line handlers for the listener layer (C14–C17).  Every answer is computed from the structure
  facts re-extracted from the source on this run (`Passage.Extracted.listener`): without facts the
  answer is `no-facts`, never a default.
-/
namespace Passage.Driver.Listener
open Passage Passage.Driver Passage.Listener

def kv (toks : List String) (k : String) : Option String :=
  toks.findSome? fun t => match t.splitOn "=" with
    | [a, b] => if a = k then some b else none
    | _ => none

def kvNat (toks : List String) (k : String) : Option Nat := (kv toks k).bind String.toNat?

def optNat (s : String) : Option (Option Nat) :=
  if s = "none" then some none else s.toNat?.map some

def plumbingOf (f : Passage.Extracted.ListenerFacts) : Plumbing :=
  { maxLen := f.cfgMaxLen && f.connMaxLen, expiry := f.cfgExpiry && f.connExpiry,
    secret := f.cfgSecret && f.connSecret, timeout := f.cfgTimeout && f.connTimeout }
def deadlineOf (f : Passage.Extracted.ListenerFacts) : Deadline :=
  ⟨f.headerUnderDeadline, f.listenUnderDeadline, f.singleDeadlineFromAccept, f.shutdownAfterListen⟩
def skeletonOf (f : Passage.Extracted.ListenerFacts) (proxy : Bool) : Skeleton :=
  ⟨f.stopBiased, f.clientInputBeforeSpawn && proxy, f.closesTracker, f.waitsTracker⟩

def leb (fuel n : Nat) : Bytes :=
  match fuel with
  | 0 => []
  | f + 1 => if n < 128 then [UInt8.ofNat n] else UInt8.ofNat (n % 128 + 128) :: leb f (n / 128)

def parseConn (s : String) : Option Conn :=
  match s.splitOn "/" with
  | [p, h] => do
    let p ← p.toNat?
    let hc := h.toList
    match hc with
    | ['n'] => some ⟨p, .noAddress⟩
    | ['i'] => some ⟨p, .invalid⟩
    | 's' :: r => (String.ofList r).toNat?.map fun ip => ⟨p, .source ip⟩
    | _ => none
  | _ => none

/-- `k:v,k:v` with hex keys → association list; values parsed by `f` -/
def parseTable {α} (f : String → Option α) (s : String) : Option (List (Bytes × α)) :=
  if s = "-" then some [] else
  (s.splitOn ",").mapM fun kv => match kv.splitOn ":" with
    | [k, v] => do some (← hex? k, ← f v)
    | _ => none

def lookupB {α} (k : Bytes) : List (Bytes × α) → Option α
  | [] => none
  | (k', v) :: r => if k' = k then some v else lookupB k r

/-- the header class of a first segment, computed by the PROXY parser model; `none` = the parser still waits -/
def classify (C : Proxy.Cfg) (ip4 ip6 : List (Bytes × Option Bytes)) (ids : List (Bytes × Nat)) (first : Bytes) : Option Header :=
  -- IPv4 source texts are decided by the model's own `Ipv4Addr::from_str` (NetText); a recorded std verdict that
  -- differs from it poisons the address (five bytes, in no identity table), which shows up as a disagreement
  let v4 : Bytes → Option Bytes := fun t =>
    match lookupB t ip4 with
    | some r => if r = NetText.parseV4Octets t then r else some [222, 173, 190, 239, 0]
    | none => NetText.parseV4Octets t
  match Proxy.parse C v4 (fun t => (lookupB t ip6).join) first with
  | .tooShort => none
  | .invalid => some .invalid
  | .ok none _ => some .noAddress
  | .ok (some s) _ => (lookupB s.ip ids).map Header.source

def verdictStr : Verdict → String
  | .served a => s!"S{a}"
  | .refused => "R"
  | .closedUnserved => "C"

/-- the actions of `k` stalled clients then a well-behaved one (id 0) -/
def c16Acts (stages : List String) : List Act :=
  let stalled := (stages.zipIdx).flatMap fun (st, i) =>
    [Act.arrive (i + 1), .loopStep true] ++ (if st = "pre" ∨ st = "in" then [] else [.clientInput (i + 1)])
  stalled ++ [.arrive 0, .loopStep true, .loopStep true, .clientInput 0]

def range1 (k : Nat) : List Nat := (List.range k).map (· + 1)

def handleF (f : Passage.Extracted.ListenerFacts) (toks : List String) : Option String :=
  match toks with
  | "c14.limit" :: r => do
    let cfgmax ← kvNat r "cfgmax"
    let len ← kvNat r "len"
    let eff := (connCfg (plumbingOf f) ⟨cfgmax, 0, none, 0⟩).maxLen
    match Conn.nextFrame eff (leb 5 len) with
    | .illegal => some "refused"
    | _ => some "buffered"
  | "c14.cookie" :: r => do
    let cfgexp ← kvNat r "cfgexp"
    let age ← kvNat r "age"
    let same ← kvNat r "same"
    let nosecret := (kvNat r "nosecret").getD 0
    let cc := connCfg (plumbingOf f) ⟨0, cfgexp, if nosecret = 1 then none else some [1], 0⟩
    match cc.secret with
    | none => some "norequest"
    | some _ => some (if same = 1 ∧ age ≤ cc.expiry then "accept" else "reject")
  | "c14.issued" :: r => do
    -- a cookie issued now by this server (timestamp = now, in seconds) and presented `wait` seconds later
    let cfgexp ← kvNat r "cfgexp"
    let wait ← kvNat r "wait"
    let cc := connCfg (plumbingOf f) ⟨0, cfgexp, some [1], 0⟩
    match cc.secret with
    | none => some "noissue"
    | some _ => some (if wait ≤ cc.expiry then "accept" else "reject")
  | "c14.deadline" :: r => do
    let timeout ← kvNat r "timeout"
    let proxy ← kvNat r "proxy"
    let header ← (kv r "header").bind optNat
    let proto ← (kv r "proto").bind optNat
    let t := (connCfg (plumbingOf f) ⟨0, 0, none, timeout⟩).timeout * (if (plumbingOf f).timeout then 1 else 1000)
    let header := if proxy = 1 then header else some 0
    match closeTime (deadlineOf f) t header proto with
    | none => some "never"
    | some x => some s!"at={x}"
  | "c15.run" :: r => do
    let proxy ← kvNat r "proxy"
    let lim ← kv r "limit"
    let conns ← kv r "conns"
    let cs0 ← (conns.splitOn ";").mapM parseConn
    -- when the raw first segments are given, the header class comes from the parser model, not from the recorded class
    let cs ← match kv r "firsts" with
      | none => some cs0
      | some fs => do
        if proxy ≠ 1 then some cs0 else
        let firsts ← (fs.splitOn ";").mapM hex?
        let allow ← kv r "allow"
        let C : Proxy.Cfg := ⟨allow.toList.head? == some '1', (allow.toList.drop 1).head? == some '1'⟩
        let optB : String → Option (Option Bytes) := fun v => if v = "-" then some none else (hex? v).map some
        let ip4 ← parseTable optB ((kv r "ip4o").getD "-")
        let ip6 ← parseTable optB ((kv r "ip6o").getD "-")
        let ids ← parseTable String.toNat? ((kv r "ids").getD "-")
        if firsts.length ≠ cs0.length then none else
        (cs0.zip firsts).mapM fun (c, f) => (classify C ip4 ip6 ids f).map fun h => ({ c with header := h } : Conn)
    let s : AdmState ← if lim = "off" then some ⟨none⟩ else lim.toNat?.map fun _ => ⟨some RL.init⟩
    let cfg : RL.Cfg := ⟨3600000000000, lim.toNat?.getD 0⟩
    let served := f.limiterBeforeConnection && f.limiterOnEffectiveAddr && f.connAddr
    if !served then some "no-facts" else
    some (",".intercalate ((admitAll RL.exactArith cfg (proxy = 1) s (cs.map fun c => (c, 0))).map verdictStr))
  | "c16.run" :: r => do
    let proxy ← kvNat r "proxy"
    let stages ← kv r "stalled"
    let st := if stages = "-" then [] else stages.splitOn ","
    let s := run (skeletonOf f (proxy = 1)) {} (c16Acts st)
    some (if getTask 0 s.tasks = some .serving then "served" else "blocked")
  | "c17.run" :: r => do
    let k ← kvNat r "inflight"
    let m ← kvNat r "late"
    let K := skeletonOf f false
    let ids := range1 k
    let lateIds := (List.range m).map (· + k + 1)
    let a1 := ids.flatMap (fun i => [Act.arrive i, .loopStep true, .clientInput i])
    let a2 := [Act.requestStop, .loopStep true] ++ lateIds.flatMap (fun i => [Act.arrive i, .loopStep true]) ++ [.loopStep true, .loopStep true]
    let s2 := run K {} (a1 ++ a2)
    let early := s2.loop == .returned && !(allDone s2.tasks) && k > 0
    let s3 := run K s2 (ids.map Act.taskFinish ++ lateIds.map Act.taskFinish ++ [.loopStep true, .loopStep true])
    some s!"late={s2.acceptedAfterStop.length} early_return={boolStr early} returned={boolStr (s3.loop == .returned)}"
  | "c17.race" :: _ =>
    let K := skeletonOf f false
    let s := run K {} [.requestStop, .arrive 1, .loopStep true]
    some s!"late={s.acceptedAfterStop.length}"
  | _ => none

def isListenerOp (toks : List String) : Bool :=
  match toks with
  | op :: _ => op.startsWith "c14." || op.startsWith "c15." || op.startsWith "c16." || op.startsWith "c17."
  | _ => false

def handle (toks : List String) : Option String :=
  if !isListenerOp toks then none else
  match Passage.Extracted.listener with
  | none => some "no-facts"
  | some f => handleF f toks

end Passage.Driver.Listener
