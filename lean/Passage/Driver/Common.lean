import Passage.Util.Bytes
/- helpers shared by the per-model line handlers of the driver -/
namespace Passage.Driver

def tokens (line : String) : List String :=
  (line.trimAscii.toString.splitOn " ").filter (· ≠ "")

def hex? (s : String) : Option Bytes := Hex.decode s

def boolStr (b : Bool) : String := if b then "1" else "0"

end Passage.Driver
