import Passage.Driver.Common
import Passage.Filter
namespace Passage.Driver.C18
open Passage Passage.Driver Passage.Filter

abbrev P (α : Type) := List String → Option (α × List String)

def tok : P String
  | [] => none
  | t :: r => some (t, r)

def pHex : P Bytes := fun ts => do let (t, r) ← tok ts; let b ← hex? t; some (b, r)
def pNat : P Nat := fun ts => do let (t, r) ← tok ts; let n ← t.toNat?; some (n, r)

def many {α} (p : P α) : Nat → P (List α)
  | 0, ts => some ([], ts)
  | n + 1, ts => do let (a, r) ← p ts; let (as, r) ← many p n r; some (a :: as, r)

def counted {α} (p : P α) : P (List α) := fun ts => do let (n, r) ← pNat ts; many p n r

def pOp : P Op := fun ts => do
  let (t, r) ← tok ts
  match t with
  | "eq" => do let (v, r) ← pHex r; some (.eq v, r)
  | "ne" => do let (v, r) ← pHex r; some (.ne v, r)
  | "ex" => some (.ex, r)
  | "nex" => some (.nex, r)
  | "in" => do let (vs, r) ← counted pHex r; some (.isIn vs, r)
  | "nin" => do let (vs, r) ← counted pHex r; some (.notIn vs, r)
  | _ => none

def pRule : P Rule := fun ts => do let (k, r) ← pHex ts; let (o, r) ← pOp r; some (⟨k, o⟩, r)

def pOptBit (pre : String) : P (Option Bool) := fun ts => do
  let (t, r) ← tok ts
  if t == pre ++ "-" then some (none, r)
  else if t == pre ++ "0" then some (some false, r)
  else if t == pre ++ "1" then some (some true, r)
  else none

def pOptList {α} (p : P α) : P (Option (List α)) := fun ts => do
  let (t, r) ← tok ts
  if t == "-" then some (none, r) else do
    let n ← t.toNat?
    let (xs, r) ← many p n r
    some (some xs, r)

def pPlayerList : P PlayerList := fun ts => do
  let (ns, r) ← pOptList pHex ts
  let (rx, r) ← pOptBit "r" r
  let (ids, r) ← pOptList pNat r
  some (⟨ns, rx, ids⟩, r)

def pFilt : P Filt := fun ts => do
  let (h, r) ← pOptBit "h" ts
  let (k, r) ← tok r
  match k with
  | "rules" => do let (rs, r) ← counted pRule r; some (⟨h, .rules rs⟩, r)
  | "allow" => do let (l, r) ← pPlayerList r; some (⟨h, .allow l⟩, r)
  | "block" => do let (l, r) ← pPlayerList r; some (⟨h, .block l⟩, r)
  | _ => none

def pKV : P (Bytes × Bytes) := fun ts => do let (k, r) ← pHex ts; let (v, r) ← pHex r; some ((k, v), r)
def pTarget : P Target := fun ts => do let (i, r) ← pHex ts; let (m, r) ← counted pKV r; some (⟨i, m⟩, r)

def ids (ts : List Target) : String := ",".intercalate (ts.map (fun t => Hex.encode t.id))

/-- `c18.run <name> <uuid> <nfilters> filters… any|fill <field> <max> <ntargets> targets…` -/
def handle : List String → Option String
  | "c18.run" :: rest => do
    let (name, r) ← pHex rest
    let (uid, r) ← pNat r
    let (fs, r) ← counted pFilt r
    let (st, r) ← tok r
    let p : Player := ⟨name, uid⟩
    match st with
    | "any" => do
      let (ts, _) ← counted pTarget r
      let f := Impl.chain fs p ts
      some s!"filtered={ids f} chosen={match Impl.selectAny f with | some t => Hex.encode t.id | none => "-"}"
    | "fill" => do
      let (field, r) ← pHex r
      let (mx, r) ← pNat r
      let (ts, _) ← counted pTarget r
      let f := Impl.chain fs p ts
      some s!"filtered={ids f} chosen={match Impl.selectFill field mx f with | some t => Hex.encode t.id | none => "-"}"
    | _ => none
  | _ => none

end Passage.Driver.C18
