import Passage.Driver.Common
import Passage.RateLimiter
namespace Passage.Driver.C13
open Passage Passage.Driver Passage.RL

def parseEv (s : String) : Option (Nat × Nat) :=
  match s.splitOn ":" with
  | [k, t] => do let k ← k.toNat?; let t ← t.toNat?; some (k, t)
  | _ => none

/-- digest of the tracked key set: count, sum, sum of squares (order-independent) -/
def keyDigest (bs : List (Nat × Bucket)) : String :=
  let ks := bs.map (·.1)
  s!"{ks.length}/{ks.foldl (· + ·) 0}/{ks.foldl (fun a k => a + k * k) 0}"

def go (c : Cfg) : State → List (Nat × Nat) → List Char → List String → List Char × List String
  | _, [], ds, tr => (ds.reverse, tr.reverse)
  | s, (k, t) :: h, ds, tr =>
    let r := enqueue exactArith c s k t
    go c r.1 h ((if r.2 then '1' else '0') :: ds) (if r.2 then keyDigest r.1.buckets :: tr else tr)

/-- `n` attempts of one key at one instant: how many are admitted -/
def satCount (c : Cfg) : Nat → Bucket → Nat → Nat
  | 0, _, acc => acc
  | n + 1, b, acc =>
    let r := stepB exactArith c b 0
    satCount c n r.1 (if r.2 then acc + 1 else acc)

/-- `c13.run <limit> <d_ns> k:t k:t …` → `dec=<bits> tracked=<digest after each admitted attempt>` -/
def handle : List String → Option String
  | "c13.run" :: limit :: d :: evs => do
    let limit ← limit.toNat?
    let d ← d.toNat?
    let evs ← evs.mapM parseEv
    let (ds, tr) := go ⟨d, limit⟩ init evs [] []
    some s!"dec={String.ofList ds} tracked={",".intercalate tr}"
  | ["c13.sat", limit, d, n] => do
    let limit ← limit.toNat?
    let d ← d.toNat?
    let n ← n.toNat?
    some s!"admitted={satCount ⟨d, limit⟩ n (freshB 0) 0}"
  | _ => none

end Passage.Driver.C13
