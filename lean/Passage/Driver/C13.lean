import Passage.Driver.Common
import Passage.RateLimiter
import Passage.Props.C13
namespace Passage.Driver.C13
open Passage Passage.Driver Passage.RL

def parseEv (s : String) : Option (Nat × Nat) :=
  match s.splitOn ":" with
  | [k, t] => do let k ← k.toNat?; let t ← t.toNat?; some (k, t)
  | _ => none

/-- digest of the tracked key set: count, sum, sum of squares (order-independent) -/
def keyDigest (bs : List (Nat × Bucket)) : String :=
  let ks := bs.map (·.1)
  s!"{ks.length}/{ks.foldl (· + ·) 0}/{ks.foldl (fun a k => a + k * k) 0}"

def go (c : Cfg) : State → List (Nat × Nat) → List Char → List String → List Char × List String
  | _, [], ds, tr => (ds.reverse, tr.reverse)
  | s, (k, t) :: h, ds, tr =>
    let r := enqueue exactArith c s k t
    go c r.1 h ((if r.2 then '1' else '0') :: ds) (if r.2 then keyDigest r.1.buckets :: tr else tr)

/-- `n` attempts of one key at one instant: how many are admitted -/
def satCount (c : Cfg) : Nat → Bucket → Nat → Nat
  | 0, _, acc => acc
  | n + 1, b, acc =>
    let r := stepB exactArith c b 0
    satCount c n r.1 (if r.2 then acc + 1 else acc)

/-! ### the binary32 arithmetic of the real limiter, executable only (`Float32` is opaque to the kernel) -/

/-- `Duration::as_secs_f32`: `(secs as f32) + (nanos as f32) / (1_000_000_000 as f32)` -/
def secsF32 (ns : Nat) : Float32 :=
  (UInt64.ofNat (ns / 1000000000)).toFloat32 + (UInt32.ofNat (ns % 1000000000)).toFloat32 / (UInt32.ofNat 1000000000).toFloat32

/-- a counter built by `+= 1f32` from zero: exact up to 2^24, where it stops growing -/
def counterF32 (n : Nat) : Float32 := (UInt32.ofNat (min n 16777216)).toFloat32

/-- `!(last * (1 - age/d) + current >= limit)` with every operation in binary32; `limit as f32` from the `usize` -/
def allowF32 (prev cur limit age d : Nat) : Bool :=
  let w := secsF32 age / secsF32 d
  let v := counterF32 prev * (1.0 - w) + counterF32 cur
  !(decide (v ≥ (UInt64.ofNat limit).toFloat32))

/-- binary32 run; besides decisions and tracked keys: the first call on which the binary32 arithmetic broke law L1 or
    L2 (counted in `Nat` while counters are below 2^24), and on how many calls it differed from the exact arithmetic -/
def goF (c : Cfg) : State → List (Nat × Nat) → List Char → List String → Option Nat → Nat → Nat → List Char × List String × Option Nat × Nat
  | _, [], ds, tr, bad, _, diff => (ds.reverse, tr.reverse, bad, diff)
  | s, (k, t) :: h, ds, tr, bad, i, diff =>
    let b1 := roll c t ((lookup k s.buckets).getD (freshB t))
    let lawOk := Passage.Props.C13.lawsHoldAt allowF32 b1.prev b1.cur c.limit (t - b1.win) c.d
    let same := allowF32 b1.prev b1.cur c.limit (t - b1.win) c.d == exactArith.allow b1.prev b1.cur c.limit (t - b1.win) c.d
    let r := enqueueF allowF32 c s k t
    goF c r.1 h ((if r.2 then '1' else '0') :: ds) (if r.2 then keyDigest r.1.buckets :: tr else tr)
      (if bad.isNone && !lawOk then some i else bad) (i + 1) (if same then diff else diff + 1)

/-- `c13.run <limit> <d_ns> k:t k:t …` → `dec=<bits> tracked=<digest after each admitted attempt>` -/
def handle : List String → Option String
  | "c13.run" :: limit :: d :: evs => do
    let limit ← limit.toNat?
    let d ← d.toNat?
    let evs ← evs.mapM parseEv
    let (ds, tr) := go ⟨d, limit⟩ init evs [] []
    some s!"dec={String.ofList ds} tracked={",".intercalate tr}"
  | "c13.f32" :: limit :: d :: evs => do
    let limit ← limit.toNat?
    let d ← d.toNat?
    let evs ← evs.mapM parseEv
    let (ds, tr, bad, _) := goF ⟨d, limit⟩ init evs [] [] none 0 0
    some s!"dec={String.ofList ds} tracked={",".intercalate tr} laws={match bad with | none => "ok" | some i => s!"broken@{i}"}"
  | ["c13.sat", limit, d, n] => do
    let limit ← limit.toNat?
    let d ← d.toNat?
    let n ← n.toNat?
    some s!"admitted={satCount ⟨d, limit⟩ n (freshB 0) 0}"
  | _ => none

end Passage.Driver.C13
