import Passage.Driver.Common
import Passage.NetText
import Passage.Agones
namespace Passage.Driver.C20
open Passage Passage.Driver Passage.Agones

def parseKV (s : String) : Option (List (Bytes × Bytes)) :=
  if s == "" then some [] else (s.splitOn ";").mapM fun kv => match kv.splitOn "=" with
    | [k, v] => do some (← hex? k, ← hex? v)
    | _ => none

/-- `<name>:<address>:<ports>:<state>:<c…|->:<l…|->:L<labels>:A<annotations>` or `<name>:nostatus:L…:A…` -/
def parseGs (parts : List String) : Option GameServer :=
  let tail2 := fun (l a : String) => do
    let l ← parseKV ((l.drop 1).toString); let a ← parseKV ((a.drop 1).toString); some (l, a)
  match parts with
  | [name, "nostatus", l, a] => do
    let (l, a) ← tail2 l a
    some ⟨some (← hex? name), none, l, a⟩
  | [name, addr, ports, state, cs, ls, l, a] => do
    let (l, a) ← tail2 l a
    let ports ← if ports == "" then some [] else (ports.splitOn ",").mapM String.toNat?
    let cs ← if cs == "-" then some none else
      (if (cs.drop 1).toString == "" then some (some []) else
        ((cs.drop 1).toString.splitOn ";").mapM (fun (kv : String) => match kv.splitOn "=" with
          | [k, v] => do some (← hex? k, if v == "-" then none else v.toNat?)
          | _ => none) |>.map some)
    let ls ← if ls == "-" then some none else
      (if (ls.drop 1).toString == "" then some (some []) else
        ((ls.drop 1).toString.splitOn ";").mapM (fun (kv : String) => match kv.splitOn "=" with
          | [k, v] => do some (← hex? k, ← (if v == "" then some [] else (v.splitOn ",").mapM hex?))
          | _ => none) |>.map some)
    some ⟨some (← hex? name), some ⟨← hex? addr, ports, ← hex? state, cs, ls⟩, l, a⟩
  | _ => none

def parseEv (t : String) : Option (Option Ev) :=
  if t == "init" then some (some .init) else if t == "done" then some (some .initDone) else if t == "S" then some none
  else match t.splitOn ":" with
    | "ia" :: rest => (parseGs rest).map (fun g => some (.initApply g))
    | "ap" :: rest => (parseGs rest).map (fun g => some (.apply g))
    | "de" :: rest => (parseGs rest).map (fun g => some (.delete g))
    | _ => none

def sortStr (l : List String) : List String := (l.toArray.qsort (· < ·)).toList

def targetStr (t : Target) : String :=
  s!"{Hex.encode t.id}/{Hex.encode t.ip}/{t.port}/{";".intercalate (sortStr (t.md.map fun kv => Hex.encode kv.1 ++ "=" ++ Hex.encode kv.2))}"

def snapshot (s : St) : String := " ".intercalate (sortStr (s.cache.map targetStr))

def go (parseIp : Bytes → Option Bytes) : St → List (Option Ev) → List String → List String
  | _, [], acc => acc.reverse
  | s, none :: r, acc => go parseIp s r (snapshot s :: acc)
  | s, some e :: r, acc => go parseIp (reduce parseIp s e) r acc

/-- `c20.run ip=… | events…` with `S` marking snapshot points → snapshots joined by ` | ` -/
def handle : List String → Option String
  | "c20.run" :: rest => do
    let ips := rest.filterMap fun t => if t.startsWith "ip=" then some ((t.drop 3).toString) else none
    -- an IPv4 `status.address` is decided by the model's own parser and printer (NetText); std::net's recorded verdict is used
    -- for everything else
    let parseIp : Bytes → Option Bytes := fun h =>
      match NetText.parseV4 h with
      | some x => some (NetText.showV4 x)
      | none =>
      match ips.findSome? (fun e => match e.splitOn ":" with
        | [a, b] => if hex? a == some h then some (if b == "-" then (none : Option Bytes) else hex? b) else none
        | _ => none) with
      | some r => r
      | none => none
    let evToks := (rest.dropWhile (· != "|")).drop 1
    let evs ← evToks.mapM parseEv
    some (" | ".intercalate (go parseIp {} evs []))
  | _ => none

end Passage.Driver.C20
