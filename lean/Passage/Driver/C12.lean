import Passage.Driver.Common
import Passage.Url
namespace Passage.Driver.C12
open Passage Passage.Driver

/-- `c12.req <serverId> <secret> <pub> <name>` → request target of the has-joined call, and the
    server-side parse of its query -/
def handle : List String → Option String
  | ["c12.req", sid, sec, pk, name] => do
    let sid ← hex? sid; let sec ← hex? sec; let pk ← hex? pk; let name ← hex? name
    let hash := McHash.Impl.mcHash sid sec pk
    let t := Url.target name hash
    let q := Url.parseQuery (Url.query name hash)
    some s!"target={Hex.encode t} params={",".intercalate (q.map fun kv => Hex.encode kv.1 ++ "=" ++ Hex.encode kv.2)}"
  | _ => none

end Passage.Driver.C12
