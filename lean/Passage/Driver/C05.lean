import Passage.Driver.Common
import Passage.CipherStream
namespace Passage.Driver.C05
open Passage Passage.Driver Passage.CipherStream

def parseW (t : String) : Option WResp :=
  if t == "p" then some .pending
  else match t.toList with
    | 'a' :: cs => (String.ofList cs).toNat?.map .accept
    | _ => none

def parseR (t : String) : Option RResp :=
  if t == "p" then some .pending else (hex? t).map .data

structure Sess where
  enc : Option Crypto.Cfb8State
  dec : Option Crypto.Cfb8State

/-- one op: `w <plain> <sched…>` | `s <secret>` | `r <chunk|p>…` | `h` (the sending side is shut down: a half-close
    changes neither cipher state) -/
def stepOp (s : Sess) : List String → Option (Sess × String)
  | "w" :: plain :: sch => do
    let b ← hex? plain
    -- `e` = the transport refuses that poll with an error and takes nothing: the write ends there, which is what the
    -- model's exhausted schedule means (state as after the last accepted byte; a later write continues from it)
    let sch ← (sch.takeWhile (· != "e")).mapM parseW
    let r := writeAll (pollWrite aesCfb8) s.enc b sch
    some ({ s with enc := r.st }, s!"w:{r.written.length}:{Hex.encode r.accepted}")
  | ["s", secret] => do
    let k ← hex? secret
    let st ← Crypto.cfb8Init k k
    some (⟨some st, some st⟩, "s")
  | ["h"] => some (s, "h")
  | "r" :: chunks => do
    let sch ← chunks.mapM parseR
    let r := readAll aesCfb8 s.dec sch
    some ({ s with dec := r.st }, s!"r:{Hex.encode r.surfaced}")
  | _ => none

def splitOps (ts : List String) : List (List String) :=
  (ts.foldr (fun t acc => if t == "|" then [] :: acc else match acc with
    | [] => [[t]]
    | a :: rest => (t :: a) :: rest) [[]])

def runOps : Sess → List (List String) → List String → Option (List String)
  | _, [], out => some out.reverse
  | s, op :: ops, out => do
    let (s', o) ← stepOp s op
    runOps s' ops (o :: out)

/-- `c05.session op | op | …` -/
def handle : List String → Option String
  | "c05.session" :: rest => do
    let outs ← runOps ⟨none, none⟩ (splitOps rest) []
    some ("|".intercalate outs)
  | _ => none

end Passage.Driver.C05
