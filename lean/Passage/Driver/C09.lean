import Passage.Driver.Common
import Passage.Codec.Packets
import Passage.Codec.Nbt
namespace Passage.Driver.C09
open Passage Passage.Driver Passage.Codec

def valTok : Option Val → String
  | none => "-"
  | some (.int i) => s!"i{i}"
  | some (.bytes b) => Hex.encode b
  | some (.bool true) => "t"
  | some (.bool false) => "f"
  | some .unit => "u"

def parseVal (s : String) : Option (Option Val) :=
  if s == "-" then some none
  else if s == "t" then some (some (.bool true))
  else if s == "f" then some (some (.bool false))
  else if s == "u" then some (some .unit)
  else match s.toList with
    | 'i' :: cs => (String.ofList cs).toInt?.map (fun i => some (.int i))
    | 'x' :: _ => (Hex.decode s).map (fun b => some (.bytes b))
    | _ => none

def outcomeStr {α} (f : α → String) : Outcome α → String
  | .ok a => f a
  | .err e => "err " ++ e.name
  | .panic s => "panic " ++ s

mutual
/-- prefix notation: `S <hex>` string, `B <n>` byte, `C <k>` followed by k × (`<hex name>` value) -/
def parseNbt : Nat → List String → Option (Nbt × List String)
  | 0, _ => none
  | _ + 1, "S" :: h :: r => (hex? h).map fun b => (.str b, r)
  | _ + 1, "B" :: v :: r => v.toNat?.map fun n => (.byte (UInt8.ofNat n), r)
  | f + 1, "C" :: n :: r => do
    let k ← n.toNat?
    let (es, r') ← parseEntries f k r
    some (.compound es, r')
  | _, _ => none
def parseEntries : Nat → Nat → List String → Option (NbtEntries × List String)
  | _, 0, r => some (.nil, r)
  | 0, _, _ => none
  | f + 1, k + 1, name :: r => do
    let nb ← hex? name
    let (v, r1) ← parseNbt f r
    let (es, r2) ← parseEntries f k r1
    some (.cons nb v es, r2)
  | _, _, _ => none
end

def handle : List String → Option String
  | ["c09.varint", i] => do
    let i ← i.toInt?
    some (Hex.encode (Impl.writeVarint (BitVec.ofInt 32 i)))
  | ["c09.varlong", i] => do
    let i ← i.toInt?
    some (Hex.encode (Impl.writeVarlong (BitVec.ofInt 64 i)))
  | ["c09.unvarint", h] => do
    let b ← hex? h
    some (outcomeStr (fun (v, r) => s!"ok {v.toInt} {r.length}") (Impl.readVarint b))
  | ["c09.unvarlong", h] => do
    let b ← hex? h
    some (outcomeStr (fun (v, r) => s!"ok {v.toInt} {r.length}") (Impl.readVarlong b))
  | "c09.enc" :: name :: vals => do
    let p ← findPacket name
    let vs ← vals.mapM parseVal
    match encodePacket p vs with
    | some b => some s!"id={p.id} {Hex.encode b}"
    | none => some "ill-typed"
  | "c09.nbt" :: toks => do
    -- a configuration-phase Disconnect whose reason is this compound text component
    let (n, rest) ← parseNbt (toks.length + 1) toks
    if rest ≠ [] then none else
    some s!"id=2 {Hex.encode n.encodeNet}"
  | ["c09.dec", name, h] => do
    let p ← findPacket name
    let b ← hex? h
    some (outcomeStr (fun (vs, r) => " ".intercalate (["ok"] ++ vs.map valTok ++ [s!"rest={r.length}"]))
      (decodePacket p b))
  | _ => none

end Passage.Driver.C09
