import Passage.Driver.Common
import Passage.Json.Str
import Passage.Codec.Utf8
namespace Passage.Driver.C10Json
open Passage Passage.Driver Passage.Json

def kv (toks : List String) (k : String) : Option String :=
  toks.findSome? fun t => if t.startsWith (k ++ "=") then some ((t.drop (k.length + 1)).toString) else none

def isInfix (p : Bytes) : Bytes → Bool
  | [] => p.isEmpty
  | b :: r => p.isPrefixOf (b :: r) || isInfix p r

def scanStr : Scan → String
  | .ok s [] => if Codec.validUtf8 s then "ok:" ++ Hex.encode s else "bad"   -- `String` contents must be UTF-8
  | .ok _ _ => "bad"          -- the token ended before the text did: trailing characters
  | .bad => "bad"

/-- `c10.jstr s=<text>`: the token the writer emits and what the reader makes of it;
    `c10.jscan b=<body>`: the reader on `"` body `"`;
    `c10.jfield payload=<json> key=<name> s=<text>`: does the object hold `"key":` followed by the token of the text -/
def handle : List String → Option String
  | "c10.jstr" :: rest => do
    let s ← hex? (← kv rest "s")
    some s!"w={Hex.encode (quote s)} r={scanStr (unquote (quote s))}"
  | "c10.jscan" :: rest => do
    let b ← hex? (← kv rest "b")
    some (scanStr (unquote (34 :: (b ++ [34]))))
  | "c10.jfield" :: rest => do
    let p ← hex? (← kv rest "payload")
    let k ← hex? (← kv rest "key")
    let s ← hex? (← kv rest "s")
    some (if isInfix (quote k ++ 58 :: quote s) p then "present" else "missing")
  | _ => none

end Passage.Driver.C10Json
