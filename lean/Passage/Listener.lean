import Passage.RateLimiter
import Passage.Util.Bytes
/-
  C14–C17 — model of `passage_protocol::listener::Listener` (accept loop, per-connection tasks,
  rate limiter, stop token, task tracker) and of the configuration plumbing.  The structure of the
  Rust (`Skeleton`) is a parameter: theorems are proved for every skeleton satisfying decidable
  well-formedness predicates and instantiated at the facts re-extracted from the source.
-/
namespace Passage.Listener

/-- what the await structure of `listen`/`handle` looks like -/
structure Skeleton where
  stopBiased : Bool               -- accept `select!` is `biased` with the stop branch first
  clientInputBeforeSpawn : Bool   -- the loop awaits client input (PROXY header) before spawning the task
  closesTracker : Bool
  waitsTracker : Bool
  deriving DecidableEq, Repr

/-! ### interleaving model (C16, C17) -/

inductive Loop
  | running
  | blockedOn (c : Nat)           -- awaiting connection c's PROXY header inline
  | stopped                       -- left the accept loop
  | returned                      -- `listen()` returned
  deriving DecidableEq, Repr

inductive Task | headerWait | serving | done
  deriving DecidableEq, Repr

structure St where
  loop : Loop := .running
  backlog : List Nat := []                 -- connections completed by the kernel, not yet accepted
  tasks : List (Nat × Task) := []          -- spawned per-connection tasks
  stopRequested : Bool := false
  acceptedAfterStop : List Nat := []       -- ghost: accepted although stop had been requested
  deriving Repr

inductive Act
  | arrive (c : Nat)
  | loopStep (preferAccept : Bool)  -- the scheduler's choice when an unbiased select has both ready
  | clientInput (c : Nat)           -- c sends what its current wait needs (header, or protocol input)
  | taskFinish (c : Nat)            -- c's task completes (normally or by its timeout)
  | requestStop
  deriving DecidableEq, Repr

def setTask (c : Nat) (t : Task) : List (Nat × Task) → List (Nat × Task)
  | [] => [(c, t)]
  | (c', t') :: r => if c' = c then (c, t) :: r else (c', t') :: setTask c t r

def getTask (c : Nat) : List (Nat × Task) → Option Task
  | [] => none
  | (c', t) :: r => if c' = c then some t else getTask c r

def allDone (ts : List (Nat × Task)) : Bool := ts.all (fun p => p.2 == .done)

def step (K : Skeleton) (s : St) : Act → St
  | .arrive c => { s with backlog := s.backlog ++ [c] }
  | .requestStop => { s with stopRequested := true }
  | .loopStep preferAccept =>
    match s.loop with
    | .running =>
      let canStop := s.stopRequested
      let canAccept := !s.backlog.isEmpty
      let takeStop := canStop && (K.stopBiased || !canAccept || !preferAccept)
      if takeStop then { s with loop := .stopped }
      else match s.backlog with
        | [] => s
        | c :: rest =>
          let ghost := if s.stopRequested then s.acceptedAfterStop ++ [c] else s.acceptedAfterStop
          if K.clientInputBeforeSpawn then { s with loop := .blockedOn c, backlog := rest, acceptedAfterStop := ghost }
          else { s with backlog := rest, tasks := setTask c .headerWait s.tasks, acceptedAfterStop := ghost }
    | .stopped =>
      -- `tracker.close(); tracker.wait().await`
      if (!K.waitsTracker) || allDone s.tasks then { s with loop := .returned } else s
    | _ => s
  | .clientInput c =>
    match s.loop with
    | .blockedOn c' => if c = c' then { s with loop := .running, tasks := setTask c .serving s.tasks } else
        (match getTask c s.tasks with | some .headerWait => { s with tasks := setTask c .serving s.tasks } | _ => s)
    | _ => (match getTask c s.tasks with | some .headerWait => { s with tasks := setTask c .serving s.tasks } | _ => s)
  | .taskFinish c =>
    match getTask c s.tasks with
    | some .done | none => s
    | some _ => { s with tasks := setTask c .done s.tasks }

def run (K : Skeleton) : St → List Act → St
  | s, [] => s
  | s, a :: as => run K (step K s a) as

/-! ### admission (C15) -/

/-- outcome class of the PROXY header (proxy-header crate): a proxied source, a header without
    addresses (LOCAL / UNKNOWN: the peer address stands), or no valid/allowed header -/
inductive Header | source (ip : Nat) | noAddress | invalid
  deriving DecidableEq, Repr

structure Conn where
  peer : Nat
  header : Header
  deriving DecidableEq, Repr

def effective (proxyEnabled : Bool) (c : Conn) : Option Nat :=
  if proxyEnabled then
    match c.header with
    | .source ip => some ip
    | .noAddress => some c.peer
    | .invalid => none
  else some c.peer

inductive Verdict
  | served (addr : Nat)      -- a Connection is created with this client address
  | refused                  -- limiter said no: socket shut down, nothing sent
  | closedUnserved           -- PROXY enabled and no valid header: closed, limiter untouched
  deriving DecidableEq, Repr

structure AdmState where
  limiter : Option RL.State

/-- `handle` for one connection arriving at time `now` -/
def admitOne (A : RL.Arith) (cfg : RL.Cfg) (proxyEnabled : Bool) (s : AdmState) (c : Conn) (now : Nat) : AdmState × Verdict :=
  match effective proxyEnabled c with
  | none => (s, .closedUnserved)
  | some ip =>
    match s.limiter with
    | none => (s, .served ip)
    | some l =>
      let r := RL.enqueue A cfg l ip now
      ({ limiter := some r.1 }, if r.2 then .served ip else .refused)

def admitAll (A : RL.Arith) (cfg : RL.Cfg) (proxyEnabled : Bool) : AdmState → List (Conn × Nat) → List Verdict
  | _, [] => []
  | s, (c, t) :: r => (admitOne A cfg proxyEnabled s c t).2 :: admitAll A cfg proxyEnabled (admitOne A cfg proxyEnabled s c t).1 r

/-! ### configuration plumbing (C14) -/

structure Config where
  maxPacketLength : Nat
  authCookieExpiry : Nat
  authSecret : Option Bytes
  timeout : Nat


structure ConnCfg where
  maxLen : Nat
  expiry : Nat
  secret : Option Bytes
  timeout : Nat
  deriving DecidableEq, Repr

/-- which operator values reach the connection (each flag: forwarded on both hops
    configuration → Listener → Connection) -/
structure Plumbing where
  maxLen : Bool
  expiry : Bool
  secret : Bool
  timeout : Bool
  deriving DecidableEq, Repr

def defaults : ConnCfg := ⟨10000, 21600, none, 10⟩

def connCfg (P : Plumbing) (c : Config) : ConnCfg :=
  { maxLen := if P.maxLen then c.maxPacketLength else defaults.maxLen,
    expiry := if P.expiry then c.authCookieExpiry else defaults.expiry,
    secret := if P.secret then c.authSecret else defaults.secret,
    timeout := if P.timeout then c.timeout else defaults.timeout }

/-- deadline structure of the per-connection task -/
structure Deadline where
  headerUnderDeadline : Bool       -- the PROXY header wait is under a timeout
  listenUnderDeadline : Bool
  singleDeadlineFromAccept : Bool  -- one `deadline = accept time + timeout` covers both
  shutdownAfterListen : Bool
  deriving DecidableEq, Repr

/-- when the server closes the socket, measured from the accept: `header` = when the client
    completes its PROXY header (`none` = never; `some 0` when PROXY is disabled), `proto` = how long
    the protocol exchange would take on its own (`none` = forever, e.g. a client echoing keep-alives
    while routing never completes) -/
def closeTime (D : Deadline) (timeout : Nat) (header proto : Option Nat) : Option Nat :=
  match header with
  | none => if D.headerUnderDeadline then some timeout else none
  | some h =>
    if D.headerUnderDeadline ∧ timeout < h then some timeout else
    let budget := if D.singleDeadlineFromAccept then timeout - h else timeout
    match proto with
    | none => if D.listenUnderDeadline then some (h + budget) else none
    | some p => if D.listenUnderDeadline ∧ budget < p then some (h + budget) else some (h + p)

end Passage.Listener
