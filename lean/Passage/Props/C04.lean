import Passage.Props.C08
import Passage.Extracted.PanicSites
import Passage.Spec.PanicSites
/-
  C04 — No client input can crash the handler or make it allocate unboundedly.
  Property theorems only.  In the model every point where the Rust could panic or size a buffer
  from a client-declared length is explicit (`Outcome.panic`, the receive buffer `rx`, the byte
  strings a decoder returns); the theorems show none is reached / all are bounded for EVERY input.
-/
namespace Passage.Props.C04
open Passage Passage.Conn Passage.Codec

def NoPanic {α} (o : Outcome α) : Prop := ∀ s, o ≠ .panic s

theorem noPanic_bind {α β} (o : Outcome α) (f : α → Outcome β) (h : NoPanic o) (hf : ∀ a, NoPanic (f a)) :
    NoPanic (o >>= f) := by
  cases o with
  | ok a => exact hf a
  | err e => intro s h'; cases h'
  | panic s => exact absurd rfl (h s)

theorem readVarLoop_noPanic {w : Nat} (f i : Nat) (acc : BitVec w) (bs : Bytes) :
    NoPanic (Impl.readVarLoop f i acc bs) := by
  induction f generalizing i acc bs with
  | zero => intro s h; cases h
  | succ f ih =>
    cases bs with
    | nil => intro s h; cases h
    | cons b rest =>
      simp only [Impl.readVarLoop]
      split
      · intro s h; cases h
      · exact ih _ _ _

theorem readLenPrefixed_noPanic (bs : Bytes) : NoPanic (readLenPrefixed bs) := by
  unfold readLenPrefixed
  apply noPanic_bind _ _ (readVarLoop_noPanic _ _ _ _)
  intro a; repeat' split
  all_goals (intro s h; cases h)

theorem readBE_noPanic (k : Nat) (bs : Bytes) : NoPanic (readBE k bs) := by
  unfold readBE; split <;> (intro s h; cases h)

/-- no primitive decoder can panic, whatever the bytes -/
theorem decTy_noPanic (t : Ty) (bs : Bytes) : NoPanic (decTy t bs) := by
  cases t <;> simp only [decTy]
  all_goals first
    | (apply noPanic_bind _ _ (readVarLoop_noPanic _ _ _ _); intro a; repeat' split
       all_goals (intro s h; cases h))
    | (apply noPanic_bind _ _ (readLenPrefixed_noPanic _); intro a; repeat' split
       all_goals (intro s h; cases h))
    | (apply noPanic_bind _ _ (readBE_noPanic _ _); intro a; repeat' split
       all_goals first
         | (intro s h; cases h)
         | (apply noPanic_bind _ _ (readBE_noPanic _ _); intro a; repeat' split
            all_goals (intro s h; cases h)))

theorem decField_noPanic (f : Field) (bs : Bytes) : NoPanic (decField f bs) := by
  cases f with
  | req t => exact noPanic_bind _ _ (decTy_noPanic t bs) (fun a => by intro s h; cases h)
  | opt t =>
    simp only [decField]
    apply noPanic_bind _ _ (readBE_noPanic _ _)
    intro a; split
    · exact noPanic_bind _ _ (decTy_noPanic t _) (fun a => by intro s h; cases h)
    · intro s h; cases h

/-- **no panic in the codec**: decoding any packet of any schema from any bytes either succeeds
    or fails with an error value — in particular negative, zero, huge and off-by-one inner length
    prefixes, over-long VarInts, invalid UTF-8 and out-of-range ordinals -/
theorem decode_never_panics (sch : Schema) (bs : Bytes) : NoPanic (decFields sch bs) := by
  induction sch generalizing bs with
  | nil => intro s h; cases h
  | cons f fs ih =>
    simp only [decFields]
    apply noPanic_bind _ _ (decField_noPanic f bs)
    intro a
    apply noPanic_bind _ _ (ih _)
    intro b s h; cases h

/-- **inner lengths are bounded by what was actually received**: a length-prefixed byte string is
    only ever produced from bytes present in the frame (no pre-allocation from a declared length) -/
theorem readLenPrefixed_bounded (bs b rest : Bytes) (h : readLenPrefixed bs = .ok (b, rest)) :
    b.length + rest.length ≤ bs.length := by
  unfold readLenPrefixed at h
  cases hv : Impl.readVarint bs with
  | err e => simp [hv] at h
  | panic s => simp [hv] at h
  | ok r =>
    obtain ⟨len, r'⟩ := r
    simp only [hv, Outcome.bind_ok] at h
    split at h
    · cases h
    · split at h
      · cases h
      · simp only [Outcome.ok.injEq, Prod.mk.injEq] at h
        obtain ⟨rfl, rfl⟩ := h
        have hr : r'.length ≤ bs.length := by
          have : ∀ (f i : Nat) (acc : BitVec 32) (bs : Bytes) v r, Impl.readVarLoop f i acc bs = .ok (v, r) → r.length ≤ bs.length := by
            intro f
            induction f with
            | zero => intro i acc bs v r h; simp [Impl.readVarLoop] at h; rw [h.2]; exact Nat.le_refl _
            | succ f ih =>
              intro i acc bs v r h
              cases bs with
              | nil => simp [Impl.readVarLoop] at h
              | cons x xs =>
                simp only [Impl.readVarLoop] at h
                split at h
                · simp at h; rw [← h.2]; simp
                · have := ih _ _ _ _ _ h; simp; omega
          exact this _ _ _ _ _ _ hv
        simp [List.length_take, List.length_drop]; omega

/-! ### the frame assembler: refusal before buffering, bounded buffer -/

/-- **refused before the body**: a declared frame length ≤ 0 or > max ends the connection at the
    byte that completes the length prefix; not one byte of the body is requested or buffered -/
theorem illegal_length_refused_at_prefix (C : Cfg) (E : Env) (s : St1) (b : UInt8)
    (hnd : s.l0.pc ≠ .done) (hill : nextFrame C.maxLen (s.rx ++ [b]) = .illegal) :
    (stepByte C E s b).1.l0.pc = .done ∧ (stepByte C E s b).1.rx = [] ∧
    (stepByte C E s b).2 = [.finish (some .illegalLength)] := by
  simp [stepByte, hnd, hill, step, fail]

theorem lenPrefix_consumed (f i : Nat) (acc : BitVec 32) (bs : Bytes) (v : BitVec 32) (k : Nat)
    (h : lenPrefix f i acc bs = some (v, k)) : k ≤ i + f := by
  induction f generalizing i acc bs with
  | zero => simp [lenPrefix] at h; omega
  | succ f ih =>
    cases bs with
    | nil => simp [lenPrefix] at h
    | cons b rest =>
      simp only [lenPrefix] at h
      split at h
      · simp at h; omega
      · have := ih _ _ _ h; omega

theorem lenPrefix_none_short (f i : Nat) (acc : BitVec 32) (bs : Bytes)
    (h : lenPrefix f i acc bs = none) : bs.length < f := by
  induction f generalizing i acc bs with
  | zero => simp [lenPrefix] at h
  | succ f ih =>
    cases bs with
    | nil => simp
    | cons b rest =>
      simp only [lenPrefix] at h
      split at h
      · simp at h
      · have := ih _ _ _ h; simp; omega

/-- **bounded buffer**: whatever the client sends, the receive buffer never holds more than the
    length prefix plus one frame of the configured maximum size -/
theorem rx_bounded (C : Cfg) (E : Env) (s : St1) (i : In1) (h : s.rx.length ≤ 5 + C.maxLen) :
    (step1 C E s i).1.rx.length ≤ 5 + C.maxLen := by
  cases i with
  | byte b =>
    simp only [step1, stepByte]
    split
    · exact h
    · cases hn : nextFrame C.maxLen (s.rx ++ [b]) with
      | illegal => simp
      | complete p => simp
      | needMore =>
        simp only []
        unfold nextFrame at hn
        cases hp : lenPrefix 5 0 0 (s.rx ++ [b]) with
        | none => have := lenPrefix_none_short _ _ _ _ hp; omega
        | some r =>
          obtain ⟨len, k⟩ := r
          simp only [hp] at hn
          have hk := lenPrefix_consumed _ _ _ _ _ _ hp
          split at hn
          · cases hn
          · next hleg =>
            split at hn
            · next hlt =>
              have : len.toNat ≤ C.maxLen := by
                have h1 : ¬ len.toInt > C.maxLen := fun h' => hleg (Or.inr h')
                have h2 : ¬ len.toInt ≤ 0 := fun h' => hleg (Or.inl h')
                have : len.toInt = len.toNat := by
                  rw [BitVec.toInt_eq_toNat_cond] ; split
                  · rfl
                  · next hh => exfalso; rw [BitVec.toInt_eq_toNat_cond] at h2; simp [hh] at h2; have := len.isLt; omega
                omega
              omega
            · cases hn
  | eof => simpa [step1] using h
  | tick => simpa [step1] using h
  | adapterDone => simpa [step1] using h

theorem rx_bounded_run (C : Cfg) (E : Env) (ins : List In1) : (run1 C E {} ins).1.rx.length ≤ 5 + C.maxLen := by
  have gen : ∀ (ins : List In1) (s : St1), s.rx.length ≤ 5 + C.maxLen → (run1 C E s ins).1.rx.length ≤ 5 + C.maxLen := by
    intro ins
    induction ins with
    | nil => intro s h; exact h
    | cons i is ih => intro s h; rw [C08.run1_cons]; exact ih _ (rx_bounded C E s i h)
  exact gen ins {} (by simp)

/-- **end of stream**: the handler stops in the very step that sees it, and does nothing after -/
theorem eof_terminates (C : Cfg) (E : Env) (s : St1) (after : List In1) :
    (step1 C E s .eof).1.l0.pc = .done ∧ (run1 C E (step1 C E s .eof).1 after).2 = [] := by
  have h : (step1 C E s .eof).1.l0.pc = .done := by
    simp only [step1, step]
    split
    · assumption
    · simp [fail]
  exact ⟨h, (C08.run1_done C E _ after h).1⟩

set_option maxHeartbeats 1600000 in
/-- **malformed input ends this one connection with an error**: whenever a step reports a result
    the connection is finished (and, by `run_done`, silent from then on); the only successful
    results are the Pong and the Transfer -/
theorem finish_means_done (C : Cfg) (E : Env) (st : St) (i : In) (r : Option Conn.Err)
    (h : Out.finish r ∈ (step C E st i).2) : (step C E st i).1.pc = .done := by
  revert h
  unfold step onFrame onAdapterDone kaTick hHandshake hStatusReq hPing hLoginStart hSessionCookie
    hAuthCookie onAuthCookie hEncResp onEncResp hLoginAck hClientInfo routingFrame afterSession
    finishRouting sendEncReq kaEcho fail
  repeat' split
  all_goals (try simp_all)
  all_goals (repeat' split)
  all_goals (try simp_all)

/-- the frame-level decoders used by the machine never panic either -/
theorem decodeSb_noPanic (phase : Nat) (id : Int) (body : Bytes) (o : Outcome (List (Option Val)))
    (h : decodeSb phase id body = some o) : NoPanic o := by
  unfold decodeSb at h
  split at h
  · cases h
  · next p _ =>
    simp only [Option.some.injEq] at h
    subst h
    have := decode_never_panics p.schema body
    unfold decodePacket
    cases hd : decFields p.schema body with
    | ok r => intro s h'; cases h'
    | err e => intro s h'; cases h'
    | panic s => exact absurd hd (this s)

/-- **every syntactic panic site is accounted for**: the panic / index / cast / sized-allocation /
    arithmetic sites re-extracted from the anchored Rust files on this run all appear in the
    reviewed list (`Spec.accountedPanicSites`, each with the reason it cannot fire on client input);
    `none` = the extractor could not read the files (fail-soft) -/
theorem panic_sites_accounted :
    (match Extracted.panicSites with
     | none => true
     | some l => l.all (fun h => Spec.accountedPanicSites.contains h)) = true := by decide

end Passage.Props.C04
