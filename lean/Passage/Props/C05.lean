import Passage.CipherStream
/-
  C05 — Encrypted traffic is one continuous AES-128-CFB8 stream under any I/O schedule.
  Property theorems only.  All theorems hold for EVERY byte-stream cipher `C`, every plaintext
  and every transport schedule; the CFB8 inversion theorem holds for every keystream function.
-/
namespace Passage.Props.C05
open Passage Passage.CipherStream

variable {σ : Type}

theorem encBytes_append (C : StreamCipher σ) (s : σ) (xs ys : Bytes) :
    C.encBytes s (xs ++ ys) =
      ((C.encBytes (C.encBytes s xs).1 ys).1, (C.encBytes s xs).2 ++ (C.encBytes (C.encBytes s xs).1 ys).2) := by
  induction xs generalizing s with
  | nil => simp [StreamCipher.encBytes]
  | cons x xs ih => simp [StreamCipher.encBytes, ih]

theorem decBytes_append (C : StreamCipher σ) (s : σ) (xs ys : Bytes) :
    C.decBytes s (xs ++ ys) =
      ((C.decBytes (C.decBytes s xs).1 ys).1, (C.decBytes s xs).2 ++ (C.decBytes (C.decBytes s xs).1 ys).2) := by
  induction xs generalizing s with
  | nil => simp [StreamCipher.decBytes]
  | cons x xs ih => simp [StreamCipher.decBytes, ih]

/-- **write path, encrypted**: for every cipher, state, buffer and schedule (Pending, partial
    and full acceptance in any order) the bytes the transport accepted are exactly ONE continuous
    encryption, from the state at the start of the call, of the plaintext reported as written —
    and the cipher is left exactly at the end of that stream. -/
theorem write_stream_continuous (C : StreamCipher σ) (s : σ) (buf : Bytes) (sch : List WResp) :
    (writeAll (pollWrite C) (some s) buf sch).accepted
        = (C.encBytes s (writeAll (pollWrite C) (some s) buf sch).written).2 ∧
    (writeAll (pollWrite C) (some s) buf sch).st
        = some (C.encBytes s (writeAll (pollWrite C) (some s) buf sch).written).1 := by
  induction sch generalizing s buf with
  | nil => simp [writeAll, StreamCipher.encBytes]
  | cons r rs ih =>
    unfold writeAll
    by_cases hb : buf = []
    · simp [hb, StreamCipher.encBytes]
    · simp only [hb, if_false]
      cases r with
      | pending => simpa [pollWrite] using ih s buf
      | accept n =>
        simp only [pollWrite]
        generalize hk : min n buf.length = k
        cases k with
        | zero => simp [StreamCipher.encBytes]
        | succ k =>
          simp only []
          have := ih (C.encBytes s (buf.take (k + 1))).1 (buf.drop (k + 1))
          rw [encBytes_append]
          exact ⟨by rw [this.1], by rw [this.2]⟩

/-- the written bytes are a prefix of the buffer (nothing is skipped, reordered or repeated) -/
theorem write_reports_prefix (pw : Option σ → Bytes → WResp → Option σ × Option Nat × Bytes)
    (s : Option σ) (buf : Bytes) (sch : List WResp) :
    ∃ rest, buf = (writeAll pw s buf sch).written ++ rest := by
  induction sch generalizing s buf with
  | nil => exact ⟨buf, by simp [writeAll]⟩
  | cons r rs ih =>
    unfold writeAll
    by_cases hb : buf = []
    · exact ⟨[], by simp [hb]⟩
    · simp only [hb, if_false]
      rcases h : pw s buf r with ⟨s', o, ct⟩
      cases o with
      | none => simpa using ih s' buf
      | some k =>
        cases k with
        | zero => exact ⟨buf, by simp⟩
        | succ k =>
          obtain ⟨rest, hr⟩ := ih s' (buf.drop (k + 1))
          refine ⟨rest, ?_⟩
          simp only [List.append_assoc]
          rw [← hr, List.take_append_drop]

/-- **several packets**: consecutive `write_all` calls continue the same stream -/
theorem write_many_continuous (C : StreamCipher σ) (s : σ) (ws : List (Bytes × List WResp)) :
    (writeMany (pollWrite C) (some s) ws).accepted
        = (C.encBytes s (writeMany (pollWrite C) (some s) ws).written).2 ∧
    (writeMany (pollWrite C) (some s) ws).st
        = some (C.encBytes s (writeMany (pollWrite C) (some s) ws).written).1 := by
  induction ws generalizing s with
  | nil => simp [writeMany, StreamCipher.encBytes]
  | cons w ws ih =>
    obtain ⟨buf, sch⟩ := w
    simp only [writeMany]
    have h1 := write_stream_continuous C s buf sch
    rw [h1.2]
    have h2 := ih (C.encBytes s (writeAll (pollWrite C) (some s) buf sch).written).1
    rw [encBytes_append]
    exact ⟨by rw [h1.1, h2.1], by rw [h2.2]⟩

/-- **before the switch** bytes pass through untouched, under any schedule -/
theorem write_plain_passthrough (C : StreamCipher σ) (buf : Bytes) (sch : List WResp) :
    (writeAll (pollWrite C) none buf sch).accepted = (writeAll (pollWrite C) none buf sch).written ∧
    (writeAll (pollWrite C) none buf sch).st = none := by
  induction sch generalizing buf with
  | nil => simp [writeAll]
  | cons r rs ih =>
    unfold writeAll
    by_cases hb : buf = []
    · simp [hb]
    · simp only [hb, if_false]
      cases r with
      | pending => simpa [pollWrite] using ih buf
      | accept n =>
        simp only [pollWrite]
        generalize hk : min n buf.length = k
        cases k with
        | zero => simp
        | succ k =>
          simp only []
          have := ih (buf.drop (k + 1))
          exact ⟨by rw [this.1], this.2⟩

/-- **switch in mid-connection**: packets written before `set_encryption` are untouched, those
    written after form one stream starting at the fresh state `s₀` (key = IV = shared secret) -/
theorem write_switch_midstream (C : StreamCipher σ) (s0 : σ)
    (before after : List (Bytes × List WResp)) :
    let b := writeMany (pollWrite C) none before
    let a := writeMany (pollWrite C) (some s0) after
    b.accepted = b.written ∧ a.accepted = (C.encBytes s0 a.written).2 := by
  refine ⟨?_, (write_many_continuous C s0 after).1⟩
  induction before with
  | nil => simp [writeMany]
  | cons w ws ih =>
    obtain ⟨buf, sch⟩ := w
    simp only [writeMany]
    have h := write_plain_passthrough C buf sch
    rw [h.2, h.1, ih]

/-- **read path**: whatever sizes the transport returns (down to one byte, with Pending in
    between), the bytes surfaced to the reader are the one continuous decryption of the bytes
    the transport produced -/
theorem read_stream_continuous (C : StreamCipher σ) (s : σ) (sch : List RResp) :
    (readAll C (some s) sch).surfaced = (C.decBytes s (readAll C (some s) sch).produced).2 ∧
    (readAll C (some s) sch).st = some (C.decBytes s (readAll C (some s) sch).produced).1 := by
  induction sch generalizing s with
  | nil => simp [readAll, StreamCipher.decBytes]
  | cons r rs ih =>
    cases r with
    | pending => simpa [readAll, pollRead] using ih s
    | data b =>
      simp only [readAll, pollRead]
      have := ih (C.decBytes s b).1
      rw [decBytes_append]
      exact ⟨by rw [this.1], by rw [this.2]⟩

theorem read_plain_passthrough (C : StreamCipher σ) (sch : List RResp) :
    (readAll C none sch).surfaced = (readAll C none sch).produced ∧ (readAll C none sch).st = none := by
  induction sch with
  | nil => simp [readAll]
  | cons r rs ih =>
    cases r with
    | pending => simpa [readAll, pollRead] using ih
    | data b => simp [readAll, pollRead, ih.1, ih.2]

/-- **CFB8**: for every keystream function, decryption inverts encryption and both sides end
    with the same shift register — so client and server stay synchronised over the whole stream -/
theorem cfb8_dec_enc (keyByte : σ → UInt8) (shift : σ → UInt8 → σ) (s : σ) (ps : Bytes) :
    (cfb8 keyByte shift).decBytes s ((cfb8 keyByte shift).encBytes s ps).2
      = (((cfb8 keyByte shift).encBytes s ps).1, ps) := by
  induction ps generalizing s with
  | nil => simp [StreamCipher.encBytes, StreamCipher.decBytes]
  | cons p ps ih =>
    simp only [StreamCipher.encBytes, StreamCipher.decBytes]
    have h1 : ((cfb8 keyByte shift).decByte s ((cfb8 keyByte shift).encByte s p).2).1
        = ((cfb8 keyByte shift).encByte s p).1 := by simp [cfb8]
    have h2 : ((cfb8 keyByte shift).decByte s ((cfb8 keyByte shift).encByte s p).2).2 = p := by
      simp [cfb8, UInt8.xor_assoc]
    rw [h1, h2, ih]

/-- the ciphertext has the length of the plaintext (a stream, no padding) -/
theorem encBytes_length (C : StreamCipher σ) (s : σ) (xs : Bytes) :
    (C.encBytes s xs).2.length = xs.length := by
  induction xs generalizing s with
  | nil => simp [StreamCipher.encBytes]
  | cons x xs ih => simp [StreamCipher.encBytes, ih]

/-! ### regression fact about the pinned `poll_write` -/

/-- a toy cipher (state = running byte) that exposes keystream misuse -/
def toy : StreamCipher UInt8 :=
  ⟨fun s b => ((s ^^^ b) + 1, s ^^^ b), fun s c => (c + 1, s ^^^ c)⟩

/-- On the pinned code a transport accepting one byte per write yields a NON-stream: the
    accepted bytes differ from the encryption of what was reported written. -/
theorem pinned_witness :
    let r := writeAll (pollWritePinned toy) (some 7) [1, 2] [.accept 1, .accept 1]
    r.accepted ≠ (toy.encBytes 7 r.written).2 := by decide

/-- non-vacuity: the repaired `poll_write` on the same schedule, and a partial/pending mix -/
example :
    let r := writeAll (pollWrite toy) (some 7) [1, 2, 3] [.pending, .accept 2, .pending, .accept 5]
    r.written = [1, 2, 3] ∧ r.accepted = (toy.encBytes 7 [1, 2, 3]).2 := by decide

end Passage.Props.C05
