import Passage.Props.C02
/-
  C10 — Issued cookies are verifiable, complete, and accepted on the next transfer.
  Property theorems only.
-/
namespace Passage.Props.C10
open Passage Passage.Conn

/-- the cookie a freshly authenticated, routed player is given -/
def issued (E : Env) (s : Bytes) (id : Ident) (t : Target) : Bytes :=
  E.hmac s (E.serCookie ⟨E.now, E.clientIp, id⟩ t.id) ++ E.serCookie ⟨E.now, E.clientIp, id⟩ t.id

/-- **format and position**: with a secret and after fresh authentication the routed player is sent,
    before the Transfer, `tag ‖ JSON` where the tag is over exactly the JSON that follows and the
    JSON is the serialisation of (now, client address, the AUTHENTICATED identity, chosen target) -/
theorem issue_format (C : Cfg) (E : Env) (st : St) (t : Target) (s : Bytes)
    (hpc : st.pc = .selecting) (hsa : st.shouldAuth = true) (hsec : C.secret = some s)
    (hsel : E.select (ctxOf C st) st.ident.name st.ident.uuid st.targets = .ok (some t)) :
    ∃ mid, sends (onAdapterDone C E st).2
      = [.storeAuthCookie (issued E s st.ident t)] ++ mid ++ [.transfer t.ip t.port] ∧
      (mid = [] ∨ mid = [.storeSessionCookie st.hs.host st.hs.port]) := by
  simp only [onAdapterDone, hpc, hsel, finishRouting, hsa, hsec, issued]
  cases hsp : st.sessPresent
  · exact ⟨[.storeSessionCookie st.hs.host st.hs.port], by simp [sends, sends_append], Or.inr rfl⟩
  · exact ⟨[], by simp [sends, sends_append], Or.inl rfl⟩

/-- **content**: under the recorded hypothesis that the JSON library parses back what it
    serialised, the body records the client's address, the authenticated name, UUID and
    properties and the current time -/
theorem issue_content (E : Env) (id : Ident) (t : Target)
    (hjson : ∀ c tid, E.parseCookie (E.serCookie c tid) = .ok c) :
    E.parseCookie (E.serCookie ⟨E.now, E.clientIp, id⟩ t.id) = .ok ⟨E.now, E.clientIp, id⟩ :=
  hjson _ _

/-- **round trip**: presenting that cookie on a Transfer-intent connection from the same IP within
    the expiry is accepted without re-authentication and yields the same identity — the two
    connections may have different clocks, tokens, adapters… (`E₂`), sharing only the tag
    function, the JSON library and the configuration -/
theorem roundtrip_accept (C : Cfg) (E₁ E₂ : Env) (st₂ : St) (s : Bytes) (id : Ident) (t : Target)
    (hsec : C.secret = some s) (hsa : st₂.shouldAuth = true) (hint : st₂.hs.intent = .transfer)
    (hh : E₂.hmac = E₁.hmac) (hp : E₂.parseCookie = E₁.parseCookie)
    (hjson : ∀ c tid, E₁.parseCookie (E₁.serCookie c tid) = .ok c)
    (hlen : ∀ k m, (E₁.hmac k m).length = 32)
    (hip : E₂.clientIp = E₁.clientIp) (hfresh : E₂.now ≤ E₁.now + C.expiry) (h64 : E₂.now < 2 ^ 64) :
    (onAuthCookie C E₂ st₂ (some (issued E₁ s id t))).1.shouldAuth = false ∧
    (onAuthCookie C E₂ st₂ (some (issued E₁ s id t))).1.ident = id := by
  have hv : verifyCookie E₂ s (issued E₁ s id t) = some (E₁.serCookie ⟨E₁.now, E₁.clientIp, id⟩ t.id) := by
    unfold issued; rw [← hh]; exact C02.verify_sign E₂ s _ (by rw [hh]; exact hlen _ _)
  have hpc : E₂.parseCookie (E₁.serCookie ⟨E₁.now, E₁.clientIp, id⟩ t.id) = .ok ⟨E₁.now, E₁.clientIp, id⟩ := by
    rw [hp]; exact hjson _ _
  have ha : acceptCookie C E₂ ⟨E₁.now, E₁.clientIp, id⟩ = true := by
    unfold acceptCookie; simp [hip]; omega
  simp [onAuthCookie, hsec, hv, hpc, ha, sendEncReq]

/-- **no secret, no cookie**; and none after a cookie-authenticated run either -/
theorem no_secret_no_cookie (C : Cfg) (E : Env) (st : St) (sel : Option Target)
    (h : C.secret = none ∨ st.shouldAuth = false) :
    ∀ p, Cb.storeAuthCookie p ∉ sends (finishRouting C E st sel []).2 := by
  unfold finishRouting fail
  rcases h with h | h <;> cases sel <;> repeat' split
  all_goals (simp_all [sends, sends_append])
  all_goals (repeat' split)
  all_goals (simp_all [sends])

/-- **session cookie**: a routed player is given one — with the handshake's host and port —
    exactly when the client presented none -/
theorem session_iff_absent (C : Cfg) (E : Env) (st : St) (t : Target) :
    (Cb.storeSessionCookie st.hs.host st.hs.port ∈ sends (finishRouting C E st (some t) []).2 ↔ st.sessPresent = false) ∧
    (∀ h p, Cb.storeSessionCookie h p ∈ sends (finishRouting C E st (some t) []).2 → h = st.hs.host ∧ p = st.hs.port) := by
  unfold finishRouting
  cases hsa : st.shouldAuth <;> cases hsec : C.secret <;> cases hsp : st.sessPresent <;>
    simp [sends, sends_append]

/-- `sessPresent` records precisely that a (non-null) session cookie was presented -/
theorem session_present_iff (C : Cfg) (E : Env) (st : St) (id : Int) (body : Bytes) (pl : Option Bytes)
    (hdec : cookiePayload id body = .ok pl) (h0 : st.sessPresent = false)
    (hok : ∀ b, pl = some b → E.sessionClass b ≠ .invalid) :
    (hSessionCookie C E st id body).1.sessPresent = true ↔ ∃ b, pl = some b ∧ E.sessionClass b = .present := by
  unfold hSessionCookie afterSession sendEncReq fail
  rw [hdec]
  cases pl with
  | none => simp only []; split <;> simp [h0]
  | some b =>
    have := hok b rfl
    simp only []
    cases hc : E.sessionClass b <;> simp_all <;> split <;> simp_all

set_option maxHeartbeats 1600000 in
theorem session_flag_only_at_cookie (C : Cfg) (E : Env) (st : St) (i : In) :
    (step C E st i).1.sessPresent = st.sessPresent ∨ st.pc = .awaitSessionCookie := by
  unfold step onFrame onAdapterDone kaTick hHandshake hStatusReq hPing hLoginStart hSessionCookie
    hAuthCookie onAuthCookie hEncResp onEncResp hLoginAck hClientInfo routingFrame afterSession
    finishRouting sendEncReq kaEcho fail
  repeat' split
  all_goals (try simp_all)

end Passage.Props.C10
