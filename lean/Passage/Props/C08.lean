import Passage.Lemmas.Conn
import Passage.Conn.ByteLevel
import Passage.Lemmas.Schema
/-
  C08 — Connection behaviour is independent of segmentation and completion timing.
  Property theorems only.
-/
namespace Passage.Props.C08
open Passage Passage.Conn Passage.Codec

theorem run1_nil (C : Cfg) (E : Env) (s : St1) : run1 C E s [] = (s, []) := rfl
theorem run1_cons (C : Cfg) (E : Env) (s : St1) (i : In1) (is : List In1) :
    run1 C E s (i :: is) = ((run1 C E (step1 C E s i).1 is).1, (step1 C E s i).2 ++ (run1 C E (step1 C E s i).1 is).2) := rfl

theorem step1_done (C : Cfg) (E : Env) (s : St1) (i : In1) (h : s.l0.pc = .done) :
    (step1 C E s i).2 = [] ∧ (step1 C E s i).1.l0 = s.l0 := by
  cases i <;> simp [step1, stepByte, h, step_done C E s.l0 _ h]

theorem run1_done (C : Cfg) (E : Env) (s : St1) (ins : List In1) (h : s.l0.pc = .done) :
    (run1 C E s ins).2 = [] ∧ (run1 C E s ins).1.l0 = s.l0 := by
  induction ins generalizing s with
  | nil => simp [run1_nil]
  | cons i is ih =>
    have h1 := step1_done C E s i h
    have h2 := ih (step1 C E s i).1 (by rw [h1.2]; exact h)
    rw [run1_cons]
    exact ⟨by simp [h1.1, h2.1], by rw [h2.2, h1.2]⟩

/-- **refinement**: for every byte-level input list (bytes, ticks, adapter completions, EOF in any
    interleaving) the byte-level connection produces exactly the outputs — packets, adapter calls,
    result — of the frame-level machine run on `frameLevel`, in which each frame sits where its
    last byte arrived and which never mentions how the bytes were segmented. -/
theorem l1_refines_l0 (C : Cfg) (E : Env) (s : St1) (ins : List In1) :
    (run1 C E s ins).2 = (run C E s.l0 (frameLevel C.maxLen s.rx ins)).2 ∧
    (run1 C E s ins).1.l0 = (run C E s.l0 (frameLevel C.maxLen s.rx ins)).1 := by
  induction ins generalizing s with
  | nil => simp [run1_nil, frameLevel, run_nil]
  | cons i is ih =>
    by_cases hd : s.l0.pc = .done
    · have h1 := run1_done C E s (i :: is) hd
      rw [h1.1, h1.2, run_done C E s.l0 _ hd]; simp
    · rw [run1_cons]
      cases i with
      | byte b =>
        simp only [step1, stepByte, hd, if_false, frameLevel]
        cases hn : nextFrame C.maxLen (s.rx ++ [b]) with
        | needMore => simpa using ih { s with rx := s.rx ++ [b] }
        | illegal =>
          have := ih { l0 := (step C E s.l0 .badLength).1, rx := [] }
          simp only [run_cons]; exact ⟨by rw [this.1], this.2⟩
        | complete p =>
          have := ih { l0 := (step C E s.l0 (.frame p)).1, rx := [] }
          simp only [run_cons]; exact ⟨by rw [this.1], this.2⟩
      | eof =>
        have := ih { s with l0 := (step C E s.l0 .eof).1 }
        simp only [step1, frameLevel, run_cons]; exact ⟨by rw [this.1], this.2⟩
      | tick =>
        have := ih { s with l0 := (step C E s.l0 .tick).1 }
        simp only [step1, frameLevel, run_cons]; exact ⟨by rw [this.1], this.2⟩
      | adapterDone =>
        have := ih { s with l0 := (step C E s.l0 .adapterDone).1 }
        simp only [step1, frameLevel, run_cons]; exact ⟨by rw [this.1], this.2⟩

/-- segments of the client's byte stream and the events between them -/
inductive Seg
  | chunk (b : Bytes)
  | ev (i : In1)

def expand : List Seg → List In1
  | [] => []
  | .chunk b :: r => b.map In1.byte ++ expand r
  | .ev i :: r => i :: expand r

/-- **segmentation**: two schedules that deliver the same bytes with the events at the same byte
    positions behave identically, however the bytes are cut into segments (one byte at a time,
    whole frames, arbitrary pauses) -/
theorem segmentation_independent (C : Cfg) (E : Env) (s : St1) (a b : List Seg) (h : expand a = expand b) :
    run1 C E s (expand a) = run1 C E s (expand b) := by rw [h]

/-- **completion timing inside a frame**: a keep-alive tick or an adapter completion may fall
    before or after any byte that does not complete a frame — the frame-level schedule, hence all
    packets, adapter calls and the result, is the same -/
theorem event_commutes_with_partial_frame (C : Cfg) (E : Env) (s : St1) (b : UInt8) (ev : In1)
    (hev : ev = .tick ∨ ev = .adapterDone ∨ ev = .eof)
    (hpart : nextFrame C.maxLen (s.rx ++ [b]) = .needMore) (rest : List In1) :
    (run1 C E s (.byte b :: ev :: rest)).2 = (run1 C E s (ev :: .byte b :: rest)).2 := by
  rw [(l1_refines_l0 C E s _).1, (l1_refines_l0 C E s _).1]
  rcases hev with rfl | rfl | rfl <;> simp [frameLevel, hpart]

/-! ### the send path: whole frames, in order, never interleaved -/

theorem flush_inv (w : WSt) (evs : List WEv) (h : w.accepted ++ w.pending = w.queued) :
    (flush w evs).accepted ++ (flush w evs).pending = (flush w evs).queued := by
  induction evs generalizing w with
  | nil => simpa [flush] using h
  | cons e es ih =>
    cases e with
    | cancel => simpa [flush] using h
    | accept n =>
      simp only [flush]
      split
      · exact h
      · apply ih
        simp only [List.append_assoc, List.take_append_drop]
        exact h

theorem flush_queued (w : WSt) (evs : List WEv) : (flush w evs).queued = w.queued := by
  induction evs generalizing w with
  | nil => rfl
  | cons e es ih =>
    cases e with
    | cancel => rfl
    | accept n =>
      simp only [flush]
      split
      · rfl
      · rw [ih]

theorem sendMany_gen (ops : List (Bytes × List WEv)) :
    ∀ (w : WSt), w.accepted ++ w.pending = w.queued →
      (sendMany w ops).accepted ++ (sendMany w ops).pending = w.queued ++ (ops.map (·.1)).flatten := by
  induction ops with
  | nil => intro w h; simpa [sendMany] using h
  | cons op ops ih =>
    intro w h
    obtain ⟨f, evs⟩ := op
    simp only [sendMany]
    have h1 : (sendFrame w f evs).accepted ++ (sendFrame w f evs).pending = (sendFrame w f evs).queued := by
      unfold sendFrame; apply flush_inv; simp [← List.append_assoc, h]
    have hq : (sendFrame w f evs).queued = w.queued ++ f := by
      unfold sendFrame; rw [flush_queued]
    rw [ih _ h1, hq]; simp

/-- **sending**: after any number of `send_packet` calls, under any pattern of partial write
    acceptance and any cancellation points, what the transport accepted followed by what is still
    pending is exactly the concatenation of the whole frames in emission order — so every frame
    reaches the client complete and uninterleaved (a cancelled send is completed by the next) -/
theorem send_whole_frames_in_order (ops : List (Bytes × List WEv)) :
    (sendMany {} ops).accepted ++ (sendMany {} ops).pending = (ops.map (·.1)).flatten := by
  have := sendMany_gen ops {} rfl
  simpa using this

/-- what was accepted is always a prefix of the frame stream (nothing skipped, nothing doubled) -/
theorem accepted_is_prefix (ops : List (Bytes × List WEv)) :
    (sendMany {} ops).accepted <+: (ops.map (·.1)).flatten :=
  ⟨_, send_whole_frames_in_order ops⟩

/-- regression fact about the pinned send path: a cancelled `write_all` drops the rest of its
    frame, and the next frame is appended to a truncated one -/
theorem pinned_send_witness :
    let w1 := sendFramePinned {} [1, 2, 3, 4] [.accept 2, .cancel]
    let w2 := sendFramePinned w1 [9, 9] [.accept 2]
    w2.accepted = [1, 2, 9, 9] ∧ ¬ (w2.accepted <+: [1, 2, 3, 4, 9, 9]) := by decide

end Passage.Props.C08
