import Passage.Lemmas.Conn
import Passage.Lemmas.Schema
import Passage.Extracted.Constants
/-
  C07 — Waiting players are kept alive; silent ones are timed out.
  Property theorems only.  Time enters through the `tick` input: tokio's `Interval` (period
  `KEEP_ALIVE_INTERVAL`, first tick immediate, missed ticks skipped) delivers one tick per period
  while the handler waits for input; the runs against the real code under virtual time tie the
  tick times to the model (see DESIGN §6 C07).
-/
namespace Passage.Props.C07
open Passage Passage.Conn Passage.Codec

/-- the period the theorems' ticks stand for is the one in the source -/
theorem extracted_period :
    Extracted.keepAliveInterval = none ∨ Extracted.keepAliveInterval = some 16 := by decide

/-- **K1/K4 — what a tick does** in the configuration phase: with no Keep Alive outstanding it sends
    exactly one (so consecutive Keep Alives are one period apart and the first comes within one
    period of entering the phase); with one outstanding it sends the localized timeout Disconnect
    and ends the run with `MissedKeepAlive` -/
theorem tick_behaviour (C : Cfg) (E : Env) (st : St) (h : keepAlivePhase st.pc = true) :
    (st.ka = none →
      step C E st .tick = ({ st with ka := some (E.kaId st.kaCount), kaCount := st.kaCount + 1 },
        [.send (.keepAlive (E.kaId st.kaCount))])) ∧
    (∀ id r, st.ka = some id → E.localize st.locale (str "disconnect_timeout") = .ok r →
      step C E st .tick = ({ st with pc := .done },
        [.callLocalize st.locale (str "disconnect_timeout"), .send (.disconnect r), .finish (some .missedKeepAlive)])) := by
  have hnd : st.pc ≠ .done := by intro hd; simp [hd, keepAlivePhase] at h
  constructor
  · intro hk; simp [step, hnd, h, kaTick, hk]
  · intro id r hk hl; simp [step, hnd, h, kaTick, hk, hl]

/-- outside the configuration phase ticks do nothing -/
theorem tick_ignored_elsewhere (C : Cfg) (E : Env) (st : St) (h : keepAlivePhase st.pc = false) :
    step C E st .tick = (st, []) := by
  by_cases hd : st.pc = .done <;> simp [step, hd, h]

set_option maxHeartbeats 1600000 in
/-- **K2 — never two outstanding**: a Keep Alive is only ever sent by a step that starts with none
    outstanding -/
theorem keepalive_sent_only_when_none_outstanding (C : Cfg) (E : Env) (st : St) (i : In) (id : Nat)
    (h : Out.send (.keepAlive id) ∈ (step C E st i).2) : st.ka = none ∧ i = .tick ∧ (step C E st i).1.ka = some id := by
  revert h
  unfold step onFrame onAdapterDone kaTick hHandshake hStatusReq hPing hLoginStart hSessionCookie
    hAuthCookie onAuthCookie hEncResp onEncResp hLoginAck hClientInfo routingFrame afterSession
    finishRouting sendEncReq kaEcho fail
  repeat' split
  all_goals (try simp_all)
  all_goals (repeat' split)
  all_goals (try simp_all)

set_option maxHeartbeats 1600000 in
/-- … and the outstanding id is cleared only by a frame in the configuration phase (the echo —
    `kaEcho` clears it only for the SAME id, see `echo_semantics`) -/
theorem outstanding_cleared_only_by_frame (C : Cfg) (E : Env) (st : St) (i : In) (id : Nat)
    (h0 : st.ka = some id) (h1 : (step C E st i).1.ka ≠ some id) :
    (∃ p, i = .frame p) ∧ keepAlivePhase st.pc = true := by
  revert h1
  unfold step onFrame onAdapterDone kaTick hHandshake hStatusReq hPing hLoginStart hSessionCookie
    hAuthCookie onAuthCookie hEncResp onEncResp hLoginAck hClientInfo routingFrame afterSession
    finishRouting sendEncReq kaEcho fail
  repeat' split
  all_goals (try simp_all [keepAlivePhase])

/-- **echo semantics**: the same id clears, a different id (wrong, duplicate after clearing,
    unsolicited) changes nothing -/
theorem echo_semantics (st : St) (id : Nat) :
    (st.ka = some id → (kaEcho st id).ka = none) ∧
    (st.ka ≠ some id → kaEcho st id = st) := by
  unfold kaEcho
  constructor
  · intro h; simp [h]
  · intro h; simp [h]

/-- backend services report their own failures (`AdapterError`), never the connection's keep-alive
    timeout: the one assumption on the environment that K3/K4 need -/
structure EnvSane (E : Env) : Prop where
  status : ∀ c, E.status c ≠ .error .missedKeepAlive
  auth : ∀ c n u s p, E.auth c n u s p ≠ .error .missedKeepAlive
  discover : E.discover ≠ .error .missedKeepAlive
  filter : ∀ c n u t, E.filter c n u t ≠ .error .missedKeepAlive
  select : ∀ c n u t, E.select c n u t ≠ .error .missedKeepAlive
  localize : ∀ l k, E.localize l k ≠ .error .missedKeepAlive
  parseCookie : ∀ m, E.parseCookie m ≠ .error .missedKeepAlive

theorem cookie_ne (id : Int) (body : Bytes) : cookiePayload id body ≠ .error .missedKeepAlive := by
  unfold cookiePayload
  repeat' split
  all_goals (intro h; first | cases h | (injection h with h; revert h; rename_i e _; cases e <;> simp [ofCodecErr]))

theorem encResp_ne (id : Int) (body : Bytes) : encRespFields id body ≠ .error .missedKeepAlive := by
  unfold encRespFields
  repeat' split
  all_goals (intro h; first | cases h | (injection h with h; revert h; rename_i e _; cases e <;> simp [ofCodecErr]))

theorem codecErr_ne (e : Codec.Err) : Conn.Err.missedKeepAlive ≠ ofCodecErr e := by
  cases e <;> simp [ofCodecErr]

set_option maxHeartbeats 3200000 in
/-- **K4 — the timeout result has one cause**: `MissedKeepAlive` is reported only by a tick in the
    configuration phase that finds a Keep Alive still outstanding -/
theorem missed_keepalive_only_from_tick (C : Cfg) (E : Env) (hE : EnvSane E) (st : St) (i : In)
    (h : Out.finish (some .missedKeepAlive) ∈ (step C E st i).2) :
    i = .tick ∧ keepAlivePhase st.pc = true ∧ st.ka.isSome = true := by
  obtain ⟨h1, h2, h3, h4, h5, h6, h7⟩ := hE
  revert h
  unfold step onFrame onAdapterDone kaTick hHandshake hStatusReq hPing hLoginStart hSessionCookie
    hAuthCookie onAuthCookie hEncResp onEncResp hLoginAck hClientInfo routingFrame afterSession
    finishRouting sendEncReq kaEcho fail
  repeat' split
  all_goals (try simp_all [keepAlivePhase, codecErr_ne])
  all_goals (repeat' split)
  all_goals (try simp_all [codecErr_ne])
  all_goals (intro hh; subst hh; first | exact cookie_ne _ _ ‹_› | exact encResp_ne _ _ ‹_› | simp_all)

/-! ### K3 — a prompt client is never dropped, however long routing takes -/

/-- serverbound Keep Alive frame payload: id 0x04, then the id as u64 big-endian -/
def echoFrame (id : Nat) : Bytes := 0x04 :: beBytes 8 id

theorem echo_decodes (id : Nat) (h : id < 2 ^ 64) :
    splitFrame (echoFrame id) = .ok (4, beBytes 8 id) ∧
    decodeSb 3 4 (beBytes 8 id) = some (.ok [some (.int id)]) := by
  constructor
  · have e1 : (((4 : UInt8) &&& 0x80) == 0) = true := by decide
    simp only [splitFrame, echoFrame, Impl.readVarint, Impl.readVarLoop, e1, if_true]
    congr 2
  · have hb : readBE 8 (beBytes 8 id ++ []) = .ok (id, []) := readBE_beBytes 8 id [] (by simpa using h)
    simp only [List.append_nil] at hb
    simp [decodeSb, packets, decodePacket, decFields, decField, decTy, hb]

/-- the echo of the outstanding id, in any routing state, clears it and produces nothing -/
theorem echo_step (C : Cfg) (E : Env) (st : St) (id : Nat) (hid : id < 2 ^ 64) (hmax : 9 ≤ C.maxLen)
    (hpc : keepAlivePhase st.pc = true) (hka : st.ka = some id) :
    step C E st (.frame (echoFrame id)) = ({ st with ka := none }, []) := by
  have hnd : st.pc ≠ .done := by intro hd; simp [hd, keepAlivePhase] at hpc
  have hlen : ¬ ((echoFrame id).length = 0 ∨ (echoFrame id).length > C.maxLen) := by
    simp [echoFrame, beBytes_length]; omega
  obtain ⟨hs, hd⟩ := echo_decodes id hid
  unfold step
  rw [if_neg hnd]
  simp only []
  unfold onFrame
  rw [if_neg hlen]
  simp only [hs]
  cases hp : st.pc <;> simp [hp, keepAlivePhase] at hpc <;>
    simp [hClientInfo, routingFrame, hd, kaEcho, hka, ignorableConfig] <;> try assumption

/-- a client that echoes every Keep Alive as soon as it receives it, against ANY sequence of
    ticks and adapter completions (any backend latencies) -/
def runPrompt (C : Cfg) (E : Env) : St → List In → St × List Out
  | st, [] => (st, [])
  | st, i :: is =>
    let r := step C E st i
    let st' := match r.1.ka with
      | some id => if keepAlivePhase r.1.pc then (step C E r.1 (.frame (echoFrame id))).1 else r.1
      | none => r.1
    ((runPrompt C E st' is).1, r.2 ++ (runPrompt C E st' is).2)

theorem step_keeps_no_outstanding_or_sets (C : Cfg) (E : Env) (hE : EnvSane E) (st : St) (i : In)
    (_hev : i = .tick ∨ i = .adapterDone) (h0 : st.ka = none) :
    Out.finish (some .missedKeepAlive) ∉ (step C E st i).2 := by
  intro h
  have := missed_keepalive_only_from_tick C E hE st i h
  simp [h0] at this

/-- **K3**: with a prompt client, for every sequence of ticks and adapter completions — routing
    may take any number of periods — the run never ends with `MissedKeepAlive` -/
theorem prompt_client_never_dropped (C : Cfg) (E : Env) (hE : EnvSane E) (hmax : 9 ≤ C.maxLen)
    (hids : ∀ n, E.kaId n < 2 ^ 64) (ins : List In) (hins : ∀ i ∈ ins, i = .tick ∨ i = .adapterDone)
    (st : St) (h0 : st.ka = none) :
    Out.finish (some .missedKeepAlive) ∉ (runPrompt C E st ins).2 := by
  induction ins generalizing st with
  | nil => simp [runPrompt]
  | cons i is ih =>
    simp only [runPrompt, List.mem_append, not_or]
    have hi := hins i (by simp)
    refine ⟨step_keeps_no_outstanding_or_sets C E hE st i hi h0, ?_⟩
    apply ih (fun j hj => hins j (by simp [hj]))
    -- after the step and the client's immediate echo nothing is outstanding
    cases hk : (step C E st i).1.ka with
    | none => simp [hk]
    | some id =>
      simp only []
      by_cases hp : keepAlivePhase (step C E st i).1.pc = true
      · simp only [hp, if_true]
        -- the id outstanding after a tick is one the server just generated
        have hid : id < 2 ^ 64 := by
          rcases hi with rfl | rfl
          · by_cases hph : keepAlivePhase st.pc = true
            · have := (tick_behaviour C E st hph).1 h0
              rw [this] at hk; simp at hk; rw [← hk]; exact hids _
            · have := tick_ignored_elsewhere C E st (by simpa using hph)
              rw [this, h0] at hk; cases hk
          · have : (step C E st .adapterDone).1.ka = st.ka := by
              unfold step onAdapterDone finishRouting fail
              repeat' split
              all_goals simp_all
            rw [this, h0] at hk; cases hk
        rw [echo_step C E _ id hid hmax hp hk]
      · -- the run has ended (done): the state no longer matters; nothing further is emitted
        simp only [hp]
        have hdone : (step C E st i).1.pc = .done := by
          rcases hi with rfl | rfl
          · by_cases hph : keepAlivePhase st.pc = true
            · have := (tick_behaviour C E st hph).1 h0
              rw [this] at hp; simp [hph] at hp
            · have := tick_ignored_elsewhere C E st (by simpa using hph)
              rw [this, h0] at hk; cases hk
          · have : (step C E st .adapterDone).1.ka = st.ka := by
              unfold step onAdapterDone finishRouting fail
              repeat' split
              all_goals simp_all
            rw [this, h0] at hk; cases hk
        exfalso
        -- ka = some id with pc = done cannot come from a state with ka = none by these events
        rcases hi with rfl | rfl
        · by_cases hph : keepAlivePhase st.pc = true
          · have := (tick_behaviour C E st hph).1 h0
            rw [this] at hdone; simp at hdone; simp [hdone, keepAlivePhase] at hph
          · have := tick_ignored_elsewhere C E st (by simpa using hph)
            rw [this, h0] at hk; cases hk
        · have : (step C E st .adapterDone).1.ka = st.ka := by
            unfold step onAdapterDone finishRouting fail
            repeat' split
            all_goals simp_all
          rw [this, h0] at hk; cases hk

end Passage.Props.C07
