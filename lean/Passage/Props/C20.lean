import Passage.Lemmas.Agones
/-
  C20 — Agones discovery offers exactly the currently ready game servers.
  Property theorems only; for every history of watch events (including re-lists) and every
  address parser `parseIp`.
-/
namespace Passage.Props.C20
open Passage Passage.Agones

/-- a target list *is* a view: identifiers unique, and membership is exactly `view` -/
def Views (parseIp : Bytes → Option Bytes) (ts : List Target) (st : Store) : Prop :=
  U ts ∧ ∀ t, t ∈ ts ↔ offered parseIp st t.id = some t

def CacheInv (parseIp : Bytes → Option Bytes) (s : St) (sp : Spec) : Prop :=
  Views parseIp s.cache sp.store ∧ Views parseIp s.listed sp.relist

theorem views_put (parseIp : Bytes → Option Bytes) (ts : List Target) (st : Store) (g : GameServer)
    (h : Views parseIp ts st) :
    Views parseIp (update ts (nameAny g) (readyTarget parseIp g)) (storePut (nameAny g) g st) := by
  obtain ⟨hu, hm⟩ := h
  have hs := update_spec ts (nameAny g) (readyTarget parseIp g) hu (fun t ht => readyTarget_id parseIp g t ht)
  refine ⟨hs.1, fun t => ?_⟩
  rw [hs.2 t]
  unfold offered
  rw [storeGet_put]
  by_cases hk : nameAny g = t.id
  · simp only [hk, if_true]
    constructor
    · rintro (h | ⟨_, hne⟩)
      · exact h
      · exact absurd rfl hne
    · intro h; exact Or.inl h
  · simp only [hk, if_false]
    constructor
    · rintro (h | ⟨hmem, _⟩)
      · exact absurd (readyTarget_id parseIp g t h).symm hk
      · exact (hm t).mp hmem
    · intro h
      exact Or.inr ⟨(hm t).mpr h, fun hh => hk hh.symm⟩

theorem views_del (parseIp : Bytes → Option Bytes) (ts : List Target) (st : Store) (k : Bytes)
    (h : Views parseIp ts st) : Views parseIp (update ts k none) (storeDel k st) := by
  obtain ⟨hu, hm⟩ := h
  have hs := update_spec ts k none hu (fun t ht => by cases ht)
  refine ⟨hs.1, fun t => ?_⟩
  rw [hs.2 t]
  unfold offered
  rw [storeGet_del]
  by_cases hk : k = t.id
  · simp only [hk, if_true]
    constructor
    · rintro (h | ⟨_, hne⟩)
      · cases h
      · exact absurd rfl hne
    · intro h; cases h
  · simp only [hk, if_false]
    constructor
    · rintro (h | ⟨hmem, _⟩)
      · cases h
      · exact (hm t).mp hmem
    · intro h; exact Or.inr ⟨(hm t).mpr h, fun hh => hk hh.symm⟩

theorem views_empty (parseIp : Bytes → Option Bytes) : Views parseIp [] [] :=
  ⟨fun id => by simp [cnt_nil], fun t => by simp [offered, storeGet]⟩

theorem inv_step (parseIp : Bytes → Option Bytes) (s : St) (sp : Spec) (e : Ev) (h : CacheInv parseIp s sp) :
    CacheInv parseIp (reduce parseIp s e) (specStep sp e) := by
  obtain ⟨hc, hl⟩ := h
  cases e with
  | init => exact ⟨hc, views_empty parseIp⟩
  | initApply g => exact ⟨hc, views_put parseIp _ _ g hl⟩
  | initDone => exact ⟨hl, views_empty parseIp⟩
  | apply g => exact ⟨views_put parseIp _ _ g hc, hl⟩
  | delete g => exact ⟨views_del parseIp _ _ _ hc, hl⟩

/-- **the cache equals what should be offered**: after ANY history of watch events — Apply
    (ADDED/MODIFIED), Delete, and (re-)lists Init … InitApply* … InitDone, in any number and order
    — the cached targets have unique identifiers and a target is cached exactly when it is the
    conversion of the LATEST observed GameServer of that name and that server is Ready or
    Allocated.  A server that changed to another state, became unconvertible, was deleted, or is
    missing from a completed re-list is not offered. -/
theorem cache_eq_offered (parseIp : Bytes → Option Bytes) (h : List Ev) :
    U (run parseIp {} h).cache ∧
    ∀ t, t ∈ (run parseIp {} h).cache ↔ offered parseIp (specRun {} h).store t.id = some t := by
  have gen : ∀ (h : List Ev) (s : St) (sp : Spec), CacheInv parseIp s sp →
      CacheInv parseIp (run parseIp s h) (specRun sp h) := by
    intro h
    induction h with
    | nil => intro s sp hi; exact hi
    | cons e es ih => intro s sp hi; exact ih _ _ (inv_step parseIp s sp e hi)
  exact (gen h {} {} ⟨views_empty parseIp, views_empty parseIp⟩).1

/-- each cached entry carries the address, FIRST port and metadata of the latest observation -/
theorem convert_fields (parseIp : Bytes → Option Bytes) (g : GameServer) (t : Target)
    (h : convert parseIp g = some t) :
    ∃ name st ip port rest, g.name = some name ∧ g.status = some st ∧ parseIp st.address = some ip ∧
      st.ports = port :: rest ∧ t.id = name ∧ t.ip = ip ∧ t.port = port := by
  unfold convert at h
  cases hn : g.name with
  | none => simp [hn] at h
  | some name =>
    cases hs : g.status with
    | none => simp [hn, hs] at h
    | some st =>
      simp only [hn, hs] at h
      cases hi : parseIp st.address with
      | none => simp [hi] at h
      | some ip =>
        cases hp : st.ports with
        | nil => simp [hi, hp] at h
        | cons port rest =>
          simp [hi, hp] at h
          exact ⟨name, st, ip, port, rest, rfl, rfl, hi, hp, by rw [← h], by rw [← h], by rw [← h]⟩

/-- a deletion removes the entry — the history that the pinned tree got wrong -/
theorem deleted_not_offered (parseIp : Bytes → Option Bytes) (h : List Ev) (g : GameServer) (t : Target)
    (ht : t.id = nameAny g) : t ∉ (run parseIp {} (h ++ [.delete g])).cache := by
  have hh := (cache_eq_offered parseIp (h ++ [.delete g])).2 t
  intro hmem
  have := hh.mp hmem
  have hrun : ∀ (l : List Ev) (sp : Spec), specRun sp (l ++ [.delete g]) = specStep (specRun sp l) (.delete g) := by
    intro l; induction l with
    | nil => intro sp; rfl
    | cons e es ih => intro sp; simp [specRun, ih]
  rw [hrun] at this
  simp [specStep, offered, storeGet_del, ht] at this

/-- regression fact about the pinned reducer (it only saw applied objects, so a Delete event never
    reached it): modelled by dropping deletions -/
theorem pinned_witness :
    let ready : GameServer := ⟨some [97], some ⟨[49], [7], sReady, none, none⟩, [], []⟩
    let pinned := run (fun b => some b) {} ([Ev.apply ready, Ev.delete ready].filter (fun e => match e with | .delete _ => false | _ => true))
    pinned.cache.length = 1 := by decide

/-- non-vacuity: a history with a re-list that omits a previously ready server -/
example :
    let a : GameServer := ⟨some [97], some ⟨[49], [7], [82, 101, 97, 100, 121], none, none⟩, [], []⟩
    let b : GameServer := ⟨some [98], some ⟨[50], [8, 9], [82, 101, 97, 100, 121], none, none⟩, [([107], [118])], []⟩
    ((run (fun x => some x) {} [.init, .initApply a, .initDone, .apply b, .init, .initApply b, .initDone]).cache.map (·.id)) = [[98]] := by
  decide

end Passage.Props.C20
