import Passage.Filter
/-
  C18 — Built-in filters and strategies never pick a disqualified target.
  Property theorems only; regex verdicts are arbitrary oracle bits (theorems hold for all of them).
-/
namespace Passage.Props.C18
open Passage Passage.Filter

/-- rule semantics, all six operations, missing field included -/
theorem rule_semantics (v : Bytes) (vs : List Bytes) (fv : Option Bytes) :
    (opMatches (.eq v) fv = true ↔ fv = some v) ∧
    (opMatches (.ne v) fv = true ↔ fv ≠ some v) ∧
    (opMatches .ex fv = true ↔ fv ≠ none) ∧
    (opMatches .nex fv = true ↔ fv = none) ∧
    (opMatches (.isIn vs) fv = true ↔ ∃ x, fv = some x ∧ x ∈ vs) ∧
    (opMatches (.notIn vs) fv = true ↔ ∀ x, fv = some x → x ∉ vs) := by
  refine ⟨by simp [opMatches], by simp [opMatches], ?_, ?_, ?_, ?_⟩
  · cases fv <;> simp [opMatches]
  · cases fv <;> simp [opMatches]
  · cases fv with
    | none => simp [opMatches]
    | some x =>
      simp only [opMatches, List.any_eq_true, beq_iff_eq, Option.some.injEq]
      constructor
      · rintro ⟨y, hy, hyx⟩; exact ⟨y, hyx.symm, hy⟩
      · rintro ⟨y, hxy, hy⟩; exact ⟨y, hy, hxy.symm⟩
  · cases fv with
    | none => simp [opMatches]
    | some x =>
      simp only [opMatches, Bool.not_eq_true', List.any_eq_false, beq_iff_eq, Option.some.injEq]
      constructor
      · intro h y hxy hy; exact h y hy hxy.symm
      · intro h y hy hyx; exact h y hyx.symm hy

theorem chain_nil_targets (fs : List Filt) (p : Player) : Impl.chain fs p [] = [] := by
  induction fs with
  | nil => rfl
  | cons f fs ih =>
    simp only [Impl.chain, List.foldl_cons] at ih ⊢
    have : Impl.applyFilt f p [] = [] := by
      unfold Impl.applyFilt Impl.applyKind
      cases f.host with
      | none => cases f.kind <;> simp
      | some b => cases b <;> cases f.kind <;> simp
    rw [this]; exact ih

/-- the chain (sequential composition of the configured adapters) returns exactly the eligible
    targets of the declarative specification, in discovery order -/
theorem chain_eq_eligible (fs : List Filt) (p : Player) (discovered : List Target) :
    Impl.chain fs p discovered = Spec.eligible fs p discovered := by
  induction fs generalizing discovered with
  | nil =>
    have : Spec.qualifies [] = fun _ => true := by funext t; simp [Spec.qualifies]
    simp only [Impl.chain, Spec.eligible, Spec.playerPasses, this, List.foldl_nil, List.all_nil, if_true]
    exact (List.filter_eq_self.mpr (by simp)).symm
  | cons f fs ih =>
    have hstep : Impl.chain (f :: fs) p discovered = Impl.chain fs p (Impl.applyFilt f p discovered) := by
      simp [Impl.chain]
    rw [hstep, ih]
    unfold Spec.eligible Spec.playerPasses Spec.qualifies
    simp only [List.all_cons]
    obtain ⟨host, kind⟩ := f
    by_cases happ : host = some false
    · -- out of scope: passes everything through and constrains nothing
      subst happ
      cases kind <;> simp [Impl.applyFilt, Spec.applicable]
    · have ha : Spec.applicable ⟨host, kind⟩ = true := by simp [Spec.applicable, happ]
      have hfilt : Impl.applyFilt ⟨host, kind⟩ p discovered = Impl.applyKind kind p discovered := by
        unfold Impl.applyFilt
        cases host with
        | none => rfl
        | some b => cases b <;> simp_all
      rw [hfilt]
      cases kind with
      | rules rules =>
        simp only [Impl.applyKind, ha, Bool.not_true, Bool.false_or, Bool.true_and]
        split
        · rw [List.filter_filter]
          congr 1; funext t; rw [Bool.and_comm]
        · rfl
      | allow l =>
        simp only [Impl.applyKind, ha, Bool.not_true, Bool.false_or, Bool.true_and]
        by_cases hl : listed l p = true
        · simp [hl]
        · have hl' : listed l p = false := by simpa using hl
          simp [hl']
      | block l =>
        simp only [Impl.applyKind, ha, Bool.not_true, Bool.false_or, Bool.true_and]
        by_cases hl : listed l p = true
        · simp [hl]
        · have hl' : listed l p = false := by simpa using hl
          simp [hl']

/-- default strategy: the first eligible target, `none` exactly when nothing is eligible -/
theorem any_first (fs : List Filt) (p : Player) (discovered : List Target) :
    Impl.selectAny (Impl.chain fs p discovered) = (Spec.eligible fs p discovered).head? := by
  rw [chain_eq_eligible]; rfl

theorem any_none_iff (fs : List Filt) (p : Player) (discovered : List Target) :
    Impl.selectAny (Impl.chain fs p discovered) = none ↔ Spec.eligible fs p discovered = [] := by
  rw [any_first]; cases Spec.eligible fs p discovered <;> simp

theorem maxByLast_aux (key : Target → Nat) (L : List Target) (acc : Option Target) :
    let r := L.foldl (fun acc x => match acc with
      | none => some x
      | some a => if key a > key x then some a else some x) acc
    (r = none ↔ acc = none ∧ L = []) ∧
    (∀ t, r = some t → (acc = some t ∨ t ∈ L) ∧ (∀ a, acc = some a → key a ≤ key t) ∧
      ∀ u ∈ L, key u ≤ key t) := by
  induction L generalizing acc with
  | nil =>
    simp only [List.foldl_nil, and_true, List.not_mem_nil, or_false, false_imp_iff, implies_true]
    refine ⟨trivial, ?_⟩
    intro t ht
    exact ⟨ht, fun a ha => by rw [ht] at ha; simp at ha; subst ha; exact Nat.le_refl _⟩
  | cons x xs ih =>
    simp only [List.foldl_cons]
    cases acc with
    | none =>
      have := ih (some x)
      simp only [] at this ⊢
      refine ⟨by simpa using this.1, ?_⟩
      intro t ht
      obtain ⟨h1, h2, h3⟩ := this.2 t ht
      refine ⟨Or.inr ?_, by simp, ?_⟩
      · rcases h1 with h | h
        · simp at h; simp [h]
        · simp [h]
      · intro u hu
        simp only [List.mem_cons] at hu
        rcases hu with rfl | hu
        · exact h2 _ rfl
        · exact h3 u hu
    | some a =>
      by_cases hgt : key a > key x
      · have := ih (some a)
        simp only [hgt, if_true] at this ⊢
        refine ⟨by simpa using this.1, ?_⟩
        intro t ht
        obtain ⟨h1, h2, h3⟩ := this.2 t ht
        refine ⟨?_, ?_, ?_⟩
        · rcases h1 with h | h
          · exact Or.inl h
          · exact Or.inr (by simp [h])
        · intro a' ha'; exact h2 a' ha'
        · intro u hu
          simp only [List.mem_cons] at hu
          rcases hu with rfl | hu
          · have := h2 a rfl; omega
          · exact h3 u hu
      · have := ih (some x)
        simp only [hgt, if_false] at this ⊢
        refine ⟨by simpa using this.1, ?_⟩
        intro t ht
        obtain ⟨h1, h2, h3⟩ := this.2 t ht
        refine ⟨?_, ?_, ?_⟩
        · rcases h1 with h | h
          · simp at h; exact Or.inr (by simp [h])
          · exact Or.inr (by simp [h])
        · intro a' ha'; simp at ha'; subst ha'; have := h2 x rfl; omega
        · intro u hu
          simp only [List.mem_cons] at hu
          rcases hu with rfl | hu
          · exact h2 _ rfl
          · exact h3 u hu

/-- player-fill: the chosen target is in the list, strictly below capacity, and no listed target
    below capacity is fuller; `none` exactly when no listed target is below capacity -/
theorem fill_spec (field : Bytes) (max : Nat) (ts : List Target) :
    (∀ t, Impl.selectFill field max ts = some t →
      t ∈ ts ∧ Impl.players field t < max ∧
      ∀ u ∈ ts, Impl.players field u < max → Impl.players field u ≤ Impl.players field t) ∧
    (Impl.selectFill field max ts = none ↔ ∀ u ∈ ts, ¬ Impl.players field u < max) := by
  have h := maxByLast_aux (Impl.players field) (ts.filter (fun t => Impl.players field t < max)) none
  simp only [] at h
  unfold Impl.selectFill Impl.maxByLast
  refine ⟨?_, ?_⟩
  · intro t ht
    obtain ⟨h1, _, h3⟩ := h.2 t ht
    have hm : t ∈ ts.filter (fun t => Impl.players field t < max) := by
      rcases h1 with h | h
      · simp at h
      · exact h
    simp only [List.mem_filter, decide_eq_true_eq] at hm
    refine ⟨hm.1, hm.2, ?_⟩
    intro u hu hlt
    exact h3 u (by simp [List.mem_filter, hu, hlt])
  · have h1 := h.1
    simp only [true_and] at h1
    refine Iff.trans h1 ?_
    simp [List.filter_eq_nil_iff]

/-- **soundness**: whatever the strategy returns is a discovered target that satisfies every
    applicable metadata rule, and the player passed every applicable allow/block list -/
theorem c18_sound_fill (fs : List Filt) (p : Player) (discovered : List Target) (field : Bytes)
    (max : Nat) (t : Target)
    (h : Impl.selectFill field max (Impl.chain fs p discovered) = some t) :
    t ∈ discovered ∧ Spec.qualifies fs t = true ∧ Spec.playerPasses fs p = true ∧
    Impl.players field t < max ∧
    ∀ u ∈ Spec.eligible fs p discovered, Impl.players field u < max →
      Impl.players field u ≤ Impl.players field t := by
  rw [chain_eq_eligible] at h
  obtain ⟨hm, hlt, hmax⟩ := (fill_spec field max _).1 t h
  unfold Spec.eligible at hm
  by_cases hp : Spec.playerPasses fs p = true
  · simp only [hp, if_true, List.mem_filter] at hm
    exact ⟨hm.1, hm.2, hp, hlt, hmax⟩
  · simp [hp] at hm

theorem c18_sound_any (fs : List Filt) (p : Player) (discovered : List Target) (t : Target)
    (h : Impl.selectAny (Impl.chain fs p discovered) = some t) :
    t ∈ discovered ∧ Spec.qualifies fs t = true ∧ Spec.playerPasses fs p = true := by
  rw [any_first] at h
  have hm : t ∈ Spec.eligible fs p discovered := List.mem_of_mem_head? h
  unfold Spec.eligible at hm
  by_cases hp : Spec.playerPasses fs p = true
  · simp only [hp, if_true, List.mem_filter] at hm
    exact ⟨hm.1, hm.2, hp⟩
  · simp [hp] at hm

/-- **completeness**: a player is refused for lack of a target only when no discovered target
    qualifies (below capacity, for player-fill) -/
theorem c18_complete_fill (fs : List Filt) (p : Player) (discovered : List Target) (field : Bytes)
    (max : Nat) :
    Impl.selectFill field max (Impl.chain fs p discovered) = none ↔
      ∀ u ∈ Spec.eligible fs p discovered, ¬ Impl.players field u < max := by
  rw [chain_eq_eligible]; exact (fill_spec field max _).2

/-- non-vacuity: a concrete chain with a scoped-out filter, a rule and an allow list -/
example :
    Impl.chain
      [⟨some false, .block ⟨some [[65]], none, none⟩⟩, ⟨none, .rules [⟨[107], .eq [49]⟩]⟩,
       ⟨some true, .allow ⟨none, some true, none⟩⟩]
      ⟨[65], 7⟩ [⟨[1], [([107], [49])]⟩, ⟨[2], [([107], [50])]⟩, ⟨[3], []⟩]
    = [⟨[1], [([107], [49])]⟩] := by decide

end Passage.Props.C18
