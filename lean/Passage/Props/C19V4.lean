import Passage.Props.C19
import Passage.Lemmas.NetText
/-
  C19 for IPv4 targets with NO hypothesis about the address text: the printer and parser are the
  concrete model of `Ipv4Addr`'s `Display`/`FromStr` (NetText.lean), tied to std::net by the
  `c19.v4` correspondence cases.  Property theorems only.
-/
namespace Passage.Props.C19V4
open Passage Passage.Grpc Passage.NetText

/-- **the parser inverts the printer** — the hypothesis of `C19.roundtrip`, proved for IPv4 -/
theorem parse_show (x : V4) : parseV4 (showV4 x) = some x := by
  unfold parseV4 showV4
  rw [splitDot_append _ _ (noDot_showOctet _), splitDot_append _ _ (noDot_showOctet _),
    splitDot_append _ _ (noDot_showOctet _), splitDot_noDot _ (noDot_showOctet _)]
  simp [parseOctet_showOctet]

/-- **one text per address**: whatever text the parser accepts is the canonical text of the address it
    yields (no leading zeros, blanks, signs or extra groups get through), so two accepted host texts
    that differ name different addresses -/
theorem show_parse (s : Bytes) (x : V4) (h : parseV4 s = some x) : showV4 x = s := by
  unfold parseV4 at h
  split at h
  · next p1 p2 p3 p4 hs =>
    split at h
    · next a b c d h1 h2 h3 h4 =>
      simp only [Option.some.injEq] at h
      subst h
      have hj := joinDot_splitDot s
      rw [hs] at hj
      simp only [joinDot] at hj
      simp only [showV4, showOctet_parseOctet _ _ h1, showOctet_parseOctet _ _ h2,
        showOctet_parseOctet _ _ h3, showOctet_parseOctet _ _ h4]
      exact hj
    · simp at h
  · simp at h

theorem parse_inj (s s' : Bytes) (x : V4) (h : parseV4 s = some x) (h' : parseV4 s' = some x) : s = s' := by
  rw [← show_parse s x h, ← show_parse s' x h']

theorem show_inj (x y : V4) (h : showV4 x = showV4 y) : x = y := by
  have := parse_show x
  rw [h, parse_show y] at this
  exact (Option.some.inj this).symm

/-- the canonical text is 7 to 15 bytes long (the parser's up-front length guard never bites on it) -/
theorem show_length (x : V4) : 7 ≤ (showV4 x).length ∧ (showV4 x).length ≤ 15 := by
  have ha := showOctet_length x.a; have hb := showOctet_length x.b
  have hc := showOctet_length x.c; have hd := showOctet_length x.d
  simp only [showV4, List.length_append, List.length_cons]
  omega

/-- **round trip, IPv4, unconditional** -/
theorem roundtrip_v4 (t : Target V4) (hport : t.port ≤ 65535) (hmd : C19.UniqueKeys t.md) :
    fromWire parseV4 (toWire showV4 t) = some t :=
  C19.roundtrip showV4 parseV4 parse_show t hport hmd

/-- **the choice comes back unchanged, IPv4, unconditional** -/
theorem choice_roundtrip_v4 (t : Target V4) (hport : t.port ≤ 65535) (hmd : C19.UniqueKeys t.md) :
    selectResult parseV4 (some (toWire showV4 t)) = some (some t) :=
  C19.choice_roundtrip showV4 parseV4 parse_show t hport hmd

/-- **a wire target that converts carries the canonical host text**: the router's target, printed
    again, is byte-for-byte the host the service sent -/
theorem accepted_host_is_canonical (w : WireTarget) (t : Target V4) (h : fromWire parseV4 w = some t) :
    ∃ p, w.addr = some (showV4 t.ip, p) := by
  obtain ⟨host, p, ip, hw, hip, _, ht⟩ := (C19.accept_iff parseV4 w t).1 h
  refine ⟨p, ?_⟩
  have : t.ip = ip := by rw [ht]
  rw [hw, this, show_parse host ip hip]

/- non-vacuity and shape (tests, labelled so) -/
example : showV4 (ofOctets 10 0 200 7) = ([49, 48, 46, 48, 46, 50, 48, 48, 46, 55] : Bytes) := by decide
example : parseV4 ([50, 53, 53, 46, 50, 53, 53, 46, 50, 53, 53, 46, 50, 53, 53] : Bytes) = some (ofOctets 255 255 255 255) := by decide
example : parseV4 ([49, 48, 46, 48, 46, 48, 46, 50, 53, 54] : Bytes) = none ∧ parseV4 ([49, 48, 46, 48, 46, 48] : Bytes) = none ∧
    parseV4 ([49, 48, 46, 48, 46, 48, 46, 48, 49] : Bytes) = none ∧ parseV4 ([49, 46, 50, 46, 51, 46, 52, 46] : Bytes) = none ∧
    parseV4 ([32, 49, 46, 50, 46, 51, 46, 52] : Bytes) = none ∧ parseV4 ([49, 46, 46, 51, 46, 52] : Bytes) = none ∧
    parseV4 ([] : Bytes) = none ∧ parseV4 ([48, 46, 48, 46, 48, 46, 48] : Bytes) = some (ofOctets 0 0 0 0) := by decide

end Passage.Props.C19V4
