import Passage.Grpc
/-
  C19 — Targets cross the gRPC adapter boundary unchanged.
  Property theorems only; for every IP type with a printer and parser satisfying the recorded
  hypothesis `parseIp (showIp a) = some a` (std::net's Display/FromStr round trip).
-/
namespace Passage.Props.C19
open Passage Passage.Grpc

variable {Ip : Type}

def UniqueKeys : List (Bytes × Bytes) → Prop
  | [] => True
  | (k, _) :: r => lookup k r = none ∧ UniqueKeys r

theorem collectMap_unique (m : List (Bytes × Bytes)) (h : UniqueKeys m) : collectMap m = m := by
  induction m with
  | nil => rfl
  | cons e r ih =>
    obtain ⟨k, v⟩ := e
    simp only [UniqueKeys] at h
    simp [collectMap, ih h.2, h.1]

/-- **round trip**: identifier, IPv4 or IPv6 address, port and metadata survive Target → wire →
    Target exactly -/
theorem roundtrip (showIp : Ip → Bytes) (parseIp : Bytes → Option Ip)
    (hip : ∀ a, parseIp (showIp a) = some a) (t : Target Ip) (hport : t.port ≤ 65535) (hmd : UniqueKeys t.md) :
    fromWire parseIp (toWire showIp t) = some t := by
  simp [fromWire, toWire, hip, hport, collectMap_unique _ hmd]

/-- **a discovery reply is taken as it is or rejected**: the conversion succeeds exactly when the
    address is present, the host is an IP address and the port fits 16 bits, and then carries the
    reply's identifier, that address, that port, and the metadata (last entry per key) -/
theorem accept_iff (parseIp : Bytes → Option Ip) (w : WireTarget) (t : Target Ip) :
    fromWire parseIp w = some t ↔
      ∃ h p ip, w.addr = some (h, p) ∧ parseIp h = some ip ∧ p ≤ 65535 ∧
        t = ⟨w.id, ip, p, collectMap w.md⟩ := by
  unfold fromWire
  constructor
  · intro hh
    cases ha : w.addr with
    | none => simp [ha] at hh
    | some hp =>
      obtain ⟨h, p⟩ := hp
      simp only [ha] at hh
      cases hi : parseIp h with
      | none => simp [hi] at hh
      | some ip =>
        simp only [hi] at hh
        split at hh
        · next hle => simp at hh; exact ⟨h, p, ip, rfl, hi, hle, hh.symm⟩
        · cases hh
  · rintro ⟨h, p, ip, ha, hi, hle, rfl⟩
    simp [ha, hi, hle]

/-- **malformed replies are errors, never silently altered values** -/
theorem reject_malformed (parseIp : Bytes → Option Ip) (w : WireTarget)
    (h : w.addr = none ∨ (∃ host p, w.addr = some (host, p) ∧ (parseIp host = none ∨ 65535 < p))) :
    fromWire parseIp w = none := by
  unfold fromWire
  rcases h with h | ⟨host, p, ha, hb | hb⟩
  · simp [h]
  · simp [ha, hb]
  · simp only [ha]
    cases parseIp host with
    | none => rfl
    | some ip => simp; omega

/-- the metadata map read from the wire answers every key with the LAST entry for it -/
theorem collectMap_lookup (m : List (Bytes × Bytes)) (k : Bytes) :
    lookup k (collectMap m) = (m.reverse.find? (fun e => e.1 = k)).map (·.2) := by
  induction m with
  | nil => rfl
  | cons e r ih =>
    obtain ⟨k', v⟩ := e
    simp only [collectMap, List.reverse_cons, List.find?_append]
    by_cases hk : k' = k
    · subst hk
      cases hl : lookup k' (collectMap r) with
      | none =>
        have hn : List.find? (fun e => decide (e.1 = k')) r.reverse = none := by
          have := ih; rw [hl] at this
          cases hf : List.find? (fun e => decide (e.1 = k')) r.reverse with
          | none => rfl
          | some y => rw [hf] at this; simp at this
        simp [hl, lookup, hn]
      | some x =>
        have := ih; rw [hl] at this
        cases hf : List.find? (fun e => decide (e.1 = k')) r.reverse with
        | none => rw [hf] at this; simp at this
        | some y => rw [hf] at this; simp at this; simp [hl, hf, this]
    · have e1 : lookup k (if (lookup k' (collectMap r)).isSome then collectMap r else (k', v) :: collectMap r)
          = lookup k (collectMap r) := by
        split
        · rfl
        · simp [lookup, hk]
      rw [e1, ih]
      cases hf : List.find? (fun e => decide (e.1 = k)) r.reverse with
      | none => simp [hf, hk]
      | some y => simp [hf]

/-- **the strategy service is sent the candidates, player and addresses unaltered** -/
theorem request_faithful (showIp : Ip → Bytes) (clientIp : Ip) (clientPort : Nat) (serverHost : Bytes) (serverPort : Nat)
    (protocol : Int) (username userId : Bytes) (candidates : List (Target Ip)) :
    let r := selectRequest showIp clientIp clientPort serverHost serverPort protocol username userId candidates
    r.targets = candidates.map (toWire showIp) ∧ r.targets.length = candidates.length ∧
    r.username = username ∧ r.userId = userId ∧
    r.clientHost = showIp clientIp ∧ r.clientPort = clientPort ∧
    r.serverHost = serverHost ∧ r.serverPort = serverPort ∧
    (0 ≤ protocol → (r.protocol : Int) = protocol % 2 ^ 64) := by
  simp only [selectRequest, List.length_map, true_and, and_true]
  intro _
  exact Int.toNat_of_nonneg (Int.emod_nonneg _ (by decide))

/-- **the choice comes back unchanged**: when the service answers with one of the candidates it
    was sent, the router receives exactly that candidate -/
theorem choice_roundtrip (showIp : Ip → Bytes) (parseIp : Bytes → Option Ip)
    (hip : ∀ a, parseIp (showIp a) = some a) (t : Target Ip) (hport : t.port ≤ 65535) (hmd : UniqueKeys t.md) :
    selectResult parseIp (some (toWire showIp t)) = some (some t) := by
  simp [selectResult, roundtrip showIp parseIp hip t hport hmd]

/-- regression fact about the pinned conversion: with std's socket-address grammar
    (`ipv4:port` or `[ipv6]:port`) a bracket-less IPv6 text never parses, so every IPv6 target failed -/
theorem pinned_witness (parseSock : Bytes → Option (Nat × Nat))
    (hgrammar : ∀ s, (∃ ip p, parseSock s = some (ip, p)) → s.head? = some 91 ∨ (s.filter (· == 58)).length ≤ 1)
    (w : WireTarget) (host : Bytes) (p : Nat) (hw : w.addr = some (host, p))
    (hv6 : host.head? ≠ some 91 ∧ 2 ≤ (host.filter (· == 58)).length) :
    fromWirePinned parseSock w = none := by
  unfold fromWirePinned
  simp only [hw]
  cases hps : parseSock (host ++ [58] ++ (toString p).toUTF8.toList) with
  | none => rfl
  | some r =>
    exfalso
    rcases hgrammar _ ⟨r.1, r.2, hps⟩ with h | h
    · cases host with
      | nil => simp at hv6
      | cons x xs => simp at h; exact hv6.1 (by simp [h])
    · simp only [List.filter_append, List.length_append] at h
      omega

end Passage.Props.C19
