import Passage.Lemmas.RL
/-
  C13 — Per-address rate limiting is bounded, fair between addresses and self-cleaning.
  Property theorems only.  All statements are for ANY admission arithmetic satisfying the two
  laws of `Arith` (the exact-rational instance `exactArith` satisfies them by construction; IEEE
  f32 does for `limit ≤ 2^24`, see DESIGN §4.6), any number of keys, any history.
-/
namespace Passage.Props.C13
open Passage.RL

/-! ### ghost trace of one key: (time, window start in force after the roll, admitted) -/

structure Entry where
  time : Nat
  win : Nat
  adm : Bool

def traceFrom (A : Arith) (c : Cfg) : Bucket → List Nat → List Entry
  | _, [] => []
  | b, t :: ts => ⟨t, (stepB A c b t).1.win, (stepB A c b t).2⟩ :: traceFrom A c (stepB A c b t).1 ts

/-- trace of a key seen for the first time at the head of the list -/
def trace (A : Arith) (c : Cfg) : List Nat → List Entry
  | [] => []
  | t :: ts => traceFrom A c (freshB t) (t :: ts)

def countAdm (w : Nat) (tr : List Entry) : Nat := (tr.filter (fun e => e.adm && e.win == w)).length

/-- the trace's verdicts are exactly the limiter's decisions -/
theorem trace_decisions (A : Arith) (c : Cfg) (ts : List Nat) :
    (trace A c ts).map (·.adm) = runSingle A c none ts := by
  have h : ∀ (b : Bucket) (ts : List Nat),
      (traceFrom A c b ts).map (·.adm) = runSingle A c (some b) ts := by
    intro b ts
    induction ts generalizing b with
    | nil => rfl
    | cons t ts ih => simp [traceFrom, runSingle, step1, ih]
  cases ts with
  | nil => rfl
  | cons t ts =>
    simp only [trace]
    rw [h]
    simp [runSingle, step1]

theorem traceFrom_win_ge (A : Arith) (c : Cfg) (hd : 0 < c.d) (b : Bucket) (ts : List Nat) :
    ∀ e ∈ traceFrom A c b ts, b.win ≤ e.win := by
  induction ts generalizing b with
  | nil => simp [traceFrom]
  | cons t ts ih =>
    intro e he
    simp only [traceFrom, List.mem_cons] at he
    have hge := stepB_win_ge A c b t hd
    rcases he with rfl | he
    · exact hge
    · exact Nat.le_trans hge (ih _ e he)

theorem countAdm_cons (w : Nat) (e : Entry) (tr : List Entry) :
    countAdm w (e :: tr) = (if e.adm = true ∧ e.win = w then 1 else 0) + countAdm w tr := by
  unfold countAdm
  by_cases h : e.adm = true ∧ e.win = w
  · have : (e.adm && e.win == w) = true := by simp [h.1, h.2]
    simp [List.filter_cons, this, h]; omega
  · have : (e.adm && e.win == w) = false := by
      cases ha : e.adm <;> simp_all
    simp [List.filter_cons, this, h]

theorem countAdm_zero_of_win_gt (w : Nat) (tr : List Entry) (h : ∀ e ∈ tr, w < e.win) :
    countAdm w tr = 0 := by
  induction tr with
  | nil => rfl
  | cons e tr ih =>
    rw [countAdm_cons, ih (fun x hx => h x (by simp [hx]))]
    have := h e (by simp)
    have : ¬ (e.adm = true ∧ e.win = w) := by omega
    simp [this]

theorem window_bound_from (A : Arith) (c : Cfg) (hd : 0 < c.d) (b : Bucket) (hb : BInv c b)
    (ts : List Nat) (w : Nat) :
    countAdm w (traceFrom A c b ts) + (if w = b.win then b.cur else 0) ≤ c.limit := by
  induction ts generalizing b with
  | nil =>
    simp [traceFrom, countAdm]
    split
    · exact hb.1
    · omega
  | cons t ts ih =>
    have hb' := stepB_inv A c b t hb
    have IH := ih (stepB A c b t).1 hb'
    have hcur := stepB_cur A c b t
    simp only [traceFrom, countAdm_cons]
    rcases stepB_win A c b t with ⟨hw, hlt⟩ | ⟨hw, hge⟩
    · -- window kept
      rw [hw] at IH ⊢
      have hc := hcur.1 hlt
      by_cases hwb : w = b.win
      · subst hwb
        simp only [if_true, and_true] at IH ⊢
        cases hadm : (stepB A c b t).2 <;> simp [hadm] at hc ⊢ <;> omega
      · have : ¬ b.win = w := fun h => hwb h.symm
        simp only [hwb, if_false, this, and_false] at IH ⊢
        omega
    · -- new window starting at t: no later entry carries the old window start
      rw [hw] at IH ⊢
      have hc := hcur.2 hge
      have hnew : b.win < t := by omega
      by_cases hwt : t = w
      · subst hwt
        have : ¬ t = b.win := by omega
        simp only [this, if_false, if_true, and_true] at IH ⊢
        cases hadm : (stepB A c b t).2 <;> simp [hadm] at hc ⊢ <;> omega
      · have h1 : ¬ w = t := fun h => hwt h.symm
        simp only [h1, and_false, if_false, hwt] at IH ⊢
        by_cases hwb : w = b.win
        · subst hwb
          have hzero : countAdm b.win (traceFrom A c (stepB A c b t).1 ts) = 0 := by
            apply countAdm_zero_of_win_gt
            intro e he
            have := traceFrom_win_ge A c hd _ ts e he
            rw [hw] at this; omega
          simp only [if_true, hzero]
          have := hb.1; omega
        · simp only [hwb, if_false]; omega

/-- **(A)** Between two consecutive window starts of a key — i.e. among the attempts that carry
    the same window start — at most `limit` attempts are admitted; for every history of attempt
    times (no ordering assumption is even needed), every window start `w`. -/
theorem window_bound (A : Arith) (c : Cfg) (hd : 0 < c.d) (ts : List Nat) (w : Nat) :
    countAdm w (trace A c ts) ≤ c.limit := by
  cases ts with
  | nil => simp [trace, countAdm]
  | cons t ts =>
    have := window_bound_from A c hd (freshB t) (freshB_inv c t) (t :: ts) w
    simp only [trace]
    omega

/-! ### (B) any interval of length `duration` holds at most `2·limit` admitted attempts -/

/-- window starts along a trace are equal or at least one duration apart -/
def WinRel (c : Cfg) (e1 e2 : Entry) : Prop := e1.win = e2.win ∨ e1.win + c.d ≤ e2.win

theorem traceFrom_win_rel (A : Arith) (c : Cfg) (hd : 0 < c.d) (b : Bucket) (ts : List Nat) :
    ∀ e ∈ traceFrom A c b ts, e.win = b.win ∨ b.win + c.d ≤ e.win := by
  induction ts generalizing b with
  | nil => simp [traceFrom]
  | cons t ts ih =>
    intro e he
    simp only [traceFrom, List.mem_cons] at he
    have hw := stepB_win A c b t
    rcases he with rfl | he
    · rcases hw with ⟨h, _⟩ | ⟨h, h2⟩
      · left; exact h
      · right; simp only [h]; omega
    · rcases ih _ e he with h | h <;> rcases hw with ⟨h1, _⟩ | ⟨h1, h2⟩
      · left; omega
      · right; omega
      · right; omega
      · right; omega

theorem traceFrom_pairwise (A : Arith) (c : Cfg) (hd : 0 < c.d) (b : Bucket) (ts : List Nat) :
    List.Pairwise (WinRel c) (traceFrom A c b ts) := by
  induction ts generalizing b with
  | nil => simp [traceFrom]
  | cons t ts ih =>
    simp only [traceFrom, List.pairwise_cons]
    refine ⟨?_, ih _⟩
    intro e he
    rcases traceFrom_win_rel A c hd _ ts e he with h | h
    · left; exact h.symm
    · right; exact h

/-- with non-decreasing attempt times every entry's window start lies in `(time − d, time]` -/
theorem traceFrom_win_time (A : Arith) (c : Cfg) (hd : 0 < c.d) (b : Bucket) (ts : List Nat)
    (hs : List.Pairwise (· ≤ ·) ts) (hb : ∀ t ∈ ts, b.win ≤ t) :
    ∀ e ∈ traceFrom A c b ts, e.win ≤ e.time ∧ e.time < e.win + c.d := by
  induction ts generalizing b with
  | nil => simp [traceFrom]
  | cons t ts ih =>
    intro e he
    simp only [traceFrom, List.mem_cons] at he
    have hw := stepB_win A c b t
    have hbt := hb t (by simp)
    simp only [List.pairwise_cons] at hs
    rcases he with rfl | he
    · rcases hw with ⟨h, h2⟩ | ⟨h, _⟩ <;> simp only [h] <;> omega
    · apply ih _ hs.2 _ e he
      intro t' ht'
      have := hs.1 t' ht'
      rcases hw with ⟨h, _⟩ | ⟨h, _⟩ <;> rw [h]
      · exact hb t' (by simp [ht'])
      · exact this

def inWindow (t0 d : Nat) (e : Entry) : Bool := e.adm && decide (t0 ≤ e.time) && decide (e.time ≤ t0 + d)

theorem two_windows_tail (c : Cfg) (hd : 0 < c.d) (lo w1 : Nat) :
    ∀ (rest : List Entry), List.Pairwise (WinRel c) rest →
      (∀ x ∈ rest, x.win = w1 ∨ w1 + c.d ≤ x.win) →
      (∀ e ∈ rest, lo < e.win + c.d ∧ e.win ≤ lo + c.d) → lo < w1 + c.d →
      ∃ w2, ∀ x ∈ rest, x.win = w1 ∨ x.win = w2 := by
  intro rest
  induction rest with
  | nil => intros; exact ⟨0, by simp⟩
  | cons x xs ih =>
    intro hp h1 hr hlo
    simp only [List.pairwise_cons] at hp
    by_cases hxe : x.win = w1
    · obtain ⟨w2, hw2⟩ := ih hp.2 (fun y hy => h1 y (by simp [hy])) (fun y hy => hr y (by simp [hy])) hlo
      exact ⟨w2, by
        intro y hy
        simp only [List.mem_cons] at hy
        rcases hy with rfl | hy
        · exact Or.inl hxe
        · exact hw2 y hy⟩
    · refine ⟨x.win, ?_⟩
      intro y hy
      simp only [List.mem_cons] at hy
      rcases hy with rfl | hy
      · exact Or.inr rfl
      · right
        have hxy := hp.1 y hy
        have hry := hr y (by simp [hy])
        rcases h1 x (by simp) with h | h
        · exact absurd h hxe
        · rcases hxy with h2 | h2
          · exact h2.symm
          · exfalso; omega

/-- combinatorial core: a window-ordered list whose window starts all lie in an interval shorter
    than two durations carries at most two distinct window starts -/
theorem two_windows (c : Cfg) (hd : 0 < c.d) (lo : Nat) (F : List Entry)
    (hp : List.Pairwise (WinRel c) F) (hr : ∀ e ∈ F, lo < e.win + c.d ∧ e.win ≤ lo + c.d) :
    ∃ w1 w2, ∀ e ∈ F, e.win = w1 ∨ e.win = w2 := by
  cases F with
  | nil => exact ⟨0, 0, by simp⟩
  | cons e0 rest =>
    simp only [List.pairwise_cons] at hp
    obtain ⟨w2, hw2⟩ := two_windows_tail c hd lo e0.win rest hp.2
      (fun x hx => by
        rcases hp.1 x hx with h | h
        · exact Or.inl h.symm
        · exact Or.inr h)
      (fun e he => hr e (by simp [he])) (hr e0 (by simp)).1
    exact ⟨e0.win, w2, by
      intro e he
      simp only [List.mem_cons] at he
      rcases he with rfl | he
      · exact Or.inl rfl
      · exact hw2 e he⟩

theorem filter_len_le_two (w1 w2 t0 d : Nat) (L : List Entry)
    (h : ∀ e ∈ L.filter (inWindow t0 d), e.win = w1 ∨ e.win = w2) :
    (L.filter (inWindow t0 d)).length ≤ countAdm w1 L + countAdm w2 L := by
  induction L with
  | nil => simp [countAdm]
  | cons e L ih =>
    rw [countAdm_cons, countAdm_cons]
    by_cases hin : inWindow t0 d e = true
    · have hmem : e ∈ (e :: L).filter (inWindow t0 d) := by simp [List.filter_cons, hin]
      have hw := h e hmem
      have hadm : e.adm = true := by
        simp only [inWindow, Bool.and_eq_true] at hin; exact hin.1.1
      have ih' := ih (fun x hx => h x (by simp [List.filter_cons, hin, hx]))
      simp only [List.filter_cons, hin, if_true, List.length_cons, hadm, true_and]
      rcases hw with hw | hw <;> simp [hw] <;> omega
    · have hin' : inWindow t0 d e = false := by simpa using hin
      have ih' := ih (fun x hx => h x (by simp [List.filter_cons, hin', hx]))
      simp only [List.filter_cons, hin']
      simp only [Bool.false_eq_true, if_false]
      omega

/-- **(B)** For non-decreasing attempt times, any closed interval `[t0, t0 + duration]` contains
    at most `2·limit` admitted attempts of a key. -/
theorem interval_bound (A : Arith) (c : Cfg) (hd : 0 < c.d) (ts : List Nat)
    (hs : List.Pairwise (· ≤ ·) ts) (t0 : Nat) :
    ((trace A c ts).filter (inWindow t0 c.d)).length ≤ 2 * c.limit := by
  cases ts with
  | nil => simp [trace]
  | cons t ts =>
    simp only [trace]
    have hp := traceFrom_pairwise A c hd (freshB t) (t :: ts)
    have hwt := traceFrom_win_time A c hd (freshB t) (t :: ts) hs (by
      intro t' ht'
      simp only [List.mem_cons] at ht'
      simp only [List.pairwise_cons] at hs
      rcases ht' with rfl | h
      · simp [freshB]
      · simpa [freshB] using hs.1 t' h)
    have hpF := hp.sublist (List.filter_sublist (p := inWindow t0 c.d))
    obtain ⟨w1, w2, hw⟩ := two_windows c hd t0 _ hpF (by
      intro e he
      simp only [List.mem_filter, inWindow, Bool.and_eq_true, decide_eq_true_eq] at he
      have := hwt e he.1
      omega)
    have h1 := filter_len_le_two w1 w2 t0 c.d _ hw
    have ha1 := window_bound_from A c hd (freshB t) (freshB_inv c t) (t :: ts) w1
    have ha2 := window_bound_from A c hd (freshB t) (freshB_inv c t) (t :: ts) w2
    omega

/-! ### (C) rejected attempts consume nothing, (D) idle keys are readmitted -/

/-- **(C)** a rejected attempt increments no counter: the bucket afterwards is what the
    time-driven window roll alone gives -/
theorem reject_consumes_nothing (A : Arith) (c : Cfg) (b : Bucket) (now : Nat)
    (hrej : (stepB A c b now).2 = false) : (stepB A c b now).1 = roll c now b :=
  reject_no_consume A c b now hrej

/-- **(D)** a key whose window start is at least `2·duration` old is admitted (`limit ≥ 1`) -/
theorem idle_key_readmitted (A : Arith) (c : Cfg) (b : Bucket) (now : Nat)
    (hl : 0 < c.limit) (hd : 0 < c.d) (hidle : now - b.win ≥ 2 * c.d) :
    (step1 A c (some b) now).2 = true :=
  idle_readmit A c b now hl hidle hd

/-- (D) in terms of attempts: a window start is never later than the attempt that set or kept it
    (`traceFrom_win_time`: `e.win ≤ e.time`), so a key with no attempt at all for `≥ 2·duration`
    since its last attempt at `tlast` is admitted -/
theorem idle_since_last_attempt (A : Arith) (c : Cfg) (b : Bucket) (tlast now : Nat)
    (hl : 0 < c.limit) (hd : 0 < c.d) (hwin : b.win ≤ tlast) (hidle : tlast + 2 * c.d ≤ now) :
    (step1 A c (some b) now).2 = true :=
  idle_readmit A c b now hl (by omega) hd

/-- a key never seen is admitted -/
theorem unseen_key_admitted (A : Arith) (c : Cfg) (now : Nat) (hl : 0 < c.limit) (hd : 0 < c.d) :
    (step1 A c none now).2 = true :=
  fresh_admit A c now hl hd

/-! ### (E) per-key independence, including from cleanup -/

/-- history with non-decreasing times, all at or after `tmin` -/
def MonoFrom : Nat → List (Nat × Nat) → Prop
  | _, [] => True
  | tmin, (_, t) :: h => tmin ≤ t ∧ MonoFrom t h

/-- decisions that concern key `k` -/
def decsOf (k : Nat) : List (Nat × Nat) → List Bool → List Bool
  | (k', _) :: h, d :: ds => if k' = k then d :: decsOf k h ds else decsOf k h ds
  | _, _ => []

def timesOf (k : Nat) : List (Nat × Nat) → List Nat
  | [] => []
  | (k', t) :: h => if k' = k then t :: timesOf k h else timesOf k h

/-- simulation: the multi-key limiter's bucket for `k` is the single-key state, or it was
    cleaned up while at least two windows old (then it is indistinguishable from absent) -/
def Rel (c : Cfg) (tmin : Nat) (o1 o2 : Option Bucket) : Prop :=
  o1 = o2 ∨ (o1 = none ∧ ∃ b, o2 = some b ∧ b.win + 2 * c.d ≤ tmin)

theorem rel_mono (c : Cfg) {t1 t2 : Nat} (h : t1 ≤ t2) {o1 o2 : Option Bucket}
    (hr : Rel c t1 o1 o2) : Rel c t2 o1 o2 := by
  rcases hr with h1 | ⟨h1, b, hb, hw⟩
  · exact Or.inl h1
  · exact Or.inr ⟨h1, b, hb, by omega⟩

theorem key_independent_from (A : Arith) (c : Cfg) (hd : 0 < c.d) (k : Nat) :
    ∀ (hist : List (Nat × Nat)) (s : State) (o : Option Bucket) (tmin : Nat),
      NoDup s.buckets → Rel c tmin (lookup k s.buckets) o → MonoFrom tmin hist →
      decsOf k hist (run A c s hist).2 = runSingle A c o (timesOf k hist) := by
  intro hist
  induction hist with
  | nil => intros; rfl
  | cons ev hist ih =>
    obtain ⟨k', t⟩ := ev
    intro s o tmin hn hrel hmono
    simp only [MonoFrom] at hmono
    obtain ⟨htmin, hmono'⟩ := hmono
    have hn' := nodup_enqueue A c s k' t hn
    simp only [run, decsOf, timesOf]
    by_cases hk : k' = k
    · subst hk
      simp only [if_true, runSingle]
      -- both limiters take the same step
      have hstep : step1 A c (lookup k' s.buckets) t = step1 A c o t := by
        rcases hrel with h1 | ⟨h1, b, hb, hw⟩
        · rw [h1]
        · rw [h1, hb]; exact (stale_eq_absent A c b t hd (by omega)).symm
      have hdec : (enqueue A c s k' t).2 = (step1 A c o t).2 := by
        rw [← hstep]; unfold enqueue; simp only []
        split
        · split <;> simp_all
        · simp_all
      rw [hdec]
      congr 1
      apply ih _ _ t hn' _ hmono'
      -- relation after the step
      rw [← hstep]
      have hup : lookup k' (upsert k' (step1 A c (lookup k' s.buckets) t).1 s.buckets)
          = some (step1 A c (lookup k' s.buckets) t).1 := by rw [lookup_upsert]; simp
      unfold enqueue
      simp only []
      split
      · split
        · simp only []
          rw [lookup_filter _ _ _ (nodup_upsert _ _ _ hn), hup]
          simp only []
          split
          · exact Or.inl rfl
          · next hkeep =>
            refine Or.inr ⟨rfl, _, rfl, ?_⟩
            simp [keep] at hkeep; omega
        · exact Or.inl hup
      · exact Or.inl hup
    · simp only [hk, if_false]
      apply ih _ _ t hn' _ hmono'
      have hup : lookup k (upsert k' (step1 A c (lookup k' s.buckets) t).1 s.buckets)
          = lookup k s.buckets := by rw [lookup_upsert]; simp [hk]
      have hrel' := rel_mono c htmin hrel
      unfold enqueue
      simp only []
      split
      · split
        · simp only []
          rw [lookup_filter _ _ _ (nodup_upsert _ _ _ hn), hup]
          rcases hrel' with h1 | ⟨h1, b, hb, hw⟩
          · rw [h1]
            cases o with
            | none => exact Or.inl rfl
            | some b =>
              simp only []
              split
              · exact Or.inl rfl
              · next hkeep =>
                refine Or.inr ⟨rfl, b, rfl, ?_⟩
                simp [keep] at hkeep; omega
          · rw [h1]; exact Or.inr ⟨rfl, b, hb, hw⟩
        · simp only []; rw [hup]; exact hrel'
      · simp only []; rw [hup]; exact hrel'

/-- **(E)** In any multi-key history with non-decreasing times the decisions for key `k` equal
    those of a single-key limiter WITHOUT cleanup run on `k`'s own attempts: they are unaffected
    by traffic from other keys and by the internal cleanup. -/
theorem key_independent (A : Arith) (c : Cfg) (hd : 0 < c.d) (k : Nat) (hist : List (Nat × Nat))
    (hmono : MonoFrom 0 hist) :
    decsOf k hist (run A c init hist).2 = runSingle A c none (timesOf k hist) :=
  key_independent_from A c hd k hist init none 0 (by simp [init, NoDup]) (Or.inl rfl) hmono

/-! ### (F) self-cleaning -/

/-- every tracked bucket's window start is younger than two windows at the last cleanup, and is
    the time of an attempt of that very key -/
def Recent (c : Cfg) (past : List (Nat × Nat)) (s : State) : Prop :=
  ∀ kb ∈ s.buckets, s.lastCleanup < kb.2.win + 2 * c.d ∧ (kb.1, kb.2.win) ∈ past

theorem step1_win_cases (A : Arith) (c : Cfg) (_hd : 0 < c.d) (o : Option Bucket) (t : Nat) :
    (step1 A c o t).1.win = t ∨ ∃ b, o = some b ∧ (step1 A c o t).1.win = b.win := by
  cases o with
  | none =>
    left
    rcases stepB_win A c (freshB t) t with ⟨h, _⟩ | ⟨h, _⟩ <;> simpa [step1, freshB] using h
  | some b =>
    rcases stepB_win A c b t with ⟨h, _⟩ | ⟨h, _⟩
    · right; exact ⟨b, rfl, by simpa [step1] using h⟩
    · left; simpa [step1] using h

theorem recent_enqueue (A : Arith) (c : Cfg) (hd : 0 < c.d) (past : List (Nat × Nat)) (s : State)
    (k t : Nat) (hr : Recent c past s) (ht : s.lastCleanup ≤ t) :
    Recent c (past ++ [(k, t)]) (enqueue A c s k t).1 ∧
    ((enqueue A c s k t).2 = true → ∀ kb ∈ (enqueue A c s k t).1.buckets, t < kb.2.win + 4 * c.d) := by
  -- the freshly written bucket satisfies the invariant
  have hnew : s.lastCleanup < (step1 A c (lookup k s.buckets) t).1.win + 2 * c.d ∧
      (k, (step1 A c (lookup k s.buckets) t).1.win) ∈ past ++ [(k, t)] := by
    rcases step1_win_cases A c hd (lookup k s.buckets) t with h | ⟨b, hb, h⟩
    · rw [h]; exact ⟨by omega, by simp⟩
    · rw [h]
      have := hr (k, b) (lookup_mem k b _ hb)
      exact ⟨this.1, by simp [this.2]⟩
  have hall : ∀ kb ∈ upsert k (step1 A c (lookup k s.buckets) t).1 s.buckets,
      s.lastCleanup < kb.2.win + 2 * c.d ∧ (kb.1, kb.2.win) ∈ past ++ [(k, t)] := by
    intro kb hkb
    rcases upsert_mem _ _ _ _ hkb with rfl | h
    · exact hnew
    · have := hr kb h; exact ⟨this.1, by simp [this.2]⟩
  unfold enqueue
  simp only []
  split
  · split
    · next hclean =>
      refine ⟨?_, fun _ => ?_⟩
      · intro kb hkb
        simp only [List.mem_filter] at hkb
        have hk := hkb.2
        simp [keep] at hk
        exact ⟨by simp only []; omega, (hall kb hkb.1).2⟩
      · intro kb hkb
        simp only [List.mem_filter] at hkb
        have hk := hkb.2
        simp [keep] at hk; omega
    · next hnoclean =>
      refine ⟨hall, fun _ => ?_⟩
      intro kb hkb
      have := (hall kb hkb).1
      simp only [] at hkb ⊢; omega
  · exact ⟨hall, fun h => by simp at h⟩

/-- states reachable by running a history, with the history so far -/
def runPast (A : Arith) (c : Cfg) : State → List (Nat × Nat) → State
  | s, [] => s
  | s, (k, t) :: h => runPast A c (enqueue A c s k t).1 h

/-- **(F)** For every history with non-decreasing times: immediately after every ADMITTED
    attempt at time `t` (the only moments at which the code publishes its size) every tracked
    key has an attempt of its own in `(t − 4·duration, t]` — the limiter's cleanup keeps the
    tracked keys limited to those that attempted a connection within the last four durations. -/
theorem tracked_recent (A : Arith) (c : Cfg) (hd : 0 < c.d) (pre : List (Nat × Nat)) (k t : Nat)
    (hmono : MonoFrom 0 (pre ++ [(k, t)]))
    (hadm : (enqueue A c (runPast A c init pre) k t).2 = true) :
    ∀ kb ∈ (enqueue A c (runPast A c init pre) k t).1.buckets,
      ∃ t', (kb.1, t') ∈ pre ++ [(k, t)] ∧ t < t' + 4 * c.d := by
  -- generalised invariant along the prefix
  have gen : ∀ (pre : List (Nat × Nat)) (past : List (Nat × Nat)) (s : State) (tmin : Nat),
      Recent c past s → s.lastCleanup ≤ tmin → MonoFrom tmin pre →
      Recent c (past ++ pre) (runPast A c s pre) ∧
      (∀ t, MonoFrom tmin (pre ++ [(k, t)]) → (runPast A c s pre).lastCleanup ≤ t) := by
    intro pre
    induction pre with
    | nil =>
      intro past s tmin hr hlc _
      refine ⟨by simpa [runPast] using hr, ?_⟩
      intro t hm; simp [MonoFrom] at hm; simp [runPast]; omega
    | cons ev pre ih =>
      obtain ⟨k', t'⟩ := ev
      intro past s tmin hr hlc hm
      simp only [MonoFrom] at hm
      have hstep := (recent_enqueue A c hd past s k' t' hr (by omega)).1
      have hlc' : (enqueue A c s k' t').1.lastCleanup ≤ t' := by
        unfold enqueue; simp only []
        split
        · split <;> simp <;> omega
        · simp; omega
      have := ih (past ++ [(k', t')]) (enqueue A c s k' t').1 t' hstep hlc' hm.2
      simp only [runPast, List.cons_append]
      refine ⟨by simpa [List.append_assoc] using this.1, ?_⟩
      intro t hmt
      simp only [MonoFrom] at hmt
      exact this.2 t hmt.2
  have hinit : Recent c [] init := by intro kb hkb; simp [init] at hkb
  obtain ⟨hrec, hlc⟩ := gen pre [] init 0 hinit (by simp [init]) (by
    -- the prefix of a monotone history is monotone
    have : ∀ (l : List (Nat × Nat)) (tm : Nat), MonoFrom tm (l ++ [(k, t)]) → MonoFrom tm l := by
      intro l
      induction l with
      | nil => intros; trivial
      | cons e l ihl =>
        obtain ⟨a, b⟩ := e
        intro tm h; simp only [List.cons_append, MonoFrom] at h ⊢; exact ⟨h.1, ihl b h.2⟩
    exact this pre 0 hmono)
  have hfin := recent_enqueue A c hd ([] ++ pre) (runPast A c init pre) k t hrec (hlc t hmono)
  intro kb hkb
  have h1 := hfin.1 kb hkb
  have h2 := hfin.2 hadm kb hkb
  exact ⟨kb.2.win, by simpa using h1.2, h2⟩

/-! ### (G) simultaneous arrivals: the budget does not depend on the order -/

/-- bursts on one bucket: with the window just opened and nothing carried over, `n` attempts at the
    same instant are admitted until the counter reaches the limit and refused from then on -/
theorem burst_from (A : Arith) (c : Cfg) (hd : 0 < c.d) (t n : Nat) :
    ∀ j : Nat, runSingle A c (some ⟨t, 0, j⟩) (List.replicate n t)
      = List.replicate (min (c.limit - j) n) true ++ List.replicate (n - (c.limit - j)) false := by
  induction n with
  | zero => intro j; simp [runSingle]
  | succ n ih =>
    intro j
    have hroll : roll c t ⟨t, 0, j⟩ = ⟨t, 0, j⟩ := by
      unfold roll; simp only [Nat.sub_self]; rw [if_neg (by omega)]
    simp only [List.replicate_succ, runSingle, step1, Option.getD_some, stepB, hroll, Nat.sub_self]
    rw [A.fresh hd]
    by_cases hj : j < c.limit
    · simp only [hj, decide_true, if_true]
      rw [ih (j + 1)]
      have h1 : min (c.limit - j) (n + 1) = min (c.limit - (j + 1)) n + 1 := by omega
      have h2 : n + 1 - (c.limit - j) = n - (c.limit - (j + 1)) := by omega
      rw [h1, h2, List.replicate_succ]; rfl
    · simp only [hj, decide_false, Bool.false_eq_true, if_false]
      rw [ih j]
      have h0 : c.limit - j = 0 := by omega
      simp [h0, List.replicate_succ]

/-- **every schedule of a burst**: when any number of connections of any keys reach the limiter at
    one instant `t` — in whatever order the runtime serialises them — key `k` is admitted exactly
    `min limit n_k` times, its first attempts, where `n_k` is the number of its attempts.  The
    order of arrival among different keys, and the cleanup, change nothing. -/
theorem burst_order_independent (A : Arith) (c : Cfg) (hd : 0 < c.d) (k t : Nat) (hist : List (Nat × Nat))
    (hsame : ∀ e ∈ hist, e.2 = t) :
    decsOf k hist (run A c init hist).2
      = List.replicate (min c.limit (timesOf k hist).length) true
        ++ List.replicate ((timesOf k hist).length - c.limit) false := by
  have hmono : ∀ (h : List (Nat × Nat)) (tm : Nat), tm ≤ t → (∀ e ∈ h, e.2 = t) → MonoFrom tm h := by
    intro h
    induction h with
    | nil => intros; trivial
    | cons e r ih =>
      obtain ⟨a, b⟩ := e
      intro tm htm hs
      have hb : b = t := hs (a, b) (by simp)
      subst hb
      exact ⟨htm, ih b (Nat.le_refl _) (fun e he => hs e (by simp [he]))⟩
  have htimes : ∀ h : List (Nat × Nat), (∀ e ∈ h, e.2 = t) → timesOf k h = List.replicate (timesOf k h).length t := by
    intro h
    induction h with
    | nil => intro _; simp [timesOf]
    | cons e r ih =>
      obtain ⟨a, b⟩ := e
      intro hs
      have hb : b = t := hs (a, b) (by simp)
      have hr := ih (fun e he => hs e (by simp [he]))
      simp only [timesOf]
      split
      · simp only [List.length_cons, List.replicate_succ, hb]; rw [← hr]
      · exact hr
  rw [key_independent A c hd k hist (hmono hist 0 (Nat.zero_le _) hsame)]
  rw [htimes hist hsame]
  generalize (timesOf k hist).length = n
  simp only [List.length_replicate]
  cases n with
  | zero => simp [runSingle]
  | succ n =>
    -- the first attempt creates the bucket `(t, 0, 0)`; from there on `burst_from`
    have h0 : runSingle A c none (List.replicate (n + 1) t)
        = runSingle A c (some ⟨t, 0, 0⟩) (List.replicate (n + 1) t) := rfl
    rw [h0, burst_from A c hd t (n + 1) 0]
    simp

/-- non-vacuity: two keys interleaved at one instant, limit 2 -/
example : decsOf 7 [(7, 5), (9, 5), (7, 5), (7, 5), (9, 5)] (run exactArith ⟨10, 2⟩ init [(7, 5), (9, 5), (7, 5), (7, 5), (9, 5)]).2
    = [true, true, false] := by decide

/-- the exact-rational arithmetic is an instance (so every theorem above applies to the model
    the correspondence check runs) -/
example : Arith := exactArith

/-- non-vacuity: a concrete two-key history with a rejection, a window roll and a cleanup -/
example : (run exactArith ⟨10, 2⟩ init [(0, 0), (0, 0), (0, 1), (1, 1), (0, 25), (1, 30)]).2
    = [true, true, false, true, true, true] := by decide

example : MonoFrom 0 [(0, 0), (0, 0), (0, 1), (1, 1), (0, 25), (1, 30)] := by simp [MonoFrom]

/-- **the driver's limiter is the proved one**: the stepper the model driver runs over a bare admission
    function (exact or binary32) is `enqueue` whenever that function is an `Arith`'s -/
theorem enqueueF_eq_enqueue (A : Arith) (c : Cfg) (s : State) (k now : Nat) :
    enqueueF A.allow c s k now = enqueue A c s k now := rfl

/-- the two laws, as a check on one call of a bare admission function (what the driver evaluates on every
    call of the binary32 arithmetic): an arithmetic passing it on every call it is asked is indistinguishable,
    on those calls, from one satisfying L1 and L2 -/
def lawsHoldAt (allow : Nat → Nat → Nat → Nat → Nat → Bool) (prev cur limit age d : Nat) : Bool :=
  (!allow prev cur limit age d || decide (cur < limit)) &&
  (prev != 0 || allow prev cur limit age d == decide (cur < limit))

theorem arith_lawsHoldAt (A : Arith) (prev cur limit age d : Nat) (hd : 0 < d) :
    lawsHoldAt A.allow prev cur limit age d = true := by
  unfold lawsHoldAt
  have h1 : (!A.allow prev cur limit age d || decide (cur < limit)) = true := by
    cases h : A.allow prev cur limit age d with
    | false => simp
    | true => simp [A.sound h]
  have h2 : (prev != 0 || A.allow prev cur limit age d == decide (cur < limit)) = true := by
    cases prev with
    | zero => simp [A.fresh hd]
    | succ n => simp
  simp [h1, h2]

end Passage.Props.C13
