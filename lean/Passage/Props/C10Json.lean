import Passage.Lemmas.JsonStr
/-
  C10/C02 — the quoting layer of the cookies' JSON: foreign text (player name, target identifier, property
  values and signatures, handshake host) written as a JSON string token reads back as itself and cannot end
  the token early, swallow what follows or put a raw control byte on the wire.  This discharges, for string
  fields, the recorded hypothesis `parse (ser c) = ok c`; the model is tied to serde_json by the `c10.jstr`
  correspondence cases.  Property theorems only.
-/
namespace Passage.Props.C10Json
open Passage Passage.Json

/-- **a written token reads back as the text it was written from, and the reader stops exactly at its closing
    quote** — for every byte string and whatever follows -/
theorem unquote_quote (s rest : Bytes) : unquote (quote s ++ rest) = .ok s rest := by
  simp only [quote, unquote, List.cons_append, List.append_assoc, List.nil_append]
  exact scan_escape s rest

/-- **no two texts share a token** -/
theorem quote_inj (s t : Bytes) (h : quote s = quote t) : s = t := by
  have hs := unquote_quote s []
  have ht := unquote_quote t []
  rw [h, ht] at hs
  cases hs; rfl

/-- **no injection between fields**: two texts written one after the other with a separator between them are
    read back as exactly those two texts, whatever bytes (quotes, backslashes, separators, control bytes) they hold -/
theorem two_fields (a b sep rest : Bytes) :
    unquote (quote a ++ sep ++ quote b ++ rest) = .ok a (sep ++ quote b ++ rest) ∧
    unquote (quote b ++ rest) = .ok b rest := by
  refine ⟨?_, unquote_quote b rest⟩
  have := unquote_quote a (sep ++ quote b ++ rest)
  simpa [List.append_assoc] using this

theorem escByte_printable : ∀ n : Fin 256, ∀ x ∈ escByte (UInt8.ofNat n.val), 32 ≤ x.toNat := by decide +kernel

/-- **a token holds no raw control byte** (so a cookie's JSON is one line whatever the player is called) -/
theorem escape_printable (s : Bytes) : ∀ x ∈ escape s, 32 ≤ x.toNat := by
  induction s with
  | nil => simp [escape]
  | cons b r ih =>
    intro x hx
    simp only [escape, List.mem_append] at hx
    rcases hx with hx | hx
    · have := escByte_printable ⟨b.toNat, b.toNat_lt⟩ x
      simp only [ofNat_toNat] at this
      exact this hx
    · exact ih x hx

/- shape (tests, labelled so): `a"b\` + newline + 0x01 -/
example : escape [97, 34, 98, 92, 10, 1] = [97, 92, 34, 98, 92, 92, 92, 110, 92, 117, 48, 48, 48, 49] := by decide

end Passage.Props.C10Json
