import Passage.Lemmas.Conn
import Passage.Locale
/-
  C03 — The player is transferred to exactly the target the strategy chose.
  Property theorems only; every `Env` (every discovery / filter / strategy / localisation verdict).
-/
namespace Passage.Props.C03
open Passage Passage.Conn

/-- **wiring 1**: the filters are offered exactly what discovery returned -/
theorem filters_get_discovery (C : Cfg) (E : Env) (st : St) (ts : List Target)
    (hpc : st.pc = .discovering) (hd : E.discover = .ok ts) :
    onAdapterDone C E st =
      ({ st with pc := .filtering, targets := ts }, [.callFilter (ctxOf C st) st.ident.name st.ident.uuid ts]) := by
  simp [onAdapterDone, hpc, hd]

/-- **wiring 2**: the strategy is offered exactly what the filters returned (the filters having been
    asked about `st.targets`, which wiring 1 set to discovery's answer) -/
theorem strategy_gets_filtered (C : Cfg) (E : Env) (st : St) (ts : List Target)
    (hpc : st.pc = .filtering) (hf : E.filter (ctxOf C st) st.ident.name st.ident.uuid st.targets = .ok ts) :
    onAdapterDone C E st =
      ({ st with pc := .selecting, targets := ts }, [.callSelect (ctxOf C st) st.ident.name st.ident.uuid ts]) := by
  simp [onAdapterDone, hpc, hf]

def isTransfer : Cb → Bool
  | .transfer _ _ => true
  | _ => false

/-- **the choice**: exactly one Transfer, carrying the chosen target's IP text and port, as the last
    packet; the run is finished -/
theorem transfer_is_choice_and_last (C : Cfg) (E : Env) (st : St) (t : Target)
    (hpc : st.pc = .selecting) (hs : E.select (ctxOf C st) st.ident.name st.ident.uuid st.targets = .ok (some t)) :
    (sends (onAdapterDone C E st).2).filter isTransfer = [.transfer t.ip t.port] ∧
    (sends (onAdapterDone C E st).2).getLast? = some (.transfer t.ip t.port) ∧
    (onAdapterDone C E st).1.pc = .done ∧
    Out.finish none ∈ (onAdapterDone C E st).2 := by
  simp only [onAdapterDone, hpc, hs, finishRouting]
  cases hsa : st.shouldAuth <;> cases hsec : C.secret <;> cases hsp : st.sessPresent <;>
    simp [sends, sends_append, isTransfer]

/-- **no target**: localized Disconnect for the locale the client reported, no Transfer -/
theorem no_target_disconnect (C : Cfg) (E : Env) (st : St) (r : Bytes)
    (hpc : st.pc = .selecting) (hs : E.select (ctxOf C st) st.ident.name st.ident.uuid st.targets = .ok none)
    (hl : E.localize st.locale (str "disconnect_no_target") = .ok r) :
    onAdapterDone C E st = ({ st with pc := .done },
      [.callLocalize st.locale (str "disconnect_no_target"), .send (.disconnect r), .finish (some .noTarget)]) := by
  simp [onAdapterDone, hpc, hs, finishRouting, hl]

/-- **failures**: if discovery, filtering or selection fails nothing is sent at all -/
theorem failure_no_transfer (C : Cfg) (E : Env) (st : St) (e : Err)
    (h : (st.pc = .discovering ∧ E.discover = .error e) ∨
         (st.pc = .filtering ∧ E.filter (ctxOf C st) st.ident.name st.ident.uuid st.targets = .error e) ∨
         (st.pc = .selecting ∧ E.select (ctxOf C st) st.ident.name st.ident.uuid st.targets = .error e)) :
    onAdapterDone C E st = fail st e := by
  rcases h with ⟨hpc, h⟩ | ⟨hpc, h⟩ | ⟨hpc, h⟩ <;> simp [onAdapterDone, hpc, h]

def AllOut (P : Out → Prop) : List Out → Prop
  | [] => True
  | o :: r => P o ∧ AllOut P r

@[simp] theorem allOut_nil (P : Out → Prop) : AllOut P [] = True := rfl
@[simp] theorem allOut_cons (P : Out → Prop) (o : Out) (r : List Out) : AllOut P (o :: r) = (P o ∧ AllOut P r) := rfl
@[simp] theorem allOut_append (P : Out → Prop) (a b : List Out) : AllOut P (a ++ b) = (AllOut P a ∧ AllOut P b) := by
  induction a with
  | nil => simp
  | cons x xs ih => simp [ih, and_assoc]

set_option maxHeartbeats 1600000 in
/-- **only then**: a Transfer is emitted by no step other than the completion of selection, and
    always carries the address of the strategy's choice -/
theorem transfer_only_from_choice (C : Cfg) (E : Env) (st : St) (i : In) :
    AllOut (fun o => ∀ h p, o = .send (.transfer h p) →
        st.pc = .selecting ∧ i = .adapterDone ∧
        ∃ t, E.select (ctxOf C st) st.ident.name st.ident.uuid st.targets = .ok (some t) ∧ h = t.ip ∧ p = t.port)
      (step C E st i).2 := by
  unfold step onFrame onAdapterDone kaTick hHandshake hStatusReq hPing hLoginStart hSessionCookie
    hAuthCookie onAuthCookie hEncResp onEncResp hLoginAck hClientInfo routingFrame afterSession
    finishRouting sendEncReq kaEcho fail
  repeat' split
  all_goals (try simp_all)
  all_goals (repeat' split)
  all_goals (try simp_all)

/-- the locale used for messages is the one of the Client Information packet received on this run -/
theorem locale_captured (st : St) (body : Bytes) (locale : Bytes) (rest : List (Option Codec.Val))
    (h : decodeSb 3 0 body = some (.ok (some (.bytes locale) :: rest))) :
    (hClientInfo st 0 body).1.locale = some locale ∧ (hClientInfo st 0 body).1.pc = .discovering := by
  simp [hClientInfo, h]

set_option maxHeartbeats 1600000 in
theorem locale_stable (C : Cfg) (E : Env) (st : St) (i : In) :
    (step C E st i).1.locale = st.locale ∨ st.pc = .awaitClientInfo := by
  unfold step onFrame onAdapterDone kaTick hHandshake hStatusReq hPing hLoginStart hSessionCookie
    hAuthCookie onAuthCookie hEncResp onEncResp hLoginAck hClientInfo routingFrame afterSession
    finishRouting sendEncReq kaEcho fail
  repeat' split
  all_goals (try simp_all)

/-! ### the built-in localisation: region → language → default -/

open Locale in
/-- `de_DE` falls back to `de`, then to the default locale and its prefixes -/
example : chain [100, 101, 95, 68, 69] = [[100, 101, 95, 68, 69], [100, 101]] := by decide
open Locale in
example : chain [97, 95, 98, 95, 99] = [[97, 95, 98, 95, 99], [97, 95, 98], [97]] := by decide

open Locale in
/-- the message is the entry of the FIRST locale of the chain that has a table -/
theorem localize_first_hit (default : Bytes) (tables : Tables) (locale : Option Bytes) (key : Bytes)
    (t : List (Bytes × Bytes)) (pre post : List Bytes) (l : Bytes)
    (hchain : chain (locale.getD default) ++ chain default = pre ++ l :: post)
    (hmiss : ∀ x ∈ pre, lookup x tables = none) (hhit : lookup l tables = some t) :
    localize default tables locale key = (lookup key t).getD key := by
  unfold localize
  rw [hchain]
  have : firstTable tables (pre ++ l :: post) = some t := by
    clear hchain
    induction pre with
    | nil => simp [firstTable, hhit]
    | cons x xs ih =>
      simp only [List.cons_append, firstTable, hmiss x (by simp)]
      exact ih (fun y hy => hmiss y (by simp [hy]))
  rw [this]

open Locale in
/-- no table along the whole chain: the key itself is the message -/
theorem localize_no_table (default : Bytes) (tables : Tables) (locale : Option Bytes) (key : Bytes)
    (hmiss : ∀ x ∈ chain (locale.getD default) ++ chain default, lookup x tables = none) :
    localize default tables locale key = key := by
  unfold localize
  have : ∀ ls : List Bytes, (∀ x ∈ ls, lookup x tables = none) → firstTable tables ls = none := by
    intro ls
    induction ls with
    | nil => intro _; rfl
    | cons x xs ih => intro h; simp [firstTable, h x (by simp)]; exact ih (fun y hy => h y (by simp [hy]))
  rw [this _ hmiss]

end Passage.Props.C03
