import Passage.Lemmas.Conn
/-
  C02 — Authentication is skipped only for a valid, unexpired, same-IP signed cookie.
  Property theorems only.  `E.hmac` is an arbitrary function (instantiated with HMAC-SHA256 in the
  executable model); cryptographic strength appears only as explicit hypotheses where needed.
-/
namespace Passage.Props.C02
open Passage Passage.Conn

/-- the seven conjuncts, stated outright -/
def Acceptable (C : Cfg) (E : Env) (intent : Intent) (pl : Option Bytes) (c : AuthCookie) : Prop :=
  intent = .transfer ∧ ∃ s x, C.secret = some s ∧ pl = some x ∧ 32 ≤ x.length ∧
    x.take 32 = E.hmac s (x.drop 32) ∧ E.parseCookie (x.drop 32) = .ok c ∧
    c.ip = E.clientIp ∧ E.now ≤ min (c.ts + C.expiry) (2 ^ 64 - 1)

/-- **decision**: on the transfer branch authentication is skipped exactly when the presented
    payload satisfies the conjuncts — and then the identity in use is the cookie's -/
theorem skip_iff (C : Cfg) (E : Env) (st : St) (pl : Option Bytes) (hsa : st.shouldAuth = true)
    (hint : st.hs.intent = .transfer) :
    (onAuthCookie C E st pl).1.shouldAuth = false ↔ ∃ c, Acceptable C E st.hs.intent pl c := by
  unfold onAuthCookie sendEncReq fail verifyCookie acceptCookie Acceptable
  repeat' split
  all_goals (try simp_all)
  all_goals (try omega)
  all_goals (try grind)

theorem identity_from_cookie (C : Cfg) (E : Env) (st : St) (pl : Option Bytes) (c : AuthCookie)
    (_hsa : st.shouldAuth = true) (h : Acceptable C E st.hs.intent pl c) :
    (onAuthCookie C E st pl).1.ident = c.ident ∧ (onAuthCookie C E st pl).1.vouched = some c.ident ∧
    sends (onAuthCookie C E st pl).2 = [.encRequest [] E.pubKey E.token false] := by
  obtain ⟨_, s, x, hs, hpl, hlen, htag, hparse, hip, hnow⟩ := h
  subst hpl
  have hv : verifyCookie E s x = some (x.drop 32) := by
    unfold verifyCookie
    have : ¬ x.length < 32 := by omega
    simp [this, htag]
  have ha : acceptCookie C E c = true := by
    unfold acceptCookie; simp [hip]; omega
  simp [onAuthCookie, hs, hv, hparse, ha, sendEncReq, sends]

/-- the flag inside the Encryption Request is the state's flag -/
theorem flag_in_request (E : Env) (st : St) :
    sends (sendEncReq E st []).2 = [.encRequest [] E.pubKey E.token st.shouldAuth] := by
  simp [sendEncReq, sends]

/-- invariant: the cookie is only ever asked for (and authentication only ever waived) on a
    Transfer-intent connection with a secret configured -/
def TInv (C : Cfg) (st : St) : Prop :=
  (st.pc = .awaitAuthCookie → st.hs.intent = .transfer ∧ C.secret.isSome = true) ∧
  (st.shouldAuth = false → st.hs.intent = .transfer ∧ C.secret.isSome = true) ∧
  ((st.pc = .awaitHandshake ∨ st.pc = .awaitStatusReq ∨ st.pc = .awaitPing ∨ st.pc = .awaitLoginStart ∨
    st.pc = .awaitSessionCookie ∨ st.pc = .awaitAuthCookie) → st.shouldAuth = true)

set_option maxHeartbeats 1600000 in
theorem tinv_step (C : Cfg) (E : Env) (st : St) (i : In) (h : TInv C st) : TInv C (step C E st i).1 := by
  unfold step onFrame onAdapterDone kaTick hHandshake hStatusReq hPing hLoginStart hSessionCookie
    hAuthCookie onAuthCookie hEncResp onEncResp hLoginAck hClientInfo routingFrame afterSession
    finishRouting sendEncReq kaEcho fail
  repeat' split
  all_goals (simp_all [TInv])

/-- **Login intent, or no secret: never skipped** — in every reachable state -/
theorem never_skipped_without_transfer_and_secret (C : Cfg) (E : Env) (ins : List In) :
    (run C E {} ins).1.shouldAuth = false →
      (run C E {} ins).1.hs.intent = .transfer ∧ C.secret.isSome = true := by
  have : TInv C (run C E {} ins).1 :=
    run_induction C E (P := TInv C) (fun st i h => tinv_step C E st i h) {} (by simp [TInv]) ins
  exact this.2.1

set_option maxHeartbeats 1600000 in
/-- the flag is only ever cleared by the cookie step -/
theorem flag_cleared_only_at_cookie (C : Cfg) (E : Env) (st : St) (i : In) :
    (step C E st i).1.shouldAuth = st.shouldAuth ∨ st.pc = .awaitAuthCookie := by
  unfold step onFrame onAdapterDone kaTick hHandshake hStatusReq hPing hLoginStart hSessionCookie
    hAuthCookie onAuthCookie hEncResp onEncResp hLoginAck hClientInfo routingFrame afterSession
    finishRouting sendEncReq kaEcho fail
  repeat' split
  all_goals (try simp_all)

/-- without the waiver the authentication service's verdict is required before Login Success -/
theorem success_requires_verdict (C : Cfg) (E : Env) (st : St) (sct tct : Bytes) (u : Nat) (n : Bytes)
    (hsa : st.shouldAuth = true) (h : Cb.loginSuccess u n ∈ sends (onEncResp C E st sct tct).2) :
    ∃ secret prof, E.rsaDecrypt sct = some secret ∧
      E.auth (ctxOf C st) st.ident.name st.ident.uuid secret E.pubKey = .ok prof ∧ prof.uuid = u ∧ prof.name = n ∧
      Out.callAuth (ctxOf C st) st.ident.name st.ident.uuid secret E.pubKey ∈ (onEncResp C E st sct tct).2 := by
  unfold onEncResp fail at *
  repeat' split at h
  all_goals (simp_all [sends, sends_append])

/-- with the waiver the service is not consulted at all -/
theorem waived_means_not_consulted (C : Cfg) (E : Env) (st : St) (sct tct : Bytes) (hsa : st.shouldAuth = false) :
    ∀ c n u s p, Out.callAuth c n u s p ∉ (onEncResp C E st sct tct).2 := by
  unfold onEncResp fail
  repeat' split
  all_goals (simp_all)

/-! ### the enumerated negatives -/

theorem missing_or_short_rejected (E : Env) (s x : Bytes) (h : x.length < 32) : verifyCookie E s x = none := by
  simp [verifyCookie, h]

/-- any change of the tag for the same body is rejected — no cryptographic hypothesis -/
theorem altered_tag_rejected (E : Env) (s tag body : Bytes) (hl : tag.length = 32) (h : tag ≠ E.hmac s body) :
    verifyCookie E s (tag ++ body) = none := by
  have h1 : 32 ≤ tag.length + body.length := by omega
  have h2 : (tag ++ body).take 32 = tag := List.take_left' hl
  have h3 : (tag ++ body).drop 32 = body := List.drop_left' hl
  simp [verifyCookie, h1, h2, h3, h]

/-- sign/verify round trip -/
theorem verify_sign (E : Env) (s m : Bytes) (hl : (E.hmac s m).length = 32) :
    verifyCookie E s (E.hmac s m ++ m) = some m := by
  have h2 : 32 ≤ (E.hmac s m).length + m.length := by omega
  simp [verifyCookie, h2, List.take_left' hl, List.drop_left' hl]

/-- an altered body is rejected, under the named second-preimage hypothesis on the tag function -/
theorem altered_body_rejected (E : Env) (s m m' : Bytes) (hl : (E.hmac s m).length = 32) (hne : m' ≠ m)
    (hcr : E.hmac s m' = E.hmac s m → m' = m) : verifyCookie E s (E.hmac s m ++ m') = none := by
  have h2 : 32 ≤ (E.hmac s m).length + m'.length := by omega
  have : ¬ E.hmac s m = E.hmac s m' := fun h => hne (hcr h.symm)
  simp [verifyCookie, h2, List.take_left' hl, List.drop_left' hl, this]

/-- a cookie signed with another secret is rejected, under the named key-separation hypothesis -/
theorem other_secret_rejected (E : Env) (s s' m : Bytes) (hl : (E.hmac s' m).length = 32)
    (hks : E.hmac s' m ≠ E.hmac s m) : verifyCookie E s (E.hmac s' m ++ m) = none := by
  have h2 : 32 ≤ (E.hmac s' m).length + m.length := by omega
  simp [verifyCookie, h2, List.take_left' hl, List.drop_left' hl, hks]

/-- other IP, or older than the configured expiry: not accepted -/
theorem other_ip_or_expired_rejected (C : Cfg) (E : Env) (c : AuthCookie)
    (h : c.ip ≠ E.clientIp ∨ c.ts + C.expiry < E.now) : acceptCookie C E c = false := by
  unfold acceptCookie
  rcases h with h | h
  · simp [h]
  · simp; intro _; omega

/-- non-vacuity: a concrete environment in which a presented payload is acceptable -/
example : ∃ (C : Cfg) (E : Env) (pl : Option Bytes) (c : AuthCookie), Acceptable C E .transfer pl c :=
  ⟨⟨some [1], 10, 100, []⟩,
   { status := fun _ => .ok [], auth := fun _ _ _ _ _ => .error .adapter, discover := .ok [],
     filter := fun _ _ _ t => .ok t, select := fun _ _ _ _ => .ok none, localize := fun _ k => .ok k,
     rsaDecrypt := fun _ => none, token := [], pubKey := [], hmac := fun _ _ => List.replicate 32 7,
     parseCookie := fun _ => .ok ⟨5, [9], ⟨[65], 1, []⟩⟩, serCookie := fun _ _ => [], sessionClass := fun _ => .null,
     now := 12, kaId := id, clientIp := [9] },
   some (List.replicate 32 7 ++ [1, 2, 3]), ⟨5, [9], ⟨[65], 1, []⟩⟩,
   by refine ⟨rfl, [1], _, rfl, rfl, by simp, by decide, rfl, rfl, by decide⟩⟩

end Passage.Props.C02
