import Passage.Listener
import Passage.Extracted.Listener
/-
  C16 — One stalled or hostile client never delays another (partial: the proof is about the
  interleaving model and the await structure; scheduler fairness, the kernel's accept queue and CPU
  starvation are sampled by the real-socket runs only).
-/
namespace Passage.Props.C16
open Passage.Listener

def skeletonOf (f : Passage.Extracted.ListenerFacts) : Skeleton :=
  ⟨f.stopBiased, f.clientInputBeforeSpawn, f.closesTracker, f.waitsTracker⟩

/-- the accept loop never waits for any client: it is `running`, `stopped` or `returned` -/
def NeverBlocked (s : St) : Prop := ∀ c, s.loop ≠ .blockedOn c

theorem step_never_blocked (K : Skeleton) (hK : K.clientInputBeforeSpawn = false) (s : St) (a : Act)
    (h : NeverBlocked s) : NeverBlocked (step K s a) := by
  intro c
  unfold NeverBlocked at h
  cases a <;> simp only [step] <;> (repeat' split) <;> simp_all

/-- **no head-of-line blocking**: for every skeleton without client input before the spawn, in
    every reachable state the loop is never waiting on a client — so whenever the backlog is
    non-empty and no stop is pending, the next loop step accepts -/
theorem accept_never_blocked (K : Skeleton) (hK : K.clientInputBeforeSpawn = false) (acts : List Act) :
    NeverBlocked (run K {} acts) := by
  have gen : ∀ (acts : List Act) (s : St), NeverBlocked s → NeverBlocked (run K s acts) := by
    intro acts
    induction acts with
    | nil => intro s h; exact h
    | cons a as ih => intro s h; exact ih _ (step_never_blocked K hK s a h)
  exact gen acts {} (by intro c; simp)

theorem accept_enabled (K : Skeleton) (hK : K.clientInputBeforeSpawn = false) (s : St) (c : Nat) (rest : List Nat)
    (hl : s.loop = .running) (hb : s.backlog = c :: rest) (hs : s.stopRequested = false) (p : Bool) :
    getTask c (step K s (.loopStep p)).tasks = some .headerWait ∧ (step K s (.loopStep p)).backlog = rest := by
  have gt : ∀ (l : List (Nat × Task)), getTask c (setTask c .headerWait l) = some .headerWait := by
    intro l; induction l with
    | nil => simp [setTask, getTask]
    | cons e r ih => obtain ⟨a, b⟩ := e; by_cases h : a = c <;> simp [setTask, getTask, h, ih]
  simp [step, hl, hb, hs, hK, gt]

/-- **independence**: an input or completion of one connection never changes another
    connection's task -/
theorem other_connections_untouched (K : Skeleton) (s : St) (c d : Nat) (hcd : c ≠ d) :
    getTask d (step K s (.clientInput c)).tasks = getTask d s.tasks ∧
    getTask d (step K s (.taskFinish c)).tasks = getTask d s.tasks := by
  have gt : ∀ (t : Task) (l : List (Nat × Task)), getTask d (setTask c t l) = getTask d l := by
    intro t l; induction l with
    | nil => simp [setTask, getTask, hcd]
    | cons e r ih =>
      obtain ⟨a, b⟩ := e
      by_cases h : a = c
      · subst h; simp [setTask, getTask, hcd]
      · by_cases h2 : a = d
        · subst h2; simp [setTask, getTask, h]
        · simp [setTask, getTask, h, h2, ih]
  constructor
  · simp only [step]
    cases s.loop <;> simp only [] <;> repeat' split
    all_goals simp_all
  · simp only [step]
    split <;> simp_all

/-- the structure of the current source satisfies the hypothesis -/
theorem extracted_no_client_input_before_spawn :
    (match Passage.Extracted.listener with
     | none => true
     | some f => !(skeletonOf f).clientInputBeforeSpawn) = true := by decide

/-- regression fact about the pinned structure: with the PROXY header awaited inline, a silent
    first peer leaves a later client unaccepted for ever -/
theorem pinned_witness :
    let K : Skeleton := ⟨false, true, true, true⟩
    let s := run K {} [.arrive 1, .loopStep true, .arrive 2, .loopStep true, .loopStep true, .loopStep true]
    s.loop = .blockedOn 1 ∧ s.backlog = [2] ∧ getTask 2 s.tasks = none := by decide

end Passage.Props.C16
