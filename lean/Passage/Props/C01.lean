import Passage.Lemmas.Conn
/-
  C01 — Only an authenticated identity is ever admitted.
  Property theorems only; for every configuration, environment (every service verdict, RSA
  outcome, token) and input list.
-/
namespace Passage.Props.C01
open Passage Passage.Conn

def postAuth : Pc → Bool
  | .awaitLoginAck | .awaitClientInfo | .discovering | .filtering | .selecting => true
  | _ => false

/-- invariant: once past authentication — or once a cookie made authentication unnecessary — the
    identity in use is exactly the vouched one -/
def VInv (st : St) : Prop :=
  (postAuth st.pc = true → st.vouched = some st.ident) ∧
  (st.shouldAuth = false →
    (st.pc = .awaitEncResp ∨ postAuth st.pc = true ∨ st.pc = .done) ∧ st.vouched = some st.ident)

/-- what a grant-bearing output says about the identity it is issued under -/
def GrantOk (C : Cfg) (E : Env) (v : Option Ident) : Out → Prop
  | .send (.loginSuccess u n) => ∃ id, v = some id ∧ id.name = n ∧ id.uuid = u
  | .callFilter _ n u _ => ∃ id, v = some id ∧ id.name = n ∧ id.uuid = u
  | .callSelect _ n u _ => ∃ id, v = some id ∧ id.name = n ∧ id.uuid = u
  | .send (.storeAuthCookie p) => ∃ id s tid, v = some id ∧ C.secret = some s ∧
      p = E.hmac s (E.serCookie ⟨E.now, E.clientIp, id⟩ tid) ++ E.serCookie ⟨E.now, E.clientIp, id⟩ tid
  | _ => True

/-- invariant needed at the cookie states: authentication has not been waived yet -/
def PreAuth (st : St) : Prop :=
  (st.pc = .awaitHandshake ∨ st.pc = .awaitStatusReq ∨ st.pc = .awaitPing ∨ st.pc = .awaitLoginStart ∨
   st.pc = .awaitSessionCookie ∨ st.pc = .awaitAuthCookie) → st.shouldAuth = true

/-- a predicate holds of every output of a step -/
def AllOut (P : Out → Prop) : List Out → Prop
  | [] => True
  | o :: r => P o ∧ AllOut P r

@[simp] theorem allOut_nil (P : Out → Prop) : AllOut P [] = True := rfl
@[simp] theorem allOut_cons (P : Out → Prop) (o : Out) (r : List Out) : AllOut P (o :: r) = (P o ∧ AllOut P r) := rfl
@[simp] theorem allOut_append (P : Out → Prop) (a b : List Out) : AllOut P (a ++ b) = (AllOut P a ∧ AllOut P b) := by
  induction a with
  | nil => simp
  | cons x xs ih => simp [ih, and_assoc]

theorem allOut_mem (P : Out → Prop) (l : List Out) (h : AllOut P l) : ∀ o ∈ l, P o := by
  induction l with
  | nil => simp
  | cons x xs ih =>
    intro o ho
    simp only [allOut_cons] at h
    simp only [List.mem_cons] at ho
    rcases ho with rfl | ho
    · exact h.1
    · exact ih h.2 o ho

set_option maxHeartbeats 1600000 in
/-- the invariants are preserved by every step, for every input -/
theorem inv_step (C : Cfg) (E : Env) (st : St) (i : In) (h : VInv st) (hp : PreAuth st) :
    VInv (step C E st i).1 ∧ PreAuth (step C E st i).1 := by
  unfold step onFrame onAdapterDone kaTick hHandshake hStatusReq hPing hLoginStart hSessionCookie
    hAuthCookie onAuthCookie hEncResp onEncResp hLoginAck hClientInfo routingFrame afterSession
    finishRouting sendEncReq kaEcho fail
  repeat' split
  all_goals (simp_all [VInv, PreAuth, postAuth])

set_option maxHeartbeats 1600000 in
/-- every grant-bearing output of a step is issued under the identity vouched for after it -/
theorem grants_step (C : Cfg) (E : Env) (st : St) (i : In) (h : VInv st) (hp : PreAuth st) :
    AllOut (GrantOk C E (step C E st i).1.vouched) (step C E st i).2 := by
  unfold step onFrame onAdapterDone kaTick hHandshake hStatusReq hPing hLoginStart hSessionCookie
    hAuthCookie onAuthCookie hEncResp onEncResp hLoginAck hClientInfo routingFrame afterSession
    finishRouting sendEncReq kaEcho fail
  repeat' split
  all_goals (try simp_all [VInv, PreAuth, postAuth, GrantOk])
  all_goals (repeat' split)
  all_goals (try simp_all [GrantOk])
  all_goals (exact ⟨_, rfl⟩)

set_option maxHeartbeats 1600000 in
/-- the vouched identity can change only in the two states where a cookie or the service speaks -/
theorem vouched_changes_only_at (C : Cfg) (E : Env) (st : St) (i : In) :
    (step C E st i).1.vouched = st.vouched ∨ st.pc = .awaitAuthCookie ∨ st.pc = .awaitEncResp := by
  unfold step onFrame onAdapterDone kaTick hHandshake hStatusReq hPing hLoginStart hSessionCookie
    hAuthCookie onAuthCookie hEncResp onEncResp hLoginAck hClientInfo routingFrame afterSession
    finishRouting sendEncReq kaEcho fail
  repeat' split
  all_goals (try simp_all)

/-- … at the cookie state: only an accepted cookie (C02's conjuncts) vouches -/
theorem cookie_origin (C : Cfg) (E : Env) (st : St) (pl : Option Bytes) :
    (onAuthCookie C E st pl).1.vouched = st.vouched ∨
      ∃ s x m c, C.secret = some s ∧ pl = some x ∧ verifyCookie E s x = some m ∧
        E.parseCookie m = .ok c ∧ acceptCookie C E c = true ∧
        (onAuthCookie C E st pl).1.vouched = some c.ident := by
  unfold onAuthCookie sendEncReq fail
  repeat' split
  all_goals (try simp_all)

/-- … at the Encryption Response: only the authentication service's profile vouches, and the
    service was asked with the claimed name, the decrypted shared secret — the very secret the
    cipher is keyed with — and the server's public key, after this run's verify token came back -/
theorem auth_origin (C : Cfg) (E : Env) (st : St) (sct tct : Bytes) :
    (onEncResp C E st sct tct).1.vouched = st.vouched ∨
      ∃ secret prof, st.shouldAuth = true ∧ E.rsaDecrypt sct = some secret ∧
        E.rsaDecrypt tct = some E.token ∧
        E.auth (ctxOf C st) st.ident.name st.ident.uuid secret E.pubKey = .ok prof ∧
        Out.callAuth (ctxOf C st) st.ident.name st.ident.uuid secret E.pubKey ∈ (onEncResp C E st sct tct).2 ∧
        (∀ k, Out.enableCipher k ∈ (onEncResp C E st sct tct).2 → k = secret) ∧
        (onEncResp C E st sct tct).1.vouched = some prof := by
  unfold onEncResp fail
  repeat' split
  all_goals (try simp_all)

/-- lifted to every reachable state: every Login Success, every candidate filtering / selection
    call and every authentication cookie of every run is issued under the identity vouched for on
    that very connection -/
theorem c01_grants_vouched (C : Cfg) (E : Env) (pre : List In) (i : In) :
    ∀ o ∈ (step C E (run C E {} pre).1 i).2,
      GrantOk C E (step C E (run C E {} pre).1 i).1.vouched o := by
  have reach : ∀ (pre : List In) (st : St), VInv st → PreAuth st →
      VInv (run C E st pre).1 ∧ PreAuth (run C E st pre).1 := by
    intro pre
    induction pre with
    | nil => intro st h hp; exact ⟨h, hp⟩
    | cons i is ih =>
      intro st h hp
      rw [run_cons]
      have := inv_step C E st i h hp
      exact ih _ this.1 this.2
  have hinit : VInv {} ∧ PreAuth {} := by simp [VInv, PreAuth, postAuth]
  have hr := reach pre {} hinit.1 hinit.2
  exact allOut_mem _ _ (grants_step C E _ i hr.1 hr.2)

/-- if the service fails, or the token / secret do not decrypt, or the token is not this run's:
    nothing is granted and the connection ends -/
theorem c01_no_grant_on_failure (C : Cfg) (E : Env) (st : St) (sct tct : Bytes)
    (hbad : E.rsaDecrypt sct = none ∨ E.rsaDecrypt tct = none ∨ (∃ t, E.rsaDecrypt tct = some t ∧ t ≠ E.token) ∨
      (st.shouldAuth = true ∧ ∀ s, E.rsaDecrypt sct = some s →
        ∃ e, E.auth (ctxOf C st) st.ident.name st.ident.uuid s E.pubKey = .error e)) :
    (onEncResp C E st sct tct).1.pc = .done ∧ sends (onEncResp C E st sct tct).2 = [] := by
  unfold onEncResp
  rcases hbad with h | h | ⟨t, h, ht⟩ | ⟨hsa, h⟩
  · simp [h, fail, sends]
  · cases hs : E.rsaDecrypt sct <;> simp [h, fail, sends]
  · cases hs : E.rsaDecrypt sct <;> simp [h, ht, fail, sends]
  · cases hs : E.rsaDecrypt sct with
    | none => simp [fail, sends]
    | some s =>
      obtain ⟨e, he⟩ := h s hs
      cases ht : E.rsaDecrypt tct with
      | none => simp [fail, sends]
      | some t =>
        simp only []
        split
        · simp [fail, sends]
        · simp [hsa, he, fail, sends, sends_append]

/-- the claimed name and UUID are not used once an authenticated identity exists: the state after
    authentication does not depend on them beyond what the service itself answers -/
theorem c01_claim_overwritten (C : Cfg) (E : Env) (st : St) (sct tct secret : Bytes) (prof : Ident)
    (hs : E.rsaDecrypt sct = some secret) (ht : E.rsaDecrypt tct = some E.token) (hsa : st.shouldAuth = true)
    (hauth : E.auth (ctxOf C st) st.ident.name st.ident.uuid secret E.pubKey = .ok prof) :
    (onEncResp C E st sct tct).1.ident = prof ∧
    (secret.length = 16 → sends (onEncResp C E st sct tct).2 = [.loginSuccess prof.uuid prof.name]) := by
  unfold onEncResp
  simp only [hs, ht, hsa, hauth]
  by_cases hl : secret.length = 16 <;> simp [hl, fail, sends]

/-- non-vacuity: the initial state satisfies the invariants -/
example : VInv {} ∧ PreAuth {} := by simp [VInv, PreAuth, postAuth]

end Passage.Props.C01
