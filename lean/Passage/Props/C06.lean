import Passage.Lemmas.Conn
/-
  C06 — Packets are only exchanged in protocol order; status and login never mix.
  Property theorems only; all hold for every configuration `C`, every environment `E` (every
  adapter verdict, RSA outcome, clock…) and every input list.
-/
namespace Passage.Props.C06
open Passage Passage.Conn

/-- the protocol order of clientbound packet kinds as an automaton -/
inductive Q | start | statusSent | cookie1 | cookie2 | enc | success | stored1 | stored2 | closed
  deriving DecidableEq, Repr

def delta : Q → Cb → Option Q
  | .start, .statusResponse _ => some .statusSent
  | .statusSent, .pong _ => some .closed
  | .start, .cookieRequest _ => some .cookie1
  | .cookie1, .cookieRequest _ => some .cookie2
  | .cookie1, .encRequest _ _ _ _ | .cookie2, .encRequest _ _ _ _ => some .enc
  | .enc, .loginSuccess _ _ => some .success
  | .success, .keepAlive _ => some .success
  | .success, .storeAuthCookie _ => some .stored1
  | .success, .storeSessionCookie _ _ | .stored1, .storeSessionCookie _ _ => some .stored2
  | .success, .transfer _ _ | .stored1, .transfer _ _ | .stored2, .transfer _ _ => some .closed
  | .success, .disconnect _ => some .closed
  | _, _ => none

def dfaRun : Q → List Cb → Option Q
  | q, [] => some q
  | q, p :: r => match delta q p with | some q' => dfaRun q' r | none => none

/-- automaton states compatible with a program counter -/
def okQ : Pc → Q → Prop
  | .awaitHandshake, q | .awaitStatusReq, q | .awaitLoginStart, q => q = .start
  | .awaitPing, q => q = .statusSent
  | .awaitSessionCookie, q => q = .cookie1
  | .awaitAuthCookie, q => q = .cookie2
  | .awaitEncResp, q => q = .enc
  | .awaitLoginAck, q | .awaitClientInfo, q | .discovering, q | .filtering, q | .selecting, q => q = .success
  | .done, _ => True

theorem dfaRun_append (q : Q) (a b : List Cb) :
    dfaRun q (a ++ b) = (dfaRun q a).bind (fun q' => dfaRun q' b) := by
  induction a generalizing q with
  | nil => simp [dfaRun]
  | cons x xs ih => simp [dfaRun]; cases delta q x <;> simp [ih]

/-- what one step must establish -/
def StepOk (pc : Pc) (r : St × List Out) : Prop :=
  ∀ q, okQ pc q → ∃ q', dfaRun q (sends r.2) = some q' ∧ okQ r.1.pc q'

theorem fail_ok (pc : Pc) (st : St) (e : Err) (pre : List Out) (hpre : sends pre = []) :
    StepOk pc (fail st e pre) := by
  intro q _
  exact ⟨q, by simp [fail, sends_append, hpre, sends, dfaRun], by simp [fail, okQ]⟩

theorem sendEncReq_ok (E : Env) (st : St) (pc : Pc) (h : ∀ q, okQ pc q → q = .cookie1 ∨ q = .cookie2) :
    StepOk pc (sendEncReq E st []) := by
  intro q hq
  rcases h q hq with rfl | rfl <;> exact ⟨.enc, by simp [sendEncReq, sends, dfaRun, delta], by simp [sendEncReq, okQ]⟩

theorem afterSession_ok (C : Cfg) (E : Env) (st : St) : StepOk .awaitSessionCookie (afterSession C E st) := by
  unfold afterSession
  split
  · intro q hq; simp [okQ] at hq; subst hq
    exact ⟨.cookie2, by simp [sends, dfaRun, delta], by simp [okQ]⟩
  · exact sendEncReq_ok E st _ (by intro q hq; simp [okQ] at hq; exact Or.inl hq)

theorem kaTick_ok (E : Env) (st : St) (h : okQ st.pc .success) (hpc : st.pc ≠ .done) :
    StepOk st.pc (kaTick E st) := by
  have hs : ∀ q, okQ st.pc q → q = .success := by
    intro q hq; cases hp : st.pc <;> simp_all [okQ]
  intro q hq
  have := hs q hq; subst this
  unfold kaTick
  split
  · split
    · exact ⟨.success, by simp [fail, sends, dfaRun], by simp [fail, okQ]⟩
    · exact ⟨.closed, by simp [sends, dfaRun, delta], by simp [okQ]⟩
  · exact ⟨.success, by simp [sends, dfaRun, delta], by simpa using hq⟩

theorem finishRouting_ok (C : Cfg) (E : Env) (st : St) (sel : Option Target) :
    ∃ q', dfaRun .success (sends (finishRouting C E st sel []).2) = some q' ∧
      okQ (finishRouting C E st sel []).1.pc q' := by
  unfold finishRouting
  cases sel with
  | none =>
    simp only []
    split
    · exact ⟨.success, by simp [fail, sends, dfaRun], by simp [fail, okQ]⟩
    · exact ⟨.closed, by simp [sends, dfaRun, delta], by simp [okQ]⟩
  | some t =>
    simp only []
    refine ⟨.closed, ?_, by simp [okQ]⟩
    cases hsa : st.shouldAuth <;> cases hsec : C.secret <;> cases hsp : st.sessPresent <;>
      simp [sends, sends_append, dfaRun, delta]

theorem keep_ok (st st' : St) (h : st'.pc = st.pc) : StepOk st.pc (st', []) := by
  intro q hq; exact ⟨q, by simp [sends, dfaRun], by simpa [h] using hq⟩

theorem success_of (pc : Pc) (h : okQ pc .success) (hpc : pc ≠ .done) : ∀ q, okQ pc q → q = .success := by
  intro q hq; cases pc <;> simp_all [okQ]

theorem routingFrame_ok (st : St) (id : Int) (body : Bytes) (h : okQ st.pc .success) (hpc : st.pc ≠ .done) :
    StepOk st.pc (routingFrame st id body) := by
  unfold routingFrame kaEcho
  repeat' split
  all_goals first
    | exact fail_ok _ st _ [] rfl
    | exact keep_ok st _ rfl

theorem hHandshake_ok (st : St) (id : Int) (body : Bytes) : StepOk .awaitHandshake (hHandshake st id body) := by
  unfold hHandshake
  repeat' split
  all_goals first
    | exact fail_ok _ st _ [] rfl
    | (intro q hq; simp [okQ] at hq; subst hq; exact ⟨.start, by simp [sends, dfaRun], by simp [okQ]⟩)

theorem hStatusReq_ok (C : Cfg) (E : Env) (st : St) (id : Int) : StepOk .awaitStatusReq (hStatusReq C E st id) := by
  unfold hStatusReq
  repeat' split
  all_goals first
    | exact fail_ok _ st _ [] rfl
    | exact fail_ok _ st _ _ (by simp [sends])
    | (intro q hq; simp [okQ] at hq; subst hq; exact ⟨.statusSent, by simp [sends, dfaRun, delta], by simp [okQ]⟩)

theorem hPing_ok (st : St) (id : Int) (body : Bytes) : StepOk .awaitPing (hPing st id body) := by
  unfold hPing
  repeat' split
  all_goals first
    | exact fail_ok _ st _ [] rfl
    | (intro q hq; simp [okQ] at hq; subst hq; exact ⟨.closed, by simp [sends, dfaRun, delta], by simp [okQ]⟩)

theorem hLoginStart_ok (st : St) (id : Int) (body : Bytes) : StepOk .awaitLoginStart (hLoginStart st id body) := by
  unfold hLoginStart
  repeat' split
  all_goals first
    | exact fail_ok _ st _ [] rfl
    | (intro q hq; simp [okQ] at hq; subst hq; exact ⟨.cookie1, by simp [sends, dfaRun, delta], by simp [okQ]⟩)

theorem hSessionCookie_ok (C : Cfg) (E : Env) (st : St) (id : Int) (body : Bytes) :
    StepOk .awaitSessionCookie (hSessionCookie C E st id body) := by
  unfold hSessionCookie
  repeat' split
  all_goals first
    | exact fail_ok _ st _ [] rfl
    | exact afterSession_ok C E _

theorem hAuthCookie_ok (C : Cfg) (E : Env) (st : St) (id : Int) (body : Bytes) :
    StepOk .awaitAuthCookie (hAuthCookie C E st id body) := by
  unfold hAuthCookie onAuthCookie
  repeat' split
  all_goals first
    | exact fail_ok _ st _ [] rfl
    | exact sendEncReq_ok E _ _ (by intro q hq; simp [okQ] at hq; exact Or.inr hq)

theorem hEncResp_ok (C : Cfg) (E : Env) (st : St) (id : Int) (body : Bytes) :
    StepOk .awaitEncResp (hEncResp C E st id body) := by
  unfold hEncResp onEncResp
  repeat' split
  all_goals first
    | exact fail_ok _ st _ [] rfl
    | exact fail_ok _ _ _ _ (by simp [sends])
    | (intro q hq; simp [okQ] at hq; subst hq; exact ⟨.success, by simp [sends, dfaRun, delta], by simp [okQ]⟩)

theorem hLoginAck_ok (st : St) (id : Int) : StepOk .awaitLoginAck (hLoginAck st id) := by
  unfold hLoginAck
  repeat' split
  all_goals first
    | exact fail_ok _ st _ [] rfl
    | (intro q hq; simp [okQ] at hq; subst hq; exact ⟨.success, by simp [sends, dfaRun], by simp [okQ]⟩)

theorem hClientInfo_ok (st : St) (id : Int) (body : Bytes) (hpc : st.pc = .awaitClientInfo) :
    StepOk .awaitClientInfo (hClientInfo st id body) := by
  unfold hClientInfo kaEcho
  repeat' split
  all_goals first
    | exact fail_ok _ st _ [] rfl
    | (have := keep_ok st st rfl; rw [hpc] at this; exact this)
    | (have := keep_ok st { st with ka := none } rfl; rw [hpc] at this; exact this)
    | (intro q hq; simp [okQ] at hq; subst hq; exact ⟨.success, by simp [sends, dfaRun], by simp [okQ]⟩)

theorem onAdapterDone_ok (C : Cfg) (E : Env) (st : St) : StepOk st.pc (onAdapterDone C E st) := by
  unfold onAdapterDone
  cases hpc : st.pc <;> simp only []
  case discovering | filtering | selecting =>
    all_goals (intro q hq; simp [okQ] at hq; subst hq)
    all_goals repeat' split
    all_goals first
      | exact ⟨.success, by simp [fail, sends, dfaRun], by simp [fail, okQ]⟩
      | exact ⟨.success, by simp [sends, dfaRun], by simp [okQ]⟩
      | exact finishRouting_ok C E st _
  all_goals (have := keep_ok st st rfl; rw [hpc] at this; exact this)

theorem onFrame_ok (C : Cfg) (E : Env) (st : St) (payload : Bytes) (hnd : st.pc ≠ .done) :
    StepOk st.pc (onFrame C E st payload) := by
  unfold onFrame
  split
  · exact fail_ok _ st _ [] rfl
  · split
    · exact fail_ok _ st _ [] rfl
    · exact fail_ok _ st _ [] rfl
    · next id body _ =>
      cases hpc : st.pc <;> simp only []
      · exact hHandshake_ok st _ _
      · exact hStatusReq_ok C E st _
      · exact hPing_ok st _ _
      · exact hLoginStart_ok st _ _
      · exact hSessionCookie_ok C E st _ _
      · exact hAuthCookie_ok C E st _ _
      · exact hEncResp_ok C E st _ _
      · exact hLoginAck_ok st _
      · exact hClientInfo_ok st _ _ hpc
      · have := routingFrame_ok st id body (by simp [hpc, okQ]) hnd; rw [hpc] at this; exact this
      · have := routingFrame_ok st id body (by simp [hpc, okQ]) hnd; rw [hpc] at this; exact this
      · have := routingFrame_ok st id body (by simp [hpc, okQ]) hnd; rw [hpc] at this; exact this
      · exact absurd hpc hnd

/-- one step keeps the emitted packet word inside the protocol order -/
theorem step_order (C : Cfg) (E : Env) (st : St) (i : In) : StepOk st.pc (step C E st i) := by
  unfold step
  by_cases hd : st.pc = .done
  · simp only [hd, if_true]; have := keep_ok st st rfl; rw [hd] at this; exact this
  · simp only [hd, if_false]
    cases i with
    | frame payload => exact onFrame_ok C E st payload hd
    | badLength => exact fail_ok _ st _ [] rfl
    | eof => exact fail_ok _ st _ [] rfl
    | tick =>
      simp only []
      split
      · next hk =>
        exact kaTick_ok E st (by cases hp : st.pc <;> simp_all [keepAlivePhase, okQ]) hd
      · exact keep_ok st st rfl
    | adapterDone => exact onAdapterDone_ok C E st

theorem run_order (C : Cfg) (E : Env) (st : St) (ins : List In) (q : Q) (h : okQ st.pc q) :
    ∃ q', dfaRun q (sends (run C E st ins).2) = some q' ∧ okQ (run C E st ins).1.pc q' := by
  induction ins generalizing st q with
  | nil => exact ⟨q, by simp [run_nil, sends, dfaRun], by simpa [run_nil] using h⟩
  | cons i is ih =>
    obtain ⟨q1, h1, h2⟩ := step_order C E st i q h
    obtain ⟨q2, h3, h4⟩ := ih (step C E st i).1 q1 h2
    refine ⟨q2, ?_, ?_⟩
    · rw [run_cons]; simp [sends_append, dfaRun_append, h1, h3]
    · rw [run_cons]; exact h4

/-- **order**: for every input list the clientbound packets form a prefix of a word of
    `StatusResponse·Pong` or `CookieReq·CookieReq?·EncryptionRequest·LoginSuccess·KeepAlive*·
    (StoreCookie(auth)?·StoreCookie(session)?·Transfer | Disconnect)` -/
theorem c06_order (C : Cfg) (E : Env) (ins : List In) :
    (dfaRun .start (sends (run C E {} ins).2)).isSome := by
  obtain ⟨q', h, _⟩ := run_order C E {} ins .start (by simp [okQ])
  simp [h]

/-- **nothing follows** Pong / Transfer / Disconnect (or any other end of the run) -/
theorem c06_done_absorbs (C : Cfg) (E : Env) (st : St) (ins : List In) (h : st.pc = .done) :
    (run C E st ins).2 = [] := by
  rw [run_done C E st ins h]

/-- the steps that send Pong, Transfer or the Disconnect end the run -/
theorem c06_closing_packets_finish (C : Cfg) (E : Env) (st : St) (i : In) (q q' : Q)
    (hq : okQ st.pc q) (hrun : dfaRun q (sends (step C E st i).2) = some q') (hc : q' = .closed)
    (_hne : q ≠ .closed) : (step C E st i).1.pc = .done := by
  obtain ⟨q1, h1, h2⟩ := step_order C E st i q hq
  rw [hrun] at h1; simp at h1; subst h1; subst hc
  cases hp : (step C E st i).1.pc <;> simp_all [okQ]

/-- **no answer before the request**: whatever arrives while the handshake is awaited — the
    handshake itself, a tick, an adapter completion, end of stream — nothing is sent and the status
    service is not asked; the Status Response can only stem from a later input (the request) -/
theorem c06_handshake_step_silent (C : Cfg) (E : Env) (st : St) (i : In) (hpc : st.pc = .awaitHandshake) :
    sends (step C E st i).2 = [] ∧ ∀ c, Out.callStatus c ∉ (step C E st i).2 := by
  unfold step onFrame onAdapterDone kaTick hHandshake fail
  simp only [hpc]
  repeat' split
  all_goals simp_all [sends, keepAlivePhase]

/-- a normal end of the run (`finish none`) is justified by a Pong or a Transfer in the same step -/
def NormalFinishJustified (o : List Out) : Prop :=
  Out.finish none ∉ o ∨ (∃ p, Out.send (.pong p) ∈ o) ∨ (∃ a b, Out.send (.transfer a b) ∈ o)

set_option maxHeartbeats 1600000 in
/-- **a completed run ends with Pong or Transfer**: the only steps that finish a connection
    normally are the one that sends the Pong and the one that sends the Transfer — a logged-in
    client is never left with a normal end and neither Transfer nor (through an error end) Disconnect -/
theorem c06_normal_finish_after_pong_or_transfer (C : Cfg) (E : Env) (st : St) (i : In) :
    NormalFinishJustified (step C E st i).2 := by
  unfold step onFrame onAdapterDone kaTick hHandshake hStatusReq hPing hLoginStart hSessionCookie
    hAuthCookie onAuthCookie hEncResp onEncResp hLoginAck hClientInfo routingFrame afterSession
    finishRouting sendEncReq kaEcho fail
  repeat' split
  all_goals (simp_all [NormalFinishJustified])

/-- the single packet id each handshake / status / login step expects -/
def expectedId : Pc → Option Int
  | .awaitHandshake => some 0 | .awaitStatusReq => some 0 | .awaitPing => some 1
  | .awaitLoginStart => some 0 | .awaitSessionCookie => some 4 | .awaitAuthCookie => some 4
  | .awaitEncResp => some 1 | .awaitLoginAck => some 3
  | _ => none

/-- **unexpected packet**: in the handshake, status and login phases a frame whose id is not the
    single expected one ends the connection with `UnexpectedPacketId` and NO reply -/
theorem c06_unexpected_ends_silently (C : Cfg) (E : Env) (st : St) (payload body : Bytes) (id e : Int)
    (hlen : ¬ (payload.length = 0 ∨ payload.length > C.maxLen))
    (hsplit : splitFrame payload = .ok (id, body)) (hexp : expectedId st.pc = some e) (hne : id ≠ e) :
    step C E st (.frame payload) = ({ st with pc := .done }, [.finish (some .unexpectedId)]) := by
  have hnd : st.pc ≠ .done := by intro h; simp [h, expectedId] at hexp
  unfold step onFrame
  rw [if_neg hnd]
  simp only []
  rw [if_neg hlen]
  simp only [hsplit]
  cases hpc : st.pc <;> simp [hpc, expectedId] at hexp <;> subst hexp <;>
    simp [hHandshake, hStatusReq, hPing, hLoginStart, hSessionCookie, hAuthCookie, hEncResp, hLoginAck,
      cookiePayload, encRespFields, hne, fail]

/-- **status, exactly**: a Status Request is answered with the status service's answer and nothing else … -/
theorem c06_status_exact_response (C : Cfg) (E : Env) (st : St) (payload body j : Bytes)
    (hpc : st.pc = .awaitStatusReq) (hlen : ¬ (payload.length = 0 ∨ payload.length > C.maxLen))
    (hsplit : splitFrame payload = .ok (0, body)) (hst : E.status (ctxOf C st) = .ok j) :
    step C E st (.frame payload) =
      ({ st with pc := .awaitPing }, [.callStatus (ctxOf C st), .send (.statusResponse j)]) := by
  unfold step onFrame
  rw [if_neg (by simp [hpc])]
  simp only []
  rw [if_neg hlen]
  simp [hsplit, hpc, hStatusReq, hst]

/-- … and the Ping with one Pong echoing its payload, after which the run is over -/
theorem c06_status_exact_pong (C : Cfg) (E : Env) (st : St) (payload body : Bytes) (p : Int)
    (hpc : st.pc = .awaitPing) (hlen : ¬ (payload.length = 0 ∨ payload.length > C.maxLen))
    (hsplit : splitFrame payload = .ok (1, body)) (hdec : decodeSb 1 1 body = some (.ok [some (.int p)])) :
    step C E st (.frame payload) = ({ st with pc := .done }, [.send (.pong p.toNat), .finish none]) := by
  unfold step onFrame
  rw [if_neg (by simp [hpc])]
  simp only []
  rw [if_neg hlen]
  simp [hsplit, hpc, hPing, hdec]

def AllOut (P : Out → Prop) : List Out → Prop
  | [] => True
  | o :: r => P o ∧ AllOut P r

@[simp] theorem allOut_nil (P : Out → Prop) : AllOut P [] = True := rfl
@[simp] theorem allOut_cons (P : Out → Prop) (o : Out) (r : List Out) : AllOut P (o :: r) = (P o ∧ AllOut P r) := rfl
@[simp] theorem allOut_append (P : Out → Prop) (a b : List Out) : AllOut P (a ++ b) = (AllOut P a ∧ AllOut P b) := by
  induction a with
  | nil => simp
  | cons x xs ih => simp [ih, and_assoc]

set_option maxHeartbeats 1600000 in
/-- **Login Success only after a valid Encryption Response**: whichever step emits it is the step
    from `awaitEncResp` on a frame whose second field decrypts to THIS run's verify token; and
    **nothing routing-related before Login Acknowledged and Client Information**: discovery is
    started only by the step that receives Client Information, in the state that only Login
    Acknowledged leads to -/
theorem c06_success_and_routing_gates (C : Cfg) (E : Env) (st : St) (i : In) :
    AllOut (fun o =>
        (∀ u n, o = .send (.loginSuccess u n) → st.pc = .awaitEncResp ∧
          ∃ payload id body sct tct, i = .frame payload ∧ splitFrame payload = .ok (id, body) ∧
            encRespFields id body = .ok (sct, tct) ∧ E.rsaDecrypt tct = some E.token ∧
            (E.rsaDecrypt sct).isSome = true) ∧
        (o = .callDiscover → st.pc = .awaitClientInfo ∧ ∃ payload, i = .frame payload))
      (step C E st i).2 := by
  unfold step onFrame onAdapterDone kaTick hHandshake hStatusReq hPing hLoginStart hSessionCookie
    hAuthCookie onAuthCookie hEncResp onEncResp hLoginAck hClientInfo routingFrame afterSession
    finishRouting sendEncReq kaEcho fail
  repeat' split
  all_goals (try simp_all)
  all_goals (repeat' split)
  all_goals (try simp_all)
  all_goals (exact ⟨_, _, ⟨rfl, rfl⟩, _, _, ‹encRespFields _ _ = _›, by assumption, by simp_all⟩)

set_option maxHeartbeats 1600000 in
/-- the Client-Information state is entered only by Login Acknowledged -/
theorem c06_client_info_state_only_after_ack (C : Cfg) (E : Env) (st : St) (i : In)
    (h : (step C E st i).1.pc = .awaitClientInfo) : st.pc = .awaitClientInfo ∨ st.pc = .awaitLoginAck := by
  revert h
  unfold step onFrame onAdapterDone kaTick hHandshake hStatusReq hPing hLoginStart hSessionCookie
    hAuthCookie onAuthCookie hEncResp onEncResp hLoginAck hClientInfo routingFrame afterSession
    finishRouting sendEncReq kaEcho fail
  repeat' split
  all_goals (try simp_all)
  all_goals (repeat' split)
  all_goals (try simp_all)

end Passage.Props.C06
