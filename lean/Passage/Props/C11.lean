import Passage.Lemmas.Hex
/-
  C11 — The session server hash equals Minecraft's signed SHA-1 hex digest.
  Property theorems only.  Text is `List UInt8` (ASCII); 45 = '-', 48 = '0'.
-/
namespace Passage.Props.C11
open Passage Passage.McHash

/-- For every digest (any length, any content) the implementation's formatting — byte-wise two's
    complement with carry, nibble digits, leading zeros stripped — is the signed big-endian
    two's-complement number printed in lowercase hex without leading zeros, '-' when negative. -/
theorem signedHex_spec (d : Bytes) : Impl.signedHex d = Spec.signedHex d := by
  unfold Impl.signedHex Spec.signedHex
  by_cases h : beNat d < 2 ^ (8 * d.length - 1)
  · have ht : Impl.topBitSet d = false := by
      cases hh : Impl.topBitSet d with
      | false => rfl
      | true => exact absurd h ((topBitSet_iff d).mp hh)
    simp [ht, h, hexMag_eq]
  · have ht : Impl.topBitSet d = true := (topBitSet_iff d).mpr h
    simp only [ht, if_true, h, if_false, hexMag_eq, beNat_negBE]
    have hl := beNat_lt d
    rw [pow256] at hl ⊢
    have hpos : 0 < beNat d := by
      apply Nat.pos_of_ne_zero; intro h0; apply h; rw [h0]; exact Nat.pow_pos (by omega)
    rw [Nat.mod_eq_of_lt (by omega)]

/-- the hash handed to the session server is the spec format of SHA-1(id ‖ secret ‖ key) -/
theorem mcHash_spec (serverId secret pub : Bytes) :
    Impl.mcHash serverId secret pub = Spec.signedHex (Crypto.sha1 (serverId ++ secret ++ pub)) := by
  unfold Impl.mcHash; exact signedHex_spec _

/-- non-negative branch, stated outright -/
theorem signedHex_nonneg (d : Bytes) (h : beNat d < 2 ^ (8 * d.length - 1)) :
    Impl.signedHex d = Spec.hexStr (beNat d) := by
  rw [signedHex_spec]; simp [Spec.signedHex, h]

/-- negative branch, stated outright: minus sign, then the hex of `2^n − N` -/
theorem signedHex_neg (d : Bytes) (h : ¬ beNat d < 2 ^ (8 * d.length - 1)) :
    Impl.signedHex d = 45 :: Spec.hexStr (2 ^ (8 * d.length) - beNat d) := by
  rw [signedHex_spec]; simp [Spec.signedHex, h]

/-- the two's-complement edge 0x80 00 … 00 prints as "-8" followed by zeros:
    its magnitude is `2^(n-1)`, i.e. the digit 8 followed by `2·k` zero digits. -/
theorem signedHex_edge (k : Nat) :
    Impl.signedHex (0x80 :: List.replicate k 0) = 45 :: Spec.hexStr (2 ^ (8 * k + 7)) := by
  have hv : beNat (0x80 :: List.replicate k (0 : UInt8)) = 2 ^ (8 * k + 7) := by
    rw [beNat_cons]
    have hz : beNat (List.replicate k (0 : UInt8)) = 0 := by
      induction k with
      | zero => rfl
      | succ k ih => rw [List.replicate_succ, beNat_cons, ih]; simp
    rw [hz, List.length_replicate, pow256, Nat.pow_add]
    have : (0x80 : UInt8).toNat = 2 ^ 7 := rfl
    rw [this]; simp [Nat.mul_comm]
  have hlen : (0x80 :: List.replicate k (0 : UInt8)).length = k + 1 := by simp
  rw [signedHex_neg]
  · rw [hv, hlen]
    have : 2 ^ (8 * (k + 1)) = 2 * 2 ^ (8 * k + 7) := by
      rw [show 8 * (k + 1) = (8 * k + 7) + 1 by omega, Nat.pow_succ]; omega
    rw [this]; congr 2; omega
  · rw [hv, hlen]
    have : 8 * (k + 1) - 1 = 8 * k + 7 := by omega
    rw [this]; omega

/-- lowercase hex character -/
def IsHexLower (c : UInt8) : Prop := (48 ≤ c ∧ c ≤ 57) ∨ (97 ≤ c ∧ c ≤ 102)

/-- the output is an optional '-' followed by a non-empty string over `0-9a-f` that has no
    leading '0' unless it is exactly "0" -/
theorem signedHex_charset (d : Bytes) :
    ∃ r, (Impl.signedHex d = r ∨ Impl.signedHex d = 45 :: r) ∧ r ≠ [] ∧
      (∀ c ∈ r, IsHexLower c) ∧ (r.head? = some 48 → r = [48]) := by
  have key : ∀ n, Spec.hexStr n ≠ [] ∧ (∀ c ∈ Spec.hexStr n, IsHexLower c) ∧
      ((Spec.hexStr n).head? = some 48 → Spec.hexStr n = [48]) := by
    intro n
    unfold Spec.hexStr
    split
    · exact ⟨by simp, by intro c hc; simp at hc; subst hc; unfold IsHexLower; decide, fun _ => rfl⟩
    · next hn =>
      have hne : Spec.hexDigits n ≠ [] := fun h => hn ((hexDigits_eq_nil n).mp h)
      refine ⟨by simpa using hne, ?_, ?_⟩
      · intro c hc
        simp only [List.mem_map] at hc
        obtain ⟨x, hx, rfl⟩ := hc
        have hx16 := hexDigits_lt n x hx
        have : x = 0 ∨ x = 1 ∨ x = 2 ∨ x = 3 ∨ x = 4 ∨ x = 5 ∨ x = 6 ∨ x = 7 ∨ x = 8 ∨ x = 9
          ∨ x = 10 ∨ x = 11 ∨ x = 12 ∨ x = 13 ∨ x = 14 ∨ x = 15 := by omega
        unfold IsHexLower
        rcases this with h|h|h|h|h|h|h|h|h|h|h|h|h|h|h|h <;> subst h <;> decide
      · intro hh
        exfalso
        have hcanon := hexDigits_head n
        cases hds : Spec.hexDigits n with
        | nil => exact hne hds
        | cons x xs =>
          rw [hds] at hh hcanon
          simp at hh hcanon
          have hx16 := hexDigits_lt n x (by rw [hds]; simp)
          have : x = 0 ∨ x = 1 ∨ x = 2 ∨ x = 3 ∨ x = 4 ∨ x = 5 ∨ x = 6 ∨ x = 7 ∨ x = 8 ∨ x = 9
            ∨ x = 10 ∨ x = 11 ∨ x = 12 ∨ x = 13 ∨ x = 14 ∨ x = 15 := by omega
          rcases this with h|h|h|h|h|h|h|h|h|h|h|h|h|h|h|h <;> subst h <;>
            first | exact hcanon rfl | (revert hh; decide)
  rw [signedHex_spec]
  unfold Spec.signedHex
  simp only
  split
  · exact ⟨_, Or.inl rfl, key _⟩
  · exact ⟨_, Or.inr rfl, key _⟩

theorem hexVal_hexDigit (x : Nat) (h : x < 16) : Spec.hexVal (hexDigit x) = some x := by
  have : x = 0 ∨ x = 1 ∨ x = 2 ∨ x = 3 ∨ x = 4 ∨ x = 5 ∨ x = 6 ∨ x = 7 ∨ x = 8 ∨ x = 9
    ∨ x = 10 ∨ x = 11 ∨ x = 12 ∨ x = 13 ∨ x = 14 ∨ x = 15 := by omega
  rcases this with h|h|h|h|h|h|h|h|h|h|h|h|h|h|h|h <;> subst h <;> decide

theorem parseMag_hexStr (n : Nat) : Spec.parseMag (Spec.hexStr n) = some n := by
  have fold : ∀ (ds : List Nat) (a : Nat), (∀ d ∈ ds, d < 16) →
      (ds.map hexDigit).foldl (fun acc c => match acc, Spec.hexVal c with
        | some a, some v => some (a * 16 + v)
        | _, _ => none) (some a) = some (ds.foldl (fun a d => a * 16 + d) a) := by
    intro ds
    induction ds with
    | nil => intro a _; rfl
    | cons x xs ih =>
      intro a h
      simp only [List.map_cons, List.foldl_cons]
      rw [hexVal_hexDigit x (h x (by simp))]
      exact ih _ (fun d hd => h d (by simp [hd]))
  unfold Spec.hexStr
  split
  · next h => subst h; decide
  · next h =>
    have hne : (Spec.hexDigits n).map hexDigit ≠ [] := by
      simpa using fun h0 => h ((hexDigits_eq_nil n).mp h0)
    have := fold (Spec.hexDigits n) 0 (hexDigits_lt n)
    have hv := fromDigits_hexDigitsF n n (Nat.le_refl n)
    unfold fromDigits at hv
    unfold Spec.hexDigits at *
    rw [hv] at this
    unfold Spec.parseMag
    split
    · next heq => exact absurd heq hne
    · exact this

theorem hexStr_head_ne_minus (n : Nat) : ∀ r, Spec.hexStr n ≠ 45 :: r := by
  intro r h
  obtain ⟨-, hall, -⟩ : Spec.hexStr n ≠ [] ∧ (∀ c ∈ Spec.hexStr n, IsHexLower c) ∧ True := by
    obtain ⟨r', hr, h1, h2, -⟩ := signedHex_charset []
    refine ⟨?_, ?_, trivial⟩
    · unfold Spec.hexStr; split <;> simp
      exact fun h0 => (by assumption : ¬ n = 0) ((hexDigits_eq_nil n).mp h0)
    · intro c hc
      unfold Spec.hexStr at hc
      split at hc
      · simp at hc; subst hc; unfold IsHexLower; decide
      · simp only [List.mem_map] at hc
        obtain ⟨x, hx, rfl⟩ := hc
        have hx16 := hexDigits_lt n x hx
        have : x = 0 ∨ x = 1 ∨ x = 2 ∨ x = 3 ∨ x = 4 ∨ x = 5 ∨ x = 6 ∨ x = 7 ∨ x = 8 ∨ x = 9
          ∨ x = 10 ∨ x = 11 ∨ x = 12 ∨ x = 13 ∨ x = 14 ∨ x = 15 := by omega
        unfold IsHexLower
        rcases this with h|h|h|h|h|h|h|h|h|h|h|h|h|h|h|h <;> subst h <;> decide
  have := hall 45 (by rw [h]; simp)
  revert this; unfold IsHexLower; decide

/-- reading the printed text back yields the digest's two's-complement value: the format is
    injective on values and loses nothing -/
theorem signedHex_parse (d : Bytes) :
    Spec.parseSignedHex (Impl.signedHex d) = some (Spec.toInt d) := by
  rw [signedHex_spec]
  unfold Spec.signedHex Spec.toInt
  simp only
  split
  · next h =>
    have hnm := hexStr_head_ne_minus (beNat d)
    unfold Spec.parseSignedHex
    split
    · next r heq => exact absurd heq (hnm _)
    · rw [parseMag_hexStr]; rfl
  · next h =>
    simp only [Spec.parseSignedHex, parseMag_hexStr]
    have hl := beNat_lt d
    rw [pow256] at hl
    congr 1
    have : Int.ofNat (2 ^ (8 * d.length) - beNat d) = ((2 ^ (8 * d.length) : Nat) : Int) - (beNat d : Nat) :=
      Int.ofNat_sub (by omega)
    rw [this]; simp; omega

/-- non-vacuity: a concrete digest with the top bit set and one with leading zero nibbles -/
example : Impl.signedHex [0xff, 0x01] = [45, 102, 102] := by decide  -- "-ff"
example : Impl.signedHex [0x00, 0x0a, 0xbc] = [97, 98, 99] := by decide  -- "abc"
example : Impl.signedHex [0x80, 0x00] = [45, 56, 48, 48, 48] := by decide  -- "-8000"

end Passage.Props.C11
