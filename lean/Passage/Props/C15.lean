import Passage.Listener
import Passage.Extracted.Listener
/-
  C15 — Admission is decided on the effective client address, before any protocol work.
  The PROXY parser (crate `proxy-header`) is outside the model: its verdict class per connection
  (`Header`) is an input, recorded from the real parser by the runner.
-/
namespace Passage.Props.C15
open Passage Passage.Listener

/-- **served ⇔ admitted**: with a limiter, a connection is served exactly when it has an effective
    address and the limiter admits that address; the address it is served under is the effective
    one (what adapters see and what cookies are bound to) -/
theorem served_iff_admitted (A : RL.Arith) (cfg : RL.Cfg) (pe : Bool) (l : RL.State) (c : Conn) (now addr : Nat) :
    (admitOne A cfg pe ⟨some l⟩ c now).2 = .served addr ↔
      effective pe c = some addr ∧ (RL.enqueue A cfg l addr now).2 = true := by
  unfold admitOne
  cases he : effective pe c with
  | none => simp
  | some ip =>
    simp only []
    by_cases hb : (RL.enqueue A cfg l ip now).2 = true
    · simp only [hb, if_true]
      constructor
      · intro h; injection h with h; subst h; exact ⟨rfl, hb⟩
      · intro h; obtain ⟨h1, _⟩ := h; injection h1 with h1; subst h1; rfl
    · simp only [hb]
      constructor
      · intro h; simp at h
      · intro h; obtain ⟨h1, h2⟩ := h; injection h1 with h1; subst h1; exact absurd h2 hb

/-- the limiter is consulted with the effective address, exactly once, and its state is the
    limiter's own successor state (nothing else touches it) -/
theorem limiter_sees_effective (A : RL.Arith) (cfg : RL.Cfg) (pe : Bool) (l : RL.State) (c : Conn) (now ip : Nat)
    (he : effective pe c = some ip) :
    (admitOne A cfg pe ⟨some l⟩ c now).1.limiter = some (RL.enqueue A cfg l ip now).1 := by
  simp [admitOne, he]

/-- **bad header**: with PROXY enabled a connection without a valid header is closed unserved and
    the limiter is untouched -/
theorem bad_header_unserved_unbilled (A : RL.Arith) (cfg : RL.Cfg) (s : AdmState) (peer now : Nat) :
    (admitOne A cfg true s ⟨peer, .invalid⟩ now).2 = .closedUnserved ∧
    (admitOne A cfg true s ⟨peer, .invalid⟩ now).1.limiter = s.limiter := by
  simp [admitOne, effective]

/-- **effective address** -/
theorem effective_address (peer ip : Nat) (h : Header) :
    effective true ⟨peer, .source ip⟩ = some ip ∧ effective true ⟨peer, .noAddress⟩ = some peer ∧
    effective false ⟨peer, h⟩ = some peer := by
  simp [effective]

/-- without a limiter every connection with an effective address is served under it -/
theorem no_limiter_serves (A : RL.Arith) (cfg : RL.Cfg) (pe : Bool) (c : Conn) (now ip : Nat)
    (he : effective pe c = some ip) : (admitOne A cfg pe ⟨none⟩ c now).2 = .served ip := by
  simp [admitOne, he]

def hasAddr (pe : Bool) (x : Conn × Nat) : Bool := (effective pe x.1).isSome

/-- verdicts of connections that got as far as the limiter -/
def reachedLimiter : Verdict → Bool
  | .closedUnserved => false
  | _ => true

def isServed : Verdict → Bool
  | .served _ => true
  | _ => false

/-- **no budget for header-less connections, over every history**: the served/refused verdicts of
    any arrival history are those of the history with the invalid-header connections deleted —
    so no number of them, from any peers, changes what any other connection experiences -/
theorem invalid_headers_invisible (A : RL.Arith) (cfg : RL.Cfg) (pe : Bool) (h : List (Conn × Nat)) :
    ∀ s : AdmState, (admitAll A cfg pe s h).filter reachedLimiter
      = admitAll A cfg pe s (h.filter (hasAddr pe)) := by
  induction h with
  | nil => intro s; simp [admitAll]
  | cons x r ih =>
    intro s
    obtain ⟨c, t⟩ := x
    cases he : effective pe c with
    | none =>
      have h1 : admitOne A cfg pe s c t = (s, .closedUnserved) := by simp [admitOne, he]
      simp only [admitAll, h1, List.filter_cons, reachedLimiter, hasAddr, he, Option.isSome_none]
      exact ih s
    | some ip =>
      have h2 : reachedLimiter (admitOne A cfg pe s c t).2 = true := by
        unfold admitOne; simp only [he]; cases s.limiter <;> simp only [] <;> (try split) <;> simp [reachedLimiter]
      simp only [admitAll, List.filter_cons, h2, if_true, hasAddr, he, Option.isSome_some]
      rw [ih]

/-- one limiter budget per effective address: the admission history seen by the limiter is the
    list of (effective address, time) pairs, in arrival order -/
theorem limiter_history (A : RL.Arith) (cfg : RL.Cfg) (pe : Bool) (h : List (Conn × Nat)) :
    ∀ l : RL.State, (admitAll A cfg pe ⟨some l⟩ (h.filter (hasAddr pe))).map isServed
      = (RL.run A cfg l (h.filterMap (fun x => (effective pe x.1).map (fun ip => (ip, x.2))))).2 := by
  induction h with
  | nil => intro l; simp [admitAll, RL.run]
  | cons x r ih =>
    intro l
    obtain ⟨c, t⟩ := x
    cases he : effective pe c with
    | none => simp [hasAddr, he, ih]
    | some ip =>
      simp only [List.filter_cons, hasAddr, he, Option.isSome_some, if_true, List.filterMap_cons, Option.map_some,
        admitAll, List.map_cons, RL.run]
      have h1 : (admitOne A cfg pe ⟨some l⟩ c t).1 = ⟨some (RL.enqueue A cfg l ip t).1⟩ := by simp [admitOne, he]
      have h2 : isServed (admitOne A cfg pe ⟨some l⟩ c t).2 = (RL.enqueue A cfg l ip t).2 := by
        simp only [admitOne, he]
        cases (RL.enqueue A cfg l ip t).2 <;> simp [isServed]
      rw [h1, h2, ih]

/-- the call order and arguments of the current source: limiter consulted with the effective
    address before the connection is created, which receives that same address -/
theorem extracted_admission_order :
    (match Passage.Extracted.listener with
     | none => true
     | some f => f.limiterBeforeConnection && f.limiterOnEffectiveAddr && f.connAddr && f.cfgLimiter && f.cfgProxy) = true := by
  decide

example : (admitOne RL.exactArith ⟨1, 10⟩ true ⟨some RL.init⟩ ⟨7, .source 9⟩ 100).2 = .served 9 := by decide

end Passage.Props.C15
