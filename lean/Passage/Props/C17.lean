import Passage.Listener
import Passage.Extracted.Listener
/-
  C17 — Shutdown drains in-flight connections and serves no new ones (partial, as C16; in
  addition the kernel may complete the TCP handshake of a late connection: "not served" means
  "never accepted by the loop").
-/
namespace Passage.Props.C17
open Passage.Listener





theorem step_ghost (K : Skeleton) (hK : K.stopBiased = true) (s : St) (a : Act)
    (h : s.acceptedAfterStop = []) : (step K s a).acceptedAfterStop = [] := by
  cases a <;> simp only [step]
  case arrive => exact h
  case requestStop => exact h
  case loopStep p =>
    cases hl : s.loop <;> simp only []
    · by_cases hs : s.stopRequested = true
      · simp [hs, hK, h]
      · have hs' : s.stopRequested = false := by simpa using hs
        simp only [hs', Bool.false_and, Bool.false_eq_true, if_false]
        cases s.backlog <;> simp only [] <;> (try split) <;> simp [h]
    · exact h
    · split <;> exact h
    · exact h
  case clientInput c =>
    cases s.loop <;> simp only [] <;> repeat' split
    all_goals simp_all
  case taskFinish c => split <;> simp_all

/-- **no accept after stop**: with the stop branch polled first, no connection is ever accepted once
    shutdown was requested — for every interleaving, including a connection that is already in the
    backlog at the very moment of the stop -/
theorem no_accept_after_stop (K : Skeleton) (hK : K.stopBiased = true) (acts : List Act) :
    (run K {} acts).acceptedAfterStop = [] := by
  have gen : ∀ (acts : List Act) (s : St), s.acceptedAfterStop = [] → (run K s acts).acceptedAfterStop = [] := by
    intro acts
    induction acts with
    | nil => intro s h; exact h
    | cons a as ih => intro s h; exact ih _ (step_ghost K hK s a h)
  exact gen acts {} rfl

/-- **in-flight connections are unaffected by the stop request**: requesting shutdown changes no
    task and blocks none of their steps -/
theorem inflight_unaffected (K : Skeleton) (s : St) (c : Nat) :
    (step K s .requestStop).tasks = s.tasks ∧
    (step K (step K s .requestStop) (.clientInput c)).tasks = (step K s (.clientInput c)).tasks ∧
    (step K (step K s .requestStop) (.taskFinish c)).tasks = (step K s (.taskFinish c)).tasks := by
  refine ⟨rfl, ?_, ?_⟩
  · simp only [step]; cases s.loop <;> simp only [] <;> repeat' split
    all_goals simp_all
  · simp only [step]; split <;> simp_all

theorem allDone_get (c : Nat) : ∀ (l : List (Nat × Task)), allDone l = true → ∀ t, getTask c l = some t → t = .done := by
  intro l; induction l with
  | nil => simp [getTask]
  | cons e r ih =>
    obtain ⟨x, t'⟩ := e
    intro hd t hg
    simp only [allDone, List.all_cons, Bool.and_eq_true] at hd
    simp only [getTask] at hg
    split at hg
    · simp at hg; subst hg; simpa using hd.1
    · exact ih (by simpa [allDone] using hd.2) t hg

theorem step_returned_drained (K : Skeleton) (hK : K.waitsTracker = true) (s : St) (a : Act)
    (hnr : s.loop ≠ .returned) :
    (step K s a).loop = .returned → allDone (step K s a).tasks = true := by
  cases a <;> simp only [step] <;> (repeat' split) <;> simp_all

theorem step_after_return (K : Skeleton) (s : St) (a : Act) (hr : s.loop = .returned)
    (hd : allDone s.tasks = true) : allDone (step K s a).tasks = true := by
  cases a <;> simp only [step, hr]
  case arrive => exact hd
  case requestStop => exact hd
  case loopStep p => exact hd
  case clientInput c =>
    split
    · rename_i hg
      have := allDone_get c s.tasks hd _ hg
      cases this
    · exact hd
  case taskFinish c =>
    cases hg : getTask c s.tasks with
    | none => simpa using hd
    | some t =>
      have := allDone_get c s.tasks hd _ hg
      subst this
      simpa using hd

/-- **return only when drained**: `listen()` returns only in a state where every spawned
    per-connection task has finished -/
theorem return_only_drained (K : Skeleton) (hK : K.waitsTracker = true) (acts : List Act) :
    (run K {} acts).loop = .returned → allDone (run K {} acts).tasks = true := by
  have gen : ∀ (acts : List Act) (s : St), (s.loop = .returned → allDone s.tasks = true) →
      ((run K s acts).loop = .returned → allDone (run K s acts).tasks = true) := by
    intro acts
    induction acts with
    | nil => intro s h; exact h
    | cons a as ih =>
      intro s h
      apply ih
      by_cases hr : s.loop = .returned
      · intro _; exact step_after_return K s a hr (h hr)
      · exact step_returned_drained K hK s a hr
  exact gen acts {} (by simp)

/-- **no deadlock**: once stopped with every task done, one loop step returns -/
theorem return_possible (K : Skeleton) (s : St) (hl : s.loop = .stopped) (hd : allDone s.tasks = true) (p : Bool) :
    (step K s (.loopStep p)).loop = .returned := by
  simp [step, hl, hd]

/-- the structure of the current source is well formed -/
theorem extracted_good_stop :
    (match Passage.Extracted.listener with
     | none => true
     | some f => f.stopBiased && f.closesTracker && f.waitsTracker) = true := by
  decide

/-- regression fact about the pinned (unbiased) select: a connection already in the backlog when
    the stop is requested can still be accepted -/
theorem pinned_witness :
    let K : Skeleton := ⟨false, false, true, true⟩
    (run K {} [.arrive 7, .requestStop, .loopStep true]).acceptedAfterStop = [7] := by decide

end Passage.Props.C17
