import Passage.Url
/-
  C12 — Client-chosen names cannot alter the session server request.
  Property theorems only; for every name (any byte string) and every hash.
-/
namespace Passage.Props.C12
open Passage Passage.Url

theorem hexVal_hexUp : ∀ n, n < 16 → hexVal (hexUp n) = some n := by decide

theorem byte_split (b : UInt8) : UInt8.ofNat (b.toNat / 16 * 16 + b.toNat % 16) = b := by
  have : b.toNat / 16 * 16 + b.toNat % 16 = b.toNat := by omega
  rw [this]; exact UInt8.ofNat_toNat

theorem byte_split' : ∀ n, n < 256 → UInt8.ofNat (n / 16) * 16 + UInt8.ofNat (n % 16) = UInt8.ofNat n := by
  decide +kernel

theorem dec_cons_other (b : UInt8) (bs : Bytes) (h1 : b ≠ 43) (h2 : b ≠ 37) : dec (b :: bs) = b :: dec bs := by
  have e1 : (b == 43) = false := by simpa using h1
  have e2 : (b == 37) = false := by simpa using h2
  simp [dec, decGo, e1, e2]

theorem unreserved_not_special : ∀ b : UInt8, unreserved b = true →
    b ≠ 43 ∧ b ≠ 37 ∧ b ≠ 38 ∧ b ≠ 61 ∧ b ≠ 35 ∧ b ≠ 63 ∧ b ≠ 47 ∧ b ≠ 32 := by
  intro b h
  have hb := b.toNat_lt
  simp only [unreserved, Bool.or_eq_true, Bool.and_eq_true, decide_eq_true_eq, beq_iff_eq, UInt8.le_iff_toNat_le] at h
  refine ⟨?_, ?_, ?_, ?_, ?_, ?_, ?_, ?_⟩ <;> (intro hc; subst hc; revert h; decide)

/-- **decoding inverts encoding**: the `username` parameter decodes to exactly the claimed name -/
theorem dec_enc (s : Bytes) : dec (enc s) = s := by
  induction s with
  | nil => rfl
  | cons b bs ih =>
    unfold dec at ih ⊢
    by_cases h32 : (b == 32) = true
    · have : b = 32 := by simpa using h32
      subst this
      simp [enc, decGo, ih]
    · have e : (b == 32) = false := by simpa using h32
      by_cases hu : unreserved b = true
      · have := unreserved_not_special b hu
        have e1 : (b == 43) = false := by simpa using this.1
        have e2 : (b == 37) = false := by simpa using this.2.1
        simp [enc, e, hu, decGo, e1, e2, ih]
      · have hu' : unreserved b = false := by simpa using hu
        have hb := b.toNat_lt
        have h1 := hexVal_hexUp (b.toNat / 16) (by omega)
        have h2 := hexVal_hexUp (b.toNat % 16) (by omega)
        have e37 : ((37 : UInt8) == 43) = false := by decide
        simp [enc, e, hu', decGo, e37, h1, h2, ih]
        rw [byte_split' b.toNat hb]; exact UInt8.ofNat_toNat

def IsHexUp (c : UInt8) : Prop := (48 ≤ c ∧ c ≤ 57) ∨ (65 ≤ c ∧ c ≤ 70)

theorem hexUp_isHex : ∀ n, n < 16 → IsHexUp (hexUp n) := by unfold IsHexUp; decide

/-- **no delimiter survives**: the encoded name contains none of `&`, `=`, `#`, `?`, `/` or space -/
theorem enc_no_delims (s : Bytes) : ∀ c ∈ enc s, c ≠ 38 ∧ c ≠ 61 ∧ c ≠ 35 ∧ c ≠ 63 ∧ c ≠ 47 ∧ c ≠ 32 := by
  induction s with
  | nil => simp [enc]
  | cons b bs ih =>
    intro c hc
    unfold enc at hc
    split at hc
    · simp only [List.mem_cons] at hc
      rcases hc with rfl | hc
      · decide
      · exact ih c hc
    · split at hc
      · next hu =>
        simp only [List.mem_cons] at hc
        rcases hc with rfl | hc
        · have := unreserved_not_special c hu
          exact ⟨this.2.2.1, this.2.2.2.1, this.2.2.2.2.1, this.2.2.2.2.2.1, this.2.2.2.2.2.2.1, this.2.2.2.2.2.2.2⟩
        · exact ih c hc
      · have hb := b.toNat_lt
        simp only [List.mem_cons] at hc
        rcases hc with rfl | rfl | rfl | hc
        · decide
        · have := hexUp_isHex (b.toNat / 16) (by omega)
          unfold IsHexUp at this
          refine ⟨?_, ?_, ?_, ?_, ?_, ?_⟩ <;> (intro hcc; rw [hcc] at this; revert this; decide)
        · have := hexUp_isHex (b.toNat % 16) (by omega)
          unfold IsHexUp at this
          refine ⟨?_, ?_, ?_, ?_, ?_, ?_⟩ <;> (intro hcc; rw [hcc] at this; revert this; decide)
        · exact ih c hc

theorem splitOn_no_sep (sep : UInt8) (s : Bytes) (h : ∀ c ∈ s, c ≠ sep) : splitOn sep s = [s] := by
  induction s with
  | nil => rfl
  | cons b bs ih =>
    have hb : (b == sep) = false := by simpa using h b (by simp)
    simp [splitOn, hb, ih (fun c hc => h c (by simp [hc]))]

theorem splitOn_append (sep : UInt8) (a b : Bytes) (h : ∀ c ∈ a, c ≠ sep) :
    splitOn sep (a ++ sep :: b) = a :: splitOn sep b := by
  induction a with
  | nil => simp [splitOn]
  | cons x xs ih =>
    have hx : (x == sep) = false := by simpa using h x (by simp)
    simp [splitOn, hx, ih (fun c hc => h c (by simp [hc]))]

theorem splitKV_append (k v : Bytes) (h : ∀ c ∈ k, c ≠ 61) : splitKV (k ++ 61 :: v) = (k, v) := by
  induction k with
  | nil => simp [splitKV]
  | cons x xs ih =>
    have hx : (x == 61) = false := by simpa using h x (by simp)
    simp [splitKV, hx, ih (fun c hc => h c (by simp [hc]))]

theorem dec_plain (s : Bytes) (h : ∀ c ∈ s, c ≠ 43 ∧ c ≠ 37) : dec s = s := by
  induction s with
  | nil => rfl
  | cons b bs ih =>
    rw [dec_cons_other b bs (h b (by simp)).1 (h b (by simp)).2, ih (fun c hc => h c (by simp [hc]))]

/-- **exactly two parameters**: whatever bytes the claimed name contains, the server-side parse of
    the query yields one `username` equal to the name and one `serverId` equal to the hash — no
    name can add, remove or override a parameter -/
theorem params_exact (name hash : Bytes) :
    parseQuery (query name hash) = [(kUser, name), (kServer, hash)] := by
  unfold parseQuery query
  have hk1 : ∀ c ∈ kUser, c ≠ 61 := by decide
  have hk2 : ∀ c ∈ kServer, c ≠ 61 := by decide
  have hd1 : dec kUser = kUser := dec_plain _ (by decide)
  have hd2 : dec kServer = kServer := dec_plain _ (by decide)
  have hfirst : ∀ c ∈ kUser ++ [61] ++ enc name, c ≠ 38 := by
    intro c hc
    simp only [List.mem_append, List.mem_singleton] at hc
    rcases hc with (hc | hc) | hc
    · revert c; decide
    · subst hc; decide
    · exact (enc_no_delims name c hc).1
  have hsecond : ∀ c ∈ kServer ++ [61] ++ enc hash, c ≠ 38 := by
    intro c hc
    simp only [List.mem_append, List.mem_singleton] at hc
    rcases hc with (hc | hc) | hc
    · revert c; decide
    · subst hc; decide
    · exact (enc_no_delims hash c hc).1
  have e : kUser ++ [61] ++ enc name ++ [38] ++ kServer ++ [61] ++ enc hash
      = (kUser ++ [61] ++ enc name) ++ 38 :: (kServer ++ [61] ++ enc hash) := by simp
  rw [e, splitOn_append 38 _ _ hfirst, splitOn_no_sep 38 _ hsecond]
  have s1 : splitKV (kUser ++ [61] ++ enc name) = (kUser, enc name) := by
    have := splitKV_append kUser (enc name) hk1; simpa using this
  have s2 : splitKV (kServer ++ [61] ++ enc hash) = (kServer, enc hash) := by
    have := splitKV_append kServer (enc hash) hk2; simpa using this
  simp [splitKV_append _ _ hk1, splitKV_append _ _ hk2, hd1, hd2, dec_enc]

/-- **the path is constant**: the target is the fixed path, one `?`, then a query that contains no
    further `?`, `#` or `/` -/
theorem path_constant (name hash : Bytes) :
    target name hash = path ++ [63] ++ query name hash ∧
    ∀ c ∈ enc name ++ enc hash, c ≠ 63 ∧ c ≠ 35 ∧ c ≠ 47 := by
  refine ⟨rfl, ?_⟩
  intro c hc
  simp only [List.mem_append] at hc
  rcases hc with hc | hc
  · have := enc_no_delims name c hc; exact ⟨this.2.2.2.1, this.2.2.1, this.2.2.2.2.1⟩
  · have := enc_no_delims hash c hc; exact ⟨this.2.2.2.1, this.2.2.1, this.2.2.2.2.1⟩

/-- regression fact about the pinned interpolation: the name `a&serverId=x` yields three
    parameters, the injected one shadowing positionally -/
theorem pinned_witness :
    (parseQuery (queryPinned [97, 38, 115, 101, 114, 118, 101, 114, 73, 100, 61, 120] [104])).length = 3 := by
  decide

/-- non-vacuity: a name full of delimiters -/
example : parseQuery (query [97, 38, 61, 63, 35, 37, 43, 32, 47, 0xc3, 0xa9] [45, 55, 99]) =
    [(kUser, [97, 38, 61, 63, 35, 37, 43, 32, 47, 0xc3, 0xa9]), (kServer, [45, 55, 99])] := params_exact _ _

end Passage.Props.C12
