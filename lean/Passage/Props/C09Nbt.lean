import Passage.Codec.Nbt
/-
  C09 — the compound text component on the wire (network NBT).
-/
namespace Passage.Props.C09Nbt
open Passage Passage.Codec

/-- **no root name**: a compound component is `0x0a`, its entries, `0x00` — the first entry's tag
    follows the root tag directly -/
theorem compound_layout (es : NbtEntries) :
    (Nbt.compound es).encodeNet = 10 :: es.bytes ++ [0] := by
  simp [Nbt.encodeNet, Nbt.tag, Nbt.payload]

/-- an entry is tag, big-endian u16 name length, name, payload — for every name and value -/
theorem entry_layout (name : Bytes) (v : Nbt) (rest : NbtEntries) :
    (NbtEntries.cons name v rest).bytes
      = v.tag :: beBytes 2 (name.length % 65536) ++ name ++ v.payload ++ rest.bytes := by
  simp [NbtEntries.bytes]

/-- a string inside a compound has the payload of the string-form text component (C09's `text`
    wire type without its tag byte) -/
theorem string_payload_matches_text (b : Bytes) :
    encTy .text (.bytes b) = some ((Nbt.str b).tag :: (Nbt.str b).payload) := by
  simp [encTy, Nbt.tag, Nbt.payload]

/-- the named-root (file) form is never what the network form yields: for every compound the two
    differ (the byte after the root tag is an entry tag or the end tag in one, a name length in
    the other — and the lengths differ by two) -/
theorem named_root_differs (n : Nbt) : n.encodeNet ≠ n.encodeNamedRoot := by
  intro h
  have := congrArg List.length h
  simp [Nbt.encodeNet, Nbt.encodeNamedRoot] at this

/-- non-vacuity: `{"text":"hi"}` -/
example : (Nbt.compound (.cons [116, 101, 120, 116] (.str [104, 105]) .nil)).encodeNet
    = [10, 8, 0, 4, 116, 101, 120, 116, 0, 2, 104, 105, 0] := by decide

end Passage.Props.C09Nbt
