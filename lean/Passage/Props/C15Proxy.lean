import Passage.Proxy
import Passage.Props.C19V4
/-
  C15 (continued) — theorems about the PROXY header parser model: which source a header announces.
-/
namespace Passage.Props.C15Proxy
open Passage Passage.Proxy

theorem drop_pre {α} (pre y : List α) (k j : Nat) (h : pre.length = k) : (pre ++ y).drop (k + j) = y.drop j := by
  subst h; rw [List.drop_append]; simp

theorem be16_split (v : Nat) (h : v < 65536) : be16 (UInt8.ofNat (v / 256)) (UInt8.ofNat (v % 256)) = v := by
  unfold be16
  have h1 : v / 256 < 256 := by omega
  have h2 : v % 256 < 256 := by omega
  simp [UInt8.toNat_ofNat', Nat.mod_eq_of_lt h1, Nat.mod_eq_of_lt h2]
  omega

/-- **anything that does not start like a header is no header**: a first byte other than `P` and CR
    (a Minecraft handshake, TLS, HTTP …) is refused at once, whatever follows and whatever is allowed -/
theorem first_byte_gate (C : Cfg) (ip4 ip6 : Bytes → Option Bytes) (b : UInt8) (rest : Bytes)
    (h : b ≠ 80 ∧ b ≠ 13) : parse C ip4 ip6 (b :: rest) = .invalid := by
  simp [parse, h.1, h.2]

/-- **a disabled version is no header** -/
theorem disabled_version_invalid (C : Cfg) (ip4 ip6 : Bytes → Option Bytes) (rest : Bytes) :
    (C.allowV1 = false → parse C ip4 ip6 (80 :: rest) = .invalid) ∧
    (C.allowV2 = false → parse C ip4 ip6 (13 :: rest) = .invalid) := by
  constructor <;> intro h <;> simp [parse, h]

/-- an empty first segment is not a verdict yet -/
theorem empty_needs_more (C : Cfg) (ip4 ip6 : Bytes → Option Bytes) : parse C ip4 ip6 [] = .tooShort := by
  simp [parse]

/-- **v2 round trip**: the header a load balancer writes for TCP over IPv4 / IPv6 announces exactly its
    SOURCE address and port — not the destination, not the peer — whatever bytes follow it -/
theorem v2_announces_source (C : Cfg) (ip4 ip6 : Bytes → Option Bytes) (fam : UInt8) (n : Nat)
    (src dst rest : Bytes) (sp dp : Nat)
    (hfam : (fam = 0x11 ∧ n = 4) ∨ (fam = 0x21 ∧ n = 16)) (hs : src.length = n) (hd : dst.length = n)
    (hsp : sp < 65536) (hv2 : C.allowV2 = true) :
    parse C ip4 ip6 (encodeV2 fam src dst sp dp ++ rest) = .ok (some ⟨src, sp⟩) (16 + (2 * n + 4)) := by
  have hlen : src.length + dst.length + 4 = 2 * n + 4 := by omega
  have hn : 2 * n + 4 < 65536 := by rcases hfam with ⟨_, h⟩ | ⟨_, h⟩ <;> omega
  -- the buffer as prefix (16 bytes) ++ payload
  let pre : Bytes := greetingV2 ++ [0x21, fam, UInt8.ofNat ((2 * n + 4) / 256), UInt8.ofNat ((2 * n + 4) % 256)]
  let pay : Bytes := src ++ (dst ++ ([UInt8.ofNat (sp / 256), UInt8.ofNat (sp % 256), UInt8.ofNat (dp / 256), UInt8.ofNat (dp % 256)] ++ rest))
  have hbuf : encodeV2 fam src dst sp dp ++ rest = pre ++ pay := by
    simp only [encodeV2, hlen, pre, pay, List.append_assoc]
  have hpre : pre.length = 16 := by simp [pre, greetingV2]
  rw [hbuf]
  have hhead : (pre ++ pay).head? = some 13 := by simp [pre, greetingV2]
  have hL : (pre ++ pay).length = 16 + (2 * n + 4) + (4 + rest.length) - 4 + 0 := by
    simp [pay, hpre, hs, hd]; omega
  have htake : (pre ++ pay).take 12 = greetingV2 := by simp [pre, greetingV2]
  have h12 : ((pre ++ pay).drop 12).headD 0 = 0x21 := by simp [pre, greetingV2]
  have h13 : ((pre ++ pay).drop 13).headD 0 = fam := by simp [pre, greetingV2]
  have h14 : ((pre ++ pay).drop 14).headD 0 = UInt8.ofNat ((2 * n + 4) / 256) := by simp [pre, greetingV2]
  have h15 : ((pre ++ pay).drop 15).headD 0 = UInt8.ofNat ((2 * n + 4) % 256) := by simp [pre, greetingV2]
  have hd16 : (pre ++ pay).drop 16 = pay := by simpa using drop_pre pre pay 16 0 hpre
  have hsrc : ((pre ++ pay).drop 16).take n = src := by rw [hd16]; simp [pay, ← hs]
  have hp0 : (pre ++ pay).drop (16 + 2 * n) = [UInt8.ofNat (sp / 256), UInt8.ofNat (sp % 256), UInt8.ofNat (dp / 256), UInt8.ofNat (dp % 256)] ++ rest := by
    rw [drop_pre pre pay 16 (2 * n) hpre]
    have : 2 * n = src.length + dst.length := by omega
    simp [pay, this, List.drop_append]
  have hp1 : (pre ++ pay).drop (16 + 2 * n + 1) = [UInt8.ofNat (sp % 256), UInt8.ofNat (dp / 256), UInt8.ofNat (dp % 256)] ++ rest := by
    rw [show 16 + 2 * n + 1 = (16 + 2 * n) + 1 by omega, ← List.drop_drop, hp0]; simp
  unfold parse
  simp only [hhead, hv2]
  have h80 : ¬ ((13 : UInt8) = 80 ∧ C.allowV1 = true) := fun h => absurd h.1 (by decide)
  simp only [h80, if_false, and_self, if_true]
  unfold parseV2
  have hl16 : ¬ (pre ++ pay).length < 16 := by omega
  simp only [hl16, if_false, htake, ne_eq, not_true_eq_false, h12, h13, h14, h15, be16_split _ hn]
  have hlen2 : ¬ (pre ++ pay).length < 16 + (2 * n + 4) := by omega
  simp only [hlen2, if_false]
  rcases hfam with ⟨hf, hn4⟩ | ⟨hf, hn16⟩
  · subst hf; subst hn4
    simp [addrsV2, hsrc, hp0, hp1, be16_split sp hsp]
  · subst hf; subst hn16
    simp [addrsV2, hsrc, hp0, hp1, be16_split sp hsp]

/-- **LOCAL**: the header a proxy sends for its own health checks announces nothing: the peer address stands -/
theorem v2_local_no_address (C : Cfg) (ip4 ip6 : Bytes → Option Bytes) (rest : Bytes) (hv2 : C.allowV2 = true) :
    parse C ip4 ip6 (encodeV2Local ++ rest) = .ok none 16 := by
  have hl : ¬ (rest.length + 1 + 1 + 1 + 1 + 1 + 1 + 1 + 1 + 1 + 1 + 1 + 1 + 1 + 1 + 1 + 1 < 16) := by omega
  simp [parse, parseV2, encodeV2Local, greetingV2, hv2, be16, hl]

/-- a LOCAL command never yields an address, whatever family and addresses are filled in -/
theorem v2_local_never_announces (buf : Bytes) (s : Src) (k : Nat) (h : (buf.drop 12).headD 0 = 0x20) :
    parseV2 buf ≠ .ok (some s) k := by
  unfold parseV2
  simp only [h]
  split
  · simp
  · split
    · simp
    · split
      · simp
      · split
        · simp
        · split <;> simp

theorem readUntil_hit (d : UInt8) (x y : Bytes) (h : d ∉ x) : readUntil d (x ++ d :: y) = some x := by
  induction x with
  | nil => simp [readUntil]
  | cons a r ih =>
    have ha : a ≠ d := by intro e; apply h; simp [e]
    have hr : d ∉ r := by intro e; apply h; simp [e]
    simp [readUntil, ha, ih hr]

/-- **v1 round trip**: `PROXY TCP4 <src> <dst> <sport> <dport>\r\n` announces the parsed `<src>` and
    `<sport>`, for every text the address parser accepts and whatever bytes follow -/
theorem v1_announces_source (C : Cfg) (ip4 ip6 : Bytes → Option Bytes) (a b sp dp rest : Bytes) (s d : Bytes) (p q : Nat)
    (ha : (32 : UInt8) ∉ a) (hb : (32 : UInt8) ∉ b) (hsp : (32 : UInt8) ∉ sp) (hdp : (13 : UInt8) ∉ dp)
    (hia : ip4 a = some s) (hib : ip4 b = some d) (hp : parseU16 sp = some p) (hq : parseU16 dp = some q)
    (hv1 : C.allowV1 = true) :
    parse C ip4 ip6 (kPROXY ++ 32 :: kTCP4 ++ a ++ 32 :: b ++ 32 :: sp ++ 32 :: dp ++ 13 :: 10 :: rest)
      = .ok (some ⟨s, p⟩) (11 + a.length + 1 + b.length + 1 + sp.length + 1 + dp.length + 2) := by
  -- normal form: an 11-byte prefix, then the four fields
  let f4 : Bytes := dp ++ 13 :: 10 :: rest
  let f3 : Bytes := sp ++ 32 :: f4
  let f2 : Bytes := b ++ 32 :: f3
  let f1 : Bytes := a ++ 32 :: f2
  let pre : Bytes := [80, 82, 79, 88, 89, 32, 84, 67, 80, 52, 32]
  have hbuf : kPROXY ++ 32 :: kTCP4 ++ a ++ 32 :: b ++ 32 :: sp ++ 32 :: dp ++ 13 :: 10 :: rest = pre ++ f1 := by
    simp [kPROXY, kTCP4, pre, f1, f2, f3, f4]
  rw [hbuf]
  have hpre : pre.length = 11 := rfl
  have hlen : 15 ≤ (pre ++ f1).length := by simp [pre, f1, f2, f3, f4]; omega
  have d11 : (pre ++ f1).drop 11 = f1 := by simpa using drop_pre pre f1 11 0 hpre
  have d2 : (pre ++ f1).drop (11 + a.length + 1) = f2 := by
    rw [show 11 + a.length + 1 = 11 + (a.length + 1) by omega, drop_pre pre f1 11 _ hpre]; simp [f1]
  have d3 : (pre ++ f1).drop (11 + a.length + 1 + b.length + 1) = f3 := by
    rw [show 11 + a.length + 1 + b.length + 1 = (11 + a.length + 1) + (b.length + 1) by omega, ← List.drop_drop, d2]; simp [f2]
  have d4 : (pre ++ f1).drop (11 + a.length + 1 + b.length + 1 + sp.length + 1) = f4 := by
    rw [show 11 + a.length + 1 + b.length + 1 + sp.length + 1 = (11 + a.length + 1 + b.length + 1) + (sp.length + 1) by omega, ← List.drop_drop, d3]; simp [f3]
  have d5 : (pre ++ f1).drop (11 + a.length + 1 + b.length + 1 + sp.length + 1 + dp.length + 1) = 10 :: rest := by
    rw [show 11 + a.length + 1 + b.length + 1 + sp.length + 1 + dp.length + 1 = (11 + a.length + 1 + b.length + 1 + sp.length + 1) + (dp.length + 1) by omega, ← List.drop_drop, d4]; simp [f4]
  have r1 : readUntil 32 f1 = some a := readUntil_hit 32 a f2 ha
  have r2 : readUntil 32 f2 = some b := readUntil_hit 32 b f3 hb
  have r3 : readUntil 32 f3 = some sp := readUntil_hit 32 sp f4 hsp
  have r4 : readUntil 13 f4 = some dp := readUntil_hit 13 dp (10 :: rest) hdp
  have haddrs : addrsV1 ip4 (pre ++ f1) 11 = .got ⟨s, p⟩ (11 + a.length + 1 + b.length + 1 + sp.length + 1 + dp.length + 1) := by
    unfold addrsV1
    simp only [d11, r1, hia, d2, r2, hib, d3, r3, hp, d4, r4, hq]
  have hhead : (pre ++ f1).head? = some 80 := rfl
  have hsw : startsWith kPROXY (pre ++ f1) = true := by simp [startsWith, kPROXY, pre]
  have d6 : (pre ++ f1).drop 6 = [84, 67, 80, 52, 32] ++ f1 := by simp [pre]
  have hunk : startsWith kUNKNOWN ((pre ++ f1).drop 6) = false := by rw [d6]; simp [startsWith, kUNKNOWN]
  have hproto : ((pre ++ f1).drop 6).take 5 = kTCP4 := by rw [d6]; simp [kTCP4]
  unfold parse
  simp only [hhead, hv1, and_self, if_true]
  unfold parseV1 parseV1Inner
  have hl : ¬ (pre ++ f1).length < 15 := by omega
  simp only [hl, if_false, hsw, Bool.not_true, Bool.false_eq_true, hunk, hproto, if_true, show (6 : Nat) + 5 = 11 from rfl, haddrs, d5, List.head?_cons]

end Passage.Props.C15Proxy

namespace Passage.Props.C15Proxy
open Passage Passage.Proxy Passage.NetText

/-- **v1 round trip, IPv4, no hypothesis about the address text**: the line a load balancer writes for
    source `x` and destination `y` in canonical dotted decimal announces exactly `x`'s octets and the
    source port — with `Ipv4Addr::from_str` modelled concretely (NetText) instead of recorded -/
theorem v1_announces_source_v4 (C : Cfg) (ip6 : Bytes → Option Bytes) (x y : V4) (sp dp rest : Bytes) (p q : Nat)
    (hsp : (32 : UInt8) ∉ sp) (hdp : (13 : UInt8) ∉ dp)
    (hp : parseU16 sp = some p) (hq : parseU16 dp = some q) (hv1 : C.allowV1 = true) :
    parse C parseV4Octets ip6
        (kPROXY ++ 32 :: kTCP4 ++ showV4 x ++ 32 :: showV4 y ++ 32 :: sp ++ 32 :: dp ++ 13 :: 10 :: rest)
      = .ok (some ⟨v4Octets x, p⟩)
          (11 + (showV4 x).length + 1 + (showV4 y).length + 1 + sp.length + 1 + dp.length + 2) :=
  v1_announces_source C parseV4Octets ip6 (showV4 x) (showV4 y) sp dp rest (v4Octets x) (v4Octets y) p q
    (noSpace_showV4 x) (noSpace_showV4 y) hsp hdp
    (by simp [parseV4Octets, C19V4.parse_show]) (by simp [parseV4Octets, C19V4.parse_show]) hp hq hv1

/-- a v1 source field the parser accepts is the canonical text of the announced address: `010.0.0.1`,
    ` 10.0.0.1` or `10.0.0.1.` never announce 10.0.0.1 -/
theorem v1_source_text_canonical (t : Bytes) (o : Bytes) (h : parseV4Octets t = some o) :
    ∃ x : V4, o = v4Octets x ∧ showV4 x = t := by
  unfold parseV4Octets at h
  cases hx : parseV4 t with
  | none => simp [hx] at h
  | some x =>
    simp only [hx, Option.map_some, Option.some.injEq] at h
    exact ⟨x, h.symm, C19V4.show_parse t x hx⟩

/- the premises are met and the parser model computes (tests, labelled so): the menu's first line announces 10.1.1.1:4000
   and is consumed whole (41 bytes); the same line with a leading zero in the source is no valid header -/
example : parse ⟨true, true⟩ parseV4Octets (fun _ => none) ([80, 82, 79, 88, 89, 32, 84, 67, 80, 52, 32, 49, 48, 46, 49, 46, 49, 46, 49, 32, 49, 48, 46, 57, 46, 57, 46, 57, 32, 52, 48, 48, 48, 32, 50, 53, 53, 54, 53, 13, 10] : Bytes) = .ok (some ⟨[10, 1, 1, 1], 4000⟩) 41 := by decide
example : parse ⟨true, true⟩ parseV4Octets (fun _ => none) ([80, 82, 79, 88, 89, 32, 84, 67, 80, 52, 32, 48, 49, 48, 46, 49, 46, 49, 46, 49, 32, 49, 48, 46, 57, 46, 57, 46, 57, 32, 52, 48, 48, 48, 32, 50, 53, 53, 54, 53, 13, 10] : Bytes) = .invalid := by decide

end Passage.Props.C15Proxy
