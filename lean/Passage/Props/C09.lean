import Passage.Lemmas.Schema
import Passage.Extracted.Constants
import Passage.Extracted.Packets
/-
  C09 — Every packet encodes to the Minecraft wire layout and decodes back losslessly.
  Property theorems only.
-/
namespace Passage.Props.C09
open Passage Passage.Codec

/-! ### VarInt / VarLong: all 2^32 resp. 2^64 values, by proof -/

/-- the writer's bytes are the little-endian base-128 groups of the unsigned value -/
theorem varint_layout (x : BitVec 32) : Impl.writeVarint x = Spec.leb128 5 x.toNat :=
  writeVarint_spec x

theorem varlong_layout (x : BitVec 64) : Impl.writeVarlong x = Spec.leb128 10 x.toNat :=
  writeVarlong_spec x

theorem varint_len_le_5 (x : BitVec 32) : (Impl.writeVarint x).length ≤ 5 := by
  rw [varint_layout]; exact leb128_length_le 5 _

theorem varlong_len_le_10 (x : BitVec 64) : (Impl.writeVarlong x).length ≤ 10 := by
  rw [varlong_layout]; exact leb128_length_le 10 _

/-- decoding inverts encoding for every 32-bit value, whatever follows on the wire -/
theorem varint_roundtrip (x : BitVec 32) (rest : Bytes) :
    Impl.readVarint (Impl.writeVarint x ++ rest) = .ok (x, rest) :=
  readVarint_writeVarint x rest

/-- decoding inverts encoding for every 64-bit value (needs the reader to accept 10 groups) -/
theorem varlong_roundtrip (x : BitVec 64) (rest : Bytes) :
    Impl.readVarlong (Impl.writeVarlong x ++ rest) = .ok (x, rest) :=
  readVarlong_writeVarlong x rest

/-- the loop bounds in passage-packets/src/reader.rs are the ones the model (and the round-trip
    theorems above) assume; `none` = the extractor did not recognise the loop (fail-soft) -/
theorem extracted_varint_groups :
    Extracted.readVarintGroups = none ∨ Extracted.readVarintGroups = some 5 := by decide

theorem extracted_varlong_groups :
    Extracted.readVarlongGroups = none ∨ Extracted.readVarlongGroups = some Impl.varlongGroups := by
  decide

/-! ### packets: layout, ids, round trip -/

/-- For every schema and every well-formed value list: the encoder succeeds, and decoding its
    output followed by arbitrary further bytes returns exactly the values and exactly those
    further bytes (all packet bytes consumed, nothing more). -/
theorem schema_roundtrip (sch : Schema) (vals : List (Option Val)) (rest : Bytes)
    (hwf : WFs sch vals) :
    ∃ b, encFields sch vals = some b ∧ decFields sch (b ++ rest) = .ok (vals, rest) := by
  obtain ⟨b, hb⟩ := Option.isSome_iff_exists.mp (encFields_isSome sch vals hwf)
  exact ⟨b, hb, decFields_encFields sch vals b rest hwf hb⟩

/-- every packet of the table round-trips (instance of the generic theorem) -/
theorem packet_roundtrip (p : PacketSpec) (_hp : p ∈ packets) (vals : List (Option Val))
    (rest : Bytes) (hwf : WFs p.schema vals) :
    ∃ b, encodePacket p vals = some b ∧ decodePacket p (b ++ rest) = .ok (vals, rest) :=
  schema_roundtrip p.schema vals rest hwf

/-- the per-packet ids and primitive read/write sequences in passage-packets/src/*.rs are exactly
    those of the protocol table the model uses -/
theorem extracted_packets_match :
    (match Extracted.packets with
     | none => true
     | some ps => decide (ps = packets.map PacketSpec.fact)) = true := by decide

/-- enum ordinal tables (both directions, contiguous, with a rejecting default arm) -/
theorem extracted_enums_match :
    (match Extracted.enums with
     | none => true
     | some es => decide (es = enumFacts)) = true := by decide

/-- ordinals outside the defined range are rejected — for every VarInt value -/
theorem enum_rejects_outside (lo hi : Nat) (x : BitVec 32) (rest : Bytes)
    (hout : x.toInt < lo ∨ (hi : Int) < x.toInt) :
    decTy (.enumv lo hi) (Impl.writeVarint x ++ rest) = .err .illegalEnum := by
  simp only [decTy, readVarint_writeVarint, Outcome.bind_ok]
  have : ¬ ((lo : Int) ≤ x.toInt ∧ x.toInt ≤ (hi : Int)) := by omega
  simp [this]

/-- ... and every ordinal inside it is accepted and returned -/
theorem enum_accepts_inside (lo hi : Nat) (x : BitVec 32) (rest : Bytes)
    (hin : (lo : Int) ≤ x.toInt ∧ x.toInt ≤ (hi : Int)) :
    decTy (.enumv lo hi) (Impl.writeVarint x ++ rest) = .ok (.int x.toInt, rest) := by
  simp only [decTy, readVarint_writeVarint, Outcome.bind_ok]
  simp [hin]

/-- wire layout of the primitives in the protocol's own terms (length prefix = byte length,
    big-endian integers, presence flag) -/
theorem string_layout (s : Bytes) :
    encTy .string (.bytes s) = some (Spec.leb128 5 (s.length % 2 ^ 32) ++ s) := by
  simp [encTy, writeLenPrefixed, varint_layout, BitVec.toNat_ofNat]

theorem bytes_layout (s : Bytes) :
    encTy .bytes (.bytes s) = some (Spec.leb128 5 (s.length % 2 ^ 32) ++ s) := by
  simp [encTy, writeLenPrefixed, varint_layout, BitVec.toNat_ofNat]

theorem optional_layout (t : Ty) (v : Val) (b : Bytes) (h : encTy t v = some b) :
    encField (.opt t) (some v) = some (1 :: b) ∧ encField (.opt t) none = some [0] := by
  simp [encField, h]

theorem uuid_layout_len (i : Int) : ∃ b, encTy .uuid (.int i) = some b ∧ b.length = 16 :=
  ⟨_, rfl, beBytes_length 16 _⟩

/-- non-vacuity: a concrete Handshake value satisfies `WFs` and encodes to the familiar bytes -/
def handshakeSchema : Schema := [.req .varint, .req .string, .req .u16, .req nextState]

example : WFs handshakeSchema
    [some (.int 767), some (.bytes [0x6d, 0x63]), some (.int 25565), some (.int 2)] := by
  simp [handshakeSchema, WFs, WFf, WFv, nextState, validUtf8, validUtf8F]

example : encFields handshakeSchema [some (.int 767), some (.bytes [0x6d, 0x63]), some (.int 25565), some (.int 2)]
    = some [0xff, 0x05, 0x02, 0x6d, 0x63, 0x63, 0xdd, 0x02] := by decide

end Passage.Props.C09
