import Passage.Listener
import Passage.Extracted.Listener
import Passage.Props.C04
import Passage.Props.C02
/-
  C14 — Operator-configured limits and the connection deadline govern every connection (partial:
  the timers themselves are tokio's; the model carries which waits are under which deadline and the
  real-socket runs measure the time from accept to close).
-/
namespace Passage.Props.C14
open Passage Passage.Listener

def plumbingOf (f : Passage.Extracted.ListenerFacts) : Plumbing :=
  { maxLen := f.cfgMaxLen && f.connMaxLen, expiry := f.cfgExpiry && f.connExpiry,
    secret := f.cfgSecret && f.connSecret, timeout := f.cfgTimeout && f.connTimeout }

def deadlineOf (f : Passage.Extracted.ListenerFacts) : Deadline :=
  ⟨f.headerUnderDeadline, f.listenUnderDeadline, f.singleDeadlineFromAccept, f.shutdownAfterListen⟩

def PlumbingGood (P : Plumbing) : Prop := P.maxLen = true ∧ P.expiry = true ∧ P.secret = true ∧ P.timeout = true
def DeadlineGood (D : Deadline) : Prop :=
  D.headerUnderDeadline = true ∧ D.listenUnderDeadline = true ∧ D.singleDeadlineFromAccept = true ∧ D.shutdownAfterListen = true

/-- the connection-level configuration (L0/L1 machine) a listener connection runs under -/
def toCfg (cc : ConnCfg) (addr : Bytes) : Conn.Cfg := ⟨cc.secret, cc.expiry, cc.maxLen, addr⟩

/-- **forwarding**: with every hop present, each connection runs under exactly the operator's four
    values — for every configuration -/
theorem operator_values_reach_connection (P : Plumbing) (hP : PlumbingGood P) (c : Config) (addr : Bytes) :
    toCfg (connCfg P c) addr = ⟨c.authSecret, c.authCookieExpiry, c.maxPacketLength, addr⟩ ∧
    (connCfg P c).timeout = c.timeout := by
  obtain ⟨h1, h2, h3, h4⟩ := hP
  simp [toCfg, connCfg, h1, h2, h3, h4]

/-- conversely every missing hop is observable: some configuration is not honoured -/
theorem missing_hop_observable (P : Plumbing) (h : ¬ PlumbingGood P) :
    ∃ c : Config, connCfg P c ≠ ⟨c.maxPacketLength, c.authCookieExpiry, c.authSecret, c.timeout⟩ := by
  refine ⟨⟨1, 1, some [1], 1⟩, ?_⟩
  unfold PlumbingGood at h
  intro heq
  have := congrArg ConnCfg.maxLen heq
  have := congrArg ConnCfg.expiry heq
  have := congrArg ConnCfg.secret heq
  have := congrArg ConnCfg.timeout heq
  cases hm : P.maxLen <;> cases he : P.expiry <;> cases hs : P.secret <;> cases ht : P.timeout <;>
    simp_all [connCfg, defaults]

/-- **configured frame limit**: a frame whose declared length exceeds the operator's maximum ends
    the connection at the byte completing its length prefix (C04's theorem at the plumbed value) -/
theorem configured_max_refuses (P : Plumbing) (hP : PlumbingGood P) (c : Config) (addr : Bytes) (E : Conn.Env)
    (s : Conn.St1) (b : UInt8) (hnd : s.l0.pc ≠ .done)
    (hill : Conn.nextFrame c.maxPacketLength (s.rx ++ [b]) = .illegal) :
    (Conn.stepByte (toCfg (connCfg P c) addr) E s b).2 = [.finish (some .illegalLength)] := by
  rw [(operator_values_reach_connection P hP c addr).1]
  exact (C04.illegal_length_refused_at_prefix ⟨c.authSecret, c.authCookieExpiry, c.maxPacketLength, addr⟩ E s b hnd hill).2.2

/-- **configured expiry and address**: a cookie older than the operator's expiry (or bound to
    another address) is not accepted -/
theorem configured_expiry_refuses (P : Plumbing) (hP : PlumbingGood P) (c : Config) (addr : Bytes) (E : Conn.Env)
    (ck : Conn.AuthCookie) (h : ck.ip ≠ E.clientIp ∨ ck.ts + c.authCookieExpiry < E.now) :
    Conn.acceptCookie (toCfg (connCfg P c) addr) E ck = false := by
  rw [(operator_values_reach_connection P hP c addr).1]
  exact C02.other_ip_or_expired_rejected _ E ck h

/-- **only the configured secret validates**: the secret the connection verifies with is the
    operator's -/
theorem configured_secret_used (P : Plumbing) (hP : PlumbingGood P) (c : Config) (addr : Bytes) :
    (toCfg (connCfg P c) addr).secret = c.authSecret := by
  rw [(operator_values_reach_connection P hP c addr).1]

/-- **deadline**: with one deadline measured from the accept covering the header wait and the
    protocol exchange, the server closes every connection no later than `timeout` after the
    accept — whatever the client does (`header`/`proto` = `none`: withholds for ever) -/
theorem closes_within_timeout (D : Deadline) (hD : DeadlineGood D) (timeout : Nat) (header proto : Option Nat) :
    ∃ t, closeTime D timeout header proto = some t ∧ t ≤ timeout := by
  obtain ⟨h1, h2, h3, _⟩ := hD
  unfold closeTime
  cases header with
  | none => exact ⟨timeout, by simp [h1], Nat.le_refl _⟩
  | some h =>
    simp only [h1, h2, h3, true_and, if_true]
    by_cases hh : timeout < h
    · exact ⟨timeout, by simp [hh], Nat.le_refl _⟩
    · simp only [hh, if_false]
      cases proto with
      | none => exact ⟨h + (timeout - h), rfl, by omega⟩
      | some p =>
        by_cases hp : timeout - h < p
        · exact ⟨h + (timeout - h), by simp [hp], by omega⟩
        · exact ⟨h + p, by simp [hp], by omega⟩

/-- and a client that finishes in time is not cut short -/
theorem prompt_client_not_cut (D : Deadline) (timeout h p : Nat) (hfit : h + p ≤ timeout) :
    closeTime D timeout (some h) (some p) = some (h + p) := by
  unfold closeTime
  have h1 : ¬ timeout < h := by omega
  have h2 : ¬ timeout - h < p := by omega
  have h3 : ¬ timeout < p := by omega
  by_cases a : D.headerUnderDeadline = true <;> by_cases b : D.singleDeadlineFromAccept = true <;>
    by_cases c : D.listenUnderDeadline = true <;> simp [a, b, c, h1, h2, h3]

/-- every deadline defect is observable: some client behaviour keeps the connection open longer -/
theorem missing_deadline_observable (D : Deadline)
    (h : D.headerUnderDeadline = false ∨ D.listenUnderDeadline = false ∨ D.singleDeadlineFromAccept = false) :
    ∃ header proto, ∀ t, closeTime D 10 header proto = some t → 10 < t := by
  rcases h with h | h | h
  · exact ⟨none, none, by simp [closeTime, h]⟩
  · exact ⟨some 0, none, by simp [closeTime, h]⟩
  · refine ⟨some 5, none, ?_⟩
    unfold closeTime
    cases D.headerUnderDeadline <;> cases D.listenUnderDeadline <;> simp [h]

/-- the plumbing of the current source is complete -/
theorem extracted_plumbing_good :
    (match Passage.Extracted.listener with
     | none => true
     | some f => (plumbingOf f).maxLen && (plumbingOf f).expiry && (plumbingOf f).secret && (plumbingOf f).timeout) = true := by
  decide

/-- the deadline structure of the current source is complete -/
theorem extracted_deadline_good :
    (match Passage.Extracted.listener with
     | none => true
     | some f => f.headerUnderDeadline && f.listenUnderDeadline && f.singleDeadlineFromAccept && f.shutdownAfterListen) = true := by
  decide

/-- regression fact about the pinned plumbing (frame limit and expiry not forwarded): an operator
    limit of 256 leaves the connection at the default 10000 -/
theorem pinned_witness :
    (connCfg ⟨false, false, true, true⟩ ⟨256, 60, some [1], 10⟩).maxLen = 10000 ∧
    (connCfg ⟨false, false, true, true⟩ ⟨256, 60, some [1], 10⟩).expiry = 21600 := by decide

example : PlumbingGood ⟨true, true, true, true⟩ ∧ DeadlineGood ⟨true, true, true, true⟩ := by
  simp [PlumbingGood, DeadlineGood]

end Passage.Props.C14
