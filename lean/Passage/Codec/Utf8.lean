import Passage.Util.Bytes
/-
  UTF-8 validity as `String::from_utf8` decides it (Unicode scalar values only: no over-long
  forms, no surrogates, nothing above U+10FFFF).  Fuel-structural.
-/
namespace Passage.Codec

def isCont (b : UInt8) : Bool := 0x80 ≤ b && b ≤ 0xbf

def validUtf8F : Nat → Bytes → Bool
  | 0, bs => bs.isEmpty
  | _ + 1, [] => true
  | f + 1, b0 :: rest =>
    if b0 < 0x80 then validUtf8F f rest
    else if 0xc2 ≤ b0 && b0 ≤ 0xdf then
      match rest with
      | b1 :: r => isCont b1 && validUtf8F f r
      | _ => false
    else if 0xe0 ≤ b0 && b0 ≤ 0xef then
      match rest with
      | b1 :: b2 :: r =>
        let lo : UInt8 := if b0 == 0xe0 then 0xa0 else 0x80
        let hi : UInt8 := if b0 == 0xed then 0x9f else 0xbf
        lo ≤ b1 && b1 ≤ hi && isCont b2 && validUtf8F f r
      | _ => false
    else if 0xf0 ≤ b0 && b0 ≤ 0xf4 then
      match rest with
      | b1 :: b2 :: b3 :: r =>
        let lo : UInt8 := if b0 == 0xf0 then 0x90 else 0x80
        let hi : UInt8 := if b0 == 0xf4 then 0x8f else 0xbf
        lo ≤ b1 && b1 ≤ hi && isCont b2 && isCont b3 && validUtf8F f r
      | _ => false
    else false

def validUtf8 (bs : Bytes) : Bool := validUtf8F bs.length bs

end Passage.Codec
