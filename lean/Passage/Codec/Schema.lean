import Passage.Codec.VarInt
import Passage.Codec.Utf8
/-
  M1 — packet field codec: wire types, schemas (field sequences with optional fields), generic
  encoder/decoder.  `encTy`/`decTy` transliterate the primitives of passage-packets'
  writer.rs / reader.rs; the per-packet schemas live in `Packets.lean`.
-/
namespace Passage.Codec

/-- wire types used by the packets of the four phases -/
inductive Ty
  | varint | varlong
  | string            -- VarInt byte length ‖ UTF-8 bytes
  | bytes             -- VarInt length ‖ bytes
  | bool              -- one byte; the reader maps 1 ↦ true, anything else ↦ false
  | u8 | i8 | u16 | i32 | u64
  | uuid              -- 16 bytes big-endian (u128)
  | text              -- text component: 0x08 ‖ u16 length ‖ bytes (string form); compound = oracle
  | enumv (lo hi : Nat)   -- VarInt ordinal, accepted iff lo ≤ v ≤ hi
  | token32           -- `read_bytes` then `try_into::<[u8; 32]>`
  | portVarint        -- `u16` written as VarInt, read back with `as u16`
  | zeroVarint        -- writer emits VarInt 0; reader reads a VarInt and ignores it
  deriving DecidableEq, Repr

inductive Field
  | req (t : Ty)
  | opt (t : Ty)      -- presence bool, then the value when present
  deriving DecidableEq, Repr

abbrev Schema := List Field

inductive Val
  | int (i : Int)
  | bytes (b : Bytes)
  | bool (b : Bool)
  | unit
  deriving DecidableEq, Repr

/-- `k` big-endian bytes of `n` (truncating) -/
def beBytes : Nat → Nat → Bytes
  | 0, _ => []
  | k + 1, n => UInt8.ofNat (n / 256 ^ k % 256) :: beBytes k n

def beVal : Nat → Bytes → Nat
  | acc, [] => acc
  | acc, b :: bs => beVal (acc * 256 + b.toNat) bs

def readBE (k : Nat) (bs : Bytes) : Outcome (Nat × Bytes) :=
  if bs.length < k then .err .eof else .ok (beVal 0 (bs.take k), bs.drop k)

def toSigned (bits : Nat) (n : Nat) : Int :=
  if n < 2 ^ (bits - 1) then (n : Int) else (n : Int) - 2 ^ bits

def ofSigned (bits : Nat) (i : Int) : Nat := (i % 2 ^ bits).toNat

/-- `read_bytes` after the C04 repair: a negative length is refused, the bytes are read through
    `take(length)` and a short read is an unexpected EOF; nothing is pre-allocated. -/
def readLenPrefixed (bs : Bytes) : Outcome (Bytes × Bytes) := do
  let (len, rest) ← Impl.readVarint bs
  if len.toInt < 0 then .err .illegalLength
  else if rest.length < len.toNat then .err .eof
  else .ok (rest.take len.toNat, rest.drop len.toNat)

def writeLenPrefixed (b : Bytes) : Bytes :=
  Impl.writeVarint (BitVec.ofNat 32 b.length) ++ b

/-- encoder for one value; `none` when the value has the wrong shape for the type -/
def encTy : Ty → Val → Option Bytes
  | .varint, .int i => some (Impl.writeVarint (BitVec.ofInt 32 i))
  | .varlong, .int i => some (Impl.writeVarlong (BitVec.ofInt 64 i))
  | .string, .bytes b => some (writeLenPrefixed b)
  | .bytes, .bytes b => some (writeLenPrefixed b)
  | .bool, .bool b => some [if b then 1 else 0]
  | .u8, .int i => some (beBytes 1 (ofSigned 8 i))
  | .i8, .int i => some (beBytes 1 (ofSigned 8 i))
  | .u16, .int i => some (beBytes 2 (ofSigned 16 i))
  | .i32, .int i => some (beBytes 4 (ofSigned 32 i))
  | .u64, .int i => some (beBytes 8 (ofSigned 64 i))
  | .uuid, .int i => some (beBytes 16 (ofSigned 128 i))
  | .text, .bytes b => some (0x08 :: beBytes 2 (b.length % 65536) ++ b)
  | .enumv _ _, .int i => some (Impl.writeVarint (BitVec.ofInt 32 i))
  | .token32, .bytes b => some (writeLenPrefixed b)
  | .portVarint, .int i => some (Impl.writeVarint (BitVec.ofInt 32 i))
  | .zeroVarint, .unit => some (Impl.writeVarint 0)
  | _, _ => none

def decTy : Ty → Bytes → Outcome (Val × Bytes)
  | .varint, bs => do let (v, r) ← Impl.readVarint bs; pure (.int v.toInt, r)
  | .varlong, bs => do let (v, r) ← Impl.readVarlong bs; pure (.int v.toInt, r)
  | .string, bs => do
    let (b, r) ← readLenPrefixed bs
    if validUtf8 b then pure (.bytes b, r) else .err .invalidEncoding
  | .bytes, bs => do let (b, r) ← readLenPrefixed bs; pure (.bytes b, r)
  | .bool, bs => do let (n, r) ← readBE 1 bs; pure (.bool (n == 1), r)
  | .u8, bs => do let (n, r) ← readBE 1 bs; pure (.int n, r)
  | .i8, bs => do let (n, r) ← readBE 1 bs; pure (.int (toSigned 8 n), r)
  | .u16, bs => do let (n, r) ← readBE 2 bs; pure (.int n, r)
  | .i32, bs => do let (n, r) ← readBE 4 bs; pure (.int (toSigned 32 n), r)
  | .u64, bs => do let (n, r) ← readBE 8 bs; pure (.int n, r)
  | .uuid, bs => do let (n, r) ← readBE 16 bs; pure (.int n, r)
  | .text, bs => do
    let (tag, r) ← readBE 1 bs
    if tag == 8 then do
      let (len, r) ← readBE 2 r
      if r.length < len then .err .eof
      else if validUtf8 (r.take len) then pure (.bytes (r.take len), r.drop len)
      else .err .invalidEncoding
    else .err .nbt     -- compound form goes through fastnbt: not modelled (oracle)
  | .enumv lo hi, bs => do
    let (v, r) ← Impl.readVarint bs
    if (lo : Int) ≤ v.toInt ∧ v.toInt ≤ (hi : Int) then pure (.int v.toInt, r) else .err .illegalEnum
  | .token32, bs => do
    let (b, r) ← readLenPrefixed bs
    if b.length = 32 then pure (.bytes b, r) else .err .arrayConversion
  | .portVarint, bs => do let (v, r) ← Impl.readVarint bs; pure (.int (v.toNat % 65536), r)
  | .zeroVarint, bs => do let (_, r) ← Impl.readVarint bs; pure (.unit, r)

/-- well-formedness of a value for a type: the protocol limits under which round trips hold -/
def WFv : Ty → Val → Prop
  | .varint, .int i => -(2:Int)^31 ≤ i ∧ i < 2^31
  | .varlong, .int i => -(2:Int)^63 ≤ i ∧ i < 2^63
  | .string, .bytes b => b.length < 2^31 ∧ validUtf8 b = true
  | .bytes, .bytes b => b.length < 2^31
  | .bool, .bool _ => True
  | .u8, .int i => 0 ≤ i ∧ i < 2^8
  | .i8, .int i => -(2:Int)^7 ≤ i ∧ i < 2^7
  | .u16, .int i => 0 ≤ i ∧ i < 2^16
  | .i32, .int i => -(2:Int)^31 ≤ i ∧ i < 2^31
  | .u64, .int i => 0 ≤ i ∧ i < 2^64
  | .uuid, .int i => 0 ≤ i ∧ i < 2^128
  | .text, .bytes b => b.length < 65536 ∧ validUtf8 b = true     -- string form (caller: not starting with '{')
  | .enumv lo hi, .int i => (lo : Int) ≤ i ∧ i ≤ (hi : Int) ∧ hi < 2^31
  | .token32, .bytes b => b.length = 32
  | .portVarint, .int i => 0 ≤ i ∧ i < 2^16
  | .zeroVarint, .unit => True
  | _, _ => False

def encField : Field → Option Val → Option Bytes
  | .req t, some v => encTy t v
  | .req _, none => none
  | .opt _, none => some [0]
  | .opt t, some v => (encTy t v).map (fun b => 1 :: b)

def decField : Field → Bytes → Outcome (Option Val × Bytes)
  | .req t, bs => do let (v, r) ← decTy t bs; pure (some v, r)
  | .opt t, bs => do
    let (n, r) ← readBE 1 bs
    if n == 1 then do let (v, r) ← decTy t r; pure (some v, r)
    else pure (none, r)

def WFf : Field → Option Val → Prop
  | .req t, some v => WFv t v
  | .req _, none => False
  | .opt _, none => True
  | .opt t, some v => WFv t v

def encFields : Schema → List (Option Val) → Option Bytes
  | [], [] => some []
  | f :: fs, v :: vs => do
    let a ← encField f v
    let b ← encFields fs vs
    pure (a ++ b)
  | _, _ => none

def decFields : Schema → Bytes → Outcome (List (Option Val) × Bytes)
  | [], bs => .ok ([], bs)
  | f :: fs, bs => do
    let (v, r) ← decField f bs
    let (vs, r) ← decFields fs r
    pure (v :: vs, r)

def WFs : Schema → List (Option Val) → Prop
  | [], [] => True
  | f :: fs, v :: vs => WFf f v ∧ WFs fs vs
  | _, _ => False

/-- frame layer: `VarInt(len(id ‖ body)) ‖ VarInt(id) ‖ body` -/
def frame (id : Int) (body : Bytes) : Bytes :=
  let inner := Impl.writeVarint (BitVec.ofInt 32 id) ++ body
  Impl.writeVarint (BitVec.ofNat 32 inner.length) ++ inner

end Passage.Codec
