import Passage.Util.Bytes
/-
  Decoder outcomes.  Where the Rust can fail, panic or allocate by a client-chosen size the model
  says so explicitly; totality of a Lean function never stands for "does not crash".
-/
namespace Passage.Codec

inductive Err
  | eof                 -- std::io::ErrorKind::UnexpectedEof (read_exact on a short buffer)
  | illegalLength       -- Error::IllegalPacketLength
  | illegalEnum         -- Error::IllegalEnumValue
  | invalidEncoding     -- Error::InvalidEncoding (not UTF-8)
  | arrayConversion     -- Error::ArrayConversionFailed
  | nbt                 -- fastnbt / serde_json error (compound text component; oracle)
  deriving DecidableEq, Repr, Inhabited

def Err.name : Err → String
  | .eof => "eof" | .illegalLength => "illegal-length" | .illegalEnum => "illegal-enum"
  | .invalidEncoding => "invalid-encoding" | .arrayConversion => "array-conversion" | .nbt => "nbt"

inductive Outcome (α : Type) where
  | ok (a : α)
  | err (e : Err)
  | panic (site : String)
  deriving Repr

instance : Monad Outcome where
  pure := .ok
  bind x f := match x with
    | .ok a => f a
    | .err e => .err e
    | .panic s => .panic s

@[simp] theorem Outcome.bind_ok {α β} (a : α) (f : α → Outcome β) : (Outcome.ok a >>= f) = f a := rfl
@[simp] theorem Outcome.bind_err {α β} (e : Err) (f : α → Outcome β) : (Outcome.err e >>= f) = .err e := rfl
@[simp] theorem Outcome.bind_panic {α β} (s : String) (f : α → Outcome β) : (Outcome.panic s >>= f) = .panic s := rfl
@[simp] theorem Outcome.pure_eq {α} (a : α) : (pure a : Outcome α) = .ok a := rfl

end Passage.Codec
