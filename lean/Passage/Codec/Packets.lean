import Passage.Codec.Schema
/-
  The packet table of the four phases: id and field schema per packet, and the primitive
  read/write operations each schema stands for (`Op`), which is the vocabulary of the facts the
  extractor regenerates from passage-packets/src/*.rs on every run.
-/
namespace Passage.Codec

/-- primitive reader/writer calls as they appear in `read_from_buffer`/`write_to_buffer`;
    `q` = the call sits inside the `if` of an optional field -/
inductive Op
  | varint | varintInto | varintTryInto | varintFrom | varintAsU16 | varintZero
  | string | bytes | bytesTryInto | bool | boolIsSome | u8 | i8 | u16 | i32 | u64 | uuid | text
  | q (o : Op)
  deriving DecidableEq, Repr

def Ty.wop : Ty → Op
  | .varint => .varint | .varlong => .varint | .string => .string | .bytes => .bytes | .bool => .bool
  | .u8 => .u8 | .i8 => .i8 | .u16 => .u16 | .i32 => .i32 | .u64 => .u64 | .uuid => .uuid
  | .text => .text | .enumv _ _ => .varintInto | .token32 => .bytes | .portVarint => .varintFrom
  | .zeroVarint => .varintZero

def Ty.rop : Ty → Op
  | .varint => .varint | .varlong => .varint | .string => .string | .bytes => .bytes | .bool => .bool
  | .u8 => .u8 | .i8 => .i8 | .u16 => .u16 | .i32 => .i32 | .u64 => .u64 | .uuid => .uuid
  | .text => .text | .enumv _ _ => .varintTryInto | .token32 => .bytesTryInto
  | .portVarint => .varintAsU16 | .zeroVarint => .varint

def Field.wops : Field → List Op
  | .req t => [t.wop]
  | .opt t => [.boolIsSome, .q t.wop]

def Field.rops : Field → List Op
  | .req t => [t.rop]
  | .opt t => [.bool, .q t.rop]

/-- phases: 0 handshake, 1 status, 2 login, 3 configuration; dir: 0 clientbound, 1 serverbound -/
structure PacketSpec where
  phase : Nat
  dir : Nat
  id : Nat
  name : String
  schema : Schema

def chatMode : Ty := .enumv 0 2
def mainHand : Ty := .enumv 0 1
def particleStatus : Ty := .enumv 0 2
def nextState : Ty := .enumv 1 3
def resourcePackResult : Ty := .enumv 0 7

open Field Ty in
/-- Hand transcription of the Java-edition protocol for the packets passage defines. -/
def packets : List PacketSpec := [
  ⟨0, 1, 0x00, "handshake.Handshake", [req varint, req string, req u16, req nextState]⟩,
  ⟨1, 0, 0x00, "status.StatusResponse", [req string]⟩,
  ⟨1, 0, 0x01, "status.Pong", [req u64]⟩,
  ⟨1, 1, 0x00, "status.StatusRequest", []⟩,
  ⟨1, 1, 0x01, "status.Ping", [req u64]⟩,
  ⟨2, 0, 0x00, "login.Disconnect", [req string]⟩,
  ⟨2, 0, 0x01, "login.EncryptionRequest", [req string, req bytes, req token32, req bool]⟩,
  ⟨2, 0, 0x02, "login.LoginSuccess", [req uuid, req string, req zeroVarint]⟩,
  ⟨2, 0, 0x03, "login.SetCompression", []⟩,
  ⟨2, 0, 0x04, "login.LoginPluginRequest", []⟩,
  ⟨2, 0, 0x05, "login.CookieRequest", [req string]⟩,
  ⟨2, 1, 0x00, "login.LoginStart", [req string, req uuid]⟩,
  ⟨2, 1, 0x01, "login.EncryptionResponse", [req bytes, req bytes]⟩,
  ⟨2, 1, 0x02, "login.LoginPluginResponse", []⟩,
  ⟨2, 1, 0x03, "login.LoginAcknowledged", []⟩,
  ⟨2, 1, 0x04, "login.CookieResponse", [req string, opt bytes]⟩,
  ⟨3, 0, 0x00, "configuration.CookieRequest", [req string]⟩,
  ⟨3, 0, 0x01, "configuration.PluginMessage", []⟩,
  ⟨3, 0, 0x02, "configuration.Disconnect", [req text]⟩,
  ⟨3, 0, 0x03, "configuration.FinishConfiguration", []⟩,
  ⟨3, 0, 0x04, "configuration.KeepAlive", [req u64]⟩,
  ⟨3, 0, 0x05, "configuration.Ping", [req i32]⟩,
  ⟨3, 0, 0x06, "configuration.ResetChat", []⟩,
  ⟨3, 0, 0x07, "configuration.RegistryData", []⟩,
  ⟨3, 0, 0x08, "configuration.RemoveResourcePack", []⟩,
  ⟨3, 0, 0x09, "configuration.AddResourcePack", [req uuid, req string, req string, req bool, opt text]⟩,
  ⟨3, 0, 0x0A, "configuration.StoreCookie", [req string, req bytes]⟩,
  ⟨3, 0, 0x0B, "configuration.Transfer", [req string, req portVarint]⟩,
  ⟨3, 0, 0x0C, "configuration.FeatureFlags", []⟩,
  ⟨3, 0, 0x0D, "configuration.UpdateTags", []⟩,
  ⟨3, 0, 0x0E, "configuration.KnownPacks", []⟩,
  ⟨3, 0, 0x0F, "configuration.CustomReportDetails", []⟩,
  ⟨3, 0, 0x10, "configuration.ServerLinks", []⟩,
  ⟨3, 1, 0x00, "configuration.ClientInformation",
    [req string, req i8, req chatMode, req bool, req u8, req mainHand, req bool, req bool, req particleStatus]⟩,
  ⟨3, 1, 0x01, "configuration.CookieResponse", []⟩,
  ⟨3, 1, 0x02, "configuration.PluginMessage.sb", []⟩,
  ⟨3, 1, 0x03, "configuration.AckFinishConfiguration", []⟩,
  ⟨3, 1, 0x04, "configuration.KeepAlive.sb", [req u64]⟩,
  ⟨3, 1, 0x05, "configuration.Pong", [req i32]⟩,
  ⟨3, 1, 0x06, "configuration.ResourcePackResponse", [req uuid, req resourcePackResult]⟩,
  ⟨3, 1, 0x07, "configuration.KnownPacks.sb", []⟩ ]

/-- the fact tuple compared with the extractor's output -/
abbrev PacketFact := Nat × Nat × Nat × List Op × List Op

def PacketSpec.fact (p : PacketSpec) : PacketFact :=
  (p.phase, p.dir, p.id, p.schema.flatMap Field.wops, p.schema.flatMap Field.rops)

/-- enum ordinal tables: (first ordinal, number of variants) per enum, in source order
    State, ResourcePackResult, ChatMode, MainHand, ParticleStatus -/
abbrev EnumFact := Nat × Nat
def enumFacts : List EnumFact := [(1, 3), (0, 8), (0, 3), (0, 2), (0, 3)]

def findPacket (name : String) : Option PacketSpec := packets.find? (·.name == name)

def encodePacket (p : PacketSpec) (vals : List (Option Val)) : Option Bytes :=
  encFields p.schema vals

def decodePacket (p : PacketSpec) (bs : Bytes) : Outcome (List (Option Val) × Bytes) :=
  decFields p.schema bs

end Passage.Codec
