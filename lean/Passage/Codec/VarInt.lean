import Passage.Codec.Outcome
/-
  VarInt / VarLong.
  `Spec`: little-endian base-128 groups of the unsigned two's-complement value.
  `Impl`: transliteration of `write_varint`/`read_varint` (passage-packets/src/{writer,reader}.rs)
  on `BitVec w` — arithmetic shift right by 7 masked with `MAX >> 6`, OR-accumulation with
  `<< (7*i)`, a bounded number of loop turns, no over-long check.
-/
namespace Passage.Codec

namespace Spec

/-- LEB128 groups of `n`, least significant first (fuel-structural; `n < 128^fuel` suffices) -/
def leb128 : Nat → Nat → Bytes
  | 0, _ => []
  | f + 1, n =>
    if n < 128 then [UInt8.ofNat n] else UInt8.ofNat (n % 128 + 128) :: leb128 f (n / 128)

/-- VarInt layout of a 32-bit value: groups of its unsigned reading, at most 5 bytes -/
def varint (x : BitVec 32) : Bytes := leb128 5 x.toNat
/-- VarLong layout of a 64-bit value: at most 10 bytes -/
def varlong (x : BitVec 64) : Bytes := leb128 10 x.toNat

end Spec

namespace Impl

/-- `loop { b = (v & 0x7f) as u8; v = (v >> 7) & (MAX >> 6); if v != 0 { b |= 0x80 }; write b;
    if v == 0 { break } }` — `mask` is `iN::MAX >> 6`; the fuel bounds the turns (5 resp. 10
    suffice, see `writeVar32_spec`). -/
def writeVarLoop {w : Nat} (mask : BitVec w) : Nat → BitVec w → Bytes
  | 0, _ => []
  | f + 1, v =>
    let b : UInt8 := UInt8.ofNat (v &&& 0x7f).toNat
    let v' := (v.sshiftRight 7) &&& mask
    if v' ≠ 0 then (b ||| 0x80) :: writeVarLoop mask f v' else [b]

def mask32 : BitVec 32 := (0x7fffffff#32).sshiftRight 6
def mask64 : BitVec 64 := (0x7fffffffffffffff#64).sshiftRight 6

def writeVarint (v : BitVec 32) : Bytes := writeVarLoop mask32 5 v
def writeVarlong (v : BitVec 64) : Bytes := writeVarLoop mask64 10 v

/-- `for i in 0..groups { read byte; ans |= ((byte & 0x7f) as iN) << (7*i); if byte & 0x80 == 0
    { break } } Ok(ans)` — after `groups` bytes the value is returned whatever the last
    continuation bit says. -/
def readVarLoop {w : Nat} : Nat → Nat → BitVec w → Bytes → Outcome (BitVec w × Bytes)
  | 0, _, ans, rest => .ok (ans, rest)
  | _ + 1, _, _, [] => .err .eof
  | f + 1, i, ans, b :: rest =>
    let ans' := ans ||| ((BitVec.ofNat w (b &&& 0x7f).toNat) <<< (7 * i))
    if b &&& 0x80 == 0 then .ok (ans', rest) else readVarLoop f (i + 1) ans' rest

def readVarint (bs : Bytes) : Outcome (BitVec 32 × Bytes) := readVarLoop 5 0 0 bs
/-- number of groups `read_varlong` accepts (10 after the C09 repair; the pinned tree had 9) -/
def varlongGroups : Nat := 10
def readVarlong (bs : Bytes) : Outcome (BitVec 64 × Bytes) := readVarLoop varlongGroups 0 0 bs

end Impl

end Passage.Codec
