import Passage.Codec.Schema
/-
  C09 — network NBT, the compound form of a text component (`write_text_component` for a JSON
  object): since 1.20.2 the root tag on the wire has NO name — `0x0a ‖ entries ‖ 0x00`, every
  entry `tag ‖ u16 name length ‖ name ‖ payload`.  Modelled for the values the localisation
  texts use (strings, booleans, nested components); `serde_json`'s parse of the text into this
  tree is outside the model (the runner hands over the tree it built the JSON from).
-/
namespace Passage.Codec

mutual
inductive Nbt
  | str (b : Bytes)
  | byte (v : UInt8)
  | compound (es : NbtEntries)
inductive NbtEntries
  | nil
  | cons (name : Bytes) (v : Nbt) (rest : NbtEntries)
end

def Nbt.tag : Nbt → UInt8
  | .str _ => 8
  | .byte _ => 1
  | .compound _ => 10

mutual
/-- payload of a tag (everything after tag id and name) -/
def Nbt.payload : Nbt → Bytes
  | .str b => beBytes 2 (b.length % 65536) ++ b
  | .byte v => [v]
  | .compound es => es.bytes ++ [0]
/-- named entries of a compound, in order -/
def NbtEntries.bytes : NbtEntries → Bytes
  | .nil => []
  | .cons name v rest => v.tag :: beBytes 2 (name.length % 65536) ++ name ++ v.payload ++ rest.bytes
end

/-- network form: the root tag id, then the payload — no root name -/
def Nbt.encodeNet (n : Nbt) : Bytes := n.tag :: n.payload

/-- pre-1.20.2 (file) form: the root carries an (empty) name — what the wire must NOT carry -/
def Nbt.encodeNamedRoot (n : Nbt) : Bytes := n.tag :: 0 :: 0 :: n.payload

def NbtEntries.length : NbtEntries → Nat
  | .nil => 0
  | .cons _ _ r => r.length + 1

end Passage.Codec
