import Passage.Crypto.Cfb8
/-
  C05 — model of `passage_protocol::crypto::stream::CipherStream`'s `poll_write` / `poll_read`
  over an abstract byte-stream cipher, tokio's `write_all` loop and read calls, driven by an
  explicit transport schedule.
-/
namespace Passage.CipherStream

/-- a byte-stream cipher with explicit state (block size 1, as CFB8) -/
structure StreamCipher (σ : Type) where
  encByte : σ → UInt8 → σ × UInt8
  decByte : σ → UInt8 → σ × UInt8

namespace StreamCipher
variable {σ : Type} (C : StreamCipher σ)

def encBytes (s : σ) : Bytes → σ × Bytes
  | [] => (s, [])
  | b :: bs => ((encBytes (C.encByte s b).1 bs).1, (C.encByte s b).2 :: (encBytes (C.encByte s b).1 bs).2)

def decBytes (s : σ) : Bytes → σ × Bytes
  | [] => (s, [])
  | b :: bs => ((decBytes (C.decByte s b).1 bs).1, (C.decByte s b).2 :: (decBytes (C.decByte s b).1 bs).2)

end StreamCipher

/-- the transport's answer to one `poll_write`: `Pending`, or it accepted `n` bytes (clamped to
    the offered length; `accept 0` is a zero-length write) -/
inductive WResp | pending | accept (n : Nat)
  deriving DecidableEq, Repr

/-- `poll_write` after the C05 repair: encrypt the buffer with a copy of the cipher, hand it to
    the transport, advance the real cipher only by the accepted prefix.  `none` = plaintext mode.
    Returns (new cipher state, what the caller is told (`none` = Pending), bytes the transport took). -/
def pollWrite {σ} (C : StreamCipher σ) (s : Option σ) (buf : Bytes) (r : WResp) :
    Option σ × Option Nat × Bytes :=
  match r with
  | .pending => (s, none, [])
  | .accept n =>
    let k := min n buf.length
    match s with
    | none => (none, some k, buf.take k)
    | some st => (some (C.encBytes st (buf.take k)).1, some k, (C.encBytes st (buf.take k)).2)

/-- `poll_write` as on the pinned tree: the keystream advances over the WHOLE buffer whatever
    the transport accepts (kept for the regression witness only) -/
def pollWritePinned {σ} (C : StreamCipher σ) (s : Option σ) (buf : Bytes) (r : WResp) :
    Option σ × Option Nat × Bytes :=
  match s with
  | none => (match r with | .pending => (none, none, []) | .accept n => (none, some (min n buf.length), buf.take (min n buf.length)))
  | some st =>
    let e := C.encBytes st buf
    match r with
    | .pending => (some e.1, none, [])
    | .accept n => (some e.1, some (min n buf.length), e.2.take (min n buf.length))

structure WResult (σ : Type) where
  st : Option σ
  written : Bytes       -- plaintext bytes reported as written to the caller
  accepted : Bytes      -- bytes the transport accepted

/-- tokio's `write_all`: call `poll_write` with the unwritten rest until it is empty; a
    zero-length acceptance is `WriteZero` (stop); an exhausted schedule = still pending (stop). -/
def writeAll {σ} (pw : Option σ → Bytes → WResp → Option σ × Option Nat × Bytes)
    (s : Option σ) (buf : Bytes) : List WResp → WResult σ
  | [] => ⟨s, [], []⟩
  | r :: rs =>
    if buf = [] then ⟨s, [], []⟩ else
    match pw s buf r with
    | (s', none, _) => writeAll pw s' buf rs
    | (s', some 0, _) => ⟨s', [], []⟩
    | (s', some (k + 1), ct) =>
      let w := writeAll pw s' (buf.drop (k + 1)) rs
      ⟨w.st, buf.take (k + 1) ++ w.written, ct ++ w.accepted⟩

/-- a sequence of `write_all` calls (one per packet) over one schedule is not needed: a second
    call continues with the returned state; `writeMany` threads it. -/
def writeMany {σ} (pw : Option σ → Bytes → WResp → Option σ × Option Nat × Bytes) :
    Option σ → List (Bytes × List WResp) → WResult σ
  | s, [] => ⟨s, [], []⟩
  | s, (buf, sch) :: rest =>
    let a := writeAll pw s buf sch
    let b := writeMany pw a.st rest
    ⟨b.st, a.written ++ b.written, a.accepted ++ b.accepted⟩

/-- the transport's answer to one `poll_read`: `Pending`, or it filled in these bytes (the caller's
    buffer bounds their number; EOF = `data []`) -/
inductive RResp | pending | data (b : Bytes)
  deriving DecidableEq, Repr

/-- `poll_read`: forward to the transport, then decrypt only the newly filled region -/
def pollRead {σ} (C : StreamCipher σ) (s : Option σ) (r : RResp) : Option σ × Option Bytes :=
  match r with
  | .pending => (s, none)
  | .data b =>
    match s with
    | none => (none, some b)
    | some st => (some (C.decBytes st b).1, some (C.decBytes st b).2)

structure RResult (σ : Type) where
  st : Option σ
  produced : Bytes      -- bytes the transport produced
  surfaced : Bytes      -- bytes delivered to the reader

/-- any sequence of read calls (`read`, `read_exact`, `read_to_end` all reduce to this) -/
def readAll {σ} (C : StreamCipher σ) : Option σ → List RResp → RResult σ
  | s, [] => ⟨s, [], []⟩
  | s, r :: rs =>
    let p := pollRead C s r
    let rest := readAll C p.1 rs
    match r, p.2 with
    | .data b, some out => ⟨rest.st, b ++ rest.produced, out ++ rest.surfaced⟩
    | _, _ => rest

/-! ### CFB8 structure over any keystream function -/

/-- CFB-8 over an arbitrary "first byte of E(register)" function -/
def cfb8 {σ} (keyByte : σ → UInt8) (shift : σ → UInt8 → σ) : StreamCipher σ where
  encByte s p := (shift s (p ^^^ keyByte s), p ^^^ keyByte s)
  decByte s c := (shift s c, c ^^^ keyByte s)

/-- the executable instance: AES-128-CFB8 (key = IV = shared secret is the caller's choice) -/
def aesCfb8 : StreamCipher Crypto.Cfb8State := cfb8 Crypto.cfb8KeyByte Crypto.cfb8Shift

end Passage.CipherStream
