/-
  Published test vectors for the crypto primitives, each evaluated to a `Bool`.
-/
import Passage.Crypto.Sha256
import Passage.Crypto.Hmac
import Passage.Crypto.Aes128
import Passage.Crypto.Cfb8

namespace Passage.Crypto

namespace SelfTest

/-- Hex literal (no prefix) to bytes; malformed input gives `[]`, which fails every comparison. -/
def hx (s : String) : Bytes := (Hex.decode ("x" ++ s)).getD []

/-- GF(2^8) product (Russian-peasant, 8 steps). -/
def gmul (a b : UInt8) : UInt8 :=
  ((List.range 8).foldl (fun (acc : UInt8 × UInt8 × UInt8) _ =>
    let (r, a, b) := acc
    (if b &&& 1 != 0 then r ^^^ a else r, Aes.xtime a, b >>> 1)) (0, a, b)).1

/-- The S-box recomputed from its definition: field inverse, then the affine map. -/
def sboxSpec (x : UInt8) : UInt8 :=
  let inv := ((List.range 256).map UInt8.ofNat).find? (fun y => gmul x y == 1) |>.getD 0
  let rotl (b : UInt8) (n : UInt8) : UInt8 := (b <<< n) ||| (b >>> (8 - n))
  inv ^^^ rotl inv 1 ^^^ rotl inv 2 ^^^ rotl inv 3 ^^^ rotl inv 4 ^^^ 0x63

def cfbKey : Bytes := hx "2b7e151628aed2a6abf7158809cf4f3c"
def cfbIv : Bytes := hx "000102030405060708090a0b0c0d0e0f"
def cfbPlain : Bytes := hx "6bc1bee22e409f96e93d7e117393172aae2d"
def cfbCipher : Bytes := hx "3b79424c9c0dd436bace9e0ed4586a4f32b9"

end SelfTest

open SelfTest in
def selfTest : List (String × Bool) := [
  ("sha256 empty (FIPS 180-4)",
    sha256 [] == hx "e3b0c44298fc1c149afbf4c8996fb92427ae41e4649b934ca495991b7852b855"),
  ("sha256 abc (FIPS 180-4)",
    sha256 (str "abc") == hx "ba7816bf8f01cfea414140de5dae2223b00361a396177a9cb410ff61f20015ad"),
  ("sha256 448-bit (FIPS 180-4)",
    sha256 (str "abcdbcdecdefdefgefghfghighijhijkijkljklmklmnlmnomnopnopq")
      == hx "248d6a61d20638b8e5c026930c3e6039a33ce45964ff2167f6ecedd419db06c1"),
  ("hmac-sha256 RFC 4231 case 1",
    hmacSha256 (List.replicate 20 0x0b) (str "Hi There")
      == hx "b0344c61d8db38535ca8afceaf0bf12b881dc200c9833da726e9376c2e32cff7"),
  ("hmac-sha256 RFC 4231 case 2",
    hmacSha256 (str "Jefe") (str "what do ya want for nothing?")
      == hx "5bdcc146bf60754e6a042426089575c75a003f089d2739839dec58b964ec3843"),
  ("hmac-sha256 RFC 4231 case 3",
    hmacSha256 (List.replicate 20 0xaa) (List.replicate 50 0xdd)
      == hx "773ea91e36800e46854db8ebd09181a72959098b3ef8c122d9635514ced565fe"),
  ("hmac-sha256 RFC 4231 case 6",
    hmacSha256 (List.replicate 131 0xaa)
        (str "Test Using Larger Than Block-Size Key - Hash Key First")
      == hx "60e431591ee0b67f0d8a26aacbf5b77f8e0bc6213728c5140546040f0ee37f54"),
  ("aes128 S-box equals its algebraic definition",
    (List.range 256).all fun i => Aes.sbox.getD i 0 == sboxSpec (UInt8.ofNat i)),
  ("aes128 FIPS 197 appendix C.1",
    aes128EncryptBlock (hx "000102030405060708090a0b0c0d0e0f")
        (hx "00112233445566778899aabbccddeeff")
      == hx "69c4e0d86a7b0430d8cdb78070b4c55a"),
  ("aes128 FIPS 197 appendix B",
    aes128EncryptBlock (hx "2b7e151628aed2a6abf7158809cf4f3c")
        (hx "3243f6a8885a308d313198a2e0370734")
      == hx "3925841d02dc09fbdc118597196a0b32"),
  ("aes128 rejects wrong lengths",
    aes128EncryptBlock (hx "00") (hx "00112233445566778899aabbccddeeff") == []
      && aes128EncryptBlock (hx "000102030405060708090a0b0c0d0e0f") (hx "0011") == []),
  ("aes128-cfb8 SP 800-38A F.3.7 encrypt",
    ((cfb8Init cfbKey cfbIv).map fun s => (cfb8EncBytes s cfbPlain).2) == some cfbCipher),
  ("aes128-cfb8 SP 800-38A F.3.8 decrypt",
    ((cfb8Init cfbKey cfbIv).map fun s => (cfb8DecBytes s cfbCipher).2) == some cfbPlain),
  ("aes128-cfb8 init rejects wrong lengths",
    (cfb8Init (hx "00") cfbIv).isNone && (cfb8Init cfbKey (hx "00")).isNone)]

end Passage.Crypto
