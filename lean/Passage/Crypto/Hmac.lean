/-
  HMAC (RFC 2104), generic in the hash function, and HMAC-SHA256.
-/
import Passage.Crypto.Sha256

namespace Passage.Crypto

/-- HMAC over hash `H` with block length `blockLen` bytes. -/
def hmac (H : Bytes → Bytes) (blockLen : Nat) (key msg : Bytes) : Bytes :=
  let k0 := if key.length > blockLen then H key else key
  let k := k0 ++ List.replicate (blockLen - k0.length) 0
  H (k.map (· ^^^ 0x5c) ++ H (k.map (· ^^^ 0x36) ++ msg))

def hmacSha256 (key msg : Bytes) : Bytes := hmac sha256 64 key msg

end Passage.Crypto
