import Passage.Util.Bytes
/-
  Executable SHA-1 (FIPS 180-4).  Validated by published vectors in the driver's self-test and by
  differential runs against the `sha1` crate; no theorem depends on its internals (C11's format
  theorem is stated for every digest).
-/
namespace Passage.Crypto

def rotl32 (x : UInt32) (n : UInt32) : UInt32 := (x <<< n) ||| (x >>> (32 - n))

def be32 (a b c d : UInt8) : UInt32 :=
  (a.toUInt32 <<< 24) ||| (b.toUInt32 <<< 16) ||| (c.toUInt32 <<< 8) ||| d.toUInt32

def u32be (x : UInt32) : Bytes :=
  [(x >>> 24).toUInt8, (x >>> 16).toUInt8, (x >>> 8).toUInt8, x.toUInt8]

def u64be (n : Nat) : Bytes :=
  [7, 6, 5, 4, 3, 2, 1, 0].map fun i => UInt8.ofNat ((n >>> (8 * i)) % 256)

/-- Merkle–Damgård padding with a 64-bit big-endian bit length (shared by SHA-1 and SHA-256). -/
def mdPad (msg : Bytes) : Bytes :=
  let l := msg.length
  let k := (119 - l % 64) % 64          -- zero bytes so that l + 1 + k ≡ 56 (mod 64)
  msg ++ [0x80] ++ List.replicate k 0 ++ u64be (8 * l)

def words32 : Bytes → List UInt32
  | a :: b :: c :: d :: rest => be32 a b c d :: words32 rest
  | _ => []

/-- split into 64-byte blocks (fuel = number of blocks) -/
def blocks64 : Nat → Bytes → List Bytes
  | 0, _ => []
  | n + 1, bs => if bs.isEmpty then [] else bs.take 64 :: blocks64 n (bs.drop 64)

structure Sha1St where
  a : UInt32
  b : UInt32
  c : UInt32
  d : UInt32
  e : UInt32

def sha1Schedule (w : Array UInt32) : Array UInt32 := Id.run do
  let mut w := w
  for t in [16:80] do
    w := w.push (rotl32 (w.getD (t-3) 0 ^^^ w.getD (t-8) 0 ^^^ w.getD (t-14) 0 ^^^ w.getD (t-16) 0) 1)
  return w

def sha1Block (h : Sha1St) (blk : Bytes) : Sha1St := Id.run do
  let w := sha1Schedule (words32 blk).toArray
  let mut s := h
  for t in [0:80] do
    let (f, k) :=
      if t < 20 then ((s.b &&& s.c) ||| ((~~~s.b) &&& s.d), (0x5a827999 : UInt32))
      else if t < 40 then (s.b ^^^ s.c ^^^ s.d, (0x6ed9eba1 : UInt32))
      else if t < 60 then ((s.b &&& s.c) ||| (s.b &&& s.d) ||| (s.c &&& s.d), (0x8f1bbcdc : UInt32))
      else (s.b ^^^ s.c ^^^ s.d, (0xca62c1d6 : UInt32))
    let tmp := rotl32 s.a 5 + f + s.e + k + w.getD t 0
    s := ⟨tmp, s.a, rotl32 s.b 30, s.c, s.d⟩
  return ⟨h.a + s.a, h.b + s.b, h.c + s.c, h.d + s.d, h.e + s.e⟩

def sha1 (msg : Bytes) : Bytes :=
  let p := mdPad msg
  let h := (blocks64 (p.length / 64 + 1) p).foldl sha1Block
    ⟨0x67452301, 0xefcdab89, 0x98badcfe, 0x10325476, 0xc3d2e1f0⟩
  u32be h.a ++ u32be h.b ++ u32be h.c ++ u32be h.d ++ u32be h.e

end Passage.Crypto
