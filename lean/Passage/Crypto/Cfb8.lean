/-
  AES-128-CFB8 (NIST SP 800-38A §6.3 with s = 8) as a byte-stream cipher with explicit state.
-/
import Passage.Crypto.Aes128

namespace Passage.Crypto

structure Cfb8State where
  rk : Aes128RoundKeys
  iv : Bytes            -- current 16-byte shift register

/-- `none` unless both key and IV have 16 bytes. -/
def cfb8Init (key iv : Bytes) : Option Cfb8State :=
  if key.length == 16 && iv.length == 16 then some ⟨aes128ExpandKey key, iv⟩ else none

/-- Keystream byte for the current register: the first byte of `E(iv)`. -/
def cfb8KeyByte (s : Cfb8State) : UInt8 := (aes128EncryptBlockWith s.rk s.iv).headD 0

/-- Shift ciphertext byte `c` into the register. -/
def cfb8Shift (s : Cfb8State) (c : UInt8) : Cfb8State := { s with iv := s.iv.drop 1 ++ [c] }

def cfb8EncByte (s : Cfb8State) (p : UInt8) : Cfb8State × UInt8 :=
  let c := p ^^^ cfb8KeyByte s
  (cfb8Shift s c, c)

def cfb8DecByte (s : Cfb8State) (c : UInt8) : Cfb8State × UInt8 :=
  (cfb8Shift s c, c ^^^ cfb8KeyByte s)

def cfb8EncBytes (s : Cfb8State) : Bytes → Cfb8State × Bytes
  | [] => (s, [])
  | p :: ps =>
    let (s1, c) := cfb8EncByte s p
    let (s2, cs) := cfb8EncBytes s1 ps
    (s2, c :: cs)

def cfb8DecBytes (s : Cfb8State) : Bytes → Cfb8State × Bytes
  | [] => (s, [])
  | c :: cs =>
    let (s1, p) := cfb8DecByte s c
    let (s2, ps) := cfb8DecBytes s1 cs
    (s2, p :: ps)

end Passage.Crypto
