/-
  SHA-256 (FIPS 180-4) over `Bytes = List UInt8`.
  Total and computable: structural / fuel recursion and folds only.
-/
import Passage.Util.Bytes

namespace Passage.Crypto

namespace Sha256

def K : Array UInt32 := #[
  0x428a2f98, 0x71374491, 0xb5c0fbcf, 0xe9b5dba5, 0x3956c25b, 0x59f111f1, 0x923f82a4, 0xab1c5ed5,
  0xd807aa98, 0x12835b01, 0x243185be, 0x550c7dc3, 0x72be5d74, 0x80deb1fe, 0x9bdc06a7, 0xc19bf174,
  0xe49b69c1, 0xefbe4786, 0x0fc19dc6, 0x240ca1cc, 0x2de92c6f, 0x4a7484aa, 0x5cb0a9dc, 0x76f988da,
  0x983e5152, 0xa831c66d, 0xb00327c8, 0xbf597fc7, 0xc6e00bf3, 0xd5a79147, 0x06ca6351, 0x14292967,
  0x27b70a85, 0x2e1b2138, 0x4d2c6dfc, 0x53380d13, 0x650a7354, 0x766a0abb, 0x81c2c92e, 0x92722c85,
  0xa2bfe8a1, 0xa81a664b, 0xc24b8b70, 0xc76c51a3, 0xd192e819, 0xd6990624, 0xf40e3585, 0x106aa070,
  0x19a4c116, 0x1e376c08, 0x2748774c, 0x34b0bcb5, 0x391c0cb3, 0x4ed8aa4a, 0x5b9cca4f, 0x682e6ff3,
  0x748f82ee, 0x78a5636f, 0x84c87814, 0x8cc70208, 0x90befffa, 0xa4506ceb, 0xbef9a3f7, 0xc67178f2]

/-- The eight working variables / the chaining value. -/
structure St where
  (a b c d e f g h : UInt32)

def H0 : St :=
  ⟨0x6a09e667, 0xbb67ae85, 0x3c6ef372, 0xa54ff53a, 0x510e527f, 0x9b05688c, 0x1f83d9ab, 0x5be0cd19⟩

@[inline] def rotr (x n : UInt32) : UInt32 := (x >>> n) ||| (x <<< (32 - n))

def bsig0 (x : UInt32) : UInt32 := rotr x 2 ^^^ rotr x 13 ^^^ rotr x 22
def bsig1 (x : UInt32) : UInt32 := rotr x 6 ^^^ rotr x 11 ^^^ rotr x 25
def ssig0 (x : UInt32) : UInt32 := rotr x 7 ^^^ rotr x 18 ^^^ (x >>> 3)
def ssig1 (x : UInt32) : UInt32 := rotr x 17 ^^^ rotr x 19 ^^^ (x >>> 10)
def ch (x y z : UInt32) : UInt32 := (x &&& y) ^^^ (~~~x &&& z)
def maj (x y z : UInt32) : UInt32 := (x &&& y) ^^^ (x &&& z) ^^^ (y &&& z)

/-- Big-endian 64-bit encoding of `n` (mod 2^64). -/
def be64 (n : Nat) : Bytes :=
  [56, 48, 40, 32, 24, 16, 8, 0].map fun s => UInt8.ofNat (n >>> s)

/-- Message padding: `0x80`, zeros up to 56 mod 64, then the bit length. -/
def pad (msg : Bytes) : Bytes :=
  let len := msg.length
  msg ++ 0x80 :: (List.replicate ((119 - len % 64) % 64) 0 ++ be64 (8 * len))

/-- Big-endian bytes to 32-bit words (trailing partial word dropped; never occurs after `pad`). -/
def toWords : Bytes → List UInt32
  | a :: b :: c :: d :: rest =>
    ((a.toUInt32 <<< 24) ||| (b.toUInt32 <<< 16) ||| (c.toUInt32 <<< 8) ||| d.toUInt32)
      :: toWords rest
  | _ => []

def wordBytes (w : UInt32) : Bytes :=
  [(w >>> 24).toUInt8, (w >>> 16).toUInt8, (w >>> 8).toUInt8, w.toUInt8]

/-- Split into consecutive chunks of `n` elements (fuel = number of chunks allowed). -/
def chunksFuel {α : Type} (n : Nat) : Nat → List α → List (List α)
  | 0, _ => []
  | _, [] => []
  | fuel + 1, xs => xs.take n :: chunksFuel n fuel (xs.drop n)

def chunks {α : Type} (n : Nat) (xs : List α) : List (List α) := chunksFuel n xs.length xs

/-- Message schedule: 16 block words extended to 64. -/
def schedule (block : List UInt32) : Array UInt32 :=
  (List.range 48).foldl (init := block.toArray) fun w j =>
    w.push (ssig1 (w.getD (j + 14) 0) + w.getD (j + 9) 0 + ssig0 (w.getD (j + 1) 0) + w.getD j 0)

def round (s : St) (k w : UInt32) : St :=
  let t1 := s.h + bsig1 s.e + ch s.e s.f s.g + k + w
  let t2 := bsig0 s.a + maj s.a s.b s.c
  ⟨t1 + t2, s.a, s.b, s.c, s.d + t1, s.e, s.f, s.g⟩

def compress (h : St) (block : List UInt32) : St :=
  let s := (K.zip (schedule block)).foldl (fun s kw => round s kw.1 kw.2) h
  ⟨h.a + s.a, h.b + s.b, h.c + s.c, h.d + s.d, h.e + s.e, h.f + s.f, h.g + s.g, h.h + s.h⟩

def digest (s : St) : Bytes :=
  [s.a, s.b, s.c, s.d, s.e, s.f, s.g, s.h].flatMap wordBytes

end Sha256

open Sha256 in
/-- SHA-256 of `msg`; always 32 bytes. -/
def sha256 (msg : Bytes) : Bytes :=
  digest ((chunks 16 (toWords (pad msg))).foldl compress H0)

end Passage.Crypto
