import Passage.Util.Bytes
/-
  C15 — model of the PROXY protocol header parser the listener relies on (crate `proxy-header`
  0.1.2: `ProxyHeader::parse`, `v1::decode`, `v2::decode`), as far as the listener uses it: which
  source address — if any — a first segment announces, or that it is no valid header, or that
  more bytes are needed.  Text-to-address conversion of v1 (`Ipv4Addr::from_str`,
  `Ipv6Addr::from_str`) is a parameter (`Ip`), recorded from std::net by the runner; everything
  else — greeting, version gate, command and family bytes, lengths, field splitting, decimal
  ports, the 107-byte cap — is computed here.
-/
namespace Passage.Proxy

/-- the announced source: address octets (4 or 16) and port -/
structure Src where
  ip : Bytes
  port : Nat
  deriving DecidableEq, Repr

inductive Res
  | tooShort                                   -- `Error::BufferTooShort`: keep reading
  | invalid                                    -- any other error: the connection is closed
  | ok (src : Option Src) (consumed : Nat)     -- `None` = LOCAL / UNKNOWN / AF_UNIX: the peer address stands
  deriving DecidableEq, Repr

structure Cfg where
  allowV1 : Bool
  allowV2 : Bool

/-! ### version 2 (binary) -/

def greetingV2 : Bytes := [13, 10, 13, 10, 0, 13, 10, 81, 85, 73, 84, 10]

def be16 (a b : UInt8) : Nat := a.toNat * 256 + b.toNat

/-- `parse_addrs::<T>` with `T::BYTES = n`, at position 16 with `rest` bytes announced -/
def addrsV2 (n : Nat) (buf : Bytes) (rest : Nat) : Option (Option Src) :=
  -- (`buf.len() < pos + 2n + 4` cannot hold here once `rest ≥ 2n + 4`, the caller checked `buf.len() ≥ 16 + rest`)
  if rest < 2 * n + 4 then none
  else some (some ⟨(buf.drop 16).take n, be16 ((buf.drop (16 + 2 * n)).headD 0) ((buf.drop (16 + 2 * n + 1)).headD 0)⟩)

def parseV2 (buf : Bytes) : Res :=
  if buf.length < 16 then .tooShort
  else if buf.take 12 ≠ greetingV2 then .invalid
  else
    let cmd := (buf.drop 12).headD 0
    let proto := (buf.drop 13).headD 0
    let rest := be16 ((buf.drop 14).headD 0) ((buf.drop 15).headD 0)
    if cmd ≠ 0x20 ∧ cmd ≠ 0x21 then .invalid
    else if buf.length < 16 + rest then .tooShort
    else
      let addr : Option (Option Src) :=
        if proto = 0x00 then some none
        else if proto = 0x11 ∨ proto = 0x12 then addrsV2 4 buf rest
        else if proto = 0x21 ∨ proto = 0x22 then addrsV2 16 buf rest
        else if proto = 0x31 ∨ proto = 0x32 then (if rest < 216 then none else some none)
        else none
      match addr with
      | none => .invalid
      | some a => .ok (if cmd = 0x20 then none else a) (16 + rest)

/-! ### version 1 (text) -/

/-- `read_until`: the bytes before the first `delim`, `none` when there is none -/
def readUntil (delim : UInt8) : Bytes → Option Bytes
  | [] => none
  | b :: r => if b = delim then some [] else (readUntil delim r).map (b :: ·)

/-- `u16::from_str`: optional `+`, then one or more decimal digits, value ≤ 65535 -/
def parseU16 (s : Bytes) : Option Nat :=
  let digits := match s with | 43 :: r => r | _ => s
  if digits.isEmpty then none
  else if digits.all (fun d => 48 ≤ d.toNat ∧ d.toNat ≤ 57) then
    let v := digits.foldl (fun a d => a * 10 + (d.toNat - 48)) 0
    if v ≤ 65535 then some v else none
  else none

inductive Step (α : Type) | tooShort | invalid | got (a : α) (pos : Nat)

/-- `parse_addrs`: source address, destination address, source port, destination port (until CR) -/
def addrsV1 (parseIp : Bytes → Option Bytes) (buf : Bytes) (pos : Nat) : Step Src :=
  match readUntil 32 (buf.drop pos) with
  | none => .tooShort
  | some a =>
    match parseIp a with
    | none => .invalid
    | some src =>
      let pos := pos + a.length + 1
      match readUntil 32 (buf.drop pos) with
      | none => .tooShort
      | some b =>
        match parseIp b with
        | none => .invalid
        | some _ =>
          let pos := pos + b.length + 1
          match readUntil 32 (buf.drop pos) with
          | none => .tooShort
          | some sp =>
            match parseU16 sp with
            | none => .invalid
            | some sport =>
              let pos := pos + sp.length + 1
              match readUntil 13 (buf.drop pos) with
              | none => .tooShort
              | some dp =>
                match parseU16 dp with
                | none => .invalid
                | some _ => .got ⟨src, sport⟩ (pos + dp.length + 1)

def kPROXY : Bytes := [80, 82, 79, 88, 89]
def kUNKNOWN : Bytes := [85, 78, 75, 78, 79, 87, 78]
def kTCP4 : Bytes := [84, 67, 80, 52, 32]
def kTCP6 : Bytes := [84, 67, 80, 54, 32]

def startsWith (p s : Bytes) : Bool := s.take p.length == p

/-- `v1::decode_inner` -/
def parseV1Inner (ip4 ip6 : Bytes → Option Bytes) (buf : Bytes) : Res :=
  if buf.length < 15 then .tooShort
  else if !startsWith kPROXY buf then .invalid
  else
    let pos := 6
    let after : Step (Option Src) :=
      if startsWith kUNKNOWN (buf.drop pos) then
        match readUntil 13 (buf.drop pos) with
        | none => .tooShort
        | some r => .got none (pos + r.length + 1)
      else
        let proto := (buf.drop pos).take 5
        if proto = kTCP4 then (match addrsV1 ip4 buf (pos + 5) with | .tooShort => .tooShort | .invalid => .invalid | .got s p => .got (some s) p)
        else if proto = kTCP6 then (match addrsV1 ip6 buf (pos + 5) with | .tooShort => .tooShort | .invalid => .invalid | .got s p => .got (some s) p)
        else .invalid
    match after with
    | .tooShort => .tooShort
    | .invalid => .invalid
    | .got a p =>
      match (buf.drop p).head? with
      | some 10 => .ok a (p + 1)
      | none => .tooShort
      | some _ => .invalid

/-- `v1::decode`: a header that is still incomplete at 107 bytes is invalid -/
def parseV1 (ip4 ip6 : Bytes → Option Bytes) (buf : Bytes) : Res :=
  match parseV1Inner ip4 ip6 buf with
  | .tooShort => if buf.length ≥ 107 then .invalid else .tooShort
  | r => r

/-- `ProxyHeader::parse` -/
def parse (C : Cfg) (ip4 ip6 : Bytes → Option Bytes) (buf : Bytes) : Res :=
  match buf.head? with
  | none => .tooShort
  | some b =>
    if b = 80 ∧ C.allowV1 then parseV1 ip4 ip6 buf
    else if b = 13 ∧ C.allowV2 then parseV2 buf
    else .invalid

/-- reference encoders (the layout a conforming load balancer sends) -/
def encodeV2 (fam : UInt8) (src dst : Bytes) (sp dp : Nat) : Bytes :=
  greetingV2 ++ [0x21, fam, UInt8.ofNat ((src.length + dst.length + 4) / 256), UInt8.ofNat ((src.length + dst.length + 4) % 256)]
    ++ src ++ dst ++ [UInt8.ofNat (sp / 256), UInt8.ofNat (sp % 256), UInt8.ofNat (dp / 256), UInt8.ofNat (dp % 256)]

def encodeV2Local : Bytes := greetingV2 ++ [0x20, 0x00, 0, 0]

end Passage.Proxy
