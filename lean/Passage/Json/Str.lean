import Passage.Util.Bytes
/-
  JSON string tokens as serde_json writes and reads them (the quoting layer of the authentication and
  session cookies, whose `user_name`, `target`, property values and `server_address` are foreign text).
  Writer = `serde_json::ser::format_escaped_str_contents` (CompactFormatter): `"` and `\` get a backslash,
  0x08 0x09 0x0a 0x0c 0x0d their letter, every other byte below 0x20 `\u00XX` (lower-case hex), everything else
  — including bytes ≥ 0x80 — is copied.  Reader = `SliceRead::parse_str_bytes` + `parse_escape`, as far as
  the writer's output needs it: short escapes incl. `\/`, `\uXXXX` (UTF-8 of the scalar value; surrogate pairs; lone surrogates refused), raw
  control bytes refused.  UTF-8 validity of raw bytes is checked by the driver (Codec/Utf8.lean), not here.
  No imports beyond core: links into the `passage-model` executable.
-/
namespace Passage.Json

def hexd (n : Nat) : UInt8 := if n < 10 then UInt8.ofNat (48 + n) else UInt8.ofNat (87 + n)

def hexv (b : UInt8) : Option Nat :=
  if 48 ≤ b.toNat ∧ b.toNat ≤ 57 then some (b.toNat - 48)
  else if 97 ≤ b.toNat ∧ b.toNat ≤ 102 then some (b.toNat - 87)
  else if 65 ≤ b.toNat ∧ b.toNat ≤ 70 then some (b.toNat - 55)
  else none

/-- the writer's image of one byte -/
def escByte (b : UInt8) : Bytes :=
  if b = 34 then [92, 34]
  else if b = 92 then [92, 92]
  else if b = 8 then [92, 98]
  else if b = 9 then [92, 116]
  else if b = 10 then [92, 110]
  else if b = 12 then [92, 102]
  else if b = 13 then [92, 114]
  else if b.toNat < 32 then [92, 117, 48, 48, hexd (b.toNat / 16), hexd (b.toNat % 16)]
  else [b]

/-- string contents as written between the quotes -/
def escape : Bytes → Bytes
  | [] => []
  | b :: r => escByte b ++ escape r

/-- the whole token -/
def quote (s : Bytes) : Bytes := 34 :: (escape s ++ [34])

inductive Scan
  | bad                                  -- a syntax error
  | ok (s : Bytes) (rest : Bytes)        -- contents and what follows the closing quote
  deriving DecidableEq, Repr

def Scan.push (b : UInt8) : Scan → Scan
  | .ok s r => .ok (b :: s) r
  | x => x

/-- the letter after a backslash (other than `u`) -/
def unesc1 (e : UInt8) : Option UInt8 :=
  if e = 34 then some 34 else if e = 92 then some 92 else if e = 47 then some 47
  else if e = 98 then some 8 else if e = 102 then some 12 else if e = 110 then some 10
  else if e = 114 then some 13 else if e = 116 then some 9 else none

def hex4 (a b c d : UInt8) : Option Nat :=
  match hexv a, hexv b, hexv c, hexv d with
  | some p, some q, some r, some s => some (((p * 16 + q) * 16 + r) * 16 + s)
  | _, _, _, _ => none

/-- UTF-8 of a scalar value -/
def utf8enc (c : Nat) : Bytes :=
  if c < 0x80 then [UInt8.ofNat c]
  else if c < 0x800 then [UInt8.ofNat (0xC0 + c / 64), UInt8.ofNat (0x80 + c % 64)]
  else if c < 0x10000 then [UInt8.ofNat (0xE0 + c / 4096), UInt8.ofNat (0x80 + c / 64 % 64), UInt8.ofNat (0x80 + c % 64)]
  else [UInt8.ofNat (0xF0 + c / 262144), UInt8.ofNat (0x80 + c / 4096 % 64), UInt8.ofNat (0x80 + c / 64 % 64), UInt8.ofNat (0x80 + c % 64)]

def Scan.pushAll (bs : Bytes) : Scan → Scan
  | .ok s r => .ok (bs ++ s) r
  | x => x

/-- reads string contents up to the closing quote (the opening quote already consumed); a `\u` escape yields the
    UTF-8 of its scalar value, a leading surrogate must be followed by `\u` and a trailing one, lone surrogates are refused -/
def scan : Bytes → Scan
  | [] => .bad
  | b :: r =>
    if b = 34 then .ok [] r
    else if b = 92 then
      match r with
      | [] => .bad
      | e :: r' =>
        if e = 117 then
          match r' with
          | h1 :: h2 :: h3 :: h4 :: r'' =>
            match hex4 h1 h2 h3 h4 with
            | none => .bad
            | some v =>
              if v < 128 then (scan r'').push (UInt8.ofNat v)
              else if 0xD800 ≤ v ∧ v ≤ 0xDBFF then
                match r'' with
                | x :: y :: g1 :: g2 :: g3 :: g4 :: r3 =>
                  if x = 92 ∧ y = 117 then
                    match hex4 g1 g2 g3 g4 with
                    | none => .bad
                    | some w =>
                      if 0xDC00 ≤ w ∧ w ≤ 0xDFFF then
                        (scan r3).pushAll (utf8enc (0x10000 + (v - 0xD800) * 0x400 + (w - 0xDC00)))
                      else .bad
                  else .bad
                | _ => .bad
              else if 0xDC00 ≤ v ∧ v ≤ 0xDFFF then .bad
              else (scan r'').pushAll (utf8enc v)
          | _ => .bad
        else
          match unesc1 e with
          | some c => (scan r').push c
          | none => .bad
    else if b.toNat < 32 then .bad
    else (scan r).push b

/-- a whole token: opening quote, contents, closing quote -/
def unquote : Bytes → Scan
  | 34 :: r => scan r
  | _ => .bad

end Passage.Json
