import Passage.Util.Bytes
/-
  JSON string tokens as serde_json writes and reads them (the quoting layer of the authentication and
  session cookies, whose `user_name`, `target`, property values and `server_address` are foreign text).
  Writer = `serde_json::ser::format_escaped_str_contents` (CompactFormatter): `"` and `\` get a backslash,
  0x08 0x09 0x0a 0x0c 0x0d their letter, every other byte below 0x20 `\u00XX` (lower-case hex), everything else
  — including bytes ≥ 0x80 — is copied.  Reader = `SliceRead::parse_str_bytes` + `parse_escape`, as far as
  the writer's output needs it: short escapes incl. `\/`, `\uXXXX` below 0x80 (anything else `\u` is
  reported as `unsupported`, not guessed), raw control bytes refused.
  No imports beyond core: links into the `passage-model` executable.
-/
namespace Passage.Json

def hexd (n : Nat) : UInt8 := if n < 10 then UInt8.ofNat (48 + n) else UInt8.ofNat (87 + n)

def hexv (b : UInt8) : Option Nat :=
  if 48 ≤ b.toNat ∧ b.toNat ≤ 57 then some (b.toNat - 48)
  else if 97 ≤ b.toNat ∧ b.toNat ≤ 102 then some (b.toNat - 87)
  else if 65 ≤ b.toNat ∧ b.toNat ≤ 70 then some (b.toNat - 55)
  else none

/-- the writer's image of one byte -/
def escByte (b : UInt8) : Bytes :=
  if b = 34 then [92, 34]
  else if b = 92 then [92, 92]
  else if b = 8 then [92, 98]
  else if b = 9 then [92, 116]
  else if b = 10 then [92, 110]
  else if b = 12 then [92, 102]
  else if b = 13 then [92, 114]
  else if b.toNat < 32 then [92, 117, 48, 48, hexd (b.toNat / 16), hexd (b.toNat % 16)]
  else [b]

/-- string contents as written between the quotes -/
def escape : Bytes → Bytes
  | [] => []
  | b :: r => escByte b ++ escape r

/-- the whole token -/
def quote (s : Bytes) : Bytes := 34 :: (escape s ++ [34])

inductive Scan
  | bad                                  -- a syntax error
  | unsupported                          -- `\u` escape at or above 0x80 (not modelled)
  | ok (s : Bytes) (rest : Bytes)        -- contents and what follows the closing quote
  deriving DecidableEq, Repr

def Scan.push (b : UInt8) : Scan → Scan
  | .ok s r => .ok (b :: s) r
  | x => x

/-- the letter after a backslash (other than `u`) -/
def unesc1 (e : UInt8) : Option UInt8 :=
  if e = 34 then some 34 else if e = 92 then some 92 else if e = 47 then some 47
  else if e = 98 then some 8 else if e = 102 then some 12 else if e = 110 then some 10
  else if e = 114 then some 13 else if e = 116 then some 9 else none

def hex4 (a b c d : UInt8) : Option Nat :=
  match hexv a, hexv b, hexv c, hexv d with
  | some p, some q, some r, some s => some (((p * 16 + q) * 16 + r) * 16 + s)
  | _, _, _, _ => none

/-- reads string contents up to the closing quote (the opening quote already consumed) -/
def scan : Bytes → Scan
  | [] => .bad
  | b :: r =>
    if b = 34 then .ok [] r
    else if b = 92 then
      match r with
      | [] => .bad
      | e :: r' =>
        if e = 117 then
          match r' with
          | h1 :: h2 :: h3 :: h4 :: r'' =>
            match hex4 h1 h2 h3 h4 with
            | none => .bad
            | some v => if v < 128 then (scan r'').push (UInt8.ofNat v) else .unsupported
          | _ => .bad
        else
          match unesc1 e with
          | some c => (scan r').push c
          | none => .bad
    else if b.toNat < 32 then .bad
    else (scan r).push b

/-- a whole token: opening quote, contents, closing quote -/
def unquote : Bytes → Scan
  | 34 :: r => scan r
  | _ => .bad

end Passage.Json
