import Passage.McHash
/-
  C12 — model of the has-joined request target built by `MojangAdapter::authenticate`
  (passage-adapters/http/src/mojang_adapter.rs) through the URL library's query serializer:
  `application/x-www-form-urlencoded` byte serialisation, and the server-side parse.
-/
namespace Passage.Url

def hexUp (n : Nat) : UInt8 := if n < 10 then UInt8.ofNat (48 + n) else UInt8.ofNat (55 + n)

/-- bytes left as they are by the form-urlencoded serializer: ALPHA / DIGIT / `*` `-` `.` `_` -/
def unreserved (b : UInt8) : Bool :=
  (48 ≤ b && b ≤ 57) || (65 ≤ b && b ≤ 90) || (97 ≤ b && b ≤ 122) || b == 42 || b == 45 || b == 46 || b == 95

/-- form-urlencoded byte serialisation: space ↦ '+', unreserved unchanged, everything else %XX -/
def enc : Bytes → Bytes
  | [] => []
  | b :: bs =>
    if b == 32 then 43 :: enc bs
    else if unreserved b then b :: enc bs
    else 37 :: hexUp (b.toNat / 16) :: hexUp (b.toNat % 16) :: enc bs

def hexVal (c : UInt8) : Option Nat :=
  if 48 ≤ c ∧ c ≤ 57 then some (c.toNat - 48)
  else if 65 ≤ c ∧ c ≤ 70 then some (c.toNat - 55)
  else if 97 ≤ c ∧ c ≤ 102 then some (c.toNat - 87)
  else none

/-- decoder state: plain text, after '%', after '%' and one hex digit -/
inductive DSt | normal | pct | pct1 (h : UInt8)

/-- form decoding as a server does it: '+' ↦ space, %XX ↦ byte, anything else (including a '%'
    not followed by two hex digits) literally.  A structural automaton over the input. -/
def decGo : DSt → Bytes → Bytes
  | .normal, [] => []
  | .normal, b :: bs =>
    if b == 43 then 32 :: decGo .normal bs
    else if b == 37 then decGo .pct bs
    else b :: decGo .normal bs
  | .pct, [] => [37]
  | .pct, h :: bs =>
    (match hexVal h with
     | some _ => decGo (.pct1 h) bs
     | none =>
       if h == 43 then 37 :: 32 :: decGo .normal bs
       else if h == 37 then 37 :: decGo .pct bs
       else 37 :: h :: decGo .normal bs)
  | .pct1 h, [] => [37, h]
  | .pct1 h, l :: bs =>
    (match hexVal h, hexVal l with
     | some a, some c => UInt8.ofNat (a * 16 + c) :: decGo .normal bs
     | _, _ =>
       if l == 43 then 37 :: h :: 32 :: decGo .normal bs
       else if l == 37 then 37 :: h :: decGo .pct bs
       else 37 :: h :: l :: decGo .normal bs)

def dec (s : Bytes) : Bytes := decGo .normal s

/-- split on a separator byte -/
def splitOn (sep : UInt8) : Bytes → List Bytes
  | [] => [[]]
  | b :: bs =>
    if b == sep then [] :: splitOn sep bs
    else match splitOn sep bs with
      | [] => [[b]]
      | x :: xs => (b :: x) :: xs

/-- split at the first `=` -/
def splitKV : Bytes → Bytes × Bytes
  | [] => ([], [])
  | b :: bs => if b == 61 then ([], bs) else ((b :: (splitKV bs).1), (splitKV bs).2)

/-- the server's view of a query string: pairs split on `&`, then on the first `=`, then decoded -/
def parseQuery (q : Bytes) : List (Bytes × Bytes) :=
  (splitOn 38 q).map fun kv => (dec (splitKV kv).1, dec (splitKV kv).2)

/-- "/session/minecraft/hasJoined" -/
def path : Bytes := [47, 115, 101, 115, 115, 105, 111, 110, 47, 109, 105, 110, 101, 99, 114, 97, 102, 116, 47, 104, 97, 115, 74, 111, 105, 110, 101, 100]
/-- "username" -/
def kUser : Bytes := [117, 115, 101, 114, 110, 97, 109, 101]
/-- "serverId" -/
def kServer : Bytes := [115, 101, 114, 118, 101, 114, 73, 100]

/-- the query as the fixed adapter builds it -/
def query (name hash : Bytes) : Bytes :=
  kUser ++ [61] ++ enc name ++ [38] ++ kServer ++ [61] ++ enc hash

/-- request target = path ‖ '?' ‖ query -/
def target (name hash : Bytes) : Bytes := path ++ [63] ++ query name hash

/-- the pinned adapter interpolated the name unescaped (regression witness only) -/
def queryPinned (name hash : Bytes) : Bytes :=
  kUser ++ [61] ++ name ++ [38] ++ kServer ++ [61] ++ hash

end Passage.Url
