import Passage.Util.Bytes
/-
  C20 — model of the Agones discovery cache (passage-adapters/agones/src/discovery_adapter.rs,
  after the C20 repair: the watcher's events are consumed directly) and of the GameServer → Target
  conversion (passage-adapters/agones/src/lib.rs).
-/
namespace Passage.Agones

structure Status where
  address : Bytes
  ports : List Nat
  state : Bytes
  counters : Option (List (Bytes × Option Nat))
  lists : Option (List (Bytes × List Bytes))
  deriving DecidableEq, Repr

structure GameServer where
  name : Option Bytes
  status : Option Status
  labels : List (Bytes × Bytes)
  annotations : List (Bytes × Bytes)
  deriving DecidableEq, Repr

structure Target where
  id : Bytes
  ip : Bytes                       -- canonical text of the parsed address
  port : Nat
  md : List (Bytes × Bytes)        -- HashMap, as a key-sorted-irrelevant association list (unique keys)
  deriving DecidableEq, Repr

/-- "state" -/
def kState : Bytes := [115, 116, 97, 116, 101]
/-- "Ready" -/
def sReady : Bytes := [82, 101, 97, 100, 121]
/-- "Allocated" -/
def sAllocated : Bytes := [65, 108, 108, 111, 99, 97, 116, 101, 100]

def mdInsert (k v : Bytes) : List (Bytes × Bytes) → List (Bytes × Bytes)
  | [] => [(k, v)]
  | (k', v') :: r => if k' = k then (k, v) :: r else (k', v') :: mdInsert k v r

def joinComma : List Bytes → Bytes
  | [] => []
  | [x] => x
  | x :: xs => x ++ [44] ++ joinComma xs

def decimal (n : Nat) : Bytes := (toString n).toUTF8.toList

/-- `TryFrom<GameServer> for Target`; `parseIp` = `str::parse::<IpAddr>` (canonical text or none) -/
def convert (parseIp : Bytes → Option Bytes) (g : GameServer) : Option Target :=
  match g.name, g.status with
  | some name, some st =>
    match parseIp st.address, st.ports with
    | some ip, port :: _ =>
      let m0 : List (Bytes × Bytes) := [(kState, st.state)]
      let m1 := (st.counters.getD []).foldl (fun m c => mdInsert c.1 (decimal (c.2.getD 0)) m) m0
      let m2 := (st.lists.getD []).foldl (fun m l => mdInsert l.1 (joinComma l.2) m) m1
      let m3 := g.labels.foldl (fun m l => mdInsert l.1 l.2 m) m2
      let m4 := g.annotations.foldl (fun m l => mdInsert l.1 l.2 m) m3
      some ⟨name, ip, port, m4⟩
    | _, _ => none
  | _, _ => none

def mdGet (k : Bytes) : List (Bytes × Bytes) → Option Bytes
  | [] => none
  | (k', v) :: r => if k' = k then some v else mdGet k r

/-- `ready_target`: convertible and its state (as stored in the metadata) is Ready or Allocated -/
def readyTarget (parseIp : Bytes → Option Bytes) (g : GameServer) : Option Target :=
  match convert parseIp g with
  | none => none
  | some t =>
    let s := (mdGet kState t.md).getD []
    if s = sReady ∨ s = sAllocated then some t else none

/-- `name_any()`: the name, else the generate-name, else empty (generate-name is not modelled) -/
def nameAny (g : GameServer) : Bytes := g.name.getD []

def position (id : Bytes) : List Target → Option Nat
  | [] => none
  | t :: r => if t.id = id then some 0 else (position id r).map (· + 1)

/-- `Vec::swap_remove` -/
def swapRemove : List Target → Nat → List Target
  | [], _ => []
  | _ :: [], _ => []
  | _ :: y :: ys, 0 => (y :: ys).getLast (by simp) :: (y :: ys).dropLast
  | x :: y :: ys, i + 1 => x :: swapRemove (y :: ys) i

def setAt : List Target → Nat → Target → List Target
  | [], _, _ => []
  | _ :: r, 0, t => t :: r
  | x :: r, i + 1, t => x :: setAt r i t

/-- `update`: replace, add or remove the target with the identifier -/
def update (ts : List Target) (id : Bytes) (t : Option Target) : List Target :=
  match position id ts, t with
  | some i, some t => setAt ts i t
  | none, some t => ts ++ [t]
  | some i, none => swapRemove ts i
  | none, none => ts

inductive Ev
  | init | initApply (g : GameServer) | initDone | apply (g : GameServer) | delete (g : GameServer)
  deriving DecidableEq, Repr

structure St where
  cache : List Target := []
  listed : List Target := []
  deriving Repr

def reduce (parseIp : Bytes → Option Bytes) (s : St) : Ev → St
  | .init => { s with listed := [] }
  | .initApply g => { s with listed := update s.listed (nameAny g) (readyTarget parseIp g) }
  | .initDone => { cache := s.listed, listed := [] }
  | .apply g => { s with cache := update s.cache (nameAny g) (readyTarget parseIp g) }
  | .delete g => { s with cache := update s.cache (nameAny g) none }

def run (parseIp : Bytes → Option Bytes) : St → List Ev → St
  | s, [] => s
  | s, e :: es => run parseIp (reduce parseIp s e) es

/-! ### specification: the Kubernetes object store as seen through the watch -/

/-- latest observation per name -/
abbrev Store := List (Bytes × GameServer)

def storeGet (k : Bytes) : Store → Option GameServer
  | [] => none
  | (k', g) :: r => if k' = k then some g else storeGet k r

def storePut (k : Bytes) (g : GameServer) : Store → Store
  | [] => [(k, g)]
  | (k', g') :: r => if k' = k then (k, g) :: r else (k', g') :: storePut k g r

def storeDel (k : Bytes) : Store → Store
  | [] => []
  | (k', g') :: r => if k' = k then storeDel k r else (k', g') :: storeDel k r

structure Spec where
  store : Store := []
  relist : Store := []

def specStep (s : Spec) : Ev → Spec
  | .init => { s with relist := [] }
  | .initApply g => { s with relist := storePut (nameAny g) g s.relist }
  | .initDone => { store := s.relist, relist := [] }
  | .apply g => { s with store := storePut (nameAny g) g s.store }
  | .delete g => { s with store := storeDel (nameAny g) s.store }

def specRun : Spec → List Ev → Spec
  | s, [] => s
  | s, e :: es => specRun (specStep s e) es

/-- what should be offered for an identifier: the latest observed object of that name, if it
    converts and is Ready or Allocated -/
def offered (parseIp : Bytes → Option Bytes) (st : Store) (id : Bytes) : Option Target :=
  match storeGet id st with
  | none => none
  | some g => readyTarget parseIp g

end Passage.Agones
