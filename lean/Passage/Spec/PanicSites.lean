import Passage.Util.Bytes
/-
  C04 — the accounted panic / cast / sized-allocation / arithmetic sites of the files anchored by the
  property, each with the reason it cannot fire on client input.  `Extracted.panicSites` (regenerated
  from /repo on every run) must be a subset: a new `expect`, index, cast, sized allocation or
  arithmetic expression in those files breaks `Props.C04.panic_sites_accounted` until it is reviewed.
-/
namespace Passage.Spec

def accountedPanicSites : List Nat := [
  176948426267901 /- passage-packets/src/reader.rs|read_packet|cast|letmuttake=self.take(lengthasu64); :: read_packet is not used by the server; length was checked to be in 1..=10000 before the cast -/,
  228517845437524 /- passage-packets/src/reader.rs|read_varint|index|ans|=(i32::from(buf[0]&0b0111_1111))<<(7*i); :: buf is a one-element array; index 0 is always in bounds -/,
  104064370193213 /- passage-packets/src/reader.rs|read_varint|arith|ans|=(i32::from(buf[0]&0b0111_1111))<<(7*i); :: 7*i with i < 5 and a shift below 32: no overflow (model: lenPrefix / readVarLoop on BitVec 32) -/,
  227518712216482 /- passage-packets/src/reader.rs|read_varint|index|ifbuf[0]&0b1000_0000==0{ :: buf is a one-element array; index 0 is always in bounds -/,
  199088426367535 /- passage-packets/src/reader.rs|read_varlong|index|ans|=(i64::from(buf[0]&0b0111_1111))<<(7*i); :: buf is a one-element array; index 0 is always in bounds -/,
  145956328702353 /- passage-packets/src/reader.rs|read_varlong|arith|ans|=(i64::from(buf[0]&0b0111_1111))<<(7*i); :: 7*i with i < 10 and a shift below 64: no overflow (model: readVarLoop on BitVec 64) -/,
  237120965160292 /- passage-packets/src/reader.rs|read_varlong|index|ifbuf[0]&0b1000_0000==0{ :: buf is a one-element array; index 0 is always in bounds -/,
  26393063013832 /- passage-packets/src/reader.rs|read_text_component|cast|letmutbuffer=vec![0;lenasusize]; :: len is a u16: at most 65535 bytes, independent of the frame limit only by that constant; clientbound-only decoder -/,
  200359001374883 /- passage-packets/src/reader.rs|read_text_component|alloc|letmutbuffer=vec![0;lenasusize]; :: len is a u16: at most 65535 bytes, independent of the frame limit only by that constant; clientbound-only decoder -/,
  256442619919499 /- passage-packets/src/reader.rs|read_bytes|cast|ifreadasu64!=length{ :: usize -> u64 widening of a count of bytes actually read -/,
  22671017419023 /- passage-protocol/src/connection.rs|<top>|arith|pubconstDEFAULT_AUTH_COOKIE_EXPIRY:u64=6*60*60; :: constant expression -/,
  177022192102573 /- passage-protocol/src/connection.rs|new|alloc|buffer:Vec::with_capacity(INITIAL_BUFFER_SIZE), :: constant capacity (48 bytes) -/,
  19951573904927 /- passage-protocol/src/connection.rs|new|alloc|read_buffer:Vec::with_capacity(INITIAL_BUFFER_SIZE), :: constant capacity (48 bytes) -/,
  151764992959966 /- passage-protocol/src/connection.rs|new|alloc|write_buffer:Vec::with_capacity(INITIAL_BUFFER_SIZE), :: constant capacity (48 bytes) -/,
  33911486887669 /- passage-protocol/src/connection.rs|new|expect|client_address:"".parse().expect(""), :: parse of a hard-coded literal address -/,
  46489135078943 /- passage-protocol/src/connection.rs|next_frame|arith|length|=(i32::from(byte&0b0111_1111))<<(7*prefix); :: 7*prefix with prefix < 5: no overflow (model: lenPrefix) -/,
  277922829748282 /- passage-protocol/src/connection.rs|next_frame|expect|letlength=usize::try_from(length).expect(""); :: length was checked to be > 0 just above (theorem illegal_length_refused_at_prefix / rx_bounded) -/,
  200697970556579 /- passage-protocol/src/connection.rs|next_frame|arith|Ok((prefix,(prefix+length).saturating_sub(self.read_buffer.len()))) :: prefix <= 5 and length <= max_packet_length <= i32::MAX: no overflow on 64-bit usize; saturating_sub -/,
  111819242062715 /- passage-protocol/src/connection.rs|receive_packet|cast|letmutframe_stream=(&mutself.stream).take(missingasu64); :: usize -> u64 widening -/,
  211126015090398 /- passage-protocol/src/connection.rs|receive_packet|expect|letpacket_size=u64::try_from(frame.len()).expect(""); :: usize always fits u64 on supported targets -/,
  67324015573013 /- passage-protocol/src/connection.rs|receive_packet|expect|letposition=usize::try_from(buf.position()).expect(""); :: cursor position is within the frame (<= max_packet_length) -/,
  258260367158089 /- passage-protocol/src/connection.rs|send_packet|cast|self.buffer.write_varint(T::IDasVarInt).await?; :: packet id constants are small non-negative literals -/,
  188669198160344 /- passage-protocol/src/connection.rs|send_packet|alloc|letmutfinal_buffer=Vec::with_capacity(packet_len+2); :: server-built packet, size determined by adapter/server data, not by client-declared lengths -/,
  109861607569273 /- passage-protocol/src/connection.rs|send_packet|arith|letmutfinal_buffer=Vec::with_capacity(packet_len+2); :: server-built packet, size determined by adapter/server data, not by client-declared lengths -/,
  177700102617064 /- passage-protocol/src/connection.rs|send_packet|cast|final_buffer.write_varint(packet_lenasVarInt).await?; :: server-built packet far below i32::MAX -/,
  272411565727690 /- passage-protocol/src/connection.rs|send_packet|index|.write(&self.write_buffer[self.write_offset..]) :: write_offset <= write_buffer.len() is the loop invariant (model: WSt, flush_inv) -/,
  121755329535227 /- passage-protocol/src/connection.rs|send_packet|expect|letpacket_size=u64::try_from(final_buffer.len()).expect(""); :: usize always fits u64 -/,
  136599734658404 /- passage-protocol/src/connection.rs|handle|cast|handshake.protocol_versionasProtocol, :: i32 -> i32 type alias cast (the body of `listen` became `handle` with the missed-keep-alive repair) -/,
  48971463324760 /- passage-protocol/src/connection.rs|handle|expect|.expect("") :: SystemTime::now() is after UNIX_EPOCH on any sane clock (not client controlled) -/,
  195469996072876 /- passage-protocol/src/crypto/mod.rs|<top>|expect|LazyLock::new(||generate_keypair().expect("")); :: process start-up, not client input -/,
  208066933496905 /- passage-protocol/src/crypto/mod.rs|<top>|expect|LazyLock::new(||encode_public_key(&KEY_PAIR.1).expect("")); :: process start-up, not client input -/,
  214318235484516 /- passage-protocol/src/crypto/mod.rs|generate_keep_alive|cast|TIME_ANCHOR.elapsed().as_millis()asu64 :: elapsed milliseconds truncate after 584 million years -/,
  160389963785835 /- passage-protocol/src/crypto/stream.rs|poll_write|index|letmutaccepted=buf[..*written].to_vec(); :: written <= buf.len() is the AsyncWrite contract of the inner stream (C05 model: accept n is clamped) -/,
  27438592890687 /- passage-protocol/src/crypto/stream.rs|poll_read|arith|letcursor=buf.capacity()-buf.remaining(); :: ReadBuf invariant remaining <= capacity -/,
  1486262138324 /- passage-protocol/src/crypto/stream.rs|poll_read|index|forchunkinbuf.filled_mut()[cursor..].chunks_mut(Aes128Cfb8Dec::block_size()){ :: cursor = filled length before the inner read, which never shrinks the filled region -/]

end Passage.Spec
