import Passage.Codec.Packets
/-
  L0 — frame-level model of `Connection::listen()` (passage-protocol/src/connection.rs):
  types, environment (every external call is a field), outputs.
-/
namespace Passage.Conn
open Passage.Codec

inductive Intent | status | login | transfer
  deriving DecidableEq, Repr

structure Handshake where
  proto : Int
  host : Bytes
  port : Nat
  intent : Intent
  deriving DecidableEq, Repr

/-- a player identity: name, UUID, profile properties (canonical opaque encoding) -/
structure Ident where
  name : Bytes
  uuid : Nat
  props : Bytes
  deriving DecidableEq, Repr

structure Target where
  id : Bytes
  ip : Bytes          -- textual form of `address.ip()` (std's `Display`; oracle)
  port : Nat
  deriving DecidableEq, Repr

structure AuthCookie where
  ts : Nat
  ip : Bytes          -- textual form of `client_addr.ip()`
  ident : Ident
  deriving DecidableEq, Repr

inductive Err
  | closed | illegalLength | illegalEnum | unexpectedId | invalidEncoding | arrayConversion
  | json | crypto | badToken | missedKeepAlive | noTarget | adapter | nbt
  deriving DecidableEq, Repr

def Err.name : Err → String
  | .closed => "closed" | .illegalLength => "illegal-length" | .illegalEnum => "illegal-enum"
  | .unexpectedId => "unexpected-id" | .invalidEncoding => "invalid-encoding"
  | .arrayConversion => "array-conversion" | .json => "json" | .crypto => "crypto"
  | .badToken => "bad-token" | .missedKeepAlive => "missed-keep-alive" | .noTarget => "no-target"
  | .adapter => "adapter" | .nbt => "nbt"

def ofCodecErr : Codec.Err → Err
  | .eof => .closed | .illegalLength => .illegalLength | .illegalEnum => .illegalEnum
  | .invalidEncoding => .invalidEncoding | .arrayConversion => .arrayConversion | .nbt => .nbt

/-- clientbound packets the handler can send -/
inductive Cb
  | statusResponse (json : Bytes)
  | pong (payload : Nat)
  | cookieRequest (key : Bytes)
  | encRequest (serverId pubKey token : Bytes) (shouldAuth : Bool)
  | loginSuccess (uuid : Nat) (name : Bytes)
  | keepAlive (id : Nat)
  | storeAuthCookie (payload : Bytes)
  | storeSessionCookie (host : Bytes) (port : Nat)     -- id and trace id are fresh random values
  | transfer (host : Bytes) (port : Nat)
  | disconnect (reason : Bytes)
  deriving DecidableEq, Repr

/-- who the connection is: arguments every backend service receives -/
structure Ctx where
  clientAddr : Bytes     -- textual socket address of the (effective) client
  host : Bytes
  port : Nat
  proto : Int
  deriving DecidableEq, Repr

inductive Out
  | send (p : Cb)
  | callStatus (c : Ctx)
  | callAuth (c : Ctx) (name : Bytes) (uuid : Nat) (secret : Bytes) (pub : Bytes)
  | callDiscover
  | callFilter (c : Ctx) (name : Bytes) (uuid : Nat) (targets : List Target)
  | callSelect (c : Ctx) (name : Bytes) (uuid : Nat) (targets : List Target)
  | callLocalize (locale : Option Bytes) (key : Bytes)
  | enableCipher (secret : Bytes)                       -- `apply_encryption`
  | finish (r : Option Err)
  deriving DecidableEq, Repr

/-- session-cookie payload classes (`serde_json::from_slice::<Option<SessionCookie>>`) -/
inductive SessionClass | present | null | invalid
  deriving DecidableEq, Repr

/-- Everything outside the handler.  Theorems quantify over every `Env`. -/
structure Env where
  status : Ctx → Except Err Bytes                       -- status service answer, as JSON text
  auth : Ctx → Bytes → Nat → Bytes → Bytes → Except Err Ident
  discover : Except Err (List Target)
  filter : Ctx → Bytes → Nat → List Target → Except Err (List Target)
  select : Ctx → Bytes → Nat → List Target → Except Err (Option Target)
  localize : Option Bytes → Bytes → Except Err Bytes
  rsaDecrypt : Bytes → Option Bytes                     -- PKCS#1 v1.5 with the server key
  token : Bytes                                         -- verify token generated on this run
  pubKey : Bytes                                        -- DER of the server's public key
  hmac : Bytes → Bytes → Bytes                          -- key → message → 32-byte tag
  parseCookie : Bytes → Except Err AuthCookie           -- serde_json::from_slice::<AuthCookie>
  serCookie : AuthCookie → Bytes → Bytes                -- cookie, target id → JSON bytes
  sessionClass : Bytes → SessionClass
  now : Nat                                             -- UNIX seconds (read when needed)
  kaId : Nat → Nat                                      -- id of the n-th keep-alive sent
  clientIp : Bytes                                      -- textual `client_address.ip()`

structure Cfg where
  secret : Option Bytes
  expiry : Nat
  maxLen : Nat
  clientAddr : Bytes

inductive Pc
  | awaitHandshake | awaitStatusReq | awaitPing
  | awaitLoginStart | awaitSessionCookie | awaitAuthCookie | awaitEncResp
  | awaitLoginAck | awaitClientInfo | discovering | filtering | selecting | done
  deriving DecidableEq, Repr

structure St where
  pc : Pc := .awaitHandshake
  hs : Handshake := ⟨0, [], 0, .status⟩
  ident : Ident := ⟨[], 0, []⟩          -- `login_start.user_name/user_id` + `profile_properties`
  shouldAuth : Bool := true
  sessPresent : Bool := false
  ka : Option Nat := none
  kaCount : Nat := 0
  locale : Option Bytes := none
  targets : List Target := []
  /-- ghost: how the current identity was vouched for on this run -/
  vouched : Option Ident := none
  deriving Repr

inductive In
  | frame (payload : Bytes)        -- one complete frame: VarInt id ‖ body (length prefix stripped)
  | badLength                      -- a length prefix ≤ 0 or > maxLen
  | eof
  | tick
  | adapterDone
  deriving DecidableEq, Repr

def sessionKey : Bytes := str "passage:session"
def authKey : Bytes := str "passage:authentication"

end Passage.Conn
