import Passage.Conn.Types
/-
  L0 — the reactive machine: one step per frame-level input, transliterating the linear script of
  `Connection::listen()`.  Packet bodies are decoded with the M1 codec of `Passage.Codec`.
-/
namespace Passage.Conn
open Passage.Codec

def fail (st : St) (e : Err) (pre : List Out := []) : St × List Out :=
  ({ st with pc := .done }, pre ++ [.finish (some e)])

def ctxOf (C : Cfg) (st : St) : Ctx := ⟨C.clientAddr, st.hs.host, st.hs.port, st.hs.proto⟩

/-- split a frame payload into packet id and body (`read_varint` on the frame) -/
def splitFrame (payload : Bytes) : Outcome (Int × Bytes) :=
  match Impl.readVarint payload with
  | .ok (id, body) => .ok (id.toInt, body)
  | .err e => .err e
  | .panic s => .panic s

/-- decode the body of a serverbound packet of the given phase; `none` = id not in the table -/
def decodeSb (phase : Nat) (id : Int) (body : Bytes) : Option (Outcome (List (Option Val))) :=
  match packets.find? (fun p => p.phase == phase && p.dir == 1 && (p.id : Int) == id) with
  | none => none
  | some p => some (match decodePacket p body with
      | .ok (vs, _) => .ok vs          -- trailing bytes inside the frame are ignored
      | .err e => .err e
      | .panic s => .panic s)

def intentOf : Int → Intent
  | 1 => .status
  | 2 => .login
  | _ => .transfer

/-- `verify(signed, secret)`: 32-byte tag prefix over the rest; too short = invalid -/
def verifyCookie (E : Env) (secret x : Bytes) : Option Bytes :=
  if x.length < 32 then none
  else if x.take 32 = E.hmac secret (x.drop 32) then some (x.drop 32) else none

/-- the seven-conjunct acceptance decision of the transfer branch (C02) -/
def acceptCookie (C : Cfg) (E : Env) (c : AuthCookie) : Bool :=
  c.ip == E.clientIp && decide (E.now ≤ min (c.ts + C.expiry) (2 ^ 64 - 1))

def sendEncReq (E : Env) (st : St) (pre : List Out) : St × List Out :=
  ({ st with pc := .awaitEncResp },
   pre ++ [.send (.encRequest [] E.pubKey E.token st.shouldAuth)])

/-- after the session cookie: ask for the auth cookie (transfer intent with a secret) or go on -/
def afterSession (C : Cfg) (E : Env) (st : St) : St × List Out :=
  if st.hs.intent = .transfer ∧ C.secret.isSome then
    ({ st with pc := .awaitAuthCookie }, [.send (.cookieRequest authKey)])
  else sendEncReq E st []

def kaTick (E : Env) (st : St) : St × List Out :=
  match st.ka with
  | some _ =>
    match E.localize st.locale (str "disconnect_timeout") with
    | .error e => fail st e [.callLocalize st.locale (str "disconnect_timeout")]
    | .ok r => ({ st with pc := .done },
        [.callLocalize st.locale (str "disconnect_timeout"), .send (.disconnect r), .finish (some .missedKeepAlive)])
  | none =>
    ({ st with ka := some (E.kaId st.kaCount), kaCount := st.kaCount + 1 },
     [.send (.keepAlive (E.kaId st.kaCount))])

def kaEcho (st : St) (id : Nat) : St := if st.ka = some id then { st with ka := none } else st

/-- after selection: cookies then Transfer, or the localized Disconnect -/
def finishRouting (C : Cfg) (E : Env) (st : St) (sel : Option Target) (pre : List Out) : St × List Out :=
  match sel with
  | none =>
    let call := Out.callLocalize st.locale (str "disconnect_no_target")
    match E.localize st.locale (str "disconnect_no_target") with
    | .error e => fail st e (pre ++ [call])
    | .ok r => ({ st with pc := .done }, pre ++ [call, .send (.disconnect r), .finish (some .noTarget)])
  | some t =>
    let a : List Out := match st.shouldAuth, C.secret with
      | true, some s =>
        let j := E.serCookie ⟨E.now, E.clientIp, st.ident⟩ t.id
        [.send (.storeAuthCookie (E.hmac s j ++ j))]
      | _, _ => []
    let b : List Out := if st.sessPresent then [] else [.send (.storeSessionCookie st.hs.host st.hs.port)]
    ({ st with pc := .done }, pre ++ a ++ b ++ [.send (.transfer t.ip t.port), .finish none])

/-- packets tolerated (and ignored) in the configuration phase besides Keep Alive -/
def ignorableConfig (id : Int) : Bool := id == 0x02 || id == 0x06 || id == 0x01

/-- configuration-phase frame while routing is in progress (`keep_alive()` loop) -/
def routingFrame (st : St) (id : Int) (body : Bytes) : St × List Out :=
  if !(id == 0x04 || id == 0x00 || ignorableConfig id) then fail st .unexpectedId else
  match decodeSb 3 id body with
  | none => fail st .unexpectedId
  | some (.err e) => fail st (ofCodecErr e)
  | some (.panic _) => fail st .closed
  | some (.ok vs) =>
    if id == 0x04 then
      match vs with
      | [some (.int k)] => (kaEcho st k.toNat, [])
      | _ => fail st .unexpectedId
    else if id == 0x00 || ignorableConfig id then (st, [])
    else fail st .unexpectedId

/-! per-state handlers of a complete frame `(id, body)` -/

def hHandshake (st : St) (id : Int) (body : Bytes) : St × List Out :=
  if id ≠ 0 then fail st .unexpectedId else
  match decodeSb 0 0 body with
  | some (.ok [some (.int proto), some (.bytes host), some (.int port), some (.int next)]) =>
    ({ st with hs := ⟨proto, host, port.toNat, intentOf next⟩,
               pc := if next = 1 then .awaitStatusReq else .awaitLoginStart }, [])
  | some (.err e) => fail st (ofCodecErr e)
  | _ => fail st .unexpectedId

def hStatusReq (C : Cfg) (E : Env) (st : St) (id : Int) : St × List Out :=
  if id ≠ 0 then fail st .unexpectedId else
  match E.status (ctxOf C st) with
  | .error e => fail st e [.callStatus (ctxOf C st)]
  | .ok j => ({ st with pc := .awaitPing }, [.callStatus (ctxOf C st), .send (.statusResponse j)])

def hPing (st : St) (id : Int) (body : Bytes) : St × List Out :=
  if id ≠ 1 then fail st .unexpectedId else
  match decodeSb 1 1 body with
  | some (.ok [some (.int p)]) => ({ st with pc := .done }, [.send (.pong p.toNat), .finish none])
  | some (.err e) => fail st (ofCodecErr e)
  | _ => fail st .unexpectedId

def hLoginStart (st : St) (id : Int) (body : Bytes) : St × List Out :=
  if id ≠ 0 then fail st .unexpectedId else
  match decodeSb 2 0 body with
  | some (.ok [some (.bytes name), some (.int uuid)]) =>
    ({ st with ident := ⟨name, uuid.toNat, str "[]"⟩, pc := .awaitSessionCookie },
     [.send (.cookieRequest sessionKey)])
  | some (.err e) => fail st (ofCodecErr e)
  | _ => fail st .unexpectedId

/-- decoded login-phase Cookie Response: the optional payload -/
def cookiePayload (id : Int) (body : Bytes) : Except Err (Option Bytes) :=
  if id ≠ 4 then .error .unexpectedId else
  match decodeSb 2 4 body with
  | some (.ok [some (.bytes _), some (.bytes b)]) => .ok (some b)
  | some (.ok [some (.bytes _), none]) => .ok none
  | some (.err e) => .error (ofCodecErr e)
  | _ => .error .unexpectedId

def hSessionCookie (C : Cfg) (E : Env) (st : St) (id : Int) (body : Bytes) : St × List Out :=
  match cookiePayload id body with
  | .error e => fail st e
  | .ok none => afterSession C E st
  | .ok (some b) =>
    match E.sessionClass b with
    | .invalid => fail st .json
    | .present => afterSession C E { st with sessPresent := true }
    | .null => afterSession C E st

/-- the transfer branch: what a presented auth-cookie payload leads to -/
def onAuthCookie (C : Cfg) (E : Env) (st : St) (pl : Option Bytes) : St × List Out :=
  match pl, C.secret with
  | some x, some s =>
    (match verifyCookie E s x with
     | none => sendEncReq E st []
     | some m =>
       match E.parseCookie m with
       | .error e => fail st e
       | .ok c =>
         if acceptCookie C E c then
           sendEncReq E { st with shouldAuth := false, ident := c.ident, vouched := some c.ident } []
         else sendEncReq E st [])
  | _, _ => sendEncReq E st []

def hAuthCookie (C : Cfg) (E : Env) (st : St) (id : Int) (body : Bytes) : St × List Out :=
  match cookiePayload id body with
  | .error e => fail st e
  | .ok pl => onAuthCookie C E st pl

/-- decoded Encryption Response: the two RSA ciphertexts -/
def encRespFields (id : Int) (body : Bytes) : Except Err (Bytes × Bytes) :=
  if id ≠ 1 then .error .unexpectedId else
  match decodeSb 2 1 body with
  | some (.ok [some (.bytes sct), some (.bytes tct)]) => .ok (sct, tct)
  | some (.err e) => .error (ofCodecErr e)
  | _ => .error .unexpectedId

/-- decrypt, compare the verify token, authenticate (unless a cookie vouched), key the cipher,
    Login Success — in this order, as in the source -/
def onEncResp (C : Cfg) (E : Env) (st : St) (sct tct : Bytes) : St × List Out :=
  match E.rsaDecrypt sct, E.rsaDecrypt tct with
  | some secret, some tok =>
    if tok ≠ E.token then fail st .badToken else
    if st.shouldAuth then
      let call := Out.callAuth (ctxOf C st) st.ident.name st.ident.uuid secret E.pubKey
      (match E.auth (ctxOf C st) st.ident.name st.ident.uuid secret E.pubKey with
       | .error e => fail st e [call]
       | .ok prof =>
         if secret.length ≠ 16 then fail { st with ident := prof, vouched := some prof } .crypto [call] else
         ({ st with ident := prof, vouched := some prof, pc := .awaitLoginAck },
          [call, .enableCipher secret, .send (.loginSuccess prof.uuid prof.name)]))
    else
      if secret.length ≠ 16 then fail st .crypto else
      ({ st with pc := .awaitLoginAck },
       [.enableCipher secret, .send (.loginSuccess st.ident.uuid st.ident.name)])
  | _, _ => fail st .crypto

def hEncResp (C : Cfg) (E : Env) (st : St) (id : Int) (body : Bytes) : St × List Out :=
  match encRespFields id body with
  | .error e => fail st e
  | .ok (sct, tct) => onEncResp C E st sct tct

def hLoginAck (st : St) (id : Int) : St × List Out :=
  if id ≠ 3 then fail st .unexpectedId else ({ st with pc := .awaitClientInfo }, [])

def hClientInfo (st : St) (id : Int) (body : Bytes) : St × List Out :=
  if !(id == 0x04 || id == 0x00 || ignorableConfig id) then fail st .unexpectedId else
  match decodeSb 3 id body with
  | none => fail st .unexpectedId
  | some (.err e) => fail st (ofCodecErr e)
  | some (.panic _) => fail st .closed
  | some (.ok vs) =>
    if id == 0x04 then
      (match vs with
       | [some (.int k)] => (kaEcho st k.toNat, [])
       | _ => fail st .unexpectedId)
    else if id == 0x00 then
      (match vs with
       | some (.bytes locale) :: _ => ({ st with locale := some locale, pc := .discovering }, [.callDiscover])
       | _ => fail st .unexpectedId)
    else if ignorableConfig id then (st, [])
    else fail st .unexpectedId

def onFrame (C : Cfg) (E : Env) (st : St) (payload : Bytes) : St × List Out :=
  if payload.length = 0 ∨ payload.length > C.maxLen then fail st .illegalLength else
  match splitFrame payload with
  | .err e => fail st (ofCodecErr e)
  | .panic _ => fail st .closed
  | .ok (id, body) =>
  match st.pc with
  | .awaitHandshake => hHandshake st id body
  | .awaitStatusReq => hStatusReq C E st id
  | .awaitPing => hPing st id body
  | .awaitLoginStart => hLoginStart st id body
  | .awaitSessionCookie => hSessionCookie C E st id body
  | .awaitAuthCookie => hAuthCookie C E st id body
  | .awaitEncResp => hEncResp C E st id body
  | .awaitLoginAck => hLoginAck st id
  | .awaitClientInfo => hClientInfo st id body
  | .discovering | .filtering | .selecting => routingFrame st id body
  | .done => (st, [])

def onAdapterDone (C : Cfg) (E : Env) (st : St) : St × List Out :=
  match st.pc with
  | .discovering =>
    (match E.discover with
     | .error e => fail st e
     | .ok ts => ({ st with pc := .filtering, targets := ts },
         [.callFilter (ctxOf C st) st.ident.name st.ident.uuid ts]))
  | .filtering =>
    (match E.filter (ctxOf C st) st.ident.name st.ident.uuid st.targets with
     | .error e => fail st e
     | .ok ts => ({ st with pc := .selecting, targets := ts },
         [.callSelect (ctxOf C st) st.ident.name st.ident.uuid ts]))
  | .selecting =>
    (match E.select (ctxOf C st) st.ident.name st.ident.uuid st.targets with
     | .error e => fail st e
     | .ok sel => finishRouting C E st sel [])
  | _ => (st, [])

def keepAlivePhase : Pc → Bool
  | .awaitClientInfo | .discovering | .filtering | .selecting => true
  | _ => false

def step (C : Cfg) (E : Env) (st : St) (i : In) : St × List Out :=
  if st.pc = .done then (st, []) else
  match i with
  | .frame payload => onFrame C E st payload
  | .badLength => fail st .illegalLength
  | .eof => fail st .closed
  | .tick => if keepAlivePhase st.pc then kaTick E st else (st, [])
  | .adapterDone => onAdapterDone C E st

def run (C : Cfg) (E : Env) : St → List In → St × List Out
  | st, [] => (st, [])
  | st, i :: is => ((run C E (step C E st i).1 is).1, (step C E st i).2 ++ (run C E (step C E st i).1 is).2)

end Passage.Conn
