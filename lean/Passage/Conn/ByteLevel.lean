import Passage.Conn.Machine
/-
  L1 — byte-level model of the connection: the frame assembler of `receive_packet`
  (`next_frame` + `read_buffer`, kept in the `Connection` so that nothing is lost when a
  `select!` loser is dropped) in front of the L0 machine, and the send path with its pending
  output.  The handler never reads beyond the frame it is assembling, so its observable
  behaviour is that of consuming the client's bytes one at a time.
-/
namespace Passage.Conn
open Passage.Codec

/-- outcome of inspecting the receive buffer (`next_frame`) -/
inductive FrameProgress
  | needMore                       -- length prefix or body incomplete
  | illegal                        -- declared length ≤ 0 or > max: refused before the body
  | complete (payload : Bytes)     -- a whole frame: the bytes after the prefix
  deriving DecidableEq, Repr

/-- decode the length prefix as far as it was received: `none` = incomplete;
    otherwise (value, number of prefix bytes); at most 5 groups, no over-long check -/
def lenPrefix : Nat → Nat → BitVec 32 → Bytes → Option (BitVec 32 × Nat)
  | 0, i, acc, _ => some (acc, i)
  | _ + 1, _, _, [] => none
  | f + 1, i, acc, b :: rest =>
    let acc' := acc ||| ((BitVec.ofNat 32 (b &&& 0x7f).toNat) <<< (7 * i))
    if b &&& 0x80 == 0 then some (acc', i + 1) else lenPrefix f (i + 1) acc' rest

def nextFrame (maxLen : Nat) (rx : Bytes) : FrameProgress :=
  match lenPrefix 5 0 0 rx with
  | none => .needMore
  | some (len, k) =>
    if len.toInt ≤ 0 ∨ len.toInt > maxLen then .illegal
    else if rx.length < k + len.toNat then .needMore
    else .complete ((rx.drop k).take len.toNat)

structure St1 where
  l0 : St := {}
  rx : Bytes := []          -- `read_buffer`
  deriving Repr

inductive In1
  | byte (b : UInt8)
  | eof
  | tick
  | adapterDone
  deriving DecidableEq, Repr

/-- one received byte: append, inspect, deliver a completed frame to L0 -/
def stepByte (C : Cfg) (E : Env) (s : St1) (b : UInt8) : St1 × List Out :=
  if s.l0.pc = .done then (s, []) else
  match nextFrame C.maxLen (s.rx ++ [b]) with
  | .needMore => ({ s with rx := s.rx ++ [b] }, [])
  | .illegal => ({ l0 := (step C E s.l0 .badLength).1, rx := [] }, (step C E s.l0 .badLength).2)
  | .complete payload => ({ l0 := (step C E s.l0 (.frame payload)).1, rx := [] }, (step C E s.l0 (.frame payload)).2)

def step1 (C : Cfg) (E : Env) (s : St1) : In1 → St1 × List Out
  | .byte b => stepByte C E s b
  | .eof => ({ s with l0 := (step C E s.l0 .eof).1 }, (step C E s.l0 .eof).2)
  | .tick => ({ s with l0 := (step C E s.l0 .tick).1 }, (step C E s.l0 .tick).2)
  | .adapterDone => ({ s with l0 := (step C E s.l0 .adapterDone).1 }, (step C E s.l0 .adapterDone).2)

def run1 (C : Cfg) (E : Env) : St1 → List In1 → St1 × List Out
  | s, [] => (s, [])
  | s, i :: is => ((run1 C E (step1 C E s i).1 is).1, (step1 C E s i).2 ++ (run1 C E (step1 C E s i).1 is).2)

/-- the frame-level view of a byte-level input list: every frame is placed where its LAST byte
    arrived; defined by the assembler alone, never mentioning how bytes were segmented -/
def frameLevel (maxLen : Nat) : Bytes → List In1 → List In
  | _, [] => []
  | rx, .byte b :: is =>
    (match nextFrame maxLen (rx ++ [b]) with
     | .needMore => frameLevel maxLen (rx ++ [b]) is
     | .illegal => .badLength :: frameLevel maxLen [] is
     | .complete payload => .frame payload :: frameLevel maxLen [] is)
  | rx, .eof :: is => .eof :: frameLevel maxLen rx is
  | rx, .tick :: is => .tick :: frameLevel maxLen rx is
  | rx, .adapterDone :: is => .adapterDone :: frameLevel maxLen rx is

/-! ### send path: pending output kept in the connection -/

/-- the transport's answers while a frame is being flushed; `cancel` = the future doing the
    flushing is dropped (a `select!` loser) -/
inductive WEv | accept (n : Nat) | cancel
  deriving DecidableEq, Repr

structure WSt where
  pending : Bytes := []      -- `write_buffer[write_offset..]`
  accepted : Bytes := []     -- everything the transport took so far (ghost)
  queued : Bytes := []       -- concatenation of all frames handed to `send_packet` so far (ghost)
  deriving Repr

def flush : WSt → List WEv → WSt
  | w, [] => w
  | w, .cancel :: _ => w
  | w, .accept n :: evs =>
    if w.pending = [] then w else
    flush { w with pending := w.pending.drop (min n w.pending.length),
                   accepted := w.accepted ++ w.pending.take (min n w.pending.length) } evs

/-- `send_packet`: queue the frame behind whatever is still pending, then flush -/
def sendFrame (w : WSt) (frame : Bytes) (evs : List WEv) : WSt :=
  flush { w with pending := w.pending ++ frame, queued := w.queued ++ frame } evs

def sendMany : WSt → List (Bytes × List WEv) → WSt
  | w, [] => w
  | w, (f, evs) :: rest => sendMany (sendFrame w f evs) rest

/-- the pinned send path for the regression witness: a cancelled `write_all` forgets its buffer -/
def sendFramePinned (w : WSt) (frame : Bytes) (evs : List WEv) : WSt :=
  let r := flush { w with pending := frame, queued := w.queued ++ frame } evs
  { r with pending := [] }

end Passage.Conn
