import Passage.Util.Bytes
/-
  C03 — model of `FixedLocalizationAdapter::localize` (passage-adapters/src/localization/fixed.rs):
  the locale chain and the table lookup.  Tables are association lists (HashMap with unique keys).
-/
namespace Passage.Locale

/-- positions of '_' (byte 95) in a locale -/
def underscores : Nat → Bytes → List Nat
  | _, [] => []
  | i, b :: bs => if b = 95 then i :: underscores (i + 1) bs else underscores (i + 1) bs

/-- `append_locale`: the locale itself, then its prefixes before each '_', longest first -/
def chain (l : Bytes) : List Bytes := l :: (underscores 0 l).reverse.map (fun i => l.take i)

def lookup {α} (k : Bytes) : List (Bytes × α) → Option α
  | [] => none
  | (k', v) :: r => if k' = k then some v else lookup k r

abbrev Tables := List (Bytes × List (Bytes × Bytes))

/-- first locale along the list that has a table -/
def firstTable (tables : Tables) : List Bytes → Option (List (Bytes × Bytes))
  | [] => none
  | l :: ls => match lookup l tables with
    | some t => some t
    | none => firstTable tables ls

/-- `localize(locale, key, [])`: the entry of the first table along
    `chain(locale or default) ++ chain(default)`; the key itself when no table or no entry -/
def localize (default : Bytes) (tables : Tables) (locale : Option Bytes) (key : Bytes) : Bytes :=
  match firstTable tables (chain (locale.getD default) ++ chain default) with
  | none => key
  | some t => (lookup key t).getD key

end Passage.Locale
