import Passage.Util.Bytes
/-
  C19 — model of the Target ↔ wire conversions of passage-adapters/grpc/src/proto.rs (after the
  C19 repair: the host is parsed as an IP address and the port converted with `u16::try_from`,
  instead of re-assembling and re-parsing "{host}:{port}") and of the Select request assembly.
  IP addresses are abstract: `Ip` with a printer `showIp` and a parser `parseIp` (std::net).
-/
namespace Passage.Grpc

structure WireTarget where
  id : Bytes
  addr : Option (Bytes × Nat)            -- Address { hostname, port : u32 }
  md : List (Bytes × Bytes)               -- repeated MetaEntry, in order
  deriving DecidableEq, Repr

structure Target (Ip : Type) where
  id : Bytes
  ip : Ip
  port : Nat
  md : List (Bytes × Bytes)               -- HashMap: keys unique
  deriving Repr

def lookup (k : Bytes) : List (Bytes × Bytes) → Option Bytes
  | [] => none
  | (k', v) :: r => if k' = k then some v else lookup k r

/-- `HashMap::from_iter` over the entries: a later entry for the same key wins -/
def collectMap : List (Bytes × Bytes) → List (Bytes × Bytes)
  | [] => []
  | (k, v) :: r => if (lookup k (collectMap r)).isSome then collectMap r else (k, v) :: collectMap r

variable {Ip : Type}

/-- `From<&Target> for proto::Target` -/
def toWire (showIp : Ip → Bytes) (t : Target Ip) : WireTarget :=
  ⟨t.id, some (showIp t.ip, t.port), t.md⟩

/-- `TryFrom<proto::Target> for Target`: `none` = the error results -/
def fromWire (parseIp : Bytes → Option Ip) (w : WireTarget) : Option (Target Ip) :=
  match w.addr with
  | none => none
  | some (h, p) =>
    match parseIp h with
    | none => none
    | some ip => if p ≤ 65535 then some ⟨w.id, ip, p, collectMap w.md⟩ else none

/-- the pinned conversion re-assembled "{host}:{port}" and parsed it as a socket address; with
    the grammar `ipv4:port | [ipv6]:port` every bracket-less IPv6 text fails (witness only) -/
def fromWirePinned (parseSock : Bytes → Option (Ip × Nat)) (w : WireTarget) : Option (Target Ip) :=
  match w.addr with
  | none => none
  | some (h, p) =>
    match parseSock (h ++ [58] ++ (toString p).toUTF8.toList) with
    | none => none
    | some (ip, port) => some ⟨w.id, ip, port, collectMap w.md⟩

structure SelectRequest where
  clientHost : Bytes
  clientPort : Nat
  serverHost : Bytes
  serverPort : Nat
  protocol : Nat                          -- `protocol as u64`
  username : Bytes
  userId : Bytes                          -- hyphenated UUID text
  targets : List WireTarget
  deriving DecidableEq, Repr

/-- request assembly of `GrpcStrategyAdapter::select` -/
def selectRequest (showIp : Ip → Bytes) (clientIp : Ip) (clientPort : Nat) (serverHost : Bytes) (serverPort : Nat)
    (protocol : Int) (username userId : Bytes) (candidates : List (Target Ip)) : SelectRequest :=
  ⟨showIp clientIp, clientPort, serverHost, serverPort, (protocol % 2 ^ 64).toNat, username, userId,
   candidates.map (toWire showIp)⟩

/-- unwrapping of the strategy reply -/
def selectResult (parseIp : Bytes → Option Ip) (reply : Option WireTarget) : Option (Option (Target Ip)) :=
  match reply with
  | none => some none
  | some w => (fromWire parseIp w).map some

/-- unwrapping of the discovery reply: all targets convert, or the whole call is an error -/
def discoverResult (parseIp : Bytes → Option Ip) (ws : List WireTarget) : Option (List (Target Ip)) :=
  ws.mapM (fromWire parseIp)

end Passage.Grpc
