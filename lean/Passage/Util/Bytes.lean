/-
  Byte strings and the token syntax of the model driver's line protocol.
  One representation everywhere: `Bytes = List UInt8` (text is UTF-8 bytes).
  No imports beyond core: every model file must link into the `passage-model` executable.
-/
namespace Passage

abbrev Bytes := List UInt8

namespace Hex

def digit (n : Nat) : Char :=
  if n < 10 then Char.ofNat (48 + n) else Char.ofNat (87 + n)

def encodeChars : Bytes → List Char
  | [] => []
  | b :: bs => digit (b.toNat / 16) :: digit (b.toNat % 16) :: encodeChars bs

/-- `x` followed by lowercase hex; the empty byte string is `x`. -/
def encode (b : Bytes) : String := String.ofList ('x' :: encodeChars b)

def val (c : Char) : Option Nat :=
  if '0' ≤ c ∧ c ≤ '9' then some (c.toNat - 48)
  else if 'a' ≤ c ∧ c ≤ 'f' then some (c.toNat - 87)
  else if 'A' ≤ c ∧ c ≤ 'F' then some (c.toNat - 55)
  else none

def decodeChars : List Char → Option Bytes
  | [] => some []
  | [_] => none
  | a :: b :: rest =>
    match val a, val b, decodeChars rest with
    | some x, some y, some r => some (UInt8.ofNat (x * 16 + y) :: r)
    | _, _, _ => none

def decode (s : String) : Option Bytes :=
  match s.toList with
  | 'x' :: cs => decodeChars cs
  | _ => none

end Hex

/-- ASCII/UTF-8 bytes of a Lean string literal (used for constants only). -/
def str (s : String) : Bytes := s.toUTF8.toList

def showBytesAscii (b : Bytes) : String :=
  String.ofList (b.map fun x => Char.ofNat x.toNat)

def parseInt? (s : String) : Option Int := s.toInt?
def parseNat? (s : String) : Option Nat := s.toNat?

end Passage
