/-
  C13/C15 — model of `passage_protocol::rate_limiter::RateLimiter::enqueue`.
  Time is in nanoseconds since the limiter was created (`Nat`); keys are `Nat`.
  The admission test `last·(1 − age/d) + cur ≥ limit` is abstracted by `Arith` with two laws;
  `exactArith` is the exact-rational instance (what the f32 computation equals whenever it is
  exact).  The map is an association list; `HashMap` order is never observable.
-/
namespace Passage.RL

structure Arith where
  allow : (prev cur limit age d : Nat) → Bool
  /-- L1: admission implies the current counter is below the limit -/
  sound : ∀ {prev cur limit age d}, allow prev cur limit age d = true → cur < limit
  /-- L2: with an empty previous window admission is exactly `cur < limit` -/
  fresh : ∀ {cur limit age d}, 0 < d → allow 0 cur limit age d = (decide (cur < limit))

structure Bucket where
  win : Nat      -- bucket_window: start of the current window
  prev : Nat     -- bucket_last
  cur : Nat      -- bucket_current
  deriving Repr, DecidableEq

structure Cfg where
  d : Nat        -- duration (ns)
  limit : Nat

/-- "if the bucket window changed, move bucket counts" -/
def roll (c : Cfg) (now : Nat) (b : Bucket) : Bucket :=
  if now - b.win ≥ c.d then
    { win := now, prev := if now - b.win ≥ 2 * c.d then 0 else b.cur, cur := 0 }
  else b

/-- one attempt on one bucket: roll, test, count only when admitted -/
def stepB (A : Arith) (c : Cfg) (b : Bucket) (now : Nat) : Bucket × Bool :=
  let b1 := roll c now b
  if A.allow b1.prev b1.cur c.limit (now - b1.win) c.d then ({ b1 with cur := b1.cur + 1 }, true)
  else (b1, false)

def freshB (now : Nat) : Bucket := { win := now, prev := 0, cur := 0 }

/-- `entry(key).or_insert((now, 0, 0))` followed by the attempt -/
def step1 (A : Arith) (c : Cfg) (b : Option Bucket) (now : Nat) : Bucket × Bool :=
  stepB A c (b.getD (freshB now)) now

def exactArith : Arith where
  allow prev cur limit age d := decide (prev * (d - age) + cur * d < limit * d)
  sound := by
    intro prev cur limit age d h
    simp at h
    have : cur * d < limit * d := by omega
    exact Nat.lt_of_mul_lt_mul_right this
  fresh := by
    intro cur limit age d hd
    simp
    constructor
    · intro h; exact Nat.lt_of_mul_lt_mul_right h
    · intro h; exact Nat.mul_lt_mul_of_pos_right h hd

/-! multi-key limiter with cleanup -/

structure State where
  buckets : List (Nat × Bucket)
  lastCleanup : Nat

def init : State := { buckets := [], lastCleanup := 0 }

def lookup (k : Nat) : List (Nat × Bucket) → Option Bucket
  | [] => none
  | (k', b) :: r => if k' = k then some b else lookup k r

def upsert (k : Nat) (b : Bucket) : List (Nat × Bucket) → List (Nat × Bucket)
  | [] => [(k, b)]
  | (k', b') :: r => if k' = k then (k, b) :: r else (k', b') :: upsert k b r

def keep (c : Cfg) (now : Nat) (kb : Nat × Bucket) : Bool := now - kb.2.win < 2 * c.d

/-- `RateLimiter::enqueue`: the bucket is written back whatever the verdict; cleanup
    (`retain`) only runs on the allow path, every two windows. -/
def enqueue (A : Arith) (c : Cfg) (s : State) (k now : Nat) : State × Bool :=
  let r := step1 A c (lookup k s.buckets) now
  let bs := upsert k r.1 s.buckets
  if r.2 then
    if now - s.lastCleanup ≥ 2 * c.d then
      ({ buckets := bs.filter (keep c now), lastCleanup := now }, true)
    else ({ s with buckets := bs }, true)
  else ({ s with buckets := bs }, false)

/-- run a history of (key, time) attempts; returns the final state and the decisions in order -/
def run (A : Arith) (c : Cfg) : State → List (Nat × Nat) → State × List Bool
  | s, [] => (s, [])
  | s, (k, t) :: h =>
    let r := enqueue A c s k t
    let r' := run A c r.1 h
    (r'.1, r.2 :: r'.2)

/-- single-key limiter without cleanup: the reference for per-key independence -/
def runSingle (A : Arith) (c : Cfg) : Option Bucket → List Nat → List Bool
  | _, [] => []
  | b, t :: ts =>
    let r := step1 A c b t
    r.2 :: runSingle A c (some r.1) ts

/-! the same limiter over a bare admission function (no laws attached): what the driver runs with the
    executable binary32 arithmetic; `enqueueF A.allow = enqueue A` is proved in Props/C13 -/

def stepBF (allow : Nat → Nat → Nat → Nat → Nat → Bool) (c : Cfg) (b : Bucket) (now : Nat) : Bucket × Bool :=
  let b1 := roll c now b
  if allow b1.prev b1.cur c.limit (now - b1.win) c.d then ({ b1 with cur := b1.cur + 1 }, true)
  else (b1, false)

def enqueueF (allow : Nat → Nat → Nat → Nat → Nat → Bool) (c : Cfg) (s : State) (k now : Nat) : State × Bool :=
  let r := stepBF allow c ((lookup k s.buckets).getD (freshB now)) now
  let bs := upsert k r.1 s.buckets
  if r.2 then
    if now - s.lastCleanup ≥ 2 * c.d then
      ({ buckets := bs.filter (keep c now), lastCleanup := now }, true)
    else ({ s with buckets := bs }, true)
  else ({ s with buckets := bs }, false)

end Passage.RL
