import Passage.Crypto.Sha1
/-
  C11 — model of `passage_adapters::authentication::minecraft_hash`:
    `BigInt::from_signed_bytes_be(sha1(id ‖ secret ‖ pub)).to_str_radix(16)`.

  `Impl.*` transliterates what num-bigint does (byte-wise two's complement with carry, digits
  from the magnitude bytes, leading zeros stripped).  `Spec.*` is the property's own wording:
  the digest read as a signed big-endian two's-complement number, printed in lowercase hex
  without leading zeros, minus sign when negative.  All text is `List UInt8` (ASCII).
-/
namespace Passage.McHash

def hexDigit (n : Nat) : UInt8 := if n < 10 then UInt8.ofNat (48 + n) else UInt8.ofNat (87 + n)

/-- big-endian value of a byte string -/
def beNat (bs : Bytes) : Nat := bs.foldl (fun a b => a * 256 + b.toNat) 0

/-- value of a most-significant-first digit list in base 16 -/
def fromDigits (ds : List Nat) : Nat := ds.foldl (fun a d => a * 16 + d) 0

namespace Impl

/-- two's complement, least significant byte first, as `twos_complement_le` in num-bigint:
    invert every byte, add one with carry. -/
def negLE : Bool → Bytes → Bytes
  | _, [] => []
  | carry, b :: bs =>
    let nb := ~~~b
    if carry then
      let r := nb + 1
      r :: negLE (r == 0) bs
    else nb :: negLE false bs

/-- two's complement of a big-endian byte string (`twos_complement_be`) -/
def negBE (bs : Bytes) : Bytes := (negLE true bs.reverse).reverse

def nibbles : Bytes → List Nat
  | [] => []
  | b :: bs => b.toNat / 16 :: b.toNat % 16 :: nibbles bs

def stripZeros : List Nat → List Nat
  | 0 :: ds => stripZeros ds
  | ds => ds

/-- magnitude bytes → lowercase hex without leading zeros, "0" for zero -/
def hexMag (bs : Bytes) : Bytes :=
  match stripZeros (nibbles bs) with
  | [] => [48]
  | ds => ds.map hexDigit

def topBitSet : Bytes → Bool
  | [] => false
  | b :: _ => b ≥ 128

def signedHex (d : Bytes) : Bytes :=
  if topBitSet d then 45 :: hexMag (negBE d) else hexMag d

def mcHash (serverId secret pub : Bytes) : Bytes :=
  signedHex (Crypto.sha1 (serverId ++ secret ++ pub))

end Impl

namespace Spec

/-- most-significant-first base-16 digits of `n`, `[]` for 0 (fuel-structural: `n < 16^fuel`) -/
def hexDigitsF : Nat → Nat → List Nat
  | 0, _ => []
  | f + 1, n => if n = 0 then [] else hexDigitsF f (n / 16) ++ [n % 16]

def hexDigits (n : Nat) : List Nat := hexDigitsF n n

def hexStr (n : Nat) : Bytes := if n = 0 then [48] else (hexDigits n).map hexDigit

/-- two's-complement reading of a byte string -/
def toInt (d : Bytes) : Int :=
  if beNat d < 2 ^ (8 * d.length - 1) then (beNat d : Int) else (beNat d : Int) - 2 ^ (8 * d.length)

/-- the property's format: hex of the signed value, '-' when negative, no leading zeros -/
def signedHex (d : Bytes) : Bytes :=
  let n := beNat d
  let w := 8 * d.length
  if n < 2 ^ (w - 1) then hexStr n else 45 :: hexStr (2 ^ w - n)

/-- inverse direction used by `signedHex_parse`: read the text back to an integer -/
def hexVal (c : UInt8) : Option Nat :=
  if 48 ≤ c ∧ c ≤ 57 then some (c.toNat - 48)
  else if 97 ≤ c ∧ c ≤ 102 then some (c.toNat - 87) else none

def parseMag : Bytes → Option Nat
  | [] => none
  | cs => cs.foldl (fun acc c => match acc, hexVal c with
      | some a, some v => some (a * 16 + v)
      | _, _ => none) (some 0)

def parseSignedHex : Bytes → Option Int
  | 45 :: cs => match parseMag cs with
    | some n => some (-(Int.ofNat n))
    | none => none
  | cs => match parseMag cs with
    | some n => some (Int.ofNat n)
    | none => none

end Spec

end Passage.McHash
