import Passage.Driver.Common
import Passage.Driver.C11
import Passage.Driver.C09
import Passage.Driver.C13
import Passage.Driver.C18
import Passage.Driver.C05
import Passage.Driver.Conn
import Passage.Driver.C12
import Passage.Driver.C19
import Passage.Driver.C20
import Passage.Driver.Listener
import Passage.Driver.C03
import Passage.Driver.C10Json
import Passage.Crypto.SelfTest
/-
  passage-model: reads one request per line on stdin, prints one answer per line.
  Unknown or malformed requests answer `bad-op` (never a default value).
-/
open Passage.Driver

def handlers : List (List String → Option String) :=
  [C11.handle, C09.handle, C13.handle, C18.handle, C05.handle, Conn.handle, C12.handle, C19.handle, C20.handle, Listener.handle, C03.handle, C10Json.handle]

def dispatch (toks : List String) : String :=
  match handlers.findSome? (fun h => h toks) with
  | some out => out
  | none => "bad-op"

partial def loop (h : IO.FS.Stream) (out : IO.FS.Stream) : IO Unit := do
  let line ← h.getLine
  if line.isEmpty then return ()
  out.putStrLn (dispatch (tokens line))
  loop h out

/-- published vectors (tests, labelled so): crypto primitives and the three server-hash vectors -/
def selfTests : List (String × Bool) :=
  Passage.Crypto.selfTest ++
  [ ("sha1 abc", Passage.Crypto.sha1 (Passage.str "abc") ==
      (Passage.Hex.decode "xa9993e364706816aba3e25717850c26c9cd0d89d").getD []),
    ("mc hash Notch", Passage.McHash.Impl.mcHash (Passage.str "Notch") [] [] ==
      Passage.str "4ed1f46bbe04bc756bcb17c0c7ce3e4632f06a48"),
    ("mc hash jeb_", Passage.McHash.Impl.mcHash (Passage.str "jeb_") [] [] ==
      Passage.str "-7c9d5b0044c130109a5d7b5fb5c317c02b4e28c1"),
    ("mc hash simon", Passage.McHash.Impl.mcHash (Passage.str "simon") [] [] ==
      Passage.str "88e16a1019277b15d58faf0541e11910eb756f6") ]

def main (args : List String) : IO UInt32 := do
  if args == ["--selftest"] then
    let bad := selfTests.filter (fun t => !t.2)
    for t in bad do IO.eprintln s!"selftest FAILED: {t.1}"
    IO.println s!"selftest: {selfTests.length - bad.length}/{selfTests.length} vectors ok"
    return (if bad.isEmpty then 0 else 1)
  let out ← IO.getStdout
  loop (← IO.getStdin) out
  out.flush
  return 0
