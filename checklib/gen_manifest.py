#!/usr/bin/env python3
"""Regenerates MANIFEST.json from checklib/props.py (single source of truth for what is claimed)."""
import json, os, sys
sys.path.insert(0, os.path.dirname(os.path.abspath(__file__)))
from props import PROPS, NOT_YET  # noqa: E402

ROOT = os.path.dirname(os.path.dirname(os.path.abspath(__file__)))
checks = []
for pid in sorted(PROPS):
    c = PROPS[pid]
    checks.append({
        "property_id": pid,
        "quick_cmd": f"./check {pid} --tier quick",
        "thorough_cmd": f"./check {pid} --tier thorough",
        "evidence_file": f"evidence/{pid}.json",
        "replay_cmd_template": f"./check {pid} --replay {{path}}",
        "engine": "lean4-proof+correspondence",
        "level_claimed": {"category": "proof", "text": c["level_text"], "design_ref": c["design_ref"]},
        "level_note": c["level_note"],
        "technique": c["technique"],
    })
m = {
    "version": 1,
    "setup_cmd": "./setup.sh",
    "hooks": {
        "guard": "cargo feature `verif-hooks` (passage-protocol, passage-adapters-http); off by default",
        "enable": "harness/Cargo.toml depends on /repo's crates by path with features = [\"verif-hooks\"]",
        "baseline_off_cmd": "cd /repo && cargo test --workspace --no-fail-fast --offline",
        "source_commits": json.load(open(os.path.join(ROOT, "checklib/hook_commits.json"))),
        "add_only": True,
    },
    "engines": [{
        "name": "lean4-proof+correspondence",
        "path": "check",
        "serves_properties": sorted(PROPS),
        "kind_free_text": "Lean 4 theorems about hand-written executable models (lean/Passage), axiom-audited on every run; models tied to /repo by a differential correspondence harness (harness/, real code in-process) and by source facts re-extracted on every run (extract/)",
    }],
    "checks": checks,
    "not_applicable": [{"property_id": p, "reason": r} for p, r in sorted(NOT_YET.items()) if p not in PROPS],
    "notes": "See DESIGN.md. Known findings: known_findings.json.",
}
json.dump(m, open(os.path.join(ROOT, "MANIFEST.json"), "w"), indent=1)
print(f"MANIFEST.json: {len(checks)} checks, {len(m['not_applicable'])} not yet claimed")
