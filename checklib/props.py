"""Per-property configuration of ./check (what to build, which runner, how many cases)."""

TB_COMMON = [
    "Lean 4.33.0 kernel; axioms allowed in property theorems: propext, Classical.choice, Quot.sound (audited by #print axioms on every run)",
    "hand-written Lean model, tied to /repo by the correspondence run of this check (differential testing, bounded by generator quality)",
    "extract/extract.py and harness/ (Python/Rust written for this task)",
]

PROPS = {
    "C11": {
        "runner": "c11",
        "design_ref": "DESIGN.md §6 C11",
        "technique": "Lean 4 theorem (format spec for every digest, by induction on digit lists and carry) + differential correspondence of the executable model against minecraft_hash",
        "level_text": "Machine-checked proof that the modelled formatting (byte-wise two's complement, nibble digits, zero stripping) equals the signed-hex specification for every byte string of every length, that it parses back to the two's-complement value, and its charset; the model (incl. an executable SHA-1) is compared with the real minecraft_hash on searched edge digests and random inputs on every run, with an independent 160-bit-arithmetic oracle.",
        "level_note": "Trusted: Lean kernel; hand-written model tied by differential runs (not proved against the Rust text); SHA-1 in Lean validated by vectors only (theorems do not depend on it); num-bigint behaviour modelled.",
        "lean_modules": ["Passage.Props.C11"],
        "cases": {"quick": 3000, "thorough": 300000},
        "rule": "inputs = published vectors + digests searched by brute force for edge prefixes (00, 0000, 0x, ff, ffff, 8000, 7fff) + random (id, secret, key) triples varied independently; non-trivial = every case (each exercises sha1 and formatting); distinct = distinct request lines; added: the hash as received by a loopback session server from the real MojangAdapter (server ids of 0-64 characters, secret and key different)",
        "trusted_base": TB_COMMON + [
            "SHA-1 is executable Lean code validated by vectors and differential runs, not proved against FIPS 180-4; the format theorems hold for every digest and do not depend on it",
            "num-bigint's from_signed_bytes_be/to_str_radix are modelled (Impl.signedHex) and compared on every case",
        ],
        "assumptions": ["sha1 crate computes SHA-1", "the has-joined request uses this function's value (checked under C12)"],
    },
}
PROPS["C09"] = {
    "runner": "c09",
    "design_ref": "DESIGN.md §6 C09",
    "technique": "Lean 4 theorems: VarInt/VarLong round trip and layout for all 2^32/2^64 values (BitVec transliteration of the Rust loops), generic schema round trip by induction over field lists, extracted packet ids/field operations/enum tables = protocol table by decide; differential correspondence of the executable codec model on all 41 packet types",
    "level_text": "Machine-checked proofs over unbounded domains: writeVarint/writeVarlong (arithmetic shift + mask on BitVec 32/64) equal the LEB128 layout and are inverted by the readers for every value; for every schema and every well-formed value list decode(encode v ++ rest) = (v, rest); enum decoders accept exactly their range. The per-packet ids, read/write primitive sequences and enum tables are re-extracted from passage-packets on every run and proved equal to the protocol table the theorems are about. The executable model is compared with the real reader/writer on boundary-dense values of every packet type, truncations, bad enum ordinals and invalid UTF-8; an independent reference encoder in the harness judges layout and round trip.",
    "level_note": "Trusted: Lean kernel; the protocol table is a hand transcription (no network to consult the wiki); primitives' Rust bodies are modelled by hand and tied by differential runs; compound (NBT) text components: the network-NBT layout of strings, booleans and nested compounds is modelled (Codec/Nbt.lean, no root name) and compared with the real writer on generated trees; serde_json's parse of the text into that tree, numbers/lists inside components and NBT's modified UTF-8 beyond the BMP are not modelled; tokio's Cursor/Vec I/O.",
    "lean_modules": ["Passage.Props.C09", "Passage.Props.C09Nbt"],
    "cases": {"quick": 4000, "thorough": 400000},
    "rule": "VarInt/VarLong: every group boundary ±1, ±2^k±1, extremes, random with random magnitude; arbitrary ≤12-byte strings through the readers; per packet type boundary-dense field values (empty/multi-byte/long strings around VarInt group boundaries, integer boundaries, every enum ordinal, None/Some) encoded with the real writer and decoded back (1/3 with trailing bytes), truncations, enum ordinals outside the table, invalid UTF-8; non-trivial = every case except unit packets; distinct = distinct request lines; added: strings of 65535-98301 bytes; hand-made images with out-of-range ordinals or invalid UTF-8 must be refused (oracle); compound text components: generated trees (0-4 keys per level, nesting up to 3, strings with quotes/escapes/multi-byte characters/127-300 bytes, booleans) as the reason of a configuration Disconnect, bytes against the model and an independent reference, and decoded back",
    "trusted_base": TB_COMMON + [
        "protocol table (lean/Passage/Codec/Packets.lean) is a hand transcription of the Java-edition protocol",
        "compound (NBT) text components are not modelled (fastnbt oracle); string-tag form is proved",
    ],
    "assumptions": ["field values within protocol limits (WFv): strings < 2^31 bytes and valid UTF-8, text components in string form ≤ 65535 bytes"],
}
PROPS["C13"] = {
    "runner": "c13",
    "design_ref": "DESIGN.md §6 C13",
    "technique": "Lean 4 theorems by induction over arbitrary histories for any admission arithmetic satisfying two laws: per-window bound, interval bound, reject-consumes-nothing, idle readmission, per-key independence (simulation incl. cleanup), tracked-keys recency; differential correspondence of the exact-arithmetic model against the real RateLimiter under paused tokio time",
    "level_text": "Machine-checked proofs for every history, any number of keys, any limit >= 1 and duration > 0: (A) at most `limit` admitted per window start, (B) at most 2*limit admitted in any closed interval of one duration (non-decreasing times), (C) a rejected attempt leaves exactly the time-driven roll, (D) a bucket idle for two durations (or an unseen key) is admitted, (E) decisions for a key in any multi-key history equal a single-key limiter without cleanup on its own attempts, (F) right after every admitted attempt each tracked key attempted within the last four durations. The executable exact-arithmetic model is compared decision-by-decision and tracked-key-set-by-set (hook tracked_keys) with the real limiter on generated histories on and off the dyadic grid; an independent naive per-key oracle judges (A)(B)(D)(E)(F) on the real decisions. (G) Simultaneous arrivals: for every arithmetic, configuration and every order in which any number of attempts of any keys reach the limiter at one instant, each key is admitted exactly min(limit, its number of attempts) times, its first attempts (burst_order_independent); the runtime schedule that realises such an order against the real Listener is exercised by the C15 burst cases.",
    "level_note": "Trusted: Lean kernel; f32 admission arithmetic is abstracted by two laws (proved for the exact instance; IEEE f32 satisfies them for limit <= 2^24 by monotone rounding — argued, not proved; violated above: known finding); tokio paused clock; (C-strong: readmission 2 durations after the last ADMITTED attempt under exact arithmetic) is not proved yet.",
    "lean_modules": ["Passage.Props.C13"],
    "cases": {"quick": 1200, "thorough": 300000},
    "rule": "histories: 1..50 keys (thorough: ..2000), 1..300 attempts (thorough ..3000), six inter-arrival styles (one instant, sub-window, exact d/2d boundaries +-1 unit, multiples of d, mixed), limits 1..50, durations 1ns..hours; half on the dyadic grid (f32 exact), half off-grid (rounding ties within 2^-20 dropped and counted in runner_tail); plus saturation probes at limits 2^24 and 2^24+2; non-trivial = histories with at least one rejection or roll (every generated history with > 1 attempt); distinct = distinct request lines",
    "trusted_base": TB_COMMON + [
        "admission arithmetic abstracted by Arith laws L1/L2; f32 conformance for limit <= 2^24 is argued and tested, not proved",
        "tokio paused clock and Instant arithmetic",
    ],
    "assumptions": ["attempt times are non-decreasing (monotonic clock)", "1 <= limit <= 2^24 for the f32 implementation (above: KNOWN-FINDING)"],
}
PROPS["C18"] = {
    "runner": "c18",
    "design_ref": "DESIGN.md §6 C18",
    "technique": "Lean 4 theorems: chain fold = declarative eligibility spec (induction over the filter list), any = head, player_fill = max-below-capacity (fold invariant), soundness and completeness corollaries; differential correspondence against adapters built from configuration values",
    "level_text": "Machine-checked proofs for every filter chain, player, host verdict vector and target list: the sequential composition of the built-in filter adapters returns exactly the declaratively eligible targets in discovery order; the default strategy returns their head; player_fill returns an eligible target strictly below capacity such that no eligible target below capacity is fuller, and none iff there is none. Regex verdicts are arbitrary bits in the theorems. The executable model is compared with DynFilterAdapters/DynStrategyAdapter built from deserialised configuration values (aliases included) with verdict bits recorded from the real regex engine; a naive evaluator in the harness judges the property.",
    "level_note": "Trusted: Lean kernel; regex engine and UUID parsing are oracles (recorded verdicts); serde deserialisation of configuration; HashMap metadata modelled as an association list with unique keys; u32 parsing re-modelled (parseU32) and compared differentially.",
    "lean_modules": ["Passage.Props.C18"],
    "cases": {"quick": 5000, "thorough": 300000},
    "rule": "chains of 0..6 filters of all three kinds with/without host-name scope, all six rule operations over a small key/value alphabet (missing, non-numeric, signed, overflowing counts), allow/block lists by name, pattern and UUID (hyphenated and simple), both strategies with capacities 0..u32::MAX, 0..7 targets, both canonical and alias spellings of configuration keys; non-trivial = at least one filter; distinct = distinct request lines",
    "trusted_base": TB_COMMON + ["regex and uuid crates (verdicts recorded and handed to the model)", "serde configuration deserialisation"],
    "assumptions": ["metadata keys are unique per target (HashMap)"],
}
PROPS["C05"] = {
    "runner": "c05",
    "design_ref": "DESIGN.md §6 C05",
    "technique": "Lean 4 theorems by induction over arbitrary transport schedules for every byte-stream cipher (write_all/poll_write and poll_read stream continuity, plaintext pass-through, mid-connection switch, CFB8 dec∘enc = id for every keystream function); differential correspondence of the executable model with a Lean AES-128-CFB8 against the real CipherStream over a scripted transport",
    "level_text": "Machine-checked proofs quantified over every cipher state machine, every plaintext and every schedule of Pending / partial / full acceptance and of read sizes: the bytes the transport accepted are one continuous encryption of exactly the plaintext reported as written and the cipher state ends at the end of that stream, across consecutive write_all calls; reads surface the continuous decryption of what the transport produced; before the switch both are the identity; CFB8 decryption inverts encryption with equal end registers. The model's poll functions are compared with the real CipherStream (driven by write_all / read / read_exact over a scripted AsyncRead+AsyncWrite) byte for byte, the ciphertext being predicted by an AES-128-CFB8 written in Lean; a third CFB8 on the raw aes block function judges the property.",
    "level_note": "Trusted: Lean kernel; tokio's write_all/read_exact loops are modelled (writeAll/readAll) and tied by the differential runs; AES-128 in Lean validated by FIPS-197/SP800-38A vectors and differential runs, not proved; the cfb8/aes crates.",
    "lean_modules": ["Passage.Props.C05"],
    "cases": {"quick": 2500, "thorough": 60000},
    "rule": "sessions of 1..6 operations (write_all of 1..600 bytes (thorough ..4096) under schedules: one byte per write, whole buffer, 1-3, 1-16, random sizes, Pending interleaved, zero-length acceptance, schedules one byte short; reads via read and read_exact over chunks of 1/16/1..80 bytes with Pending), random 16-byte secrets, switch to ciphertext at a random operation or never; non-trivial = every session; distinct = distinct request lines; added: vectored writes (1-4 slices, one byte per poll); writes of 4096, 4097, 5000, 8193, 10000 bytes; a write abandoned while pending followed by other bytes of the same length; connection-level runs with the Encryption Response and the first encrypted frames in one segment",
    "trusted_base": TB_COMMON + ["AES-128 (Lean) validated by published vectors + differential runs only", "tokio write_all/read_exact loop semantics modelled"],
    "assumptions": ["the transport reports honestly how many bytes it accepted"],
}
PROPS["C06"] = {
    "runner": "c06",
    "design_ref": "DESIGN.md §6 C06",
    "technique": 'Lean 4 theorems over the L0 connection machine: order automaton invariant by induction over arbitrary input lists, absorption after the closing packet, exact status exchange, gates for Login Success and routing, silent end on unexpected ids; differential correspondence of the machine against the real Connection::listen',
    "level_text": "Machine-checked proofs for every configuration, environment and input list: the clientbound packets always form a prefix of a word of StatusResponse·Pong | CookieReq·CookieReq?·EncryptionRequest·LoginSuccess·KeepAlive*·(StoreCookie?·StoreCookie?·Transfer | Disconnect); nothing follows the closing packet; a Status Request is answered by exactly the service's answer and the Ping by one Pong; Login Success is only emitted by the step that received an Encryption Response whose token field decrypts to this run's verify token; discovery starts only in the step receiving Client Information, a state only Login Acknowledged leads to; in handshake/status/login phases any other packet id ends the run with no reply.",
    "level_note": "Trusted: Lean kernel; the L0 machine is hand-written and tied by differential runs; RSA, serde_json, IP text forms, clock and RNG are Env oracles (theorems hold for every Env); tokio select!/Interval behaviour at frame level; cryptographic strength only as explicit hypotheses.",
    "lean_modules": ["Passage.Props.C06"],
    "cases": {"quick": 1500, "thorough": 300000},
    "rule": 'scripts walking the legal exchange with random deviations: packets of every phase and direction, unknown ids, unknown next-states, bad enum ordinals, repeated and skipped packets, early EOF, extra status requests, ticks; all three intents; non-trivial = scripts longer than the handshake; distinct = distinct request lines',
    "trusted_base": TB_COMMON + [
        "L0 machine (lean/Passage/Conn) is a hand transliteration of Connection::listen at frame level; tied by differential runs of the real Connection over an in-memory pipe under paused tokio time with logging mock adapters",
        "Env oracles recorded from the real code and handed to the model: RSA PKCS#1 v1.5 decryption results, serde_json parse/serialise of cookies, textual IP forms, wall clock, keep-alive ids, verify token",
        "HMAC-SHA256 is computed by the Lean model itself (validated by RFC 4231 vectors), so tags are compared bit for bit",
    ],
    "assumptions": ["adapters awaited inline (status, authenticate, localize) return", "one input at a time reaches the handler (frame-level atomicity is C08's subject)"],
}
PROPS["C01"] = {
    "runner": "c01",
    "design_ref": "DESIGN.md §6 C01",
    "technique": "Lean 4 theorems: invariant (identity in use = vouched identity) preserved by every step of the L0 machine, grant outputs issued under the vouched identity for every run, origin of vouching (service verdict with the cipher's secret and server key after this run's token, or accepted cookie), no grant on failure; differential correspondence against the real Connection with mock authentication service",
    "level_text": "Machine-checked proofs for every environment (every service verdict, RSA outcome, token, cookie) and input list: every Login Success, every filter/strategy call and every issued authentication cookie carries exactly the identity vouched for on that connection; an identity becomes vouched only by the authentication service — asked with the claimed name, the decrypted shared secret (the one and only secret the cipher is keyed with) and the server's public key, after this run's verify token came back — or by a cookie meeting C02's conjuncts; on service failure, undecryptable fields or a foreign/stale token nothing is sent and the run ends; the claimed identity is overwritten.",
    "level_note": "Trusted: Lean kernel; the L0 machine is hand-written and tied by differential runs; RSA, serde_json, IP text forms, clock and RNG are Env oracles (theorems hold for every Env); tokio select!/Interval behaviour at frame level; cryptographic strength only as explicit hypotheses.",
    "lean_modules": ["Passage.Props.C01"],
    "cases": {"quick": 1200, "thorough": 300000},
    "rule": 'cross product of intents x encryption-response kinds (honest, wrong token, stale token, other RSA key, garbage ciphertexts, secrets of 0/15/17/32 bytes) x service verdicts (same identity, other name, other uuid, other properties, error) x with/without a valid cookie for a third identity, routed to completion; the client decrypts with the secret it chose; non-trivial = every scenario; distinct = distinct request lines',
    "trusted_base": TB_COMMON + [
        "L0 machine (lean/Passage/Conn) is a hand transliteration of Connection::listen at frame level; tied by differential runs of the real Connection over an in-memory pipe under paused tokio time with logging mock adapters",
        "Env oracles recorded from the real code and handed to the model: RSA PKCS#1 v1.5 decryption results, serde_json parse/serialise of cookies, textual IP forms, wall clock, keep-alive ids, verify token",
        "HMAC-SHA256 is computed by the Lean model itself (validated by RFC 4231 vectors), so tags are compared bit for bit",
    ],
    "assumptions": ["adapters awaited inline (status, authenticate, localize) return", "one input at a time reaches the handler (frame-level atomicity is C08's subject)"],
}
PROPS["C02"] = {
    "runner": "c02",
    "design_ref": "DESIGN.md §6 C02",
    "technique": 'Lean 4 theorems: skip <-> seven conjuncts on the transfer branch, identity from the cookie, reachable-state invariant (never skipped without Transfer intent and secret), enumerated negatives (short, altered tag without crypto hypotheses; altered body / other secret under named HMAC hypotheses; other IP; expired); differential correspondence with bit-exact HMAC in the model',
    "level_text": "Machine-checked proofs: authentication is skipped exactly when intent=Transfer, a secret is configured, the payload has >= 32 bytes, its first 32 bytes equal H(secret, rest), the rest parses as a cookie, names the client's IP and now <= min(ts+expiry, 2^64-1) — and then the identity is the cookie's; in every reachable state of every run a cleared flag implies Transfer intent and a secret; the flag is only cleared by that step; with the flag set Login Success requires the service's verdict, with it cleared the service is not consulted; every enumerated negative is rejected.",
    "level_note": "Trusted: Lean kernel; the L0 machine is hand-written and tied by differential runs; RSA, serde_json, IP text forms, clock and RNG are Env oracles (theorems hold for every Env); tokio select!/Interval behaviour at frame level; cryptographic strength only as explicit hypotheses.",
    "lean_modules": ["Passage.Props.C02"],
    "cases": {"quick": 1500, "thorough": 300000},
    "rule": 'per scenario one of: absent, empty, truncation at a random length, single-bit flip in the tag, single-bit flip in the body, tag under another secret, valid tag over non-JSON, valid tag over JSON of the wrong shape, 31- and 32-byte payloads, unmodified; x Login/Transfer x secret/none x IPv4/IPv6 same/other address x ages around expiry boundaries x expiries 0..u64::MAX; non-trivial = every scenario; distinct = distinct request lines',
    "trusted_base": TB_COMMON + [
        "L0 machine (lean/Passage/Conn) is a hand transliteration of Connection::listen at frame level; tied by differential runs of the real Connection over an in-memory pipe under paused tokio time with logging mock adapters",
        "Env oracles recorded from the real code and handed to the model: RSA PKCS#1 v1.5 decryption results, serde_json parse/serialise of cookies, textual IP forms, wall clock, keep-alive ids, verify token",
        "HMAC-SHA256 is computed by the Lean model itself (validated by RFC 4231 vectors), so tags are compared bit for bit",
    ],
    "assumptions": ["adapters awaited inline (status, authenticate, localize) return", "one input at a time reaches the handler (frame-level atomicity is C08's subject)"],
}
PROPS["C03"] = {
    "runner": "c03",
    "design_ref": "DESIGN.md §6 C03",
    "technique": 'Lean 4 theorems over the L0 machine: pipeline wiring equalities, transfer = choice and last, localized no-target disconnect, failure => nothing sent, Transfer only from the completion of selection, locale capture/stability, locale fallback chain spec; differential correspondence incl. the real FixedLocalizationAdapter',
    "level_text": "Machine-checked proofs for every environment: the filter call carries exactly discovery's answer and the strategy call exactly the filters' answer; a chosen target yields exactly one Transfer with its IP text and port as the last packet; no choice yields the Disconnect localized for the locale of this run's Client Information and no Transfer; any failure sends nothing; no other step ever emits a Transfer; the built-in localisation returns the entry of the first table along [locale, its '_'-prefixes longest first, default, its prefixes].",
    "level_note": "Trusted: Lean kernel; the L0 machine is hand-written and tied by differential runs; RSA, serde_json, IP text forms, clock and RNG are Env oracles (theorems hold for every Env); tokio select!/Interval behaviour at frame level; cryptographic strength only as explicit hypotheses.",
    "lean_modules": ["Passage.Props.C03"],
    "cases": {"quick": 1200, "thorough": 300000},
    "rule": 'routed logins with target lists over IPv4/IPv6/mapped addresses, ports 0/1/65535, duplicates, empty; filter/strategy verdicts subset, reorder, empty, non-member choice, none, error; locales de_DE, de, xx_YY, en_us, empty, a_b_c; mock localisation (argument capture) and the real FixedLocalizationAdapter with random tables; keep-alive traffic interleaved; non-trivial = every scenario; distinct = distinct request lines',
    "trusted_base": TB_COMMON + [
        "L0 machine (lean/Passage/Conn) is a hand transliteration of Connection::listen at frame level; tied by differential runs of the real Connection over an in-memory pipe under paused tokio time with logging mock adapters",
        "Env oracles recorded from the real code and handed to the model: RSA PKCS#1 v1.5 decryption results, serde_json parse/serialise of cookies, textual IP forms, wall clock, keep-alive ids, verify token",
        "HMAC-SHA256 is computed by the Lean model itself (validated by RFC 4231 vectors), so tags are compared bit for bit",
    ],
    "assumptions": ["adapters awaited inline (status, authenticate, localize) return", "one input at a time reaches the handler (frame-level atomicity is C08's subject)"],
}
PROPS["C10"] = {
    "runner": "c10",
    "design_ref": "DESIGN.md §6 C10",
    "technique": 'Lean 4 theorems: issue format/position, content under the JSON round-trip hypothesis, issue->accept round trip across two environments, no secret => no cookie, session cookie iff none presented; two-connection differential histories against the real Connection with independent HMAC',
    "level_text": "Machine-checked proofs: a freshly authenticated, routed player with a secret is sent before the Transfer tag||JSON with tag = H(secret, JSON) and JSON = ser(now, client address, authenticated identity, chosen target id); presenting it on a Transfer connection from the same IP within the expiry (second environment sharing only tag function, JSON library and configuration) clears the flag and yields the same identity; without secret, or after cookie authentication, no auth cookie is ever sent; a session cookie with the handshake's host and port is sent iff the client presented none.",
    "level_note": "Trusted: Lean kernel; the L0 machine is hand-written and tied by differential runs; RSA, serde_json, IP text forms, clock and RNG are Env oracles (theorems hold for every Env); tokio select!/Interval behaviour at frame level; cryptographic strength only as explicit hypotheses.",
    "lean_modules": ["Passage.Props.C10"],
    "cases": {"quick": 800, "thorough": 200000},
    "rule": 'two-connection histories: authenticate and get routed (identities, property lists with/without signature, target ids, IPv4/IPv6 clients, secrets of 0..100 bytes or none, with/without/null session cookie), then reconnect from another port of the same IP with exactly what was stored; non-trivial = every scenario; distinct = distinct request lines',
    "trusted_base": TB_COMMON + [
        "L0 machine (lean/Passage/Conn) is a hand transliteration of Connection::listen at frame level; tied by differential runs of the real Connection over an in-memory pipe under paused tokio time with logging mock adapters",
        "Env oracles recorded from the real code and handed to the model: RSA PKCS#1 v1.5 decryption results, serde_json parse/serialise of cookies, textual IP forms, wall clock, keep-alive ids, verify token",
        "HMAC-SHA256 is computed by the Lean model itself (validated by RFC 4231 vectors), so tags are compared bit for bit",
    ],
    "assumptions": ["adapters awaited inline (status, authenticate, localize) return", "one input at a time reaches the handler (frame-level atomicity is C08's subject)"],
}
PROPS["C04"] = {
    "runner": "c04",
    "design_ref": "DESIGN.md §6 C04",
    "technique": "Lean 4 theorems: decoders total with explicit panic outcome never reached (induction over schemas), inner lengths bounded by received bytes, illegal frame length refused at the prefix, receive buffer bounded by 5+max for every input list, EOF terminates, finish => done; extracted panic-site table must be a subset of the accounted sites (decide); differential byte-level runs with task-panic capture and a counting allocator",
    "level_text": "Machine-checked proofs for every byte sequence and every input interleaving: no decoder of any packet schema can reach a panic outcome (negative, zero, huge, off-by-one inner lengths, over-long VarInts, invalid UTF-8, bad ordinals all yield error values); a length-prefixed field is only produced from bytes actually present; a frame whose declared length is <= 0 or > max ends the connection at the byte completing the prefix with nothing buffered; the receive buffer never exceeds 5 + max bytes in any reachable state; EOF finishes the handler in that step and it is silent afterwards; whenever a result is reported the connection is done. Every syntactic panic/allocation site of the anchored files is re-extracted on every run and must be in the accounted list. The real handler is run on mutated transcripts with panic capture and the largest single allocation measured.",
    "level_note": "Trusted: Lean kernel; L1 hand-written, tied by differential runs; panic-site patterns of the extractor; std/tokio Vec growth policy (bound 4*(max+5)+64KiB per single allocation in the oracle); third-party crates covered by runs only.",
    "lean_modules": ["Passage.Props.C04"],
    "cases": {"quick": 1600, "thorough": 300000},
    "rule": "legal transcripts (all intents, cookies, long hosts/names) with one mutation: outer length -1/MIN/0/max/max+1/2^31-1/off-by-one/over-long 5-byte VarInt; first inner length -1/MIN/2^31-1/2^30/remaining(+1)/70000; truncation at a random offset + EOF; invalid UTF-8; enum ordinals out of range; garbage RSA blocks and secrets of 0/1/15/17/100 bytes; random bytes before and after the cipher switch; EOF at any step; max frame 64..100000; non-trivial = every mutated scenario; distinct = distinct request lines; added after the seeded-change rounds: Encryption Responses carrying a prefix (0, 1, 16, 31 bytes) or an extension of the issued token; Transfer-intent cookies that are valid / expired / bound to another address / signed with another secret, whose name and UUID overlap the claim in every combination; added after the seeded-change rounds: tag alterations a weakened comparison would accept (same bit in two bytes, bytes swapped, one byte at 0/15/16/31, zeroed tag, byte inserted), applied to otherwise acceptable cookies; cookie/claim identity overlaps; up to six cases per run in which the client holds the cookie back for 2.6 s of real time across its expiry; oracle: the cookie is only ever requested on a Transfer with a configured secret, and the authentication service is asked about the claimed identity; added: strategy must have been consulted for every Transfer; messages and locales with multi-byte characters; the built-in localisation model is compared with the real adapter on four calls per table set (c03.loc); added: locales with multi-byte characters; half of the legal runs end in a message of the REAL built-in localisation; a 60 s real-time watchdog reports a handler that spins; added: unknown next-state ordinals (0, 4, 5, -1, 127, 128, 255, i32::MAX/MIN); every invalid Encryption Response kind, also on connections presenting a valid cookie; added: configured expiries up to u64::MAX; the cookie rules are judged on the second (cookie-authenticated) connection too",
    "trusted_base": TB_COMMON + [
        "L1 = frame assembler + L0 machine, hand transliteration of receive_packet/next_frame/send_packet; tied by differential byte-level runs of the real Connection (segmented writes, throttled transport, counting allocator, catch of task panics)",
        "Env oracles as for the frame-level properties; tokio select!/take/read_buf semantics modelled",
        "panics inside third-party crates (rsa, serde_json, fastnbt, tokio) are covered by the differential runs only",
    ],
    "assumptions": ["adapters awaited inline return", "allocation bound is checked per single allocation request"],
}
PROPS["C08"] = {
    "runner": "c08",
    "design_ref": "DESIGN.md §6 C08",
    "technique": "Lean 4 theorems: byte-level connection refines the frame-level machine under frameLevel (induction over arbitrary byte/event interleavings), segmentation independence, events commute with non-completing bytes, send path delivers whole frames in order under any partial-write/cancellation pattern; differential runs with every-frame splits, byte-by-byte delivery, events inside frames and prefixes, throttled writes",
    "level_text": "Machine-checked proofs for every interleaving of bytes, ticks, adapter completions and EOF: the byte-level connection's packets, adapter calls and result equal those of the frame-level machine on the schedule in which each frame is placed where its last byte arrived (which never mentions segmentation); schedules delivering the same bytes with events at the same byte positions behave identically; a tick/completion/EOF commutes with any byte that does not complete a frame; on the send side, after any sends under any partial acceptance and cancellation pattern, accepted ++ pending is exactly the concatenation of whole frames in order. The real Connection is run on every variant (single split per frame, byte-by-byte, multi-split, events inside frames and inside length prefixes, throttled transport with futures dropped mid-write) and compared with the model and with the unsegmented run of the same scenario.",
    "level_note": "Trusted: Lean kernel; L1 hand-written (the handler never reads beyond the frame it assembles, so byte-at-a-time consumption is its observable semantics) and tied by differential runs; tokio select! drops the losing future (modelled as cancel); duplex pipe and paused clock.",
    "lean_modules": ["Passage.Props.C08"],
    "cases": {"quick": 200, "thorough": 40000},
    "rule": "base scenarios (status, login, transfer with cookie, long hosts/names so that length prefixes have two bytes, keep-alive traffic and ignorable frames during routing) x variants: one split per frame at a random offset, one byte at a time, random multi-splits, adapter completion or tick moved inside the preceding frame (body) or inside its length prefix, throttled writes (1-5 bytes then Pending) with the sending future dropped by an adapter completion; non-trivial = every variant other than the unsegmented base; distinct = distinct request lines; added classes: coalesced (runs of frames in one write, cipher switch inside), completion-swapped (an ignored packet just after instead of just before an adapter completion), tick-in-pause (client pauses across a tick before Login Acknowledged / Client Information), cancelled-unanswered Keep Alive; an ignorable packet in every routing stage",
    "trusted_base": TB_COMMON + [
        "L1 = frame assembler + L0 machine, hand transliteration of receive_packet/next_frame/send_packet; tied by differential byte-level runs of the real Connection (segmented writes, throttled transport, counting allocator, catch of task panics)",
        "Env oracles as for the frame-level properties; tokio select!/take/read_buf semantics modelled",
        "panics inside third-party crates (rsa, serde_json, fastnbt, tokio) are covered by the differential runs only",
    ],
    "assumptions": ["the transport delivers the client's bytes in order", "adapters awaited inline return"],
}
PROPS["C12"] = {
    "runner": "c12",
    "design_ref": "DESIGN.md §6 C12",
    "technique": "Lean 4 theorems: form-urlencoding is inverted by server-side decoding (structural automaton), contains no delimiter, the parsed query is exactly [(username, name), (serverId, hash)] and the path is constant, for every byte string; differential correspondence of the request target captured from the real MojangAdapter by a loopback mock session server (verif-hooks base URL override)",
    "level_text": "Machine-checked proofs for every claimed name (any byte string) and every hash: decoding the encoded name returns the name; the encoding contains none of & = # ? / or space; parsing the query as a server does (split on &, first =, form-decode) yields exactly one username equal to the name and one serverId equal to the hash; the target is the constant path, one ?, then that query. The real adapter is driven with hostile names against a plain-HTTP mock on loopback and the raw request line is compared with the model's target byte for byte; the hash is the C11 model's. Non-2xx and non-JSON replies must be errors.",
    "level_note": "Trusted: Lean kernel; the url/reqwest crates' query serialisation is modelled (Url.enc) and compared on every case; the hook replaces scheme and authority of the session URL only (path and query untouched); hyper's request-line formatting.",
    "lean_modules": ["Passage.Props.C12"],
    "cases": {"quick": 1200, "thorough": 300000},
    "rule": "names from a list of delimiter/injection strings (&, =, #, ?, %, +, space, /, control characters, %26 look-alikes, multi-byte UTF-8, full injection attempts), pairs of them, random printable ASCII, ordinary names; server ids incl. ones with delimiters; random secrets and key encodings; replies profile/204/500/non-JSON; non-trivial = names with a non-alphanumeric character; distinct = distinct request lines; added: expected hash from an independent reference; eleven server ids configured through the environment layer (Config::read -> DynAuthenticationAdapter::from_config); 24+ connection-level logins presenting cookies of another name (claimed-name rule)",
    "trusted_base": TB_COMMON + ["url/reqwest/hyper request construction (captured request line compared with the model)", "verif-hooks: PASSAGE_VERIF_SESSION_BASE replaces scheme+authority only"],
    "assumptions": ["the session server parses the query as application/x-www-form-urlencoded"],
}
PROPS["C19"] = {
    "runner": "c19",
    "design_ref": "DESIGN.md §6 C19",
    "technique": "Lean 4 theorems over an abstract IP type with printer/parser: Target -> wire -> Target round trip, acceptance iff (address present, host parses, port <= 65535), malformed => error, metadata map = last entry per key, request faithfulness; differential runs of the real gRPC adapters against an in-process tonic mock generated from the repository's .proto files",
    "level_text": "Machine-checked proofs for every IP type whose parser inverts its printer: fromWire (toWire t) = t (identifier, IPv4/IPv6 address, port, metadata); a wire target converts exactly when its address is present, its host is an IP address and its port fits 16 bits, and then carries the reply's own values; anything else is an error; the Select request carries toWire of every candidate in order and the player, uuid, client and server addresses unchanged; a candidate echoed by the service comes back identical. The real GrpcDiscoveryAdapter/GrpcStrategyAdapter are run against a tonic mock (requests captured, replies scripted) on targets in every textual IP form, every port class, duplicate/empty metadata and malformed replies.",
    "level_note": "Trusted: Lean kernel; std::net IpAddr Display/FromStr round trip is a recorded hypothesis (verdicts recorded per host string and handed to the model); tonic/prost transport; HashMap iteration order canonicalised by sorting.",
    "lean_modules": ["Passage.Props.C19"],
    "cases": {"quick": 1200, "thorough": 300000},
    "rule": "discovery replies of 0..4 targets with IPv4/IPv6 hosts in compressed, full, mapped, upper-case, loopback, unspecified forms, ports 0/1/25565/65535, metadata with duplicates and empty strings, one malformed entry in a third of the replies (missing address, non-IP host incl. bracketed and zone forms, port > 65535); strategy calls with 0..4 candidates, replies: echo of a candidate, none, foreign or malformed target, service error; non-trivial = every call with at least one target; distinct = distinct request lines; a quarter of the calls go through the adapters as the application builds them (configuration value -> DynDiscoveryAdapter / DynStrategyAdapter::from_config)",
    "trusted_base": TB_COMMON + ["std::net IP text round trip (recorded hypothesis)", "tonic/prost encode-decode of the messages"],
    "assumptions": ["parseIp (showIp a) = some a"],
}
PROPS["C20"] = {
    "runner": "c20",
    "design_ref": "DESIGN.md §6 C20",
    "technique": "Lean 4 theorem by induction over arbitrary watch-event histories: the cache reducer (replace/add/swap_remove, atomic re-list) refines the Kubernetes object store — cached targets have unique identifiers and membership is exactly 'conversion of the latest observed object of that name, Ready or Allocated'; differential runs of the real AgonesDiscoveryAdapter against a loopback mock Kubernetes API",
    "level_text": "Machine-checked proof for every history of Apply (ADDED/MODIFIED), Delete and Init/InitApply*/InitDone (list and re-list) events and every address parser: after the history the cache has unique identifiers and contains a target exactly when it is the conversion (name, parsed status.address, FIRST port, metadata with state, counters, lists, labels, annotations in override order) of the latest observed GameServer of that name and that server is Ready or Allocated; deletions, state changes, objects that become unconvertible and objects missing from a completed re-list are not offered. The real adapter is driven through kube's watcher by a mock API server (list, chunked watch stream with ADDED/MODIFIED/DELETED/BOOKMARK lines, 410 Gone followed by a re-list); discover() snapshots are taken at sentinel objects and compared with the model and with an object-store oracle.",
    "level_note": "Trusted: Lean kernel; kube-runtime's translation of list/watch HTTP traffic into watcher::Event values (the model takes Events; the harness translates by the documented list-watch contract); IpAddr::from_str verdicts recorded; HashMap metadata modelled as association list with insert-overrides; timing: snapshots wait for a sentinel (3 s / 8 s for re-lists).",
    "lean_modules": ["Passage.Props.C20"],
    "cases": {"quick": 40, "thorough": 600},
    "rule": "histories over four GameServers: random initial list, 1..9 events (thorough ..24) of ADDED/MODIFIED (states Ready, Allocated, Shutdown, Scheduled, Unhealthy, Reserved, Creating; unconvertible objects: no ports, bad address, no status; counters, lists, labels incl. a label named state, annotations), DELETED, BOOKMARK, and in some histories a 410 Gone with a re-list that omits/changes objects; a sentinel object after every event fixes the snapshot point; non-trivial = every history; distinct = distinct request lines; every other history drives the adapter built by the application factory (DynDiscoveryAdapter::from_config: bookmarks, pages of 500)",
    "trusted_base": TB_COMMON + ["kube-runtime watcher: HTTP list/watch -> Event translation (documented contract)", "std::net IP parsing (recorded verdicts)"],
    "assumptions": ["one namespace or unique names across namespaces (identity is metadata.name; see DESIGN §5.2)"],
    "timeout": {"quick": 1800, "thorough": 14400},
}
PROPS["C07"] = {
    "runner": "c07",
    "design_ref": "DESIGN.md §6 C07",
    "technique": "Lean 4 theorems over the L0 machine: exact behaviour of a tick (send one Keep Alive / timeout Disconnect), Keep Alive only when none outstanding, outstanding id cleared only by a frame with the same id, MissedKeepAlive only from a tick with one outstanding, and by induction over arbitrary tick/completion sequences a prompt client is never dropped; extracted period = 16; differential runs under virtual time with per-adapter latencies and echo policies, timestamps judged by an independent oracle",
    "level_text": "Machine-checked proofs for every environment and state: in the configuration phase a tick with nothing outstanding sends exactly one Keep Alive (hence consecutive Keep Alives are one period apart, the first within one period), a tick with one outstanding sends the localized timeout Disconnect and ends with MissedKeepAlive; a Keep Alive is never sent while one is outstanding; the outstanding id is cleared only by a configuration-phase frame and kaEcho clears only the SAME id (wrong, duplicate, unsolicited echoes change nothing); MissedKeepAlive has no other cause (for environments whose services report their own errors); and for EVERY sequence of ticks and adapter completions — any backend latencies — a client echoing each Keep Alive on receipt is never dropped. The period constant is re-extracted from the source. The real Connection is run under tokio virtual time with latencies of 0..4 periods per adapter, Client Information at 0..40 s and echo policies prompt/delayed/late/never/wrong id/duplicate/unsolicited; packet timestamps are checked against K1-K4.",
    "level_note": "Trusted: Lean kernel; tokio Interval semantics (period, first tick immediate, Skip) are modelled as one tick input per period while the handler waits for input and tied by the virtual-time runs; inline-awaited adapters return promptly; keep-alive ids distinct (elapsed milliseconds).",
    "lean_modules": ["Passage.Props.C07"],
    "cases": {"quick": 400, "thorough": 100000},
    "rule": "login to the configuration phase, then a timeline: Client Information at 50 ms / 5 s / 20 s / 40 s, discovery/filter/strategy latencies from {0, 3, 17, 33, 70 s} (thorough up to 40 periods), per Keep Alive an echo policy (prompt +150 ms, delayed 8 s / 15.7 s, duplicate, and in 40% of scenarios one Keep Alive late +16.15 s / never / wrong id), optional unsolicited echo; events at ms offsets away from tick instants; non-trivial = every scenario with at least one tick; distinct = distinct request lines; added: a Keep Alive written a few bytes at a time across an adapter completion (back-pressure) and never answered must time out as without back-pressure",
    "trusted_base": TB_COMMON + ["tokio Interval/paused-clock semantics (ticks delivered one per period by the harness, as under real time)", "Env oracles as for the frame-level properties"],
    "assumptions": ["the client reads what it is sent (no back-pressure)", "EnvSane: backend services never report MissedKeepAlive themselves"],
}

TB_LISTENER = TB_COMMON + [
    "structure facts of listener.rs / lib.rs (select! branch order and `biased`, what is awaited before tracker.spawn, which waits sit under which timeout, builder chains) are re-extracted by pattern matching in extract/extract.py on every run; a rewrite the patterns do not recognise yields `none` or `false` and fails the instantiation theorem (reported, never assumed)",
    "tokio (select!, timeout_at, TaskTracker, CancellationToken), the kernel's TCP accept queue and real time: modelled as interleavings / instants and sampled by the loopback runs (tolerance 350 ms)",
]
PROPS["C14"] = {
    "runner": "c14",
    "design_ref": "DESIGN.md §6 C14",
    "technique": "Lean 4 theorems over the plumbing and deadline models, for every configuration and every client timing: with both hops present each connection runs under exactly the operator's frame limit, cookie expiry, secret and timeout (composed with the C04/C02 theorems of the connection machine), and with one deadline from the accept covering the PROXY header wait and the protocol the server closes within the timeout whatever the client withholds; both instantiated by `decide` at structure facts re-extracted from listener.rs and lib.rs; differential runs against passage::start(Config) and the real Listener on loopback TCP",
    "level_text": "Machine-checked proofs: for every Plumbing with all hops present and every Config, the connection's configuration is exactly (auth_secret, auth_cookie_expiry, max_packet_length, timeout) — and then C04's refusal-at-the-prefix theorem and C02's expiry/address theorem hold at the OPERATOR's values; every missing hop is observable for some configuration; for every Deadline structure with the header wait and the protocol under one deadline measured from the accept, and every client timing (header never / at any instant, protocol never finishing / finishing at any instant) the close instant exists and is ≤ timeout, a client that finishes in time is not cut short, and every missing deadline is observable. The plumbing and deadline facts of the current source are re-extracted each run and the instantiation theorems re-proved. Real runs: servers started from a Config value by passage::start on loopback; probes declare frame lengths around the configured and the default limit, present cookies aged around the configured and the default expiry signed with the configured or another secret, and stay silent / drip one byte every 40 ms / stop after Login Start / sit in the configuration phase (gated backend) / withhold or delay the PROXY header; close instants are measured from the accept.",
    "level_note": "Partial by nature: the timers are tokio's and the clock is real — the model carries which waits are under which deadline; elapsed times are sampled with 350 ms tolerance. Trusted: Lean kernel; extraction patterns; cookie ages kept ≥ 5 s from the boundary; the keep-alive-for-ever client (first Keep Alive after 16 s) runs in the thorough tier only.",
    "lean_modules": ["Passage.Props.C14"],
    "cases": {"quick": 36, "thorough": 1500},
    "rule": "one third limit probes (configured max from {64..100000}, declared length max-1/max/max+1/10000/10001/random), one third cookie probes (configured expiry from {30, 600, 21600, 100000} s, age around it and around the default, 1 in 4 with a foreign secret), one third deadline probes (timeout 1 s / 2 s; PROXY off: silent, drip, after Login Start, in configuration with a gated backend, or a finishing status client; PROXY on: header withheld, partial header, header after 800 ms then silent / login / configuration / finishing); thorough adds two 18–20 s keep-alive-answering clients; every case is non-trivial; distinct = distinct request lines; added fixed probes: no secret configured (empty-key cookie), the server-issued cookie 1 s / 4 s later under a 600 s / 2 s expiry, idle after a completed status exchange",
    "trusted_base": TB_LISTENER,
    "assumptions": ["loopback latency and scheduling noise stay below the 350 ms tolerance"],
    "timeout": {"quick": 1800, "thorough": 7200},
}
PROPS["C15"] = {
    "runner": "c15",
    "design_ref": "DESIGN.md §6 C15",
    "technique": "Lean 4 theorems over the admission model for every limiter configuration, arithmetic and arrival history: served ⇔ effective address exists and the limiter admits it; the limiter state moves only by its own enqueue on the effective address; connections without a valid header are closed unserved and are invisible to every other connection's verdict (history-deletion theorem by induction); the limiter's view is the (effective address, time) subsequence; call order and arguments instantiated at re-extracted facts; differential runs of the real Listener on loopback with PROXY v1/v2 headers from several peers",
    "level_text": "Machine-checked proofs for every limiter configuration and arithmetic (reusing the C13 limiter model), every arrival history and both PROXY settings: a connection is served under address a exactly when its effective address is a (announced source with a valid header, the TCP peer for LOCAL/UNKNOWN headers or with PROXY off) and the limiter admits a; the limiter's successor state is its own enqueue result on a; an invalid header yields closed-unserved and leaves the limiter untouched; over whole histories the served/refused verdicts equal those of the history with all invalid-header connections deleted, and equal the limiter run on the sequence of effective addresses. For the header parser model: a first byte other than 'P' / CR is refused at once; a disabled version is refused; the v2 header a load balancer writes for TCP/IPv4 or TCP/IPv6 announces exactly its SOURCE octets and port for every address, port and trailing bytes; LOCAL announces nothing; the v1 line `PROXY TCP4 src dst sport dport CRLF` announces the parsed src and sport for every text std::net accepts. The facts that the limiter is consulted with client_addr.ip() before Connection::new and that the connection receives that same address are re-extracted. Real runs: sequences of 4–14 connections from 127.0.0.1–3 with headers from a 14-entry menu (v1 TCP4/TCP6/UNKNOWN, v2 PROXY TCP4/TCP6/LOCAL, same source through different peers, IPv4-mapped IPv6, absent, malformed, unknown family, bad version, disabled version); each verdict (status reply / closed with zero bytes) and the address seen by the status adapter are compared with the model and with a second RateLimiter instance; optional login checks the address seen by authentication/filter/strategy adapters and inside the issued cookie. Burst cases: 96 connections of one address released together (barrier) against the Listener on eight runtime workers, PROXY on and off; the multiset of outcomes must be the one of the sequential model (exactly the budget served, everything else turned away) — the order-independence this relies on is theorem C13.burst_order_independent.",
    "level_note": "Trusted: Lean kernel; the PROXY parser (crate proxy-header 0.1.2) is modelled (greeting, version gate, v2 command/family/length, v1 field splitting and decimal ports, 107-byte cap) and the model classifies the raw first segment of every connection itself; only std::net's text-to-address conversion for v1 is recorded from the real code and handed to the model; limiter window 3600 s (20 s through passage::start) so all arrivals share one window (the limiter's time behaviour is C13's subject).",
    "lean_modules": ["Passage.Props.C15", "Passage.Props.C15Proxy"],
    "cases": {"quick": 40, "thorough": 1500},
    "rule": "random PROXY setting (on 3 in 4; allowed versions v1+v2 / v1 / v2), limiter off (1 in 5) or limit 1–3, 4–14 sequential connections each from one of three loopback peers with a header drawn from three hot menu entries (2 in 3) or the whole menu, 1 in 3 with a final full login; non-trivial = every history; distinct = distinct request lines; added: a quarter of the histories through passage::start(Config) (20 s window, 60 ms pauses); limit 0; a turned-away socket must be released (further writes fail); the header class is computed by the PROXY parser model from the raw first segment",
    "trusted_base": TB_LISTENER + ["std::net Ipv4Addr/Ipv6Addr::from_str (verdicts on the address texts recorded from the real code); crate proxy-header is modelled and compared on every connection's raw first segment"],
    "assumptions": ["connections arrive one after another (each verdict awaited) so the arrival order is defined"],
    "timeout": {"quick": 1800, "thorough": 14400},
}
PROPS["C16"] = {
    "runner": "c16",
    "design_ref": "DESIGN.md §6 C16",
    "technique": "Lean 4 theorem by induction over arbitrary interleavings of the listener model (arrivals, accept-loop steps, client inputs, task completions, stop): for every await structure in which no client input is awaited before the per-connection task is spawned the accept loop is never blocked on a client, an arrival is accepted by the next loop step, and one connection's inputs never change another's task; instantiated by `decide` at the structure re-extracted from listener.rs; loopback runs measure a well-behaved client's status latency while others stall at every stage",
    "level_text": "Machine-checked proofs for every interleaving: if the skeleton awaits no client input before tracker.spawn, then in every reachable state the loop is running, stopped or returned — never waiting on a connection; with a non-empty backlog and no stop pending the next loop step spawns the head connection's task; clientInput/taskFinish of connection c leave every other connection's task unchanged. The skeleton of the current source is re-extracted and the hypothesis re-proved each run; a pinned witness shows the inline-header skeleton blocks a later client for ever. Real runs: 0–4 connections stalled before the PROXY header, inside it, mid-frame, after Login Start, after the Encryption Request, in the configuration phase without answering (gated backend), or after 4 KiB of junk, with PROXY and limiter on/off; then a well-behaved client's status exchange must complete within 1 s (connection timeout 4 s).",
    "level_note": "Partial by nature: the proof is about the await structure; tokio's scheduler fairness, the kernel accept queue and CPU starvation are outside it and sampled by the real runs.",
    "lean_modules": ["Passage.Props.C16"],
    "cases": {"quick": 40, "thorough": 1200},
    "rule": "PROXY on 2 in 3, limiter on 1 in 2, 0–4 stalled clients each at a random stage of the menu for that setting; non-trivial = at least one stalled client; distinct = distinct stage lists; added stages: half-closed mid-frame, burst of 24 connect-and-reset, client that requests a 200 KB status with a 1 KB receive window and never reads; limiter budget 2; idle gap longer than the (1 s) timeout before the well-behaved client; CPU burnt by the server thread while every connection is stalled must stay below 200 ms per 300 ms; one case in a child process with 160 descriptors: a connection that cannot be accepted for want of a descriptor, then a well-behaved client (stalled=fd-exhaustion)",
    "trusted_base": TB_LISTENER,
    "assumptions": ["a runtime worker is available to the accept loop (no CPU starvation)"],
    "timeout": {"quick": 1800, "thorough": 14400},
}
PROPS["C17"] = {
    "runner": "c17",
    "design_ref": "DESIGN.md §6 C17",
    "technique": "Lean 4 theorems by induction over arbitrary interleavings of the listener model: with the stop branch polled first no connection is ever accepted after the stop request (ghost list stays empty), the stop request changes no task and disables none of their steps, and with the tracker awaited listen() returns only in states where every spawned task is done (and can return once they are); instantiated by `decide` at the re-extracted structure; loopback runs race the stop signal against in-flight sessions and new arrivals, including the schedule where stop and arrival are both pending when the loop runs",
    "level_text": "Machine-checked proofs for every interleaving: stopBiased ⇒ acceptedAfterStop = [] in every reachable state; requestStop leaves tasks and their enabled steps unchanged; waitsTracker ⇒ (loop = returned ⇒ all tasks done), and from stopped with all tasks done one step returns. The select! branch order / `biased`, tracker.close() and tracker.wait().await are re-extracted each run. Real runs: 0–4 in-flight clients (connected and silent; paused after Login Start and cooperating after the stop; in configuration waiting for a backend that answers at once / 300 / 600 ms after the stop), stop requested, 0–2 late connections probed for a status reply, then: every cooperating client received its Transfer, no late connection was served, listen() returned, and not before the last session ended. One case per run repeats 16 times (64 thorough) the schedule 'cancel(); connect(); yield' on a current-thread runtime that polls the I/O driver every tick, so the accept loop next runs with both branches ready.",
    "level_note": "Partial by nature: interleavings are modelled at the granularity of awaits; the kernel may complete the TCP handshake of a late connection (not served means never accepted); timing by real clock.",
    "lean_modules": ["Passage.Props.C17"],
    "cases": {"quick": 24, "thorough": 600},
    "rule": "the race schedule first, then random cases: 0–4 in-flight clients with stages from {accepted, mid-login, backend, backend, transfer}, 0–2 late connections, backend opening 0/300/600 ms after the stop; connection timeout 2 s; non-trivial = every case with an in-flight client or a late connection; distinct = distinct request lines; added: PROXY on with a client whose header is outstanding at the stop; the same Listener started and stopped once before (restart=1) and started again afterwards while late clients keep waiting (again=1); one 15 s-timeout case with a backend answering 11.5 s after the stop; passage::start stopped by a real SIGINT mid-login (c17.app); one case in a child process with 160 descriptors: an un-acceptable connection during the drain (c17.fd)",
    "trusted_base": TB_LISTENER,
    "assumptions": ["in-flight clients cooperate after the stop (those that do not are bounded by the connection timeout)"],
    "timeout": {"quick": 1800, "thorough": 14400},
}

# properties not claimed yet (kept current; the reason is the honest status)
NOT_YET = {f"C{i:02d}": "check not built yet in this round (planned per DESIGN.md §9); no claim is made until its check runs green" for i in range(1, 21)}
