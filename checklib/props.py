"""Per-property configuration of ./check (what to build, which runner, how many cases)."""

TB_COMMON = [
    "Lean 4.33.0 kernel; axioms allowed in property theorems: propext, Classical.choice, Quot.sound (audited by #print axioms on every run)",
    "hand-written Lean model, tied to /repo by the correspondence run of this check (differential testing, bounded by generator quality)",
    "extract/extract.py and harness/ (Python/Rust written for this task)",
]

PROPS = {
    "C11": {
        "runner": "c11",
        "design_ref": "DESIGN.md §6 C11",
        "technique": "Lean 4 theorem (format spec for every digest, by induction on digit lists and carry) + differential correspondence of the executable model against minecraft_hash",
        "level_text": "Machine-checked proof that the modelled formatting (byte-wise two's complement, nibble digits, zero stripping) equals the signed-hex specification for every byte string of every length, that it parses back to the two's-complement value, and its charset; the model (incl. an executable SHA-1) is compared with the real minecraft_hash on searched edge digests and random inputs on every run, with an independent 160-bit-arithmetic oracle.",
        "level_note": "Trusted: Lean kernel; hand-written model tied by differential runs (not proved against the Rust text); SHA-1 in Lean validated by vectors only (theorems do not depend on it); num-bigint behaviour modelled.",
        "lean_modules": ["Passage.Props.C11"],
        "cases": {"quick": 3000, "thorough": 300000},
        "rule": "inputs = published vectors + digests searched by brute force for edge prefixes (00, 0000, 0x, ff, ffff, 8000, 7fff) + random (id, secret, key) triples varied independently; non-trivial = every case (each exercises sha1 and formatting); distinct = distinct request lines",
        "trusted_base": TB_COMMON + [
            "SHA-1 is executable Lean code validated by vectors and differential runs, not proved against FIPS 180-4; the format theorems hold for every digest and do not depend on it",
            "num-bigint's from_signed_bytes_be/to_str_radix are modelled (Impl.signedHex) and compared on every case",
        ],
        "assumptions": ["sha1 crate computes SHA-1", "the has-joined request uses this function's value (checked under C12)"],
    },
}
PROPS["C09"] = {
    "runner": "c09",
    "design_ref": "DESIGN.md §6 C09",
    "technique": "Lean 4 theorems: VarInt/VarLong round trip and layout for all 2^32/2^64 values (BitVec transliteration of the Rust loops), generic schema round trip by induction over field lists, extracted packet ids/field operations/enum tables = protocol table by decide; differential correspondence of the executable codec model on all 41 packet types",
    "level_text": "Machine-checked proofs over unbounded domains: writeVarint/writeVarlong (arithmetic shift + mask on BitVec 32/64) equal the LEB128 layout and are inverted by the readers for every value; for every schema and every well-formed value list decode(encode v ++ rest) = (v, rest); enum decoders accept exactly their range. The per-packet ids, read/write primitive sequences and enum tables are re-extracted from passage-packets on every run and proved equal to the protocol table the theorems are about. The executable model is compared with the real reader/writer on boundary-dense values of every packet type, truncations, bad enum ordinals and invalid UTF-8; an independent reference encoder in the harness judges layout and round trip.",
    "level_note": "Trusted: Lean kernel; the protocol table is a hand transcription (no network to consult the wiki); primitives' Rust bodies are modelled by hand and tied by differential runs; compound (NBT) text components go through fastnbt and are not modelled (string form is proved); tokio's Cursor/Vec I/O.",
    "lean_modules": ["Passage.Props.C09"],
    "cases": {"quick": 4000, "thorough": 400000},
    "rule": "VarInt/VarLong: every group boundary ±1, ±2^k±1, extremes, random with random magnitude; arbitrary ≤12-byte strings through the readers; per packet type boundary-dense field values (empty/multi-byte/long strings around VarInt group boundaries, integer boundaries, every enum ordinal, None/Some) encoded with the real writer and decoded back (1/3 with trailing bytes), truncations, enum ordinals outside the table, invalid UTF-8; non-trivial = every case except unit packets; distinct = distinct request lines",
    "trusted_base": TB_COMMON + [
        "protocol table (lean/Passage/Codec/Packets.lean) is a hand transcription of the Java-edition protocol",
        "compound (NBT) text components are not modelled (fastnbt oracle); string-tag form is proved",
    ],
    "assumptions": ["field values within protocol limits (WFv): strings < 2^31 bytes and valid UTF-8, text components in string form ≤ 65535 bytes"],
}
PROPS["C13"] = {
    "runner": "c13",
    "design_ref": "DESIGN.md §6 C13",
    "technique": "Lean 4 theorems by induction over arbitrary histories for any admission arithmetic satisfying two laws: per-window bound, interval bound, reject-consumes-nothing, idle readmission, per-key independence (simulation incl. cleanup), tracked-keys recency; differential correspondence of the exact-arithmetic model against the real RateLimiter under paused tokio time",
    "level_text": "Machine-checked proofs for every history, any number of keys, any limit >= 1 and duration > 0: (A) at most `limit` admitted per window start, (B) at most 2*limit admitted in any closed interval of one duration (non-decreasing times), (C) a rejected attempt leaves exactly the time-driven roll, (D) a bucket idle for two durations (or an unseen key) is admitted, (E) decisions for a key in any multi-key history equal a single-key limiter without cleanup on its own attempts, (F) right after every admitted attempt each tracked key attempted within the last four durations. The executable exact-arithmetic model is compared decision-by-decision and tracked-key-set-by-set (hook tracked_keys) with the real limiter on generated histories on and off the dyadic grid; an independent naive per-key oracle judges (A)(B)(D)(E)(F) on the real decisions.",
    "level_note": "Trusted: Lean kernel; f32 admission arithmetic is abstracted by two laws (proved for the exact instance; IEEE f32 satisfies them for limit <= 2^24 by monotone rounding — argued, not proved; violated above: known finding); tokio paused clock; (C-strong: readmission 2 durations after the last ADMITTED attempt under exact arithmetic) is not proved yet.",
    "lean_modules": ["Passage.Props.C13"],
    "cases": {"quick": 1200, "thorough": 30000},
    "rule": "histories: 1..50 keys (thorough: ..2000), 1..300 attempts (thorough ..3000), six inter-arrival styles (one instant, sub-window, exact d/2d boundaries +-1 unit, multiples of d, mixed), limits 1..50, durations 1ns..hours; half on the dyadic grid (f32 exact), half off-grid (rounding ties within 2^-20 dropped and counted in runner_tail); plus saturation probes at limits 2^24 and 2^24+2; non-trivial = histories with at least one rejection or roll (every generated history with > 1 attempt); distinct = distinct request lines",
    "trusted_base": TB_COMMON + [
        "admission arithmetic abstracted by Arith laws L1/L2; f32 conformance for limit <= 2^24 is argued and tested, not proved",
        "tokio paused clock and Instant arithmetic",
    ],
    "assumptions": ["attempt times are non-decreasing (monotonic clock)", "1 <= limit <= 2^24 for the f32 implementation (above: KNOWN-FINDING)"],
}
PROPS["C18"] = {
    "runner": "c18",
    "design_ref": "DESIGN.md §6 C18",
    "technique": "Lean 4 theorems: chain fold = declarative eligibility spec (induction over the filter list), any = head, player_fill = max-below-capacity (fold invariant), soundness and completeness corollaries; differential correspondence against adapters built from configuration values",
    "level_text": "Machine-checked proofs for every filter chain, player, host verdict vector and target list: the sequential composition of the built-in filter adapters returns exactly the declaratively eligible targets in discovery order; the default strategy returns their head; player_fill returns an eligible target strictly below capacity such that no eligible target below capacity is fuller, and none iff there is none. Regex verdicts are arbitrary bits in the theorems. The executable model is compared with DynFilterAdapters/DynStrategyAdapter built from deserialised configuration values (aliases included) with verdict bits recorded from the real regex engine; a naive evaluator in the harness judges the property.",
    "level_note": "Trusted: Lean kernel; regex engine and UUID parsing are oracles (recorded verdicts); serde deserialisation of configuration; HashMap metadata modelled as an association list with unique keys; u32 parsing re-modelled (parseU32) and compared differentially.",
    "lean_modules": ["Passage.Props.C18"],
    "cases": {"quick": 5000, "thorough": 300000},
    "rule": "chains of 0..6 filters of all three kinds with/without host-name scope, all six rule operations over a small key/value alphabet (missing, non-numeric, signed, overflowing counts), allow/block lists by name, pattern and UUID (hyphenated and simple), both strategies with capacities 0..u32::MAX, 0..7 targets, both canonical and alias spellings of configuration keys; non-trivial = at least one filter; distinct = distinct request lines",
    "trusted_base": TB_COMMON + ["regex and uuid crates (verdicts recorded and handed to the model)", "serde configuration deserialisation"],
    "assumptions": ["metadata keys are unique per target (HashMap)"],
}
PROPS["C05"] = {
    "runner": "c05",
    "design_ref": "DESIGN.md §6 C05",
    "technique": "Lean 4 theorems by induction over arbitrary transport schedules for every byte-stream cipher (write_all/poll_write and poll_read stream continuity, plaintext pass-through, mid-connection switch, CFB8 dec∘enc = id for every keystream function); differential correspondence of the executable model with a Lean AES-128-CFB8 against the real CipherStream over a scripted transport",
    "level_text": "Machine-checked proofs quantified over every cipher state machine, every plaintext and every schedule of Pending / partial / full acceptance and of read sizes: the bytes the transport accepted are one continuous encryption of exactly the plaintext reported as written and the cipher state ends at the end of that stream, across consecutive write_all calls; reads surface the continuous decryption of what the transport produced; before the switch both are the identity; CFB8 decryption inverts encryption with equal end registers. The model's poll functions are compared with the real CipherStream (driven by write_all / read / read_exact over a scripted AsyncRead+AsyncWrite) byte for byte, the ciphertext being predicted by an AES-128-CFB8 written in Lean; a third CFB8 on the raw aes block function judges the property.",
    "level_note": "Trusted: Lean kernel; tokio's write_all/read_exact loops are modelled (writeAll/readAll) and tied by the differential runs; AES-128 in Lean validated by FIPS-197/SP800-38A vectors and differential runs, not proved; the cfb8/aes crates.",
    "lean_modules": ["Passage.Props.C05"],
    "cases": {"quick": 2500, "thorough": 120000},
    "rule": "sessions of 1..6 operations (write_all of 1..600 bytes (thorough ..4096) under schedules: one byte per write, whole buffer, 1-3, 1-16, random sizes, Pending interleaved, zero-length acceptance, schedules one byte short; reads via read and read_exact over chunks of 1/16/1..80 bytes with Pending), random 16-byte secrets, switch to ciphertext at a random operation or never; non-trivial = every session; distinct = distinct request lines",
    "trusted_base": TB_COMMON + ["AES-128 (Lean) validated by published vectors + differential runs only", "tokio write_all/read_exact loop semantics modelled"],
    "assumptions": ["the transport reports honestly how many bytes it accepted"],
}

# properties not claimed yet (kept current; the reason is the honest status)
NOT_YET = {f"C{i:02d}": "check not built yet in this round (planned per DESIGN.md §9); no claim is made until its check runs green" for i in range(1, 21)}
