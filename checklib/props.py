"""Per-property configuration of ./check (what to build, which runner, how many cases)."""

TB_COMMON = [
    "Lean 4.33.0 kernel; axioms allowed in property theorems: propext, Classical.choice, Quot.sound (audited by #print axioms on every run)",
    "hand-written Lean model, tied to /repo by the correspondence run of this check (differential testing, bounded by generator quality)",
    "extract/extract.py and harness/ (Python/Rust written for this task)",
]

PROPS = {
    "C11": {
        "runner": "c11",
        "design_ref": "DESIGN.md §6 C11",
        "technique": "Lean 4 theorem (format spec for every digest, by induction on digit lists and carry) + differential correspondence of the executable model against minecraft_hash",
        "level_text": "Machine-checked proof that the modelled formatting (byte-wise two's complement, nibble digits, zero stripping) equals the signed-hex specification for every byte string of every length, that it parses back to the two's-complement value, and its charset; the model (incl. an executable SHA-1) is compared with the real minecraft_hash on searched edge digests and random inputs on every run, with an independent 160-bit-arithmetic oracle.",
        "level_note": "Trusted: Lean kernel; hand-written model tied by differential runs (not proved against the Rust text); SHA-1 in Lean validated by vectors only (theorems do not depend on it); num-bigint behaviour modelled.",
        "lean_modules": ["Passage.Props.C11"],
        "cases": {"quick": 3000, "thorough": 300000},
        "rule": "inputs = published vectors + digests searched by brute force for edge prefixes (00, 0000, 0x, ff, ffff, 8000, 7fff) + random (id, secret, key) triples varied independently; non-trivial = every case (each exercises sha1 and formatting); distinct = distinct request lines",
        "trusted_base": TB_COMMON + [
            "SHA-1 is executable Lean code validated by vectors and differential runs, not proved against FIPS 180-4; the format theorems hold for every digest and do not depend on it",
            "num-bigint's from_signed_bytes_be/to_str_radix are modelled (Impl.signedHex) and compared on every case",
        ],
        "assumptions": ["sha1 crate computes SHA-1", "the has-joined request uses this function's value (checked under C12)"],
    },
}

# properties not claimed yet (kept current; the reason is the honest status)
NOT_YET = {f"C{i:02d}": "check not built yet in this round (planned per DESIGN.md §9); no claim is made until its check runs green" for i in range(1, 21)}
