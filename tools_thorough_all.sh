set -u
export PASSAGE_REPO="$VP_RUN_REPO"
sed -i "s#\"/repo#\"$VP_RUN_REPO#g" harness/Cargo.toml
./setup.sh > setup.log 2>&1 || { echo SETUP FAILED; tail -20 setup.log; exit 1; }
LIST="${*:-C11 C09 C13 C18 C05 C06 C01 C02 C03 C10 C07 C04 C08 C12 C19 C20 C15 C16 C17 C14}"
for c in $LIST; do
  echo "=== $c $(date +%T)"
  timeout 3h ./check $c --tier thorough 2>&1 | tail -6
done
echo ALL-DONE
