#!/bin/bash
# usage: tools_seeded_matrix.sh [glob] [append]
# re-runs every seeded change in /verif/seeded against its property's own check (and extra checks
# named in seeded/<id>/also.txt); writes seeded/RESULTS.jsonl.  /repo must be clean; each patch is
# applied with `git -C /repo apply` and undone with `git -C /repo checkout -- .` straight afterwards.
set -u
cd /verif
pat="${1:-C*-*}"
out=seeded/RESULTS.jsonl; [ -n "${2:-}" ] || : > $out
for d in seeded/$pat/; do
  id=$(basename $d); prop=${id:0:3}
  checks="$prop"; [ -f $d/also.txt ] && checks="$checks $(cat $d/also.txt)"
  if [ -n "$(git -C /repo status --porcelain --untracked-files=no)" ]; then echo "/repo not clean"; exit 2; fi
  git -C /repo apply /verif/$d/patch.diff || { echo "{\"id\":\"$id\",\"error\":\"patch does not apply\"}" >> $out; continue; }
  for c in $checks; do
    o=$(./check $c 2>&1 | tail -4)
    v=$(echo "$o" | grep -c '^VIOLATION')
    nf=$(echo "$o" | grep -c 'no-failing-input-found')
    s=$(echo "$o" | tail -1 | sed 's/"/'"'"'/g')
    echo "{\"id\":\"$id\",\"check\":\"$c\",\"violation\":$v,\"no_failing_input\":$nf,\"summary\":\"$s\"}" >> $out
  done
  git -C /repo checkout -- .
done
echo MATRIX-DONE
