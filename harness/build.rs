// tonic server+client stubs from the repository's own .proto files (read from /repo at build time)
fn main() -> Result<(), Box<dyn std::error::Error>> {
    let root = std::env::var("PASSAGE_REPO").unwrap_or_else(|_| "/repo".to_string());
    let proto = format!("{root}/passage-adapters/grpc/proto");
    println!("cargo:rerun-if-changed={proto}");
    println!("cargo:rerun-if-env-changed=PASSAGE_REPO");
    tonic_prost_build::configure()
        .protoc_arg("--experimental_allow_proto3_optional")
        .build_server(true)
        .build_client(true)
        .compile_protos(
            &[
                format!("{proto}/adapter/adapter.proto"),
                format!("{proto}/adapter/discovery.proto"),
                format!("{proto}/adapter/status.proto"),
                format!("{proto}/adapter/strategy.proto"),
            ],
            &[proto.clone()],
        )?;
    Ok(())
}
