//! Scenario generators: a structured "plan" of a client session, rendered to steps, plus
//! property-specific variation.
use super::build as b;
use super::mocks::Verdicts;
use super::{Echo, EncKind, Scenario, Step};
use crate::util::Rng;
use passage_adapters::authentication::{Profile, ProfileProperty};
use passage_adapters::{ServerPlayers, ServerStatus, ServerVersion, Target};
use std::net::SocketAddr;
use uuid::Uuid;

pub const SESSION_KEY: &[u8] = b"passage:session";
pub const AUTH_KEY: &[u8] = b"passage:authentication";

#[derive(Clone)]
pub struct Plan {
    pub intent: i32,
    pub proto: i32,
    pub host: String,
    pub port: u16,
    pub claimed_name: String,
    pub claimed_uuid: u128,
    pub session_cookie: Option<Vec<u8>>,
    pub auth_cookie: Option<Vec<u8>>,
    pub enc: EncKind,
    pub locale: String,
    pub pre_info: Vec<Step>,
    pub routing: Vec<Step>,
    pub ping: u64,
}

pub fn names() -> Vec<&'static str> { vec!["Hydrofin", "Notch", "jeb_", "Ünï", "a", "Player_16_chars__", "x&y=z"] }

pub fn addr(rng: &mut Rng) -> SocketAddr {
    match rng.below(5) {
        // an IPv4 client of a dual-stack listener
        4 => "[::ffff:10.1.2.3]:41000".parse().unwrap(),
        0 => "127.0.0.1:25564".parse().unwrap(),
        1 => "192.0.2.77:50123".parse().unwrap(),
        2 => "[2001:db8::17]:40000".parse().unwrap(),
        _ => "[::1]:1".parse().unwrap(),
    }
}

pub fn gen_targets(rng: &mut Rng) -> Vec<Target> {
    let pool = ["10.0.0.1:25565", "10.0.0.2:25566", "[2001:db8::2]:25565", "192.0.2.1:1", "10.0.0.1:25565", "[::ffff:10.1.2.3]:65535", "203.0.113.9:0"];
    let n = rng.below(6) as usize;
    (0..n).map(|i| Target { identifier: format!("srv-{i}"), address: rng.pick(&pool).parse().unwrap(), meta: Default::default() }).collect()
}

pub fn gen_profile(rng: &mut Rng, claimed_name: &str, claimed_uuid: u128) -> Profile {
    let same = rng.chance(1, 5);
    let props = match rng.below(3) {
        0 => vec![],
        1 => vec![ProfileProperty { name: "textures".into(), value: "ZXhhbXBsZQ==".into(), signature: Some("c2ln".into()) }],
        _ => vec![ProfileProperty { name: "textures".into(), value: "dmFsdWU=".into(), signature: None }, ProfileProperty { name: "p2".into(), value: "".into(), signature: None }],
    };
    Profile {
        id: Uuid::from_u128(if same || rng.chance(1, 4) { claimed_uuid } else { rng.next() as u128 * 65537 + 99 }),
        name: if same || rng.chance(1, 4) { claimed_name.to_string() } else { rng.pick(&["RealName", "Vouched", "Ünï2", "q"]).to_string() },
        properties: props,
        profile_actions: vec![],
    }
}

pub fn gen_status(rng: &mut Rng) -> Result<Option<ServerStatus>, ()> {
    match rng.below(5) {
        0 => Err(()),
        1 => Ok(None),
        _ => Ok(Some(ServerStatus {
            version: ServerVersion { name: rng.pick(&["Passage", "1.21.4", "ünï \"q\""]).to_string(), protocol: rng.range(0, 800) as i32 },
            players: if rng.chance(1, 2) { Some(ServerPlayers { online: rng.below(100) as u32, max: rng.below(1000) as u32, sample: None }) } else { None },
            description: None,
            favicon: if rng.chance(1, 3) { Some("data:image/png;base64,AAAA".into()) } else { None },
            enforces_secure_chat: if rng.chance(1, 2) { Some(rng.chance(1, 2)) } else { None },
        })),
    }
}

pub fn gen_verdicts(rng: &mut Rng, plan: &Plan) -> Verdicts {
    let targets = gen_targets(rng);
    let n = targets.len();
    let subset = |rng: &mut Rng| -> Vec<usize> {
        let mut v: Vec<usize> = (0..n).filter(|_| rng.chance(2, 3)).collect();
        if rng.chance(1, 4) { v.reverse(); }
        v
    };
    let discover = if rng.chance(1, 8) { Err(()) } else { Ok(subset(rng)) };
    let filter = if rng.chance(1, 8) { Err(()) } else { Ok(subset(rng)) };
    let select = if rng.chance(1, 8) { Err(()) } else if n == 0 || rng.chance(1, 4) { Ok(None) } else { Ok(Some(rng.below(n as u64) as usize)) };
    Verdicts {
        status: gen_status(rng),
        auth: if rng.chance(1, 6) { Err(()) } else { Ok(gen_profile(rng, &plan.claimed_name, plan.claimed_uuid)) },
        targets, discover, filter, select,
        loc_fail: rng.chance(1, 12),
    }
}

pub fn gen_plan(rng: &mut Rng) -> Plan {
    let claimed_name = rng.pick(&names()).to_string();
    Plan {
        intent: *rng.pick(&[1, 2, 2, 3, 3]),
        proto: *rng.pick(&[0, 767, 47, -1]),
        host: rng.pick(&["", "mc.example.org", "localhost", "ünï.example", "play.example.org\u{0}FML\u{0}", "Mc.Example.ORG."]).to_string(),
        port: *rng.pick(&[0, 25565, 65535]),
        claimed_name,
        claimed_uuid: 0x0987_9557_e479_45a9_b434_a563_7767_4627 + u128::from(rng.below(3)),
        session_cookie: None,
        auth_cookie: None,
        enc: EncKind::Honest,
        locale: rng.pick(&["en_us", "de_DE", "de", "xx_YY", "", "a_b_c", "é_FR", "日本_JP", "ü", "_x", "x_", "a__b"]).to_string(),
        pre_info: vec![],
        routing: vec![Step::AdapterDone, Step::AdapterDone, Step::AdapterDone],
        ping: rng.next(),
    }
}

pub fn session_cookie_payload(rng: &mut Rng, host: &str, port: u16) -> Option<Vec<u8>> {
    match rng.below(6) {
        0 | 1 => None,
        2 => Some(b"null".to_vec()),
        3 => Some(b"{not json".to_vec()),
        _ => Some(serde_json::to_vec(&serde_json::json!({"id": "00000000-0000-0000-0000-000000000001", "server_address": host, "server_port": port})).unwrap()),
    }
}

/// the legal script of a plan
pub fn render(plan: &Plan, has_secret: bool) -> Vec<Step> {
    let mut s = vec![Step::Frame(b::handshake(plan.proto, plan.host.as_bytes(), plan.port, plan.intent))];
    if plan.intent == 1 {
        s.push(Step::Frame(b::status_request()));
        s.push(Step::Frame(b::ping(plan.ping)));
        return s;
    }
    s.push(Step::Frame(b::login_start(plan.claimed_name.as_bytes(), plan.claimed_uuid)));
    s.push(Step::Frame(b::cookie_response(SESSION_KEY, plan.session_cookie.as_deref())));
    if plan.intent == 3 && has_secret {
        s.push(Step::Frame(b::cookie_response(AUTH_KEY, plan.auth_cookie.as_deref())));
    }
    s.push(Step::EncResp(plan.enc.clone()));
    s.push(Step::Frame(b::login_ack()));
    s.extend(plan.pre_info.iter().cloned());
    s.push(Step::Frame(b::client_info(plan.locale.as_bytes())));
    s.extend(plan.routing.iter().cloned());
    s
}

/// noise frames: every serverbound packet of every phase, unknown ids, repeated packets
pub fn noise_frame(rng: &mut Rng) -> Vec<u8> {
    match rng.below(16) {
        0 => b::handshake(767, b"h", 1, 2),
        1 => b::status_request(),
        2 => b::ping(5),
        3 => b::login_start(b"N", 1),
        4 => b::cookie_response(SESSION_KEY, None),
        5 => b::login_ack(),
        6 => b::client_info(b"en_us"),
        7 => b::plugin_message(),
        8 => b::config_cookie_response(),
        9 => b::resource_pack_response(7, rng.below(8) as i32),
        10 => b::keep_alive(rng.next()),
        11 => b::payload(*rng.pick(&[0x05, 0x07, 0x03, 0x08, 0x7f, 0x11]), &[]),
        12 => b::payload(*rng.pick(&[0x7e, 0x40, 0x09]), &[vec![1, 2, 3]]),
        13 => b::handshake(767, b"h", 1, *rng.pick(&[0, 4, 99, -1])),       // unknown next-state
        14 => b::resource_pack_response(7, *rng.pick(&[8, -1, 100])),           // bad enum inside config
        _ => b::payload(2, &[vec![0xff; 3]]),
    }
}

pub fn scenario(rng: &mut Rng, _plan: &Plan, secret: Option<Vec<u8>>, steps: Vec<Step>, verdicts: Verdicts) -> Scenario {
    Scenario {
        secret, expiry: 21600, max_len: 10_000, client_addr: addr(rng), verdicts, steps,
        shared_secret: rng.bytes(16), real_localization: None,
    }
}

pub fn routing_steps(rng: &mut Rng) -> Vec<Step> {
    // three adapter completions with optional keep-alive traffic in between
    let mut v = vec![];
    for _ in 0..3 {
        let n = rng.below(3);
        for _ in 0..n {
            match rng.below(6) {
                0 => { v.push(Step::Tick); v.push(Step::KeepAlive(Echo::Last)); }
                1 => v.push(Step::Frame(b::plugin_message())),
                2 => v.push(Step::Frame(b::client_info(b"zz_ZZ"))),
                3 => v.push(Step::KeepAlive(Echo::Wrong)),
                4 => v.push(Step::Frame(b::config_cookie_response())),
                _ => v.push(Step::Frame(b::resource_pack_response(3, 0))),
            }
        }
        v.push(Step::AdapterDone);
    }
    v
}
