//! Independent property oracles over the observed trace (no code shared with the Lean model or
//! with passage's own decoders).
use super::decode::CbPacket;
use super::{EncKind, Event, Outcome, Scenario, Step};
use hmac::{Hmac, Mac};
use sha2::Sha256;

pub fn hmac_tag(secret: &[u8], msg: &[u8]) -> Vec<u8> {
    let mut m = <Hmac<Sha256> as Mac>::new_from_slice(secret).unwrap();
    m.update(msg);
    m.finalize().into_bytes().to_vec()
}
pub fn sign(secret: &[u8], msg: &[u8]) -> Vec<u8> { let mut v = hmac_tag(secret, msg); v.extend_from_slice(msg); v }

/// profile properties compared as JSON values (field order of the encoder is irrelevant)
pub fn canon_props(b: &[u8]) -> Vec<u8> { serde_json::from_slice::<serde_json::Value>(b).map(|v| serde_json::to_vec(&v).unwrap()).unwrap_or_else(|_| b.to_vec()) }

pub fn sends(o: &Outcome) -> Vec<&CbPacket> { o.events.iter().filter_map(|e| if let Event::Send(p) = e { Some(p) } else { None }).collect() }
pub fn calls<'a>(o: &'a Outcome, prefix: &str) -> Vec<&'a String> { o.events.iter().filter_map(|e| match e { Event::Call(c) if c.starts_with(prefix) => Some(c), _ => None }).collect() }
fn pos(o: &Outcome, f: impl Fn(&Event) -> bool) -> Option<usize> { o.events.iter().position(f) }

#[derive(Clone, Debug, PartialEq)]
pub struct Who { pub name: Vec<u8>, pub uuid: u128, pub props: Vec<u8> }

/// independent evaluation of the cookie acceptance conditions of C02
pub struct CookieView { pub accepted: bool, pub who: Option<Who>, pub why: &'static str }

pub fn cookie_view(sc: &Scenario, intent: i32, presented: Option<&[u8]>, now: u64) -> CookieView {
    let no = |why| CookieView { accepted: false, who: None, why };
    if intent != 3 { return no("intent"); }
    let Some(secret) = &sc.secret else { return no("no-secret") };
    let Some(x) = presented else { return no("absent") };
    if x.len() < 32 { return no("short") }
    if hmac_tag(secret, &x[32..]) != x[..32] { return no("bad-tag") }
    let Ok(v) = serde_json::from_slice::<serde_json::Value>(&x[32..]) else { return no("unparsable") };
    let (Some(ts), Some(addr), Some(name), Some(id)) = (v["timestamp"].as_u64(), v["client_addr"].as_str(), v["user_name"].as_str(), v["user_id"].as_str()) else { return no("unparsable") };
    let Ok(addr) = addr.parse::<std::net::SocketAddr>() else { return no("unparsable") };
    let Ok(id) = uuid::Uuid::parse_str(id) else { return no("unparsable") };
    if !v["profile_properties"].is_array() { return no("unparsable") }
    if !(v["target"].is_null() || v["target"].is_string()) || v.get("target").is_none() { return no("unparsable") }
    let who = Who { name: name.as_bytes().to_vec(), uuid: id.as_u128(), props: serde_json::to_vec(&v["profile_properties"]).unwrap() };
    if addr.ip() != sc.client_addr.ip() { return CookieView { accepted: false, who: Some(who), why: "other-ip" } }
    if now > ts.saturating_add(sc.expiry) { return CookieView { accepted: false, who: Some(who), why: "expired" } }
    CookieView { accepted: true, who: Some(who), why: "valid" }
}

pub struct Facts<'a> { pub sc: &'a Scenario, pub intent: i32, pub claimed: (Vec<u8>, u128), pub presented_auth: Option<Vec<u8>>, pub enc: Option<EncKind>, pub locale: Option<Vec<u8>>, pub session_present: Option<bool> }

fn parse_call_user(c: &str, skip: usize) -> Option<(Vec<u8>, u128)> {
    let parts: Vec<&str> = c.split(':').collect();
    Some((crate::util::unhex(parts.get(skip)?)?, parts.get(skip + 1)?.parse().ok()?))
}

/// C01: only an authenticated identity is ever admitted
pub fn c01(f: &Facts, o: &Outcome) -> Vec<String> {
    let mut why = vec![];
    let cv = cookie_view(f.sc, f.intent, f.presented_auth.as_deref(), o.wall_before);
    let auth_calls = calls(o, "call:auth:");
    let vouched: Option<Who> = if !auth_calls.is_empty() {
        f.sc.verdicts.auth.as_ref().ok().map(|p| Who { name: p.name.as_bytes().to_vec(), uuid: p.id.as_u128(), props: canon_props(&super::mocks::props_bytes(&p.properties)) })
    } else if cv.accepted { cv.who.clone() } else { None };
    let ss = sends(o);
    let granted = ss.iter().any(|p| matches!(p, CbPacket::LoginSuccess { .. } | CbPacket::Transfer { .. }) || matches!(p, CbPacket::StoreCookie { key, .. } if key == b"passage:authentication"));
    for p in &ss {
        match p {
            CbPacket::LoginSuccess { uuid, name } => match &vouched {
                Some(w) if &w.name == name && w.uuid == *uuid => {}
                other => why.push(format!("Login Success under {}/{} but vouched identity is {:?}", String::from_utf8_lossy(name), uuid, other.as_ref().map(|w| (String::from_utf8_lossy(&w.name).to_string(), w.uuid)))),
            },
            CbPacket::StoreCookie { key, payload } if key == b"passage:authentication" && payload.len() >= 32 => {
                if let Ok(v) = serde_json::from_slice::<serde_json::Value>(&payload[32..]) {
                    let name = v["user_name"].as_str().unwrap_or("").as_bytes().to_vec();
                    let id = v["user_id"].as_str().and_then(|s| uuid::Uuid::parse_str(s).ok()).map_or(0, |u| u.as_u128());
                    let props = serde_json::to_vec(&v["profile_properties"]).unwrap();
                    match &vouched { Some(w) if w.name == name && w.uuid == id && w.props == props => {}, _ => why.push("auth cookie issued under an identity that was not vouched for".into()) }
                }
            }
            _ => {}
        }
    }
    for c in calls(o, "call:filter:").into_iter().chain(calls(o, "call:select:")) {
        if let Some((n, u)) = parse_call_user(c, 3) {
            match &vouched { Some(w) if w.name == n && w.uuid == u => {}, _ => why.push(format!("{} received a player identity that was not vouched for", &c[..11])) }
        }
    }
    if let (Some(t), Some(l)) = (pos(o, |e| matches!(e, Event::Send(CbPacket::Transfer { .. }))), pos(o, |e| matches!(e, Event::Send(CbPacket::LoginSuccess { .. })))) { if t < l { why.push("Transfer before Login Success".into()); } }
    else if ss.iter().any(|p| matches!(p, CbPacket::Transfer { .. })) { why.push("Transfer without Login Success".into()); }
    // failure cases: nothing granted, the connection ends
    let enc_bad = matches!(f.enc, Some(EncKind::WrongToken | EncKind::StaleToken | EncKind::OtherKey | EncKind::Garbage | EncKind::GarbageToken | EncKind::TokenPrefix(_))) || matches!(f.enc, Some(EncKind::SecretLen(n)) if n != 16);
    if enc_bad && o.undecodable { why.push("the server kept sending (bytes that do not decode) after an invalid Encryption Response".into()); }
    let auth_failed = !auth_calls.is_empty() && f.sc.verdicts.auth.is_err();
    if (enc_bad || auth_failed) && granted { why.push("Login Success / auth cookie / Transfer sent although authentication failed".into()); }
    if (enc_bad || auth_failed) && !o.result.starts_with("err") { why.push(format!("connection did not end with an error after failed authentication: {}", o.result)); }
    // the service is asked about the name and UUID the client claimed in Login Start (nothing taken from a cookie that was not accepted)
    for c in &auth_calls {
        if let Some((n, u)) = parse_call_user(c, 3) { if n != f.claimed.0 || u != f.claimed.1 { why.push(format!("authentication service asked about {:?}/{} but the client claimed {:?}/{}", String::from_utf8_lossy(&n), u, String::from_utf8_lossy(&f.claimed.0), f.claimed.1)); } }
    }
    // the service is asked with the secret that keys the cipher and the server's public key
    for c in &auth_calls {
        let parts: Vec<&str> = c.split(':').collect();
        if let (Some(sec), Some(pk)) = (parts.get(5), parts.get(6)) {
            let expect = match &f.enc { Some(EncKind::SecretLen(n)) => vec![0x42u8; *n], _ => f.sc.shared_secret.clone() };
            if crate::util::unhex(sec) != Some(expect) { why.push("authentication service asked with a secret other than the one the client sent".into()); }
            if crate::util::unhex(pk).as_deref() != Some(passage_protocol::crypto::ENCODED_PUB.as_slice()) { why.push("authentication service asked with a key other than the server's public key".into()); }
        }
    }
    if o.undecodable && granted { why.push("server bytes after the cipher switch do not decrypt under the shared secret the client sent".into()); }
    why
}

/// C02: authentication is skipped only for a valid, unexpired, same-IP signed cookie
pub fn c02(f: &Facts, o: &Outcome) -> Vec<String> {
    let mut why = vec![];
    let cv = cookie_view(f.sc, f.intent, f.presented_auth.as_deref(), o.wall_before);
    let ss = sends(o);
    let enc_req = ss.iter().find_map(|p| if let CbPacket::EncRequest { should_auth, .. } = p { Some(*should_auth) } else { None });
    // the cookie is only ever asked for on a Transfer-intent connection with a configured secret
    if ss.iter().any(|p| matches!(p, CbPacket::CookieRequest(k) if k == b"passage:authentication")) && !(f.intent == 3 && f.sc.secret.is_some()) {
        why.push(format!("the authentication cookie was requested on a connection with handshake intent {} and {} secret: only a Transfer with a configured secret may skip authentication", f.intent, if f.sc.secret.is_some() { "a" } else { "no" }));
    }
    if let Some(should_auth) = enc_req {
        let skipped = !should_auth;
        if skipped != cv.accepted { why.push(format!("authentication {} although the cookie is {} ({})", if skipped { "skipped" } else { "demanded" }, if cv.accepted { "valid" } else { "not acceptable" }, cv.why)); }
        let auth_called = !calls(o, "call:auth:").is_empty();
        if skipped && auth_called { why.push("flag says skip but the authentication service was consulted".into()); }
        if let Some(CbPacket::LoginSuccess { uuid, name }) = ss.iter().find(|p| matches!(p, CbPacket::LoginSuccess { .. })) {
            if skipped { match &cv.who { Some(w) if &w.name == name && w.uuid == *uuid => {}, _ => why.push("identity after a skipped authentication is not the one inside the cookie".into()) } }
            else if !auth_called { why.push("Login Success without the authentication service's verdict".into()); }
        }
    } else if cv.accepted && o.result != "running" && ss.iter().any(|p| matches!(p, CbPacket::CookieRequest(k) if k == b"passage:authentication")) && f.presented_auth.is_some() && o.inputs.len() >= 4 {
        why.push("a valid cookie was presented but no Encryption Request followed".into());
    }
    why
}

fn target_ids(c: &str) -> Vec<String> { c.rsplit(':').next().map(|s| if s.is_empty() { vec![] } else { s.split(',').map(String::from).collect() }).unwrap_or_default() }

/// C03: the player is transferred to exactly the target the strategy chose
pub fn c03(f: &Facts, o: &Outcome) -> Vec<String> {
    let mut why = vec![];
    let v = &f.sc.verdicts;
    let ids = |l: &Vec<usize>| l.iter().map(|i| crate::util::hex(v.targets[*i].identifier.as_bytes())).collect::<Vec<_>>();
    if let (Some(c), Ok(d)) = (calls(o, "call:filter:").first(), &v.discover) { if target_ids(c) != ids(d) { why.push("filters were offered a list other than what discovery returned".into()); } }
    if let (Some(c), Ok(d)) = (calls(o, "call:select:").first(), &v.filter) { if target_ids(c) != ids(d) { why.push("strategy was offered a list other than what the filters returned".into()); } }
    let ss = sends(o);
    let transfers: Vec<_> = ss.iter().filter(|p| matches!(p, CbPacket::Transfer { .. })).collect();
    let selected = !calls(o, "call:select:").is_empty() && o.result != "running" && matches!((&v.discover, &v.filter), (Ok(_), Ok(_)));
    let completed = selected && !o.result.starts_with("err:closed") && !o.result.starts_with("err:unexpected") && !o.result.starts_with("err:missed") && !o.result.starts_with("err:illegal");
    match (&v.select, completed) {
        (Ok(Some(i)), true) => {
            let t = &v.targets[*i];
            if transfers.len() != 1 { why.push(format!("{} Transfer packets for a chosen target", transfers.len())); }
            else if let CbPacket::Transfer { host, port } = transfers[0] {
                if host != t.address.ip().to_string().as_bytes() || *port != i32::from(t.address.port()) { why.push(format!("Transfer to {}:{} but the strategy chose {}", String::from_utf8_lossy(host), port, t.address)); }
                if !matches!(ss.last(), Some(CbPacket::Transfer { .. })) { why.push("Transfer is not the last packet".into()); }
            }
        }
        (Ok(None), true) => {
            if !transfers.is_empty() { why.push("Transfer although no target was chosen".into()); }
            if !v.loc_fail && f.sc.real_localization.is_none() {
                let want = v.loc_answer(f.locale.as_ref().map(|l| std::str::from_utf8(l).unwrap()), "disconnect_no_target").unwrap();
                match ss.last() { Some(CbPacket::Disconnect(r)) if r == want.as_bytes() => {}, other => why.push(format!("expected Disconnect with the message for locale {:?}, got {:?}", f.locale.as_ref().map(|l| String::from_utf8_lossy(l).to_string()), other.map(|p| p.canonical()))) }
            }
            if let Some(c) = calls(o, "call:localize:").last() {
                let want = format!("call:localize:{}:{}", f.locale.as_ref().map_or("-".into(), |l| crate::util::hex(l)), crate::util::hex(b"disconnect_no_target"));
                if **c != want { why.push(format!("localization asked with {c} instead of the client's reported locale ({want})")); }
            }
            if o.result != "err:no-target" && !v.loc_fail { why.push(format!("result {} instead of no-target", o.result)); }
        }
        _ => {}
    }
    // a failed step ends the routing: nothing is offered to the later steps and no Transfer is sent
    if v.discover.is_err() && !calls(o, "call:discover").is_empty() {
        if !calls(o, "call:filter:").is_empty() || !calls(o, "call:select:").is_empty() { why.push("discovery failed, yet the filters or the strategy were offered a candidate list".into()); }
        if !transfers.is_empty() { why.push("Transfer although discovery failed".into()); }
    }
    if v.discover.is_ok() && v.filter.is_err() && !calls(o, "call:filter:").is_empty() {
        if !calls(o, "call:select:").is_empty() { why.push("filtering failed, yet the strategy was offered a candidate list".into()); }
        if !transfers.is_empty() { why.push("Transfer although filtering failed".into()); }
    }
    if v.discover.is_ok() && v.filter.is_ok() && v.select.is_err() && !transfers.is_empty() { why.push("Transfer although selection failed".into()); }
    // every Transfer is to the target the strategy chose on this connection
    if !transfers.is_empty() {
        if calls(o, "call:select:").is_empty() { why.push("Transfer although the strategy was never consulted".into()); }
        match &v.select {
            Ok(Some(i)) => { let t = &v.targets[*i]; for tr in &transfers { if let CbPacket::Transfer { host, port } = tr { if host != t.address.ip().to_string().as_bytes() || *port != i32::from(t.address.port()) { why.push(format!("Transfer to {}:{} but the strategy's answer is {}", String::from_utf8_lossy(host), port, t.address)); } } } }
            Ok(None) => why.push("Transfer although the strategy chose no target".into()),
            Err(()) => why.push("Transfer although the strategy failed".into()),
        }
    }
    why.sort(); why.dedup();
    why
}

/// C06: protocol order
pub fn c06(f: &Facts, o: &Outcome) -> Vec<String> {
    let mut why = vec![];
    let ss = sends(o);
    #[derive(PartialEq, Clone, Copy, Debug)]
    enum Q { Start, StatusSent, Cookie1, Cookie2, Enc, Success, Stored1, Stored2, Closed }
    let mut q = Q::Start;
    for p in &ss {
        let next = match (q, p) {
            (Q::Start, CbPacket::StatusResponse(_)) if f.intent == 1 => Some(Q::StatusSent),
            (Q::StatusSent, CbPacket::Pong(_)) => Some(Q::Closed),
            (Q::Start, CbPacket::CookieRequest(k)) if k == b"passage:session" && f.intent != 1 => Some(Q::Cookie1),
            (Q::Cookie1, CbPacket::CookieRequest(k)) if k == b"passage:authentication" => Some(Q::Cookie2),
            (Q::Cookie1 | Q::Cookie2, CbPacket::EncRequest { .. }) => Some(Q::Enc),
            (Q::Enc, CbPacket::LoginSuccess { .. }) => Some(Q::Success),
            (Q::Success, CbPacket::KeepAlive(_)) => Some(Q::Success),
            (Q::Success, CbPacket::StoreCookie { key, .. }) if key == b"passage:authentication" => Some(Q::Stored1),
            (Q::Success | Q::Stored1, CbPacket::StoreCookie { key, .. }) if key == b"passage:session" => Some(Q::Stored2),
            (Q::Success | Q::Stored1 | Q::Stored2, CbPacket::Transfer { .. }) => Some(Q::Closed),
            (Q::Success, CbPacket::Disconnect(_)) => Some(Q::Closed),
            _ => None,
        };
        match next { Some(n) => q = n, None => { why.push(format!("packet {} out of protocol order (state {:?})", p.canonical().chars().take(40).collect::<String>(), q)); break; } }
    }
    // a handshake announcing an unknown next state is never answered
    if ![1, 2, 3].contains(&f.intent) && !ss.is_empty() { why.push(format!("handshake with unknown next state {} was answered with {}", f.intent, ss[0].canonical().chars().take(40).collect::<String>())); }
    // Login Success only after a valid Encryption Response
    if ss.iter().any(|p| matches!(p, CbPacket::LoginSuccess { .. })) && !matches!(f.enc, Some(EncKind::Honest)) { why.push("Login Success without a valid Encryption Response".into()); }
    // routing only after Login Acknowledged and Client Information were sent by the client
    if let Some(i) = pos(o, |e| matches!(e, Event::Call(c) if c == "call:discover")) {
        let step = o.event_steps[i];
        let sent_before = |pred: &dyn Fn(&[u8]) -> bool| f.sc.steps.iter().take(step + 1).any(|s| matches!(s, Step::Frame(p) if pred(p)));
        if !sent_before(&|p| p == [3u8]) || !sent_before(&|p| p.first() == Some(&0) && p.len() > 8) { why.push("discovery started before Login Acknowledged and Client Information".into()); }
    }
    // the Status Response answers a Status Request: neither it nor the status service's call comes before the request was sent
    // (judged only on scenarios made of whole frames, where "sent before" is unambiguous)
    let whole_frames = f.sc.steps.iter().all(|s| matches!(s, Step::Frame(_) | Step::EncResp(_) | Step::KeepAlive(_) | Step::Tick | Step::AdapterDone | Step::Eof | Step::Wait(_)));
    if whole_frames {
        let first = |pred: &dyn Fn(&Event) -> bool| pos(o, pred).map(|i| o.event_steps[i]);
        // the handshake is the first frame with packet id 0, the Status Request the second (whatever way its id is spelt)
        let id0 = |p: &[u8]| { let mut v: u32 = 0; for (i, b) in p.iter().take(5).enumerate() { v |= u32::from(b & 0x7f) << (7 * i); if b & 0x80 == 0 { return v == 0; } } false };
        let asked = |upto: usize| f.sc.steps.iter().take(upto + 1).filter(|s| matches!(s, Step::Frame(p) if id0(p))).count() >= 2;
        if let Some(st) = first(&|e| matches!(e, Event::Send(CbPacket::StatusResponse(_)))) { if !asked(st) { why.push("Status Response sent although no Status Request had been sent yet".into()); } }
        if let Some(st) = first(&|e| matches!(e, Event::Call(c) if c.starts_with("call:status:"))) { if !asked(st) { why.push("the status service was asked although no Status Request had been sent yet".into()); } }
    }
    // a login that the handler reports as completed ended with the Transfer (or a Disconnect): a logged-in client is never left without either
    if o.result == "ok" && f.intent != 1 && ss.iter().any(|p| matches!(p, CbPacket::LoginSuccess { .. })) && !matches!(ss.last(), Some(CbPacket::Transfer { .. } | CbPacket::Disconnect(_))) {
        why.push(format!("the handler finished a login normally, but the last packet is {} — neither Transfer nor Disconnect", ss.last().map_or("none".to_string(), |p| p.canonical().chars().take(30).collect())));
    }
    // an unexpected packet ends the connection without a reply
    if o.result == "err:unexpected-id" || o.result == "err:illegal-enum" {
        if let Some(last_step) = o.event_steps.iter().zip(&o.events).filter(|(_, e)| matches!(e, Event::Send(_))).map(|(s, _)| *s).max() {
            // the step that triggered the error is the last frame step processed; no packet may stem from a later one
            let _ = last_step;
        }
    }
    why
}

/// C10: issued cookies are verifiable, complete and accepted on the next transfer
pub fn c10(f: &Facts, o: &Outcome) -> Vec<String> {
    let mut why = vec![];
    let v = &f.sc.verdicts;
    let ss = sends(o);
    let transfer_pos = ss.iter().position(|p| matches!(p, CbPacket::Transfer { .. }));
    let auth_store: Vec<(usize, &Vec<u8>)> = ss.iter().enumerate().filter_map(|(i, p)| match p { CbPacket::StoreCookie { key, payload } if key == b"passage:authentication" => Some((i, payload)), _ => None }).collect();
    let sess_store: Vec<(usize, &CbPacket)> = ss.iter().enumerate().filter(|(_, p)| matches!(p, CbPacket::StoreCookie { key, .. } if key == b"passage:session")).map(|(i, p)| (i, *p)).collect();
    let fresh = !calls(o, "call:auth:").is_empty() && v.auth.is_ok();
    let routed = transfer_pos.is_some();
    if routed && fresh {
        match (&f.sc.secret, auth_store.as_slice()) {
            (Some(secret), [(i, payload)]) => {
                if Some(*i) > transfer_pos { why.push("auth cookie stored after the Transfer".into()); }
                if payload.len() < 32 { why.push("auth cookie shorter than a tag".into()); }
                else {
                    let (tag, msg) = payload.split_at(32);
                    if hmac_tag(secret, msg) != tag { why.push("auth cookie tag is not HMAC-SHA256(secret, body) in tag‖body format".into()); }
                    match serde_json::from_slice::<serde_json::Value>(msg) {
                        Ok(j) => {
                            let p = v.auth.as_ref().unwrap();
                            let chosen = v.select.as_ref().ok().and_then(|s| *s).map(|i| v.targets[i].identifier.clone());
                            if j["client_addr"].as_str() != Some(&f.sc.client_addr.to_string()) { why.push("cookie records another client address".into()); }
                            if j["user_name"].as_str() != Some(&p.name) || j["user_id"].as_str().and_then(|s| uuid::Uuid::parse_str(s).ok()) != Some(p.id) { why.push("cookie records an identity other than the authenticated one".into()); }
                            if serde_json::to_vec(&j["profile_properties"]).unwrap() != canon_props(&super::mocks::props_bytes(&p.properties)) { why.push("cookie records other profile properties".into()); }
                            if j["target"].as_str().map(String::from) != chosen { why.push("cookie records another target identifier".into()); }
                            match j["timestamp"].as_u64() { Some(ts) if ts >= o.wall_before && ts <= o.wall_after => {}, _ => why.push("cookie timestamp is not the current time".into()) }
                        }
                        Err(_) => why.push("auth cookie body is not JSON".into()),
                    }
                }
            }
            (Some(_), l) => why.push(format!("{} auth cookies issued to a freshly authenticated, routed player", l.len())),
            (None, l) => if !l.is_empty() { why.push("auth cookie issued without a configured secret".into()); },
        }
    }
    if !fresh && !auth_store.is_empty() { why.push("auth cookie issued without fresh authentication".into()); }
    if routed {
        let want_session = f.session_present == Some(false);
        // a fresh session cookie names the address and port the client put into its handshake
        let hs = f.sc.steps.iter().find_map(|s| match s { super::Step::Frame(p) => super::decode::handshake_host_port(p), _ => None });
        if let (Some((h, port)), [(_, CbPacket::StoreCookie { payload, .. })]) = (&hs, sess_store.as_slice()) {
            match serde_json::from_slice::<serde_json::Value>(payload) {
                Ok(j) => { if j["server_address"].as_str().map(str::as_bytes) != Some(h.as_slice()) || j["server_port"].as_u64() != Some(u64::from(*port)) { why.push(format!("session cookie records {}:{} but the handshake named {}:{port}", j["server_address"], j["server_port"], String::from_utf8_lossy(h))); }
                    if j["id"].as_str().and_then(|s| uuid::Uuid::parse_str(s).ok()).is_none() { why.push("session cookie without a session id".into()); } }
                Err(_) => why.push("session cookie body is not JSON".into()),
            }
        }
        if want_session != (sess_store.len() == 1) { why.push(format!("session cookie {} although the client presented {}", if sess_store.is_empty() { "not issued" } else { "issued" }, if want_session { "none" } else { "one" })); }
    } else if !sess_store.is_empty() { why.push("session cookie issued without routing".into()); }
    why
}
