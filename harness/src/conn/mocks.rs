//! Logging mock adapters with scripted verdicts.  Discovery, filter and strategy block until the
//! scenario releases them (`AdapterDone`), so frames and ticks can be interleaved with them.
use crate::util::hex;
use passage_adapters::authentication::{AuthenticationAdapter, Profile};
use passage_adapters::discovery::DiscoveryAdapter;
use passage_adapters::filter::FilterAdapter;
use passage_adapters::localization::LocalizationAdapter;
use passage_adapters::status::StatusAdapter;
use passage_adapters::strategy::StrategyAdapter;
use passage_adapters::{Protocol, ServerStatus, Target};
use std::net::SocketAddr;
use std::sync::atomic::{AtomicUsize, Ordering};
use std::sync::{Arc, Mutex};
use uuid::Uuid;

/// number of adapter calls currently blocked on the gate (one scenario runs at a time)
pub static WAITING: AtomicUsize = AtomicUsize::new(0);

/// (bytes the server had written when the call happened, canonical call text)
pub type Log = Arc<Mutex<Vec<(usize, String)>>>;

#[derive(Clone, Debug)]
pub struct Verdicts {
    pub status: Result<Option<ServerStatus>, ()>,
    pub auth: Result<Profile, ()>,
    pub targets: Vec<Target>,
    pub discover: Result<Vec<usize>, ()>,
    pub filter: Result<Vec<usize>, ()>,
    pub select: Result<Option<usize>, ()>,
    pub loc_fail: bool,
}

fn err() -> passage_adapters::Error { passage_adapters::Error::AdapterUnavailable { adapter_type: "mock", reason: "scripted failure" } }

pub fn props_bytes(p: &[passage_adapters::authentication::ProfileProperty]) -> Vec<u8> { serde_json::to_vec(p).unwrap() }

impl Verdicts {
    pub fn env_tokens(&self) -> Vec<String> {
        let mut v = vec![];
        for t in &self.targets { v.push(format!("target={}:{}:{}", hex(t.identifier.as_bytes()), hex(t.address.ip().to_string().as_bytes()), t.address.port())); }
        v.push(match &self.status { Ok(s) => format!("status=ok:{}", hex(serde_json::to_string(s).unwrap().as_bytes())), Err(()) => "status=err".into() });
        v.push(match &self.auth { Ok(p) => format!("auth=ok:{}:{}:{}", hex(p.name.as_bytes()), p.id.as_u128(), hex(&props_bytes(&p.properties))), Err(()) => "auth=err".into() });
        let idx = |l: &Vec<usize>| l.iter().map(|i| i.to_string()).collect::<Vec<_>>().join(",");
        v.push(match &self.discover { Ok(l) => format!("discover=ok:{}", idx(l)), Err(()) => "discover=err".into() });
        v.push(match &self.filter { Ok(l) => format!("filter=ok:{}", idx(l)), Err(()) => "filter=err".into() });
        v.push(match &self.select { Ok(Some(i)) => format!("select=ok:{i}"), Ok(None) => "select=ok:none".into(), Err(()) => "select=err".into() });
        v
    }
    pub fn loc_answer(&self, locale: Option<&str>, key: &str) -> Result<String, ()> {
        // plain text with multi-byte characters (length prefixes count bytes, not characters)
        if self.loc_fail { Err(()) } else { Ok(format!("{key}|{}|ünï✓", locale.unwrap_or("<none>"))) }
    }
}

fn ctx(client: &SocketAddr, server: (&str, u16), protocol: Protocol) -> String {
    format!("{}/{}/{}/{}", hex(client.to_string().as_bytes()), hex(server.0.as_bytes()), server.1, protocol)
}
fn tids(ts: &[Target]) -> String { ts.iter().map(|t| hex(t.identifier.as_bytes())).collect::<Vec<_>>().join(",") }

#[derive(Debug)] pub struct MStatus { v: Verdicts, log: Log, w: Arc<AtomicUsize> }
#[derive(Debug)] pub struct MAuth { v: Verdicts, log: Log, w: Arc<AtomicUsize> }
#[derive(Debug)] pub struct MDisc { v: Verdicts, log: Log, w: Arc<AtomicUsize>, gate: Arc<tokio::sync::Semaphore> }
#[derive(Debug)] pub struct MFilt { v: Verdicts, log: Log, w: Arc<AtomicUsize>, gate: Arc<tokio::sync::Semaphore> }
#[derive(Debug)] pub struct MStrat { v: Verdicts, log: Log, w: Arc<AtomicUsize>, gate: Arc<tokio::sync::Semaphore> }
#[derive(Debug)] pub struct MLoc { v: Verdicts, log: Log, w: Arc<AtomicUsize> }

pub struct Mocks {
    pub status: MStatus, pub auth: MAuth, pub discovery: MDisc, pub filter: MFilt, pub strategy: MStrat, pub localization: MLoc,
    pub loc_log: Log, pub loc_written: Arc<AtomicUsize>,
}

impl Mocks {
    pub fn new(v: Verdicts, log: Log, w: Arc<AtomicUsize>, gate: Arc<tokio::sync::Semaphore>) -> Self {
        Mocks {
            status: MStatus { v: v.clone(), log: log.clone(), w: w.clone() },
            auth: MAuth { v: v.clone(), log: log.clone(), w: w.clone() },
            discovery: MDisc { v: v.clone(), log: log.clone(), w: w.clone(), gate: gate.clone() },
            filter: MFilt { v: v.clone(), log: log.clone(), w: w.clone(), gate: gate.clone() },
            strategy: MStrat { v: v.clone(), log: log.clone(), w: w.clone(), gate },
            localization: MLoc { v, log: log.clone(), w: w.clone() },
            loc_log: log, loc_written: w,
        }
    }
}

fn push(log: &Log, w: &Arc<AtomicUsize>, s: String) { log.lock().unwrap().push((w.load(Ordering::SeqCst), s)); }

impl StatusAdapter for MStatus {
    async fn status(&self, client_addr: &SocketAddr, server_addr: (&str, u16), protocol: Protocol) -> passage_adapters::Result<Option<ServerStatus>> {
        push(&self.log, &self.w, format!("call:status:{}", ctx(client_addr, server_addr, protocol)));
        self.v.status.clone().map_err(|()| err())
    }
}
impl AuthenticationAdapter for MAuth {
    async fn authenticate(&self, client_addr: &SocketAddr, server_addr: (&str, u16), protocol: Protocol, user: (&str, &Uuid), shared_secret: &[u8], encoded_public: &[u8]) -> passage_adapters::Result<Profile> {
        push(&self.log, &self.w, format!("call:auth:{}:{}:{}:{}:{}", ctx(client_addr, server_addr, protocol), hex(user.0.as_bytes()), user.1.as_u128(), hex(shared_secret), hex(encoded_public)));
        self.v.auth.clone().map_err(|()| err())
    }
}
impl DiscoveryAdapter for MDisc {
    async fn discover(&self) -> passage_adapters::Result<Vec<Target>> {
        push(&self.log, &self.w, "call:discover".into());
        WAITING.fetch_add(1, Ordering::SeqCst);
        self.gate.acquire().await.unwrap().forget();
        WAITING.fetch_sub(1, Ordering::SeqCst);
        self.v.discover.clone().map(|l| l.iter().map(|i| self.v.targets[*i].clone()).collect()).map_err(|()| err())
    }
}
impl FilterAdapter for MFilt {
    async fn filter(&self, client_addr: &SocketAddr, server_addr: (&str, u16), protocol: Protocol, user: (&str, &Uuid), targets: Vec<Target>) -> passage_adapters::Result<Vec<Target>> {
        push(&self.log, &self.w, format!("call:filter:{}:{}:{}:{}", ctx(client_addr, server_addr, protocol), hex(user.0.as_bytes()), user.1.as_u128(), tids(&targets)));
        WAITING.fetch_add(1, Ordering::SeqCst);
        self.gate.acquire().await.unwrap().forget();
        WAITING.fetch_sub(1, Ordering::SeqCst);
        self.v.filter.clone().map(|l| l.iter().map(|i| self.v.targets[*i].clone()).collect()).map_err(|()| err())
    }
}
impl StrategyAdapter for MStrat {
    async fn select(&self, client_addr: &SocketAddr, server_addr: (&str, u16), protocol: Protocol, user: (&str, &Uuid), targets: Vec<Target>) -> passage_adapters::Result<Option<Target>> {
        push(&self.log, &self.w, format!("call:select:{}:{}:{}:{}", ctx(client_addr, server_addr, protocol), hex(user.0.as_bytes()), user.1.as_u128(), tids(&targets)));
        WAITING.fetch_add(1, Ordering::SeqCst);
        self.gate.acquire().await.unwrap().forget();
        WAITING.fetch_sub(1, Ordering::SeqCst);
        self.v.select.clone().map(|o| o.map(|i| self.v.targets[i].clone())).map_err(|()| err())
    }
}
fn loc_call(locale: Option<&str>, key: &str) -> String { format!("call:localize:{}:{}", locale.map_or("-".to_string(), |l| hex(l.as_bytes())), hex(key.as_bytes())) }
impl LocalizationAdapter for MLoc {
    async fn localize(&self, locale: Option<&str>, key: &str, _params: &[(&'static str, String)]) -> passage_adapters::Result<String> {
        push(&self.log, &self.w, loc_call(locale, key));
        self.v.loc_answer(locale, key).map_err(|()| err())
    }
}

/// the REAL FixedLocalizationAdapter behind an argument-capturing wrapper (C03)
#[derive(Debug)]
pub struct LoggingLocalization { pub inner: passage_adapters::FixedLocalizationAdapter, pub log: Log, pub written: Arc<AtomicUsize> }
impl LocalizationAdapter for LoggingLocalization {
    async fn localize(&self, locale: Option<&str>, key: &str, params: &[(&'static str, String)]) -> passage_adapters::Result<String> {
        push(&self.log, &self.written, loc_call(locale, key));
        self.inner.localize(locale, key, params).await
    }
}
