//! Independent decoder for the clientbound packets the handler can send (shares no code with
//! passage-packets).
use crate::util::hex;

#[derive(Clone, Copy, PartialEq, Debug)]
pub enum ClientPhase { Handshake, Status, Login, Configuration }

#[derive(Clone, Debug, PartialEq)]
pub enum CbPacket {
    StatusResponse(Vec<u8>),
    Pong(u64),
    CookieRequest(Vec<u8>),
    EncRequest { server_id: Vec<u8>, public_key: Vec<u8>, token: Vec<u8>, should_auth: bool },
    LoginSuccess { uuid: u128, name: Vec<u8> },
    LoginDisconnect(Vec<u8>),
    KeepAlive(u64),
    StoreCookie { key: Vec<u8>, payload: Vec<u8> },
    Transfer { host: Vec<u8>, port: i32 },
    Disconnect(Vec<u8>),
    Other(i32, Vec<u8>),
}

pub fn read_varint(b: &[u8]) -> Option<(i32, usize)> {
    let mut v: u32 = 0;
    for i in 0..5 {
        let x = *b.get(i)?;
        v |= u32::from(x & 0x7f) << (7 * i);
        if x & 0x80 == 0 { return Some((v as i32, i + 1)); }
    }
    Some((v as i32, 5))
}

struct Cur<'a>(&'a [u8]);
impl<'a> Cur<'a> {
    fn varint(&mut self) -> Option<i32> { let (v, n) = read_varint(self.0)?; self.0 = &self.0[n..]; Some(v) }
    fn take(&mut self, n: usize) -> Option<&'a [u8]> { if self.0.len() < n { return None; } let (a, b) = self.0.split_at(n); self.0 = b; Some(a) }
    fn bytes(&mut self) -> Option<Vec<u8>> { let n = self.varint()?; if n < 0 { return None; } Some(self.take(n as usize)?.to_vec()) }
    fn u64(&mut self) -> Option<u64> { Some(u64::from_be_bytes(self.take(8)?.try_into().ok()?)) }
    fn u128(&mut self) -> Option<u128> { Some(u128::from_be_bytes(self.take(16)?.try_into().ok()?)) }
    fn u8(&mut self) -> Option<u8> { Some(self.take(1)?[0]) }
    fn end(&self) -> bool { self.0.is_empty() }
}

pub fn decode_clientbound(phase: ClientPhase, payload: &[u8]) -> Option<CbPacket> {
    let mut c = Cur(payload);
    let id = c.varint()?;
    let p = match (phase, id) {
        (ClientPhase::Status, 0) => CbPacket::StatusResponse(c.bytes()?),
        (ClientPhase::Status, 1) => CbPacket::Pong(c.u64()?),
        (ClientPhase::Login, 0) => CbPacket::LoginDisconnect(c.bytes()?),
        (ClientPhase::Login, 1) => { let server_id = c.bytes()?; let public_key = c.bytes()?; let token = c.bytes()?; let should_auth = c.u8()? == 1; CbPacket::EncRequest { server_id, public_key, token, should_auth } }
        (ClientPhase::Login, 2) => { let uuid = c.u128()?; let name = c.bytes()?; let _n = c.varint()?; CbPacket::LoginSuccess { uuid, name } }
        (ClientPhase::Login, 5) => CbPacket::CookieRequest(c.bytes()?),
        (ClientPhase::Configuration, 4) => CbPacket::KeepAlive(c.u64()?),
        (ClientPhase::Configuration, 10) => { let key = c.bytes()?; let payload = c.bytes()?; CbPacket::StoreCookie { key, payload } }
        (ClientPhase::Configuration, 11) => { let host = c.bytes()?; let port = c.varint()?; CbPacket::Transfer { host, port } }
        (ClientPhase::Configuration, 2) => {
            // text component, string-tag form; the compound form is reported raw
            if c.0.first() == Some(&8) { c.u8()?; let n = u16::from_be_bytes(c.take(2)?.try_into().ok()?); CbPacket::Disconnect(c.take(n as usize)?.to_vec()) }
            else { let raw = c.0.to_vec(); c.0 = &[]; CbPacket::Other(2, raw) }
        }
        (_, id) => { let raw = c.0.to_vec(); c.0 = &[]; CbPacket::Other(id, raw) }
    };
    if !c.end() { return None; }
    Some(p)
}

impl CbPacket {
    pub fn canonical(&self) -> String {
        match self {
            CbPacket::StatusResponse(j) => format!("send:statusResponse:{}", hex(j)),
            CbPacket::Pong(p) => format!("send:pong:{p}"),
            CbPacket::CookieRequest(k) => format!("send:cookieRequest:{}", hex(k)),
            CbPacket::EncRequest { server_id, public_key, token, should_auth } => format!("send:encRequest:{}:{}:{}:{}", hex(server_id), hex(public_key), hex(token), u8::from(*should_auth)),
            CbPacket::LoginSuccess { uuid, name } => format!("send:loginSuccess:{uuid}:{}", hex(name)),
            CbPacket::LoginDisconnect(r) => format!("send:loginDisconnect:{}", hex(r)),
            CbPacket::KeepAlive(id) => format!("send:keepAlive:{id}"),
            CbPacket::StoreCookie { key, payload } => {
                if key == b"passage:session" {
                    // id and trace id are fresh random values: compare host and port only
                    match serde_json::from_slice::<serde_json::Value>(payload) {
                        Ok(v) => format!("send:storeSession:{}:{}", hex(v["server_address"].as_str().unwrap_or("?").as_bytes()), v["server_port"].as_u64().unwrap_or(99999)),
                        Err(_) => format!("send:storeSession:unparsable:{}", hex(payload)),
                    }
                } else if key == b"passage:authentication" { format!("send:storeAuth:{}", hex(payload)) }
                else { format!("send:storeCookie:{}:{}", hex(key), hex(payload)) }
            }
            CbPacket::Transfer { host, port } => format!("send:transfer:{}:{port}", hex(host)),
            CbPacket::Disconnect(r) => format!("send:disconnect:{}", hex(r)),
            CbPacket::Other(id, raw) => format!("send:other:{id}:{}", hex(raw)),
        }
    }
}

pub fn handshake_next_state(payload: &[u8]) -> Option<i32> {
    let mut c = Cur(payload);
    if c.varint()? != 0 { return None; }
    c.varint()?; c.bytes()?; c.take(2)?; c.varint()
}

/// (server address, server port) of a handshake frame payload
pub fn handshake_host_port(payload: &[u8]) -> Option<(Vec<u8>, u16)> {
    let mut c = Cur(payload);
    if c.varint()? != 0 { return None; }
    c.varint()?; let h = c.bytes()?; let p = c.take(2)?;
    Some((h, u16::from_be_bytes([p[0], p[1]])))
}

/// (key, payload) of a login-phase Cookie Response frame payload
pub fn login_cookie_response(payload: &[u8]) -> Option<(Vec<u8>, Option<Vec<u8>>)> {
    let mut c = Cur(payload);
    if c.varint()? != 4 { return None; }
    let key = c.bytes()?;
    let has = c.u8()? == 1;
    let pl = if has { Some(c.bytes()?) } else { None };
    Some((key, pl))
}
