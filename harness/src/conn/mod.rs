//! Scenario engine: the REAL `Connection::listen` over an in-memory pipe under paused tokio time,
//! with logging mock adapters, a scripted interactive client, and an independent clientbound
//! packet decoder.  Produces the request line for the Lean L0 model and the canonical observation.
pub mod decode;
pub mod scen;
pub mod mocks;
pub mod oracle;

use crate::c05::RefCfb8;
use crate::codec::{ref_varint, V};
use crate::util::*;
use decode::{CbPacket, ClientPhase};
use mocks::*;
use passage_protocol::connection::Connection;
use passage_protocol::cookie::{AuthCookie, SessionCookie};
use std::net::SocketAddr;
use std::pin::Pin;
use std::sync::atomic::{AtomicUsize, Ordering};
use std::sync::{Arc, Mutex};
use std::task::{Context, Poll, Waker};
use std::time::{Duration, SystemTime, UNIX_EPOCH};
use tokio::io::{AsyncRead, AsyncWrite, AsyncWriteExt, ReadBuf};

#[derive(Clone, Debug)]
pub enum EncKind { Honest, WrongToken, StaleToken, OtherKey, Garbage, GarbageToken, SecretLen(usize),
    /// the first n bytes of the issued token (0 = empty), or the token plus one byte (n = 33)
    TokenPrefix(usize) }

/// the verify token of the connection that last answered an Encryption Request in this process
static PREV_TOKEN: std::sync::Mutex<Option<Vec<u8>>> = std::sync::Mutex::new(None);

#[derive(Clone, Debug)]
pub enum Echo { Last, Nth(usize), Wrong, LastPlusOne }

#[derive(Clone, Debug)]
pub enum Step {
    /// a complete frame with this payload (VarInt id ‖ body)
    Frame(Vec<u8>),
    /// Encryption Response built from what the server sent on this run
    EncResp(EncKind),
    /// serverbound Keep Alive echoing an observed id
    KeepAlive(Echo),
    Tick,
    AdapterDone,
    Eof,
    /// only a length prefix with this (illegal) value
    BadLen(i32),
    /// raw plaintext bytes written as one segment (byte-level scenarios)
    Raw(Vec<u8>),
    /// raw bytes that carry (a mutated framing of) this payload: the client keeps its own
    /// bookkeeping (phase, presented cookies) as if it had sent the payload
    RawAs(Vec<u8>, Vec<u8>),
    /// the bytes of `inner` (a frame-producing step) sent in pieces cut at `cuts`, with `events`
    /// executed once that many bytes of the frame have been sent
    Seg { inner: Box<Step>, cuts: Vec<usize>, events: Vec<(usize, Step)> },
    /// switch the write throttle of the server's transport to this schedule from now on
    Throttle(Vec<WAns>),
    /// let this much virtual time pass; keep-alive ticks that fall inside are delivered one by one
    Wait(u64),
    /// the whole process is stalled for this much virtual time (suspended, starved, a blocking call on the worker): the
    /// clock jumps in one go and the handler only runs again afterwards; however many keep-alive instants were crossed,
    /// ONE tick is due at wake-up (the interval skips missed ticks), the next at the following multiple of the period
    Stall(u64),
    /// real (wall-clock) pause of the client, milliseconds: the clock read by the cookie check moves on
    RealSleep(u64),
    /// several frames handed to the transport in ONE write (coalesced segments); the client switches its
    /// cipher inside the batch right after an Encryption Response, as a pipelining client does
    Batch(Vec<Step>),
}

/// answers of the throttled server-side transport to `poll_write`
#[derive(Clone, Debug, PartialEq)]
pub enum WAns { Pending, Accept(usize) }

#[derive(Clone)]
pub struct Scenario {
    pub secret: Option<Vec<u8>>,
    pub expiry: u64,
    pub max_len: i32,
    pub client_addr: SocketAddr,
    pub verdicts: Verdicts,
    pub steps: Vec<Step>,
    /// shared secret the client uses for an honest Encryption Response
    pub shared_secret: Vec<u8>,
    pub real_localization: Option<(String, Vec<(String, Vec<(String, String)>)>)>,
}

pub type WSched = Arc<Mutex<(std::collections::VecDeque<WAns>, Option<Waker>)>>;

pub struct Outcome {
    pub request: String,
    pub observed: String,
    pub events: Vec<Event>,
    pub result: String,
    pub auth_cookie_json: Option<Vec<u8>>,
    pub wall_before: u64,
    pub wall_after: u64,
    pub inputs: Vec<String>,
    pub undecodable: bool,
    /// for every event: index of the scenario step after which it was observed
    pub event_steps: Vec<usize>,
    /// byte-level request line (`conn1.run …`) and its inputs
    pub request1: String,
    pub max_alloc: usize,
    pub panicked: bool,
    /// virtual milliseconds since the connection was created at which each packet was seen
    pub packet_ms: Vec<u64>,
}

#[derive(Clone, Debug, PartialEq)]
pub enum Event { Send(CbPacket), Call(String) }

/// counts the bytes the server wrote
struct CountWrite<S> { inner: S, n: Arc<AtomicUsize>, sched: WSched }
impl<S: AsyncWrite + Unpin> AsyncWrite for CountWrite<S> {
    fn poll_write(mut self: Pin<&mut Self>, cx: &mut Context<'_>, buf: &[u8]) -> Poll<std::io::Result<usize>> {
        // throttle: an empty schedule passes everything through
        let ans = { let mut g = self.sched.lock().unwrap(); let a = g.0.pop_front(); if a == Some(WAns::Pending) { g.1 = Some(cx.waker().clone()); } a };
        let buf = match ans { Some(WAns::Pending) => return Poll::Pending, Some(WAns::Accept(k)) => &buf[..k.max(1).min(buf.len())], None => buf };
        let r = Pin::new(&mut self.inner).poll_write(cx, buf);
        if let Poll::Ready(Ok(k)) = &r { self.n.fetch_add(*k, Ordering::SeqCst); }
        r
    }
    fn poll_flush(mut self: Pin<&mut Self>, cx: &mut Context<'_>) -> Poll<std::io::Result<()>> { Pin::new(&mut self.inner).poll_flush(cx) }
    fn poll_shutdown(mut self: Pin<&mut Self>, cx: &mut Context<'_>) -> Poll<std::io::Result<()>> { Pin::new(&mut self.inner).poll_shutdown(cx) }
}
impl<S: AsyncRead + Unpin> AsyncRead for CountWrite<S> {
    fn poll_read(mut self: Pin<&mut Self>, cx: &mut Context<'_>, buf: &mut ReadBuf<'_>) -> Poll<std::io::Result<()>> { Pin::new(&mut self.inner).poll_read(cx, buf) }
}

fn wall() -> u64 { SystemTime::now().duration_since(UNIX_EPOCH).unwrap().as_secs() }

pub fn frame(payload: &[u8]) -> Vec<u8> { let mut f = ref_varint(payload.len() as i32); f.extend_from_slice(payload); f }

pub fn result_name(r: &Result<(), passage_protocol::Error>) -> String {
    use passage_protocol::Error as E;
    match r {
        Ok(()) => "ok".into(),
        Err(e) => format!("err:{}", match e {
            E::ConnectionClosed(_) => "closed", E::IllegalPacketLength => "illegal-length", E::IllegalEnumValue { .. } => "illegal-enum",
            E::UnexpectedPacketId(_) => "unexpected-id", E::InvalidEncoding => "invalid-encoding", E::ArrayConversionFailed => "array-conversion",
            E::Json(_) => "json", E::CryptographyFailed(_) => "crypto", E::InvalidVerifyToken => "bad-token", E::MissedKeepAlive => "missed-keep-alive",
            E::NoTargetFound => "no-target", E::AdapterError(_) => "adapter", E::Nbt(_) => "nbt", E::InternalIo(_) => "internal-io", E::AuthRequestFailed(_) => "auth-request",
        }),
    }
}

/// runs one scenario against the real code
pub fn execute(sc: &Scenario, other_key: &rsa::RsaPublicKey) -> Outcome {
    // watchdog: under the paused clock a handler that spins (e.g. on a transport that keeps returning
    // end-of-stream) never lets the runtime go idle; a scenario normally takes milliseconds
    let (tx, rx) = std::sync::mpsc::channel();
    let (sc2, key2) = (sc.clone(), other_key.clone());
    std::thread::spawn(move || {
        let rt = tokio::runtime::Builder::new_current_thread().enable_time().start_paused(true).build().unwrap();
        let o = rt.block_on(execute_async(&sc2, &key2));
        let _ = tx.send(o);
    });
    // after three hangs every further scenario is answered "hang" at once: each hung thread keeps a core busy
    static HANGS: AtomicUsize = AtomicUsize::new(0);
    let hung = |waited: bool| -> Outcome {
        let steps: Vec<String> = sc.steps.iter().map(|s| { let d = format!("{s:?}"); d.chars().take(100).collect::<String>().replace(' ', "") }).collect();
        let request = format!("conn.hang waited={} secret={} max_len={} steps={}", u8::from(waited), u8::from(sc.secret.is_some()), sc.max_len, steps.join(","));
        Outcome { request: request.clone(), observed: "hang".into(), events: vec![], result: "hang".into(), auth_cookie_json: None, wall_before: 0, wall_after: 0, inputs: vec![], undecodable: false,
            event_steps: vec![], request1: request, max_alloc: 0, panicked: false, packet_ms: vec![] }
    };
    if HANGS.load(Ordering::SeqCst) >= 3 { return hung(false); }
    match rx.recv_timeout(Duration::from_secs(20)) {
        Ok(o) => o,
        Err(_) => {
            // a handler that spins does so on every run of the same scenario; a runner thread that was merely starved (one such
            // event was seen in 200 000 scenarios on a fully loaded machine) is not: the scenario is run once more, with 40 s
            eprintln!("no result within 20 s of real time: running the scenario once more");
            let (tx, rx) = std::sync::mpsc::channel();
            let (sc2, key2) = (sc.clone(), other_key.clone());
            std::thread::spawn(move || {
                let rt = tokio::runtime::Builder::new_current_thread().enable_time().start_paused(true).build().unwrap();
                let o = rt.block_on(execute_async(&sc2, &key2));
                let _ = tx.send(o);
            });
            match rx.recv_timeout(Duration::from_secs(40)) {
                Ok(o) => o,
                Err(_) => {
                    HANGS.fetch_add(1, Ordering::SeqCst);
                    eprintln!("HANG: the connection handler did not settle within 20 s and, run again, within 40 s of real time (busy loop or dead-lock)");
                    hung(true)
                }
            }
        }
    }
}

async fn settle() {
    for _ in 0..4 { tokio::task::yield_now().await; }
    tokio::time::sleep(Duration::from_millis(1)).await;
    for _ in 0..4 { tokio::task::yield_now().await; }
}

struct Runner<'a> {
    sc: &'a Scenario,
    other_key: &'a rsa::RsaPublicKey,
    client: tokio::io::DuplexStream,
    gate: Arc<tokio::sync::Semaphore>,
    wsched: WSched,
    log: Log,
    enc: Option<(RefCfb8, RefCfb8)>,
    rx_plain: Vec<u8>,
    parsed_upto: usize,
    phase: ClientPhase,
    packets: Vec<(usize, CbPacket)>,
    packet_step: Vec<usize>,
    call_step: Vec<usize>,
    inputs: Vec<String>,
    inputs1: Vec<String>,
    rsa_pairs: Vec<(Vec<u8>, Option<Vec<u8>>)>,
    token: Option<Vec<u8>>,
    ka_ids: Vec<u64>,
    undecodable: bool,
    presented: Vec<Vec<u8>>,
    step_i: usize,
    t0: tokio::time::Instant,
    packet_ms: Vec<u64>,
    wall_override: Option<u64>,
}

impl Runner<'_> {
    /// payload (id ‖ body) of a frame-producing step, built from what the server sent so far
    fn payload_of(&mut self, step: &Step) -> Option<Vec<u8>> {
        match step {
            Step::Frame(p) => Some(p.clone()),
            Step::KeepAlive(e) => {
                let id = match e {
                    Echo::Last => self.ka_ids.last().copied().unwrap_or(7),
                    Echo::Nth(n) => self.ka_ids.get(*n).copied().unwrap_or(11),
                    Echo::Wrong => self.ka_ids.last().map_or(13, |x| x ^ 0x5555),
                    Echo::LastPlusOne => self.ka_ids.last().map_or(17, |x| x + 1),
                };
                let mut p = vec![0x04];
                p.extend(id.to_be_bytes());
                Some(p)
            }
            Step::EncResp(kind) => {
                let tok = self.token.clone().unwrap_or_else(|| vec![0u8; 32]);
                let server_pub = &passage_protocol::crypto::KEY_PAIR.1;
                let e = |k: &rsa::RsaPublicKey, v: &[u8]| passage_protocol::crypto::encrypt(k, v).expect("rsa encrypt");
                let ss = &self.sc.shared_secret;
                let (sct, tct) = match kind {
                    EncKind::Honest => (e(server_pub, ss), e(server_pub, &tok)),
                    EncKind::WrongToken => { let mut t = tok.clone(); t[5] ^= 1; (e(server_pub, ss), e(server_pub, &t)) }
                    // a token this process issued on an EARLIER connection (a recorded Encryption Response replayed elsewhere)
                    EncKind::StaleToken => { let prev = PREV_TOKEN.lock().unwrap().clone().unwrap_or_else(|| vec![0xabu8; 32]); (e(server_pub, ss), e(server_pub, &prev)) }
                    EncKind::OtherKey => (e(self.other_key, ss), e(self.other_key, &tok)),
                    EncKind::Garbage => (vec![0x5a; 128], e(server_pub, &tok)),
                    EncKind::GarbageToken => (e(server_pub, ss), vec![1, 2, 3]),
                    EncKind::SecretLen(n) => (e(server_pub, &vec![0x42u8; *n]), e(server_pub, &tok)),
                    EncKind::TokenPrefix(n) => { let mut t = tok.clone(); if *n > t.len() { t.push(0x5a); } else { t.truncate(*n); } (e(server_pub, ss), e(server_pub, &t)) }
                };
                if self.token.is_some() { *PREV_TOKEN.lock().unwrap() = Some(tok.clone()); }
                for ct in [&sct, &tct] {
                    let pt = passage_protocol::crypto::decrypt(&passage_protocol::crypto::KEY_PAIR.0, ct).ok();
                    self.rsa_pairs.push((ct.clone(), pt));
                }
                let mut p = vec![0x01];
                p.extend(ref_varint(sct.len() as i32)); p.extend(&sct);
                p.extend(ref_varint(tct.len() as i32)); p.extend(&tct);
                Some(p)
            }
            _ => None,
        }
    }

    async fn write_plain(&mut self, bytes: &[u8]) {
        self.inputs1.push(format!("R{}", &hex(bytes)[1..]));
        let b = match self.enc.as_mut() { Some((c2s, _)) => c2s.enc(bytes), None => bytes.to_vec() };
        let _ = self.client.write_all(&b).await;
    }

    fn after_frame(&mut self, step: &Step, payload: &[u8]) {
        // the client switches its cipher right after an Encryption Response carrying a 16-byte secret
        if let Step::EncResp(k) = step {
            let sec = match k { EncKind::SecretLen(n) => vec![0x42u8; *n], _ => self.sc.shared_secret.clone() };
            if sec.len() == 16 && self.enc.is_none() { self.enc = Some((RefCfb8::new(&sec), RefCfb8::new(&sec))); }
        }
        if self.phase == ClientPhase::Handshake && payload.first() == Some(&0) {
            if let Some(next) = decode::handshake_next_state(payload) { self.phase = if next == 1 { ClientPhase::Status } else { ClientPhase::Login }; }
        }
        self.presented.push(payload.to_vec());
    }

    async fn settle_and_drain(&mut self) {
        if let Some(w) = self.wsched.lock().unwrap().1.take() { w.wake(); }
        settle().await;
        let mut cx = Context::from_waker(Waker::noop());
        loop {
            let mut tmp = [0u8; 8192];
            let mut rb = ReadBuf::new(&mut tmp);
            match Pin::new(&mut self.client).poll_read(&mut cx, &mut rb) {
                Poll::Ready(Ok(())) if !rb.filled().is_empty() => {
                    let chunk = rb.filled().to_vec();
                    // bytes after the switch are decrypted with the secret the CLIENT chose
                    let plain = match self.enc.as_mut() { Some((_, s2c)) => s2c.dec(&chunk), None => chunk };
                    self.rx_plain.extend(plain);
                }
                _ => break,
            }
        }
        while !self.undecodable {
            let Some((len, used)) = decode::read_varint(&self.rx_plain[self.parsed_upto..]) else { break };
            if len <= 0 { self.undecodable = true; break; }
            if self.rx_plain.len() < self.parsed_upto + used + len as usize { break; }
            let payload = &self.rx_plain[self.parsed_upto + used..self.parsed_upto + used + len as usize];
            match decode::decode_clientbound(self.phase, payload) {
                Some(p) => {
                    match &p {
                        CbPacket::EncRequest { token: t, .. } => self.token = Some(t.clone()),
                        CbPacket::KeepAlive(id) => self.ka_ids.push(*id),
                        CbPacket::LoginSuccess { .. } => self.phase = ClientPhase::Configuration,
                        _ => {}
                    }
                    self.packets.push((self.parsed_upto, p));
                    self.packet_step.push(self.step_i);
                    self.packet_ms.push(self.t0.elapsed().as_millis() as u64);
                }
                None => { self.undecodable = true; }
            }
            self.parsed_upto += used + len as usize;
        }
        let n = self.log.lock().unwrap().len();
        while self.call_step.len() < n { self.call_step.push(self.step_i); }
    }

    async fn event(&mut self, step: &Step) {
        match step {
            Step::Tick => { self.inputs.push("T".into()); self.inputs1.push("T".into()); tokio::time::advance(Duration::from_secs(16)).await; }
            Step::AdapterDone => {
                // completes the adapter call that is blocked right now; without one it is a no-op, as in the model
                self.inputs.push("A".into()); self.inputs1.push("A".into());
                if mocks::WAITING.load(Ordering::SeqCst) > 0 { self.gate.add_permits(1); }
            }
            Step::Eof => { self.inputs.push("E".into()); self.inputs1.push("E".into()); let _ = self.client.shutdown().await; }
            Step::Throttle(s) => { let mut g = self.wsched.lock().unwrap(); g.0 = s.iter().cloned().collect(); }
            _ => {}
        }
    }

    async fn run_step(&mut self, step: &Step) {
        match step {
            Step::Tick | Step::AdapterDone | Step::Eof | Step::Throttle(_) => { self.event(step).await; self.settle_and_drain().await; }
            Step::RealSleep(ms) => { std::thread::sleep(Duration::from_millis(*ms)); self.wall_override = Some(wall()); }
            Step::Wait(ms) => {
                let period = Duration::from_secs(16);
                let target = tokio::time::Instant::now() + Duration::from_millis(*ms);
                loop {
                    let el = self.t0.elapsed();
                    let next = period * ((el.as_nanos() / period.as_nanos()) as u32 + 1);
                    if self.t0 + next <= target {
                        tokio::time::advance(next - el).await;
                        self.inputs.push("T".into()); self.inputs1.push("T".into());
                        self.settle_and_drain().await;
                    } else {
                        let now = tokio::time::Instant::now();
                        if target > now { tokio::time::advance(target - now).await; }
                        self.settle_and_drain().await;
                        break;
                    }
                }
            }
            Step::Stall(ms) => {
                let period = Duration::from_secs(16).as_nanos();
                let before = self.t0.elapsed().as_nanos() / period;
                tokio::time::advance(Duration::from_millis(*ms)).await;
                if self.t0.elapsed().as_nanos() / period > before { self.inputs.push("T".into()); self.inputs1.push("T".into()); }
                self.settle_and_drain().await;
            }
            Step::BadLen(n) => { self.inputs.push("B".into()); let b = ref_varint(*n); self.write_plain(&b).await; self.settle_and_drain().await; }
            Step::Raw(b) => { self.inputs.push("?raw".into()); self.write_plain(b).await; self.settle_and_drain().await; }
            Step::RawAs(b, p) => { self.inputs.push("?raw".into()); self.write_plain(b).await; self.after_frame(step, p); self.settle_and_drain().await; }
            Step::Frame(_) | Step::EncResp(_) | Step::KeepAlive(_) => {
                let p = self.payload_of(step).unwrap();
                self.inputs.push(format!("F{}", &hex(&p)[1..]));
                let f = frame(&p);
                self.write_plain(&f).await;
                self.after_frame(step, &p);
                self.settle_and_drain().await;
            }
            Step::Batch(inner) => {
                let mut buf = vec![];
                for st in inner {
                    let Some(p) = self.payload_of(st) else { continue };
                    self.inputs.push(format!("F{}", &hex(&p)[1..]));
                    let f = frame(&p);
                    self.inputs1.push(format!("R{}", &hex(&f)[1..]));
                    buf.extend(match self.enc.as_mut() { Some((c2s, _)) => c2s.enc(&f), None => f.clone() });
                    self.after_frame(st, &p);
                }
                let _ = self.client.write_all(&buf).await;
                self.settle_and_drain().await;
            }
            Step::Seg { inner, cuts, events } => {
                let Some(p) = self.payload_of(inner) else { return };
                self.inputs.push("?seg".into());
                let f = frame(&p);
                let mut points: Vec<usize> = cuts.iter().copied().filter(|c| *c > 0 && *c < f.len()).collect();
                points.extend(events.iter().map(|(o, _)| (*o).min(f.len())).filter(|o| *o > 0 && *o < f.len()));
                points.sort_unstable(); points.dedup(); points.push(f.len());
                let mut at = 0;
                for e in events.iter().filter(|(o, _)| *o == 0) { self.event(&e.1).await; self.settle_and_drain().await; }
                for pt in points {
                    self.write_plain(&f[at..pt]).await;
                    at = pt;
                    if pt == f.len() { self.after_frame(inner, &p); }
                    self.settle_and_drain().await;
                    for e in events.iter().filter(|(o, _)| (*o).min(f.len()) == pt && *o > 0) { self.event(&e.1).await; self.settle_and_drain().await; }
                }
            }
        }
    }
}

async fn execute_async(sc: &Scenario, other_key: &rsa::RsaPublicKey) -> Outcome {
    let wall_before = wall();
    let (client, server_half) = tokio::io::duplex(1 << 20);
    let written = Arc::new(AtomicUsize::new(0));
    let log: Log = Arc::new(Mutex::new(vec![]));
    let gate = Arc::new(tokio::sync::Semaphore::new(0));
    let m = Mocks::new(sc.verdicts.clone(), log.clone(), written.clone(), gate.clone());
    let wsched: WSched = Arc::new(Mutex::new((Default::default(), None)));
    let server_stream = CountWrite { inner: server_half, n: written.clone(), sched: wsched.clone() };
    let (secret, expiry, max_len, addr) = (sc.secret.clone(), sc.expiry, sc.max_len, sc.client_addr);
    let real_loc = sc.real_localization.clone();
    crate::util::alloc_reset();
    mocks::WAITING.store(0, Ordering::SeqCst);
    let task = tokio::spawn(async move {
        macro_rules! go { ($loc:expr) => {{
            let mut c = Connection::new(server_stream, Arc::new(m.status), Arc::new(m.discovery), Arc::new(m.filter), Arc::new(m.strategy), Arc::new(m.auth), Arc::new($loc))
                .with_client_address(addr).with_auth_secret(secret).with_auth_cookie_expiry(expiry).with_max_packet_length(max_len);
            c.listen().await
        }}}
        match real_loc {
            Some((default, tables)) => {
                let messages = tables.into_iter().map(|(l, kv)| (l, kv.into_iter().collect())).collect();
                go!(LoggingLocalization { inner: passage_adapters::FixedLocalizationAdapter::new(default, messages), log: m.loc_log.clone(), written: m.loc_written.clone() })
            }
            None => go!(m.localization),
        }
    });

    let mut r = Runner { sc, other_key, client, gate, wsched: wsched.clone(), log: log.clone(), enc: None, rx_plain: vec![], parsed_upto: 0,
        phase: ClientPhase::Handshake, packets: vec![], packet_step: vec![], call_step: vec![], inputs: vec![], inputs1: vec![],
        rsa_pairs: vec![], token: None, ka_ids: vec![], undecodable: false, presented: vec![], step_i: 0, t0: tokio::time::Instant::now(), packet_ms: vec![], wall_override: None };
    for (i, step) in sc.steps.iter().enumerate() {
        r.step_i = i;
        r.run_step(step).await;
    }
    // let everything still pending in the throttled transport through
    r.step_i = sc.steps.len();
    { wsched.lock().unwrap().0.clear(); }
    for _ in 0..3 { r.settle_and_drain().await; }
    let max_alloc = crate::util::alloc_max();
    let mut panicked = false;
    let result = if task.is_finished() { match task.await { Ok(res) => result_name(&res), Err(e) => if e.is_panic() { panicked = true; "panic".into() } else { "cancelled".into() } } } else { task.abort(); "running".into() };
    let wall_after = wall();
    // after a real pause the clock the cookie check read is the one at the presentation
    let wall_before = r.wall_override.unwrap_or(wall_before);
    let Runner { packets, packet_step, mut call_step, inputs, inputs1, rsa_pairs, token, ka_ids, undecodable, presented, packet_ms, .. } = r;

    // merge adapter calls and packets into one ordered event list
    let calls = log.lock().unwrap().clone();
    while call_step.len() < calls.len() { call_step.push(sc.steps.len()); }
    let mut events: Vec<(usize, u8, usize, Event)> = vec![];
    for (i, (off, p)) in packets.iter().enumerate() { events.push((*off, 1, packet_step[i], Event::Send(p.clone()))); }
    for (i, (off, c)) in calls.iter().enumerate() { events.push((*off, 0, call_step[i], Event::Call(c.clone()))); }
    events.sort_by_key(|(o, k, _, _)| (*o, *k));
    let event_steps: Vec<usize> = events.iter().map(|(_, _, s, _)| *s).collect();
    let events: Vec<Event> = events.into_iter().map(|(_, _, _, e)| e).collect();

    // observation line
    let mut auth_cookie_json = None;
    let ev_str: Vec<String> = events.iter().map(|e| match e {
        Event::Call(c) => c.clone(),
        Event::Send(p) => { if let CbPacket::StoreCookie { key, payload } = p { if key == b"passage:authentication" && payload.len() >= 32 { auth_cookie_json = Some(payload[32..].to_vec()); } } p.canonical() }
    }).collect();
    // a routing call started in the very poll in which already-buffered client input ends the connection is
    // scheduler-dependent (randomly ordered select!) and without consequence: dropped on both sides
    let mut ev_str = ev_str;
    if result.starts_with("err:") && result != "err:adapter" && result != "err:no-target" {
        if ev_str.last().is_some_and(|l| l == "call:discover" || l.starts_with("call:filter:") || l.starts_with("call:select:")) { ev_str.pop(); }
    }
    let observed = format!("{} => {}", ev_str.join(";"), result).trim_start().to_string();
    let observed = if undecodable { format!("{observed} [undecodable server bytes]") } else { observed };

    // request line for the model
    let mut env: Vec<String> = vec![];
    env.push(format!("token={}", hex(&token.clone().unwrap_or_default())));
    env.push(format!("pub={}", hex(&passage_protocol::crypto::ENCODED_PUB)));
    env.push(format!("now={wall_before}"));
    env.extend(sc.verdicts.env_tokens());
    match &sc.real_localization {
        // the real FixedLocalizationAdapter's answers are recorded per call that happened
        Some((default, tables)) => for (l, k, r) in m_loc_answers(&calls_loc(&log), default, tables).await {
            env.push(format!("loc={}:{}:ok:{}", l.map_or("-".into(), |x| hex(x.as_bytes())), hex(k.as_bytes()), hex(r.as_bytes())));
        },
        None => for (l, k) in calls_loc(&log) {
            let r = sc.verdicts.loc_answer(l.as_deref(), &k);
            env.push(format!("loc={}:{}:{}", l.as_ref().map_or("-".into(), |x| hex(x.as_bytes())), hex(k.as_bytes()), match r { Ok(t) => format!("ok:{}", hex(t.as_bytes())), Err(()) => "err".into() }));
        },
    }
    for (ct, pt) in &rsa_pairs { env.push(format!("rsa={}:{}", hex(ct), pt.as_ref().map_or("-".into(), |p| hex(p)))); }
    // oracle classes for every cookie payload the client presented
    for p in &presented {
        if let Some((key, Some(payload))) = decode::login_cookie_response(p) {
            if key == b"passage:session" {
                let class = match serde_json::from_slice::<Option<SessionCookie>>(&payload) { Ok(Some(_)) => "p", Ok(None) => "n", Err(_) => "i" };
                env.push(format!("sess={}:{class}", hex(&payload)));
            }
            if payload.len() >= 32 {
                let msg = &payload[32..];
                match serde_json::from_slice::<AuthCookie>(msg) {
                    Ok(c) => env.push(format!("cookie={}:{}:{}:{}:{}:{}", hex(msg), c.timestamp, hex(c.client_addr.ip().to_string().as_bytes()), hex(c.user_name.as_bytes()), c.user_id.as_u128(), hex(&serde_json::to_vec(&c.profile_properties).unwrap()))),
                    Err(_) => env.push(format!("cookie={}:err", hex(msg))),
                }
            }
        }
    }
    if let Some(j) = &auth_cookie_json { env.push(format!("ser={}", hex(j))); }
    env.push(format!("ka={}", ka_ids.iter().map(|x| x.to_string()).collect::<Vec<_>>().join(",")));
    let head = format!("secret={} expiry={} max={} addr={} ip={} | {} |",
        sc.secret.as_ref().map_or("-".into(), |s| hex(s)), sc.expiry, sc.max_len, hex(sc.client_addr.to_string().as_bytes()), hex(sc.client_addr.ip().to_string().as_bytes()), env.join(" "));
    let request = format!("conn.run {head} {}", inputs.join(" "));
    let request1 = format!("conn1.run {head} {}", inputs1.join(" "));
    Outcome { request, observed, events, result, auth_cookie_json, wall_before, wall_after, inputs, undecodable, event_steps, request1, max_alloc, panicked, packet_ms }
}

fn calls_loc(log: &Log) -> Vec<(Option<String>, String)> {
    log.lock().unwrap().iter().filter_map(|(_, c)| {
        let rest = c.strip_prefix("call:localize:")?;
        let (l, k) = rest.split_once(':')?;
        let l = if l == "-" { None } else { Some(String::from_utf8(unhex(l)?).ok()?) };
        Some((l, String::from_utf8(unhex(k)?).ok()?))
    }).collect()
}

/// answers of the real FixedLocalizationAdapter for the calls that happened (recorded oracle)
async fn m_loc_answers(calls: &[(Option<String>, String)], default: &str, tables: &[(String, Vec<(String, String)>)]) -> Vec<(Option<String>, String, String)> {
    let messages = tables.iter().cloned().map(|(l, kv)| (l, kv.into_iter().collect())).collect();
    let a = passage_adapters::FixedLocalizationAdapter::new(default.to_string(), messages);
    use passage_adapters::localization::LocalizationAdapter;
    let mut out = vec![];
    let a = std::sync::Arc::new(a);
    for (l, k) in calls {
        // the adapter is third-party to the harness: a panic in it (which also ended the handler) must not end the runner
        let (a2, l2, k2) = (a.clone(), l.clone(), k.clone());
        let r = tokio::spawn(async move { a2.localize(l2.as_deref(), &k2, &[]).await.unwrap_or_default() }).await.unwrap_or_else(|_| "<localisation panicked>".to_string());
        out.push((l.clone(), k.clone(), r));
    }
    out
}

/// helpers to build serverbound payloads with the harness's own encoder
pub mod build {
    use super::*;
    pub fn payload(id: i32, parts: &[Vec<u8>]) -> Vec<u8> { let mut p = ref_varint(id); for x in parts { p.extend(x); } p }
    pub fn s(b: &[u8]) -> Vec<u8> { let mut v = ref_varint(b.len() as i32); v.extend(b); v }
    pub fn handshake(proto: i32, host: &[u8], port: u16, next: i32) -> Vec<u8> { payload(0, &[ref_varint(proto), s(host), port.to_be_bytes().to_vec(), ref_varint(next)]) }
    pub fn status_request() -> Vec<u8> { payload(0, &[]) }
    pub fn ping(p: u64) -> Vec<u8> { payload(1, &[p.to_be_bytes().to_vec()]) }
    pub fn login_start(name: &[u8], uuid: u128) -> Vec<u8> { payload(0, &[s(name), uuid.to_be_bytes().to_vec()]) }
    pub fn cookie_response(key: &[u8], pl: Option<&[u8]>) -> Vec<u8> { payload(4, &[s(key), match pl { Some(p) => { let mut v = vec![1u8]; v.extend(s(p)); v } None => vec![0u8] }]) }
    pub fn login_ack() -> Vec<u8> { payload(3, &[]) }
    /// view distance: one signed byte chosen from the locale's length (10, 0, 127, -1, -128 all occur), so that every caller varies it
    pub fn client_info(locale: &[u8]) -> Vec<u8> { let vd = [8u8, 0, 0x7f, 0xff, 0x80, 10][locale.len() % 6]; payload(0, &[s(locale), vec![vd], ref_varint(0), vec![1], vec![0x7f], ref_varint(1), vec![0], vec![1], ref_varint(0)]) }
    pub fn plugin_message() -> Vec<u8> { payload(2, &[]) }
    pub fn config_cookie_response() -> Vec<u8> { payload(1, &[]) }
    pub fn resource_pack_response(uuid: u128, result: i32) -> Vec<u8> { payload(6, &[uuid.to_be_bytes().to_vec(), ref_varint(result)]) }
    pub fn keep_alive(id: u64) -> Vec<u8> { payload(4, &[id.to_be_bytes().to_vec()]) }
}

pub fn _unused(_: &V) {}
