//! Scenario engine: the REAL `Connection::listen` over an in-memory pipe under paused tokio time,
//! with logging mock adapters, a scripted interactive client, and an independent clientbound
//! packet decoder.  Produces the request line for the Lean L0 model and the canonical observation.
pub mod decode;
pub mod scen;
pub mod mocks;
pub mod oracle;

use crate::c05::RefCfb8;
use crate::codec::{ref_varint, V};
use crate::util::*;
use decode::{CbPacket, ClientPhase};
use mocks::*;
use passage_protocol::connection::Connection;
use passage_protocol::cookie::{AuthCookie, SessionCookie};
use std::net::SocketAddr;
use std::pin::Pin;
use std::sync::atomic::{AtomicUsize, Ordering};
use std::sync::{Arc, Mutex};
use std::task::{Context, Poll, Waker};
use std::time::{Duration, SystemTime, UNIX_EPOCH};
use tokio::io::{AsyncRead, AsyncWrite, AsyncWriteExt, ReadBuf};

#[derive(Clone, Debug)]
pub enum EncKind { Honest, WrongToken, StaleToken, OtherKey, Garbage, GarbageToken, SecretLen(usize) }

#[derive(Clone, Debug)]
pub enum Echo { Last, Nth(usize), Wrong, LastPlusOne }

#[derive(Clone, Debug)]
pub enum Step {
    /// a complete frame with this payload (VarInt id ‖ body)
    Frame(Vec<u8>),
    /// Encryption Response built from what the server sent on this run
    EncResp(EncKind),
    /// serverbound Keep Alive echoing an observed id
    KeepAlive(Echo),
    Tick,
    AdapterDone,
    Eof,
    /// only a length prefix with this (illegal) value
    BadLen(i32),
}

#[derive(Clone)]
pub struct Scenario {
    pub secret: Option<Vec<u8>>,
    pub expiry: u64,
    pub max_len: i32,
    pub client_addr: SocketAddr,
    pub verdicts: Verdicts,
    pub steps: Vec<Step>,
    /// shared secret the client uses for an honest Encryption Response
    pub shared_secret: Vec<u8>,
    pub real_localization: Option<(String, Vec<(String, Vec<(String, String)>)>)>,
}

pub struct Outcome {
    pub request: String,
    pub observed: String,
    pub events: Vec<Event>,
    pub result: String,
    pub auth_cookie_json: Option<Vec<u8>>,
    pub wall_before: u64,
    pub wall_after: u64,
    pub inputs: Vec<String>,
    pub undecodable: bool,
    /// for every event: index of the scenario step after which it was observed
    pub event_steps: Vec<usize>,
}

#[derive(Clone, Debug, PartialEq)]
pub enum Event { Send(CbPacket), Call(String) }

/// counts the bytes the server wrote
struct CountWrite<S> { inner: S, n: Arc<AtomicUsize> }
impl<S: AsyncWrite + Unpin> AsyncWrite for CountWrite<S> {
    fn poll_write(mut self: Pin<&mut Self>, cx: &mut Context<'_>, buf: &[u8]) -> Poll<std::io::Result<usize>> {
        let r = Pin::new(&mut self.inner).poll_write(cx, buf);
        if let Poll::Ready(Ok(k)) = &r { self.n.fetch_add(*k, Ordering::SeqCst); }
        r
    }
    fn poll_flush(mut self: Pin<&mut Self>, cx: &mut Context<'_>) -> Poll<std::io::Result<()>> { Pin::new(&mut self.inner).poll_flush(cx) }
    fn poll_shutdown(mut self: Pin<&mut Self>, cx: &mut Context<'_>) -> Poll<std::io::Result<()>> { Pin::new(&mut self.inner).poll_shutdown(cx) }
}
impl<S: AsyncRead + Unpin> AsyncRead for CountWrite<S> {
    fn poll_read(mut self: Pin<&mut Self>, cx: &mut Context<'_>, buf: &mut ReadBuf<'_>) -> Poll<std::io::Result<()>> { Pin::new(&mut self.inner).poll_read(cx, buf) }
}

fn wall() -> u64 { SystemTime::now().duration_since(UNIX_EPOCH).unwrap().as_secs() }

pub fn frame(payload: &[u8]) -> Vec<u8> { let mut f = ref_varint(payload.len() as i32); f.extend_from_slice(payload); f }

pub fn result_name(r: &Result<(), passage_protocol::Error>) -> String {
    use passage_protocol::Error as E;
    match r {
        Ok(()) => "ok".into(),
        Err(e) => format!("err:{}", match e {
            E::ConnectionClosed(_) => "closed", E::IllegalPacketLength => "illegal-length", E::IllegalEnumValue { .. } => "illegal-enum",
            E::UnexpectedPacketId(_) => "unexpected-id", E::InvalidEncoding => "invalid-encoding", E::ArrayConversionFailed => "array-conversion",
            E::Json(_) => "json", E::CryptographyFailed(_) => "crypto", E::InvalidVerifyToken => "bad-token", E::MissedKeepAlive => "missed-keep-alive",
            E::NoTargetFound => "no-target", E::AdapterError(_) => "adapter", E::Nbt(_) => "nbt", E::InternalIo(_) => "internal-io", E::AuthRequestFailed(_) => "auth-request",
        }),
    }
}

/// runs one scenario against the real code
pub fn execute(sc: &Scenario, other_key: &rsa::RsaPublicKey) -> Outcome {
    let rt = tokio::runtime::Builder::new_current_thread().enable_time().start_paused(true).build().unwrap();
    rt.block_on(execute_async(sc, other_key))
}

async fn settle() {
    for _ in 0..4 { tokio::task::yield_now().await; }
    tokio::time::sleep(Duration::from_millis(1)).await;
    for _ in 0..4 { tokio::task::yield_now().await; }
}

async fn execute_async(sc: &Scenario, other_key: &rsa::RsaPublicKey) -> Outcome {
    let wall_before = wall();
    let (mut client, server_half) = tokio::io::duplex(1 << 20);
    let written = Arc::new(AtomicUsize::new(0));
    let log: Log = Arc::new(Mutex::new(vec![]));
    let gate = Arc::new(tokio::sync::Semaphore::new(0));
    let m = Mocks::new(sc.verdicts.clone(), log.clone(), written.clone(), gate.clone());
    let server_stream = CountWrite { inner: server_half, n: written.clone() };
    let (secret, expiry, max_len, addr) = (sc.secret.clone(), sc.expiry, sc.max_len, sc.client_addr);
    let real_loc = sc.real_localization.clone();
    let task = tokio::spawn(async move {
        macro_rules! go { ($loc:expr) => {{
            let mut c = Connection::new(server_stream, Arc::new(m.status), Arc::new(m.discovery), Arc::new(m.filter), Arc::new(m.strategy), Arc::new(m.auth), Arc::new($loc))
                .with_client_address(addr).with_auth_secret(secret).with_auth_cookie_expiry(expiry).with_max_packet_length(max_len);
            c.listen().await
        }}}
        match real_loc {
            Some((default, tables)) => {
                let messages = tables.into_iter().map(|(l, kv)| (l, kv.into_iter().collect())).collect();
                go!(LoggingLocalization { inner: passage_adapters::FixedLocalizationAdapter::new(default, messages), log: m.loc_log.clone(), written: m.loc_written.clone() })
            }
            None => go!(m.localization),
        }
    });

    let mut enc: Option<(RefCfb8, RefCfb8)> = None; // (client->server, server->client)
    let mut rx_plain: Vec<u8> = vec![];
    let mut rx_raw_total = 0usize;
    let mut phase = ClientPhase::Handshake;
    let mut packets: Vec<(usize, CbPacket)> = vec![]; // (start offset on the wire, packet)
    let mut packet_step: Vec<usize> = vec![];
    let mut call_step: Vec<usize> = vec![];
    let mut inputs: Vec<String> = vec![];
    let mut rsa_pairs: Vec<(Vec<u8>, Option<Vec<u8>>)> = vec![];
    let mut token: Option<Vec<u8>> = None;
    let mut ka_ids: Vec<u64> = vec![];
    let mut undecodable = false;
    let mut frame_starts: Vec<usize> = vec![];
    let mut parsed_upto = 0usize; // offset in rx_plain

    for (step_i, step) in sc.steps.iter().enumerate() {
        let mut send_frame = |payload: Vec<u8>, inputs: &mut Vec<String>| { inputs.push(format!("F{}", &hex(&payload)[1..])); frame(&payload) };
        let bytes: Option<Vec<u8>> = match step {
            Step::Frame(p) => Some(send_frame(p.clone(), &mut inputs)),
            Step::BadLen(n) => { inputs.push("B".into()); Some(ref_varint(*n)) }
            Step::KeepAlive(e) => {
                let id = match e {
                    Echo::Last => ka_ids.last().copied().unwrap_or(7),
                    Echo::Nth(n) => ka_ids.get(*n).copied().unwrap_or(11),
                    Echo::Wrong => ka_ids.last().map_or(13, |x| x ^ 0x5555),
                    Echo::LastPlusOne => ka_ids.last().map_or(17, |x| x + 1),
                };
                let mut p = vec![0x04];
                p.extend(id.to_be_bytes());
                Some(send_frame(p, &mut inputs))
            }
            Step::EncResp(kind) => {
                let tok = token.clone().unwrap_or_else(|| vec![0u8; 32]);
                let server_pub = &passage_protocol::crypto::KEY_PAIR.1;
                let e = |k: &rsa::RsaPublicKey, v: &[u8]| passage_protocol::crypto::encrypt(k, v).expect("rsa encrypt");
                let (sct, tct) = match kind {
                    EncKind::Honest => (e(server_pub, &sc.shared_secret), e(server_pub, &tok)),
                    EncKind::WrongToken => { let mut t = tok.clone(); t[5] ^= 1; (e(server_pub, &sc.shared_secret), e(server_pub, &t)) }
                    EncKind::StaleToken => (e(server_pub, &sc.shared_secret), e(server_pub, &[0xabu8; 32])),
                    EncKind::OtherKey => (e(other_key, &sc.shared_secret), e(other_key, &tok)),
                    EncKind::Garbage => (vec![0x5a; 128], e(server_pub, &tok)),
                    EncKind::GarbageToken => (e(server_pub, &sc.shared_secret), vec![1, 2, 3]),
                    EncKind::SecretLen(n) => (e(server_pub, &vec![0x42u8; *n]), e(server_pub, &tok)),
                };
                for ct in [&sct, &tct] {
                    let pt = passage_protocol::crypto::decrypt(&passage_protocol::crypto::KEY_PAIR.0, ct).ok();
                    rsa_pairs.push((ct.clone(), pt));
                }
                let mut p = vec![0x01];
                p.extend(ref_varint(sct.len() as i32)); p.extend(&sct);
                p.extend(ref_varint(tct.len() as i32)); p.extend(&tct);
                let f = send_frame(p, &mut inputs);
                Some(f)
            }
            Step::Tick => { inputs.push("T".into()); tokio::time::advance(Duration::from_secs(16)).await; None }
            Step::AdapterDone => { inputs.push("A".into()); gate.add_permits(1); None }
            Step::Eof => { inputs.push("E".into()); let _ = client.shutdown().await; None }
        };
        if let Some(mut b) = bytes {
            if let Some((c2s, _)) = enc.as_mut() { b = c2s.enc(&b); }
            let _ = client.write_all(&b).await;
        }
        // the client switches its cipher right after an Encryption Response carrying a 16-byte secret
        if let Step::EncResp(k) = step {
            let sec = match k { EncKind::SecretLen(n) => vec![0x42u8; *n], _ => sc.shared_secret.clone() };
            if sec.len() == 16 && enc.is_none() { enc = Some((RefCfb8::new(&sec), RefCfb8::new(&sec))); }
        }
        settle().await;
        // drain what the server wrote
        let mut cx = Context::from_waker(Waker::noop());
        loop {
            let mut tmp = [0u8; 8192];
            let mut rb = ReadBuf::new(&mut tmp);
            match Pin::new(&mut client).poll_read(&mut cx, &mut rb) {
                Poll::Ready(Ok(())) if !rb.filled().is_empty() => {
                    let chunk = rb.filled().to_vec();
                    rx_raw_total += chunk.len();
                    // bytes after the switch are decrypted with the secret the CLIENT chose
                    let plain = match enc.as_mut() { Some((_, s2c)) => s2c.dec(&chunk), None => chunk };
                    rx_plain.extend(plain);
                }
                _ => break,
            }
        }
        let _ = rx_raw_total;
        // parse complete frames
        loop {
            let Some((len, used)) = decode::read_varint(&rx_plain[parsed_upto..]) else { break };
            if len <= 0 || rx_plain.len() < parsed_upto + used + len as usize { if len <= 0 { undecodable = true; } break; }
            let payload = &rx_plain[parsed_upto + used..parsed_upto + used + len as usize];
            match decode::decode_clientbound(phase, payload) {
                Some(p) => {
                    match &p {
                        CbPacket::EncRequest { token: t, .. } => token = Some(t.clone()),
                        CbPacket::KeepAlive(id) => ka_ids.push(*id),
                        CbPacket::LoginSuccess { .. } => phase = ClientPhase::Configuration,
                        _ => {}
                    }
                    frame_starts.push(parsed_upto);
                    packets.push((parsed_upto, p));
                    packet_step.push(step_i);
                }
                None => { undecodable = true; }
            }
            parsed_upto += used + len as usize;
            if undecodable { break; }
        }
        { let n = log.lock().unwrap().len(); while call_step.len() < n { call_step.push(step_i); } }
        if let Some(Step::Frame(p)) = Some(step) {
            // the client's own phase follows the handshake it sent
            if phase == ClientPhase::Handshake && p.first() == Some(&0) {
                if let Some(next) = decode::handshake_next_state(p) { phase = if next == 1 { ClientPhase::Status } else { ClientPhase::Login }; }
            }
        }
    }
    settle().await;
    let result = if task.is_finished() { match task.await { Ok(r) => result_name(&r), Err(e) => if e.is_panic() { "panic".into() } else { "cancelled".into() } } } else { task.abort(); "running".into() };
    let wall_after = wall();

    // merge adapter calls and packets into one ordered event list
    let calls = log.lock().unwrap().clone();
    while call_step.len() < calls.len() { call_step.push(sc.steps.len()); }
    let mut events: Vec<(usize, u8, usize, Event)> = vec![];
    for (i, (off, p)) in packets.iter().enumerate() { events.push((*off, 1, packet_step[i], Event::Send(p.clone()))); }
    for (i, (off, c)) in calls.iter().enumerate() { events.push((*off, 0, call_step[i], Event::Call(c.clone()))); }
    events.sort_by_key(|(o, k, _, _)| (*o, *k));
    let event_steps: Vec<usize> = events.iter().map(|(_, _, s, _)| *s).collect();
    let events: Vec<Event> = events.into_iter().map(|(_, _, _, e)| e).collect();

    // observation line
    let mut auth_cookie_json = None;
    let ev_str: Vec<String> = events.iter().map(|e| match e {
        Event::Call(c) => c.clone(),
        Event::Send(p) => { if let CbPacket::StoreCookie { key, payload } = p { if key == b"passage:authentication" && payload.len() >= 32 { auth_cookie_json = Some(payload[32..].to_vec()); } } p.canonical() }
    }).collect();
    let observed = format!("{} => {}", ev_str.join(";"), result).trim_start().to_string();
    let observed = if undecodable { format!("{observed} [undecodable server bytes]") } else { observed };

    // request line for the model
    let mut env: Vec<String> = vec![];
    env.push(format!("token={}", hex(&token.clone().unwrap_or_default())));
    env.push(format!("pub={}", hex(&passage_protocol::crypto::ENCODED_PUB)));
    env.push(format!("now={wall_before}"));
    env.extend(sc.verdicts.env_tokens());
    match &sc.real_localization {
        // the real FixedLocalizationAdapter's answers are recorded per call that happened
        Some((default, tables)) => for (l, k, r) in m_loc_answers(&calls_loc(&log), default, tables).await {
            env.push(format!("loc={}:{}:ok:{}", l.map_or("-".into(), |x| hex(x.as_bytes())), hex(k.as_bytes()), hex(r.as_bytes())));
        },
        None => for (l, k) in calls_loc(&log) {
            let r = sc.verdicts.loc_answer(l.as_deref(), &k);
            env.push(format!("loc={}:{}:{}", l.as_ref().map_or("-".into(), |x| hex(x.as_bytes())), hex(k.as_bytes()), match r { Ok(t) => format!("ok:{}", hex(t.as_bytes())), Err(()) => "err".into() }));
        },
    }
    for (ct, pt) in &rsa_pairs { env.push(format!("rsa={}:{}", hex(ct), pt.as_ref().map_or("-".into(), |p| hex(p)))); }
    // oracle classes for every cookie payload the client presented
    for st in &sc.steps {
        if let Step::Frame(p) = st {
            if let Some((key, Some(payload))) = decode::login_cookie_response(p) {
                if key == b"passage:session" {
                    let class = match serde_json::from_slice::<Option<SessionCookie>>(&payload) { Ok(Some(_)) => "p", Ok(None) => "n", Err(_) => "i" };
                    env.push(format!("sess={}:{class}", hex(&payload)));
                }
                if payload.len() >= 32 {
                    let msg = &payload[32..];
                    match serde_json::from_slice::<AuthCookie>(msg) {
                        Ok(c) => env.push(format!("cookie={}:{}:{}:{}:{}:{}", hex(msg), c.timestamp, hex(c.client_addr.ip().to_string().as_bytes()), hex(c.user_name.as_bytes()), c.user_id.as_u128(), hex(&serde_json::to_vec(&c.profile_properties).unwrap()))),
                        Err(_) => env.push(format!("cookie={}:err", hex(msg))),
                    }
                }
            }
        }
    }
    if let Some(j) = &auth_cookie_json { env.push(format!("ser={}", hex(j))); }
    env.push(format!("ka={}", ka_ids.iter().map(|x| x.to_string()).collect::<Vec<_>>().join(",")));
    let request = format!("conn.run secret={} expiry={} max={} addr={} ip={} | {} | {}",
        sc.secret.as_ref().map_or("-".into(), |s| hex(s)), sc.expiry, sc.max_len, hex(sc.client_addr.to_string().as_bytes()), hex(sc.client_addr.ip().to_string().as_bytes()),
        env.join(" "), inputs.join(" "));
    Outcome { request, observed, events, result, auth_cookie_json, wall_before, wall_after, inputs, undecodable, event_steps }
}

fn calls_loc(log: &Log) -> Vec<(Option<String>, String)> {
    log.lock().unwrap().iter().filter_map(|(_, c)| {
        let rest = c.strip_prefix("call:localize:")?;
        let (l, k) = rest.split_once(':')?;
        let l = if l == "-" { None } else { Some(String::from_utf8(unhex(l)?).ok()?) };
        Some((l, String::from_utf8(unhex(k)?).ok()?))
    }).collect()
}

/// answers of the real FixedLocalizationAdapter for the calls that happened (recorded oracle)
async fn m_loc_answers(calls: &[(Option<String>, String)], default: &str, tables: &[(String, Vec<(String, String)>)]) -> Vec<(Option<String>, String, String)> {
    let messages = tables.iter().cloned().map(|(l, kv)| (l, kv.into_iter().collect())).collect();
    let a = passage_adapters::FixedLocalizationAdapter::new(default.to_string(), messages);
    use passage_adapters::localization::LocalizationAdapter;
    let mut out = vec![];
    for (l, k) in calls {
        let r = a.localize(l.as_deref(), k, &[]).await.unwrap_or_default();
        out.push((l.clone(), k.clone(), r));
    }
    out
}

/// helpers to build serverbound payloads with the harness's own encoder
pub mod build {
    use super::*;
    pub fn payload(id: i32, parts: &[Vec<u8>]) -> Vec<u8> { let mut p = ref_varint(id); for x in parts { p.extend(x); } p }
    pub fn s(b: &[u8]) -> Vec<u8> { let mut v = ref_varint(b.len() as i32); v.extend(b); v }
    pub fn handshake(proto: i32, host: &[u8], port: u16, next: i32) -> Vec<u8> { payload(0, &[ref_varint(proto), s(host), port.to_be_bytes().to_vec(), ref_varint(next)]) }
    pub fn status_request() -> Vec<u8> { payload(0, &[]) }
    pub fn ping(p: u64) -> Vec<u8> { payload(1, &[p.to_be_bytes().to_vec()]) }
    pub fn login_start(name: &[u8], uuid: u128) -> Vec<u8> { payload(0, &[s(name), uuid.to_be_bytes().to_vec()]) }
    pub fn cookie_response(key: &[u8], pl: Option<&[u8]>) -> Vec<u8> { payload(4, &[s(key), match pl { Some(p) => { let mut v = vec![1u8]; v.extend(s(p)); v } None => vec![0u8] }]) }
    pub fn login_ack() -> Vec<u8> { payload(3, &[]) }
    pub fn client_info(locale: &[u8]) -> Vec<u8> { payload(0, &[s(locale), vec![8], ref_varint(0), vec![1], vec![0x7f], ref_varint(1), vec![0], vec![1], ref_varint(0)]) }
    pub fn plugin_message() -> Vec<u8> { payload(2, &[]) }
    pub fn config_cookie_response() -> Vec<u8> { payload(1, &[]) }
    pub fn resource_pack_response(uuid: u128, result: i32) -> Vec<u8> { payload(6, &[uuid.to_be_bytes().to_vec(), ref_varint(result)]) }
    pub fn keep_alive(id: u64) -> Vec<u8> { payload(4, &[id.to_be_bytes().to_vec()]) }
}

pub fn _unused(_: &V) {}
