//! C13 — real `RateLimiter<u32>` under paused tokio time vs. the Lean model (exact arithmetic),
//! plus an independent oracle: naive per-key exact re-run and the stated bounds on the log.
use crate::util::*;
use passage_protocol::rate_limiter::RateLimiter;
use std::collections::BTreeMap;
use std::time::Duration;

#[derive(Clone)]
pub struct Hist { pub limit: u64, pub d: u64, pub evs: Vec<(u32, u64)> }

pub struct Obs { pub dec: Vec<bool>, pub tracked: Vec<Vec<u32>> }

pub fn run_real(h: &Hist) -> Obs {
    let rt = tokio::runtime::Builder::new_current_thread().enable_time().start_paused(true).build().unwrap();
    rt.block_on(async {
        let mut rl: RateLimiter<u32> = RateLimiter::new(Duration::from_nanos(h.d), h.limit as usize);
        let mut now = 0u64;
        let mut dec = vec![];
        let mut tracked = vec![];
        for &(k, t) in &h.evs {
            if t > now { tokio::time::advance(Duration::from_nanos(t - now)).await; now = t; }
            let ok = rl.enqueue(k);
            dec.push(ok);
            if ok { let mut ks = rl.tracked_keys(); ks.sort_unstable(); tracked.push(ks); }
        }
        Obs { dec, tracked }
    })
}

fn digest(ks: &[u32]) -> String {
    let s: u128 = ks.iter().map(|&k| u128::from(k)).sum();
    let q: u128 = ks.iter().map(|&k| u128::from(k) * u128::from(k)).sum();
    format!("{}/{}/{}", ks.len(), s, q)
}

/// naive exact single-key limiter (no cleanup): (win, prev, cur); returns (decision, window start, margin)
struct Naive { win: u64, prev: u64, cur: u64 }
impl Naive {
    fn step(st: &mut Option<Naive>, now: u64, d: u64, limit: u64) -> (bool, u64, i128) {
        let b = st.get_or_insert(Naive { win: now, prev: 0, cur: 0 });
        let age = now - b.win;
        if age >= d {
            if age >= 2 * d { b.cur = 0; }
            b.win = now; b.prev = b.cur; b.cur = 0;
        }
        let age = u128::from(now - b.win);
        let lhs = u128::from(b.prev) * (u128::from(d) - age) + u128::from(b.cur) * u128::from(d);
        let rhs = u128::from(limit) * u128::from(d);
        let ok = lhs < rhs;
        if ok { b.cur += 1; }
        (ok, b.win, lhs as i128 - rhs as i128)
    }
}

pub struct Judged { pub oracle: Option<String>, pub rounding_tie: bool }

pub fn judge(h: &Hist, o: &Obs, on_grid: bool) -> Judged {
    let mut st: BTreeMap<u32, Option<Naive>> = BTreeMap::new();
    let mut admitted: BTreeMap<u32, Vec<(u64, u64)>> = BTreeMap::new(); // key -> (time, window start)
    let mut last_attempt: BTreeMap<u32, u64> = BTreeMap::new();
    let mut attempts: BTreeMap<u32, Vec<u64>> = BTreeMap::new();
    let mut why = vec![];
    let mut ai = 0;
    for (i, &(k, t)) in h.evs.iter().enumerate() {
        let e = st.entry(k).or_insert(None);
        let (want, win, margin) = Naive::step(e, t, h.d, h.limit);
        let got = o.dec[i];
        // (D) idle for >= 2d (or never seen) => admitted
        let idle = last_attempt.get(&k).is_none_or(|&p| t - p >= 2 * h.d);
        if idle && !got { why.push(format!("(D) key {k} idle >= 2d rejected at {t}")); }
        if got != want {
            // (E)/(C): decision differs from the per-key exact re-run
            let tiny = (margin.unsigned_abs()) << 20 <= u128::from(h.limit) * u128::from(h.d);
            if !on_grid && tiny { return Judged { oracle: None, rounding_tie: true }; }
            why.push(format!("(E) attempt #{i} key {k} at {t}: got {got}, per-key exact reference {want} (margin {margin})"));
            break;
        }
        attempts.entry(k).or_default().push(t);
        last_attempt.insert(k, t);
        if got {
            admitted.entry(k).or_default().push((t, win));
            // (F) right after an admitted attempt every tracked key attempted within (t-4d, t]
            let tracked = &o.tracked[ai];
            ai += 1;
            for tk in tracked {
                let recent = attempts.get(tk).is_some_and(|v| v.iter().any(|&a| a + 4 * h.d > t));
                if !recent { why.push(format!("(F) key {tk} tracked at {t} without an attempt in the last 4d")); break; }
            }
            if !tracked.contains(&k) { why.push(format!("(F) admitted key {k} not tracked")); }
        }
    }
    // (A) per window start at most `limit` admitted; (B) any closed interval of length d at most 2*limit
    for (k, v) in &admitted {
        let mut per: BTreeMap<u64, u64> = BTreeMap::new();
        for &(_, w) in v { *per.entry(w).or_default() += 1; }
        if let Some((w, n)) = per.iter().find(|(_, n)| **n > h.limit) { why.push(format!("(A) key {k}: {n} admitted in the window starting at {w}")); }
        let mut lo = 0;
        for hi in 0..v.len() {
            while v[hi].0 - v[lo].0 > h.d { lo += 1; }
            if (hi - lo + 1) as u64 > 2 * h.limit { why.push(format!("(B) key {k}: {} admitted within [{}, {}]", hi - lo + 1, v[lo].0, v[hi].0)); break; }
        }
    }
    Judged { oracle: if why.is_empty() { None } else { Some(why.join("; ")) }, rounding_tie: false }
}

fn to_case(h: &Hist, o: &Obs, j: Judged, class: &str) -> Case {
    let evs: Vec<String> = h.evs.iter().map(|(k, t)| format!("{k}:{t}")).collect();
    let dec: String = o.dec.iter().map(|&b| if b { '1' } else { '0' }).collect();
    let tr: Vec<String> = o.tracked.iter().map(|ks| digest(ks)).collect();
    Case { request: format!("c13.run {} {} {}", h.limit, h.d, evs.join(" ")).trim_end().to_string(),
        observed: format!("dec={dec} tracked={}", tr.join(",")), oracle: j.oracle, class: class.to_string() }
}

const S: u64 = 1_000_000_000;

fn gen_hist(rng: &mut Rng, grid: bool, max_ev: usize, max_keys: u32) -> (Hist, String) {
    let limit = if rng.chance(1, 4) { 1 } else { rng.range(1, 50) };
    let d = if grid { S << rng.below(5) } else {
        match rng.below(4) { 0 => rng.range(1, 1000), 1 => rng.range(1, 3600) * S, 2 => 10 * S, _ => rng.range(1, 100_000_000_000) }
    };
    let unit = if grid { S / 4 } else { 1 };
    let nkeys = if rng.chance(1, 5) { 1 } else { 1 + rng.below(u64::from(max_keys)) as u32 };
    let n = rng.range(1, max_ev as u64) as usize;
    let style = rng.below(6);
    let mut t = if rng.chance(1, 2) { 0 } else { rng.below(3 * d / unit + 1) * unit };
    let mut evs = vec![];
    for _ in 0..n {
        let gap = match (style, rng.below(10)) {
            (0, _) => 0,                                             // burst at one instant
            (1, _) => rng.below(d / unit / 4 + 1) * unit,            // sub-window gaps
            (2, r) => if r < 6 { 0 } else { *rng.pick(&[d, 2 * d, d - unit.min(d), d + unit, 2 * d - unit.min(d), 2 * d + unit, 4 * d]) }, // boundaries
            (3, r) => if r < 7 { rng.below(d / unit / 8 + 1) * unit } else { rng.range(1, 5) * d }, // multiples of the window
            (_, r) => if r < 5 { 0 } else if r < 8 { rng.below(d / unit + 1) * unit } else { rng.below(5 * d / unit + 1) * unit },
        };
        t += gap;
        let k = if rng.chance(2, 3) { rng.below(u64::from(nkeys.min(3))) as u32 } else { rng.below(u64::from(nkeys)) as u32 };
        evs.push((k, t));
    }
    (Hist { limit, d, evs }, format!("{}:style{}:keys{}", if grid { "grid" } else { "offgrid" }, style, if nkeys > 10 { "many" } else if nkeys > 1 { "few" } else { "one" }))
}

pub fn parse_request(line: &str) -> Option<Hist> {
    let t: Vec<&str> = line.split_whitespace().collect();
    if t.len() < 3 || t[0] != "c13.run" { return None; }
    let evs = t[3..].iter().map(|e| { let (k, tt) = e.split_once(':')?; Some((k.parse().ok()?, tt.parse().ok()?)) }).collect::<Option<Vec<_>>>()?;
    Some(Hist { limit: t[1].parse().ok()?, d: t[2].parse().ok()?, evs })
}

/// known finding (DESIGN §5.2, C13): for limit > 2^24 the f32 counter saturates and the limiter
/// admits without bound.  `n` attempts of one key at one instant.
fn saturation_case(limit: u64, n: u64) -> Case {
    let h = Hist { limit, d: 10 * S, evs: vec![] };
    let rt = tokio::runtime::Builder::new_current_thread().enable_time().start_paused(true).build().unwrap();
    let admitted = rt.block_on(async {
        let mut rl: RateLimiter<u32> = RateLimiter::new(Duration::from_nanos(h.d), limit as usize);
        (0..n).filter(|_| rl.enqueue(0)).count() as u64
    });
    Case { request: format!("c13.sat {limit} {} {n}", h.d), observed: format!("admitted={admitted}"),
        oracle: if admitted <= limit { None } else { Some(format!("(A) {admitted} attempts admitted in one window with limit {limit}")) },
        class: if limit > (1 << 24) { "finding:f32-saturation".into() } else { "saturation-probe".into() } }
}

pub fn run(a: &Args) {
    let mut rng = Rng::new(a.seed);
    let mut cases = vec![];
    let mut ties = 0;
    if a.cases > 0 {
        // the pinned witness of the known finding, and the same probe at the largest limit for which
        // f32 still counts exactly (must hold)
        cases.push(saturation_case(16_777_218, 16_777_300));
        cases.push(saturation_case(16_777_216, 16_777_300));
        cases.push(saturation_case(1000, 5000));
    }
    for line in read_corpus(&a.corpus) {
        if let Some(h) = parse_request(&line) {
            let o = run_real(&h);
            let j = judge(&h, &o, true);
            cases.push(to_case(&h, &o, j, "corpus"));
        }
    }
    // the four situations of the repository's own tests, then generated histories
    let (max_ev, max_keys) = if a.thorough { (3000, 2000) } else { (300, 50) };
    // very many addresses inside one window (as a crowd behind PROXY headers or an IPv6 prefix produces): a key never seen
    // before is admitted all the same, and a tracked one keeps its own budget
    {
        let mut evs: Vec<(u32, u64)> = (0..4300u32).map(|i| (i, u64::from(i) * 1000)).collect();
        evs.push((100_000, 4_300_001)); evs.push((5, 4_300_002)); evs.push((100_000, 4_300_003)); evs.push((100_001, 4_300_004));
        let h = Hist { limit: 3, d: 60 * S, evs };
        let o = run_real(&h);
        let j = judge(&h, &o, true);
        cases.push(to_case(&h, &o, j, "grid:one-window:keys4300"));
    }
    let mut n = 0;
    while n < a.cases {
        let grid = n % 2 == 0;
        let (h, class) = gen_hist(&mut rng, grid, max_ev, max_keys);
        let o = run_real(&h);
        let j = judge(&h, &o, grid);
        // the model's binary32 arithmetic (the real limiter's, operation by operation) must give the very same decisions on
        // every history, rounding ties included; it also reports whether its own decisions met laws L1/L2 on every call
        // (thorough tier: every third history and every rounding tie, to keep the run inside its time budget)
        if !a.thorough || n % 3 == 0 || j.rounding_tie {
            let mut c = to_case(&h, &o, Judged { oracle: None, rounding_tie: false }, &format!("f32:{class}{}", if j.rounding_tie { ":tie" } else { "" }));
            c.request = c.request.replacen("c13.run", "c13.f32", 1);
            c.observed.push_str(" laws=ok");
            cases.push(c);
        }
        if j.rounding_tie { ties += 1; n += 1; continue; }
        cases.push(to_case(&h, &o, j, &class));
        n += 1;
    }
    // rounding ties on purpose: a full previous window, then attempts placed so that last*(1 - age/d) + current meets the
    // limit exactly or misses it by a nanosecond, in windows whose length is no power of two — only the binary32 model can be
    // held to these decisions (the exact reference is asked too, and how often it differs is printed)
    let mut probe_diff = 0;
    if a.cases > 0 {
        let reps = if a.thorough { 40 } else { 4 };
        for _ in 0..reps {
            for &d in &[3 * S, 7 * S, 1_000_000_007, 60 * S + 1, 10 * S, S / 3, 86_400 * S] {
                let limit = rng.range(2, 9);
                let k = rng.range(1, limit);
                let mut evs: Vec<(u32, u64)> = (0..limit).map(|i| (1, i)).collect();
                let base = d + rng.below(d / 2);          // the roll happens here: last = limit (or fewer when base is late), current = 0
                evs.push((1, base));
                for j in 0..k { evs.push((1, base + (2 * j + 1) * d / (2 * limit))); }
                let at = base + k * d / limit;
                for off in [-1i64, 0, 1] { evs.push((1, at.wrapping_add_signed(off))); }
                evs.sort_by_key(|e| e.1);
                let h = Hist { limit, d, evs };
                let o = run_real(&h);
                let j = judge(&h, &o, false);
                if j.rounding_tie || j.oracle.as_ref().is_some_and(|w| w.starts_with("(E)")) { probe_diff += 1; }
                let mut c = to_case(&h, &o, Judged { oracle: None, rounding_tie: false }, "f32:tie-probe");
                c.request = c.request.replacen("c13.run", "c13.f32", 1);
                c.observed.push_str(" laws=ok");
                cases.push(c);
            }
        }
    }
    println!("c13: tie probes on which the exact reference decides differently from the binary32 limiter: {probe_diff}");
    write_cases(&a.out, &cases).expect("write cases");
    println!("c13: {} histories, {} attempts, rounding_ties dropped (off-grid, |margin| <= 2^-20*limit*d): {}",
        cases.len(), cases.iter().filter(|c| c.request.starts_with("c13.run")).map(|c| c.request.split(' ').count() - 3).sum::<usize>(), ties);
}
