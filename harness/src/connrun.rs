//! Runners for the connection-level properties C01 C02 C03 C06 C10: one scenario engine
//! (`conn::execute`), property-specific generators and oracles.
use crate::conn::scen::*;
use crate::conn::oracle::{self, Facts};
use crate::conn::{self, build as b, Echo, EncKind, Outcome, Scenario, Step};
use crate::util::*;
use std::sync::OnceLock;

fn other_key() -> &'static rsa::RsaPublicKey {
    static K: OnceLock<rsa::RsaPublicKey> = OnceLock::new();
    K.get_or_init(|| {
        // a second, unrelated RSA key ("encrypted to another key")
        let mut rng = rand::rand_core::UnwrapErr(rand::rngs::SysRng);
        rsa::RsaPublicKey::from(&rsa::RsaPrivateKey::new(&mut rng, 1024).expect("keygen"))
    })
}

fn exec(sc: &Scenario) -> Outcome {
    // cookie-expiry decisions read the wall clock: re-run if a second boundary was crossed
    for _ in 0..3 {
        let o = conn::execute(sc, other_key());
        if o.wall_before == o.wall_after { return o; }
    }
    conn::execute(sc, other_key())
}

fn now() -> u64 { std::time::SystemTime::now().duration_since(std::time::UNIX_EPOCH).unwrap().as_secs() }

pub fn cookie_json(ts: u64, addr: &str, name: &str, uuid: u128, target: Option<&str>, props: serde_json::Value) -> Vec<u8> {
    serde_json::to_vec(&serde_json::json!({"timestamp": ts, "client_addr": addr, "user_name": name, "user_id": uuid::Uuid::from_u128(uuid).to_string(), "target": target, "profile_properties": props, "extra": {}})).unwrap()
}

fn facts<'a>(sc: &'a Scenario, plan: &Plan, has_enc: bool) -> Facts<'a> {
    // the intent in force is the one of the first frame actually sent (a deviation may put another handshake first)
    let first = sc.steps.iter().find_map(|s| match s { Step::Frame(p) => Some(p.clone()), _ => None });
    let intent = first.as_deref().and_then(crate::conn::decode::handshake_next_state).unwrap_or(plan.intent);
    Facts { sc, intent, claimed: (plan.claimed_name.as_bytes().to_vec(), plan.claimed_uuid),
        presented_auth: if plan.intent == 3 && sc.secret.is_some() { plan.auth_cookie.clone() } else { None },
        enc: if has_enc { Some(plan.enc.clone()) } else { None }, locale: Some(plan.locale.as_bytes().to_vec()),
        session_present: Some(match &plan.session_cookie { None => false, Some(p) => p != b"null" }) }
}

fn finish(name: &str, a: &Args, cases: Vec<Case>) {
    write_cases(&a.out, &cases).expect("write cases");
    println!("{name}: {} scenarios", cases.len());
}

fn case_of(o: &Outcome, why: Vec<String>, class: String) -> Case {
    let mut why = why;
    if o.result == "hang" { why.push("the connection handler did not settle within 20 s of real time on this scenario (busy loop or dead-lock): it neither ended the connection nor waited for input".into()); }
    Case { request: o.request.clone(), observed: o.observed.clone(), oracle: if why.is_empty() { None } else { Some(why.join("; ")) }, class }
}

fn reach(o: &Outcome) -> &'static str {
    let s = oracle::sends(o);
    use crate::conn::decode::CbPacket as P;
    if s.iter().any(|p| matches!(p, P::Transfer { .. })) { "transfer" } else if s.iter().any(|p| matches!(p, P::Disconnect(_))) { "disconnect" }
    else if s.iter().any(|p| matches!(p, P::LoginSuccess { .. })) { "config" } else if s.iter().any(|p| matches!(p, P::EncRequest { .. })) { "encreq" }
    else if s.iter().any(|p| matches!(p, P::Pong(_))) { "pong" } else if s.iter().any(|p| matches!(p, P::StatusResponse(_))) { "status" } else if s.is_empty() { "silent" } else { "login" }
}

fn replay_corpus(a: &Args, cases: &mut Vec<Case>) {
    // corpus lines are model request lines; they are re-checked model-vs-recorded only when the
    // runner can rebuild them — connection scenarios are regenerated from seeds instead.
    let _ = (a, cases);
}

// ------------------------------------------------------------------------------------------ C06
pub fn run_c06(a: &Args) {
    let mut rng = Rng::new(a.seed);
    let mut cases = vec![];
    replay_corpus(a, &mut cases);
    for n in 0..a.cases {
        let mut plan = gen_plan(&mut rng);
        if n % 7 == 0 { plan.intent = 1; }
        // unknown next-state ordinals around the legal range and at the VarInt byte boundaries
        if n % 13 == 5 { plan.intent = [0, 4, 5, -1, 127, 128, 255, i32::MAX, i32::MIN, 257, 258, 259, 513, 65538, -254, i32::MIN + 2][(n / 13) % 16]; }
        let secret = if rng.chance(2, 3) { Some(b"secret".to_vec()) } else { None };
        plan.session_cookie = session_cookie_payload(&mut rng, &plan.host, plan.port);
        plan.routing = routing_steps(&mut rng);
        // Encryption Responses that are not valid, also on connections a cookie has already vouched for
        if n % 5 == 3 { plan.enc = rng.pick(&[EncKind::WrongToken, EncKind::StaleToken, EncKind::OtherKey, EncKind::Garbage, EncKind::GarbageToken, EncKind::SecretLen(0), EncKind::SecretLen(15), EncKind::SecretLen(17), EncKind::SecretLen(32), EncKind::TokenPrefix(0), EncKind::TokenPrefix(1), EncKind::TokenPrefix(31), EncKind::TokenPrefix(33)]).clone(); }
        if plan.intent == 3 && secret.is_some() && rng.chance(1, 2) {
            plan.auth_cookie = Some(oracle::sign(b"secret", &cookie_json(now(), "192.0.2.77:9", "CookieName", 0xc00c1e, None, serde_json::json!([]))));
        }
        let legal = render(&plan, secret.is_some());
        // walk the legal script, deviating with probability that grows along the way
        let mut steps = vec![];
        let deviate = if n % 3 == 0 { 0 } else { rng.range(1, 5) };
        for (i, st) in legal.iter().enumerate() {
            if deviate > 0 && rng.chance(1, 2 + 3 * deviate) {
                match rng.below(4) {
                    0 => steps.push(Step::Frame(noise_frame(&mut rng))),
                    1 => { steps.push(st.clone()); steps.push(st.clone()); }        // repeated packet
                    2 => if i + 1 < legal.len() { steps.push(legal[i + 1].clone()); }, // skipped a step
                    _ => steps.push(Step::Tick),
                }
            }
            steps.push(st.clone());
        }
        let mut exact_legal = deviate == 0;
        if rng.chance(1, 6) { let k = rng.below(steps.len() as u64 + 1) as usize; steps.truncate(k); steps.push(Step::Eof); exact_legal = false; }
        if plan.intent == 1 && rng.chance(1, 4) { steps.push(Step::Frame(b::status_request())); steps.push(Step::Frame(b::ping(1))); exact_legal = false; }
        let verdicts = gen_verdicts(&mut rng, &plan);
        let sc = scenario(&mut rng, &plan, secret, steps, verdicts);
        let o = exec(&sc);
        let honest = sc.steps.iter().any(|s| matches!(s, Step::EncResp(_)));
        let f = facts(&sc, &plan, honest);
        let mut why = oracle::c06(&f, &o);
        // exact status exchange for the legal status script
        if plan.intent == 1 && exact_legal && sc.steps.len() == 3 {
            if let Ok(st) = &sc.verdicts.status {
                let want = vec![format!("send:statusResponse:{}", hex(serde_json::to_string(st).unwrap().as_bytes())), format!("send:pong:{}", plan.ping)];
                let got: Vec<String> = oracle::sends(&o).iter().map(|p| p.canonical()).collect();
                if got != want { why.push(format!("status exchange answered with {got:?}")); }
            }
        }
        cases.push(case_of(&o, why, format!("intent{}:dev{}:{}:{}", plan.intent, deviate.min(1), reach(&o), o.result.split(':').next_back().unwrap_or(""))));
    }
    finish("c06", a, cases);
}

// ------------------------------------------------------------------------------------------ C01
pub fn run_c01(a: &Args) {
    let mut rng = Rng::new(a.seed);
    let mut cases = vec![];
    let kinds = [EncKind::Honest, EncKind::Honest, EncKind::Honest, EncKind::WrongToken, EncKind::StaleToken, EncKind::OtherKey, EncKind::Garbage, EncKind::GarbageToken, EncKind::SecretLen(0), EncKind::SecretLen(15), EncKind::SecretLen(17), EncKind::SecretLen(32),
        EncKind::TokenPrefix(0), EncKind::TokenPrefix(1), EncKind::TokenPrefix(16), EncKind::TokenPrefix(31), EncKind::TokenPrefix(33)];
    for n in 0..a.cases {
        let mut plan = gen_plan(&mut rng);
        plan.intent = [2, 3, 3, 1][n % 4];
        plan.enc = kinds[(n / 4) % kinds.len()].clone();
        let slen = rng.range(1, 40) as usize;
        let secret = if rng.chance(3, 4) { Some(rng.bytes(slen)) } else { None };
        plan.session_cookie = session_cookie_payload(&mut rng, &plan.host, plan.port).filter(|p| p != b"{not json");
        plan.routing = routing_steps(&mut rng);
        let v0 = Verdicts0::get(&mut rng, &plan);
        let mut sc = scenario(&mut rng, &plan, secret.clone(), vec![], v0);
        // half of the transfer connections present a valid cookie for ANOTHER identity than the claim
        // ... or one that is correctly signed but expired / bound to another address / signed with another secret
        if plan.intent == 3 && rng.chance(2, 3) {
            if let Some(s) = &secret {
                let (ts, addr, key): (u64, String, Vec<u8>) = match rng.below(6) {
                    0 | 1 | 2 => (now(), sc.client_addr.to_string(), s.clone()),
                    3 => (now() - 21_600 - 120, sc.client_addr.to_string(), s.clone()),
                    4 => (now(), "203.0.113.77:4000".to_string(), s.clone()),
                    _ => (now(), sc.client_addr.to_string(), b"not the configured secret".to_vec()),
                };
                // the cookie's identity overlaps the claim in every way: other name and id, same name only, same id only
                let (cname, cid): (String, u128) = match rng.below(4) { 0 => (plan.claimed_name.clone(), 0xc00c1e), 1 => ("CookieName".into(), plan.claimed_uuid), 2 => (plan.claimed_name.clone(), plan.claimed_uuid), _ => ("CookieName".into(), 0xc00c1e) };
                let j = cookie_json(ts, &addr, &cname, cid, None, serde_json::json!([]));
                plan.auth_cookie = Some(oracle::sign(&key, &j));
            }
        }
        sc.steps = render(&plan, secret.is_some());
        if plan.intent == 1 { sc.steps.push(Step::EncResp(EncKind::Honest)); } // login packets on a status connection
        let o = exec(&sc);
        let f = facts(&sc, &plan, plan.intent != 1);
        let why = oracle::c01(&f, &o);
        cases.push(case_of(&o, why, format!("intent{}:{:?}:auth{}:cookie{}:{}", plan.intent, plan.enc, if sc.verdicts.auth.is_ok() { "ok" } else { "err" }, u8::from(plan.auth_cookie.is_some()), reach(&o))));
    }
    finish("c01", a, cases);
}

struct Verdicts0;
impl Verdicts0 { fn get(rng: &mut Rng, plan: &Plan) -> crate::conn::mocks::Verdicts { let mut v = gen_verdicts(rng, plan);
    // routing mostly succeeds so that grants become visible
    if rng.chance(3, 4) { let n = v.targets.len(); v.discover = Ok((0..n).collect()); v.filter = Ok((0..n).collect()); v.select = if n > 0 { Ok(Some(rng.below(n as u64) as usize)) } else { Ok(None) }; }
    v } }

// ------------------------------------------------------------------------------------------ C02
pub fn run_c02(a: &Args) {
    let mut rng = Rng::new(a.seed);
    let mut cases = vec![];
    let mut n = 0;
    let mut slow_done = 0;
    while cases.len() < a.cases {
        n += 1;
        let mut plan = gen_plan(&mut rng);
        plan.intent = if n % 6 == 0 { 2 } else { 3 };
        // one secret in eight is longer than the 64-byte block of SHA-256 (HMAC then keys with the hash of the secret)
        let slen = if rng.chance(1, 8) { *rng.pick(&[64usize, 65, 81, 128, 200]) } else { rng.range(1, 64) as usize };
        let secret = if n % 9 == 0 { None } else { Some(rng.bytes(slen)) };
        plan.routing = routing_steps(&mut rng);
        let v0 = Verdicts0::get(&mut rng, &plan);
        let mut sc = scenario(&mut rng, &plan, secret.clone(), vec![], v0);
        sc.expiry = *rng.pick(&[0u64, 1, 60, 21600, u64::MAX - 5, u64::MAX]);
        let t = now();
        let key = secret.clone().unwrap_or_else(|| b"k".to_vec());
        // tampering is only informative on a cookie that would otherwise be accepted
        let tamper = matches!(n % 16, 2 | 3 | 4 | 5 | 8 | 9 | 11 | 12 | 13 | 14 | 15);
        if tamper && rng.chance(4, 5) { sc.expiry = 21600; }
        let age = if tamper && sc.expiry == 21600 { 0 } else { *rng.pick(&[0u64, 0, 0, 1, 59, 60, 61, 21599, 21600, 21601, 1_000_000]) };
        let ts = if tamper && sc.expiry == 21600 { t } else { match rng.below(8) { 0 => t.saturating_sub(sc.expiry.min(t)), 1 => t.saturating_sub(sc.expiry.min(t)).saturating_sub(1), 2 => t + 100, _ => t.saturating_sub(age) } };
        // every sixteenth cookie is valid in everything but the host: it names a cross-family look-alike of the client's address
        let lookalike = n % 16 == 6;
        if lookalike { sc.expiry = 21600; }
        let ts = if lookalike { t } else { ts };
        let ip_same = !lookalike && ((tamper && sc.expiry == 21600) || !rng.chance(1, 5));
        let addr = if ip_same { format!("{}", std::net::SocketAddr::new(sc.client_addr.ip(), 9)) } else if lookalike || rng.chance(1, 2) {
            // another host whose address merely LOOKS like the client's across the address families: the IPv4-compatible and
            // IPv4-mapped IPv6 forms of an IPv4 client, the IPv4 form of an IPv6 client's low 32 bits
            match sc.client_addr.ip() {
                std::net::IpAddr::V4(a) => format!("[{}]:9", if rng.chance(1, 2) { a.to_ipv6_compatible() } else { a.to_ipv6_mapped() }),
                std::net::IpAddr::V6(a) => { let o = a.octets(); if o[..10] == [0u8; 10] && o[10] == 0xff && o[11] == 0xff { format!("{}.{}.{}.{}:9", o[12], o[13], o[14], o[15]) } else if rng.chance(1, 2) { format!("{}.{}.{}.{}:9", o[12], o[13], o[14], o[15]) } else { "[2001:db8::99]:2".to_string() } }
            }
        } else { rng.pick(&["10.9.9.9:1", "[2001:db8::99]:2", "127.0.0.2:25564"]).to_string() };
        let props = if rng.chance(1, 2) { serde_json::json!([]) } else { serde_json::json!([{"name": "textures", "value": "dg==", "signature": null}]) };
        let (cname, cid): (String, u128) = match rng.below(5) { 0 => (plan.claimed_name.clone(), 0xc00c1e), 1 => ("CookieName".into(), plan.claimed_uuid), 2 => (plan.claimed_name.clone(), plan.claimed_uuid), _ => ("CookieName".into(), 0xc00c1e + u128::from(rng.below(2))) };
        // a client that holds back its cookie: valid when the connection opened, expired when presented
        let slow = n % 16 == 10 && slow_done < 6 && secret.is_some() && plan.intent == 3;
        if slow { slow_done += 1; sc.expiry = 60; }
        let (ts, addr) = if slow { (now() - 59, format!("{}", std::net::SocketAddr::new(sc.client_addr.ip(), 9))) } else { (ts, addr) };
        let valid = oracle::sign(&key, &cookie_json(ts, &addr, &cname, cid, Some("srv-0"), props));
        let (class, payload): (&str, Option<Vec<u8>>) = match n % 16 {
            0 => ("absent", None),
            1 => ("empty", Some(vec![])),
            2 => { let k = rng.below(valid.len() as u64) as usize; ("truncated", Some(valid[..k].to_vec())) }
            3 => { let k = rng.below(32 * 8) as usize; let mut v = valid.clone(); v[k / 8] ^= 1 << (k % 8); ("tag-bit-flip", Some(v)) }
            4 => { let k = 32 * 8 + rng.below((valid.len() as u64 - 32) * 8) as usize; let mut v = valid.clone(); v[k / 8] ^= 1 << (k % 8); ("body-bit-flip", Some(v)) }
            5 => { // another secret; for long secrets one that differs only after its 64th byte
                let other: Vec<u8> = if key.len() > 64 { let mut k = key.clone(); let l = k.len() - 1; k[l] ^= 0x55; k } else { b"another secret".to_vec() };
                ("other-secret", Some(oracle::sign(&other, &valid[32..]))) }
            6 => ("non-json", Some(oracle::sign(&key, b"this is not json"))),
            7 => ("wrong-shape", Some(oracle::sign(&key, br#"{"timestamp": 1, "user_name": "x"}"#))),
            8 => ("length-31", Some(valid[..31].to_vec())),
            9 => ("length-32", Some(valid[..32].to_vec())),
            // alterations a weakened comparison (checksum-like fold, prefix/suffix-only, order-insensitive) would accept
            11 => { let (i, j, b) = (rng.below(32) as usize, rng.below(31) as usize, rng.below(8)); let j = if j >= i { j + 1 } else { j }; let mut v = valid.clone(); v[i] ^= 1 << b; v[j] ^= 1 << b; ("tag-same-bit-in-two-bytes", Some(v)) }
            12 => { let mut v = valid.clone(); let i = rng.below(31) as usize; let j = (i + 1..32).find(|j| v[*j] != v[i]).unwrap_or(31); v.swap(i, j); ("tag-bytes-swapped", Some(v)) }
            13 => { let mut v = valid.clone(); let i = *rng.pick(&[0usize, 15, 16, 31]); v[i] = v[i].wrapping_add(1 + rng.below(254) as u8); ("tag-one-byte", Some(v)) }
            14 => { let mut v = valid.clone(); for b in v.iter_mut().take(32) { *b = 0; } ("tag-zeroed", Some(v)) }
            15 => { let mut v = valid.clone(); v.insert(32, b' '); ("byte-inserted-after-tag", Some(v)) }
            _ => ("as-generated", Some(valid.clone())),
        };
        let (class, payload) = if slow { ("held-back-until-expired", Some(valid.clone())) } else { (class, payload) };
        plan.auth_cookie = payload;
        sc.steps = render(&plan, secret.is_some());
        if slow { sc.steps.insert(3, Step::RealSleep(2600)); }
        let o = exec(&sc);
        let f = facts(&sc, &plan, true);
        let cv = oracle::cookie_view(&sc, plan.intent, f.presented_auth.as_deref(), o.wall_before);
        let mut why = oracle::c02(&f, &o);
        why.extend(oracle::c01(&f, &o));
        cases.push(case_of(&o, why, format!("{class}:{}:{}", cv.why, reach(&o))));
    }
    finish("c02", a, cases);
}

/// C12 at the connection level: Transfer-intent logins presenting cookies of ANOTHER name that are valid, expired,
/// bound to another address or signed with another secret; the authentication service must be asked about the claimed name
pub fn auth_name_cases(rng: &mut Rng, n: usize) -> Vec<Case> {
    let mut cases = vec![];
    for i in 0..n {
        let mut plan = gen_plan(rng);
        plan.intent = 3;
        plan.claimed_name = rng.pick(&["Mallory", "a&serverId=0", "Ünï", "x y", "Victim\u{0}", "a\tb\r\nc", "\u{1b}[2JAdmin", "", "bell\u{7}", "nel\u{85}"]).to_string();
        let secret = Some(rng.bytes(24));
        plan.routing = routing_steps(rng);
        let v0 = Verdicts0::get(rng, &plan);
        let mut sc = scenario(rng, &plan, secret.clone(), vec![], v0);
        let (ts, addr, key): (u64, String, Vec<u8>) = match i % 4 {
            0 => (now() - 21_600 - 300, sc.client_addr.to_string(), secret.clone().unwrap()),
            1 => (now(), "203.0.113.77:4000".to_string(), secret.clone().unwrap()),
            2 => (now(), sc.client_addr.to_string(), b"some other secret".to_vec()),
            _ => (now(), sc.client_addr.to_string(), secret.clone().unwrap()),
        };
        let cname = rng.pick(&["Hydrofin", "Hydro fin&serverId=0", "Mallory"]).to_string();
        plan.auth_cookie = Some(oracle::sign(&key, &cookie_json(ts, &addr, &cname, 0xc00c1e, None, serde_json::json!([]))));
        sc.steps = render(&plan, true);
        let o = exec(&sc);
        let f = facts(&sc, &plan, true);
        let why = oracle::c01(&f, &o);
        cases.push(case_of(&o, why, format!("connection:{}", ["expired-cookie", "other-address-cookie", "other-secret-cookie", "valid-cookie"][i % 4])));
    }
    cases
}

// ------------------------------------------------------------------------------------------ C03
pub fn run_c03(a: &Args) {
    let mut rng = Rng::new(a.seed);
    let mut cases = vec![];
    for n in 0..a.cases {
        let mut plan = gen_plan(&mut rng);
        plan.intent = if n % 2 == 0 { 2 } else { 3 };
        let secret = if rng.chance(1, 2) { Some(b"s3cret".to_vec()) } else { None };
        plan.session_cookie = session_cookie_payload(&mut rng, &plan.host, plan.port).filter(|p| p != b"{not json");
        plan.routing = routing_steps(&mut rng);
        let mut v = gen_verdicts(&mut rng, &plan);
        if v.auth.is_err() { v.auth = Ok(gen_profile(&mut rng, &plan.claimed_name, plan.claimed_uuid)); }
        // non-member choice: the strategy may return an element that was filtered out
        if n % 5 == 0 && !v.targets.is_empty() { v.select = Ok(Some(rng.below(v.targets.len() as u64) as usize)); }
        let mut sc = scenario(&mut rng, &plan, secret.clone(), vec![], v);
        if n % 3 == 0 {
            // the real FixedLocalizationAdapter with tables for some of region / language / default
            let mut tables = vec![];
            // plain (non-JSON) messages, many with multi-byte characters; tables for locales with multi-byte characters too
            for l in ["de_DE", "de", "en_us", "en", "a_b", "a", "é_FR", "é", "日本_JP", "日本"] { if rng.chance(1, 2) { let mut kv = vec![]; let deco = *rng.pick(&["", " — kein Ziel verfügbar", " 利用可能なサーバーなし", " ✓€"]); if rng.chance(3, 4) { kv.push(("disconnect_no_target".to_string(), format!("no target [{l}]{deco}"))); } if rng.chance(3, 4) { kv.push(("disconnect_timeout".to_string(), format!("timeout [{l}]{deco}"))); } tables.push((l.to_string(), kv)); } }
            sc.real_localization = Some((rng.pick(&["en_us", "de_DE", "zz"]).to_string(), tables));
        }
        sc.steps = render(&plan, secret.is_some());
        let o = exec(&sc);
        let f = facts(&sc, &plan, true);
        let mut why = oracle::c03(&f, &o);
        // built-in localisation: first table along [ℓ, ℓ's prefixes…, default, default's prefixes…]
        if let (Some((default, tables)), Some(crate::conn::decode::CbPacket::Disconnect(text))) = (&sc.real_localization, oracle::sends(&o).last()) {
            if o.result == "err:no-target" {
                let chain = |l: &str| { let mut c = vec![l.to_string()]; let idx: Vec<usize> = l.match_indices('_').map(|x| x.0).collect(); for i in idx.iter().rev() { c.push(l[..*i].to_string()); } c };
                let mut order = chain(&plan.locale); order.extend(chain(default));
                let want = order.iter().find_map(|l| tables.iter().find(|(tl, _)| tl == l)).map(|(_, kv)| kv.iter().find(|(k, _)| k == "disconnect_no_target").map_or("disconnect_no_target".to_string(), |(_, v)| v.clone())).unwrap_or("disconnect_no_target".to_string());
                if text != want.as_bytes() { why.push(format!("Disconnect text {:?} but the message configured for locale {:?} (fallback region→language→default) is {:?}", String::from_utf8_lossy(text), plan.locale, want)); }
            }
        }
        cases.push(case_of(&o, why, format!("{}:{}:{}", if sc.real_localization.is_some() { "fixedloc" } else { "mockloc" }, match &sc.verdicts.select { Ok(Some(_)) => "chosen", Ok(None) => "none", Err(()) => "selerr" }, reach(&o))));
        // the built-in localisation against its Lean model, on this table set: the client's locale and a few others, both keys
        if let Some((default, tables)) = &sc.real_localization {
            use passage_adapters::localization::LocalizationAdapter;
            let adapter = std::sync::Arc::new(passage_adapters::FixedLocalizationAdapter::new(default.clone(), tables.iter().cloned().map(|(l, kv)| (l, kv.into_iter().collect())).collect()));
            // … and the same tables as a configuration value through the application's factory and wrapper
            let app_cfg = passage::config::LocalizationAdapter::Fixed(passage::config::FixedLocalization { default_locale: default.clone(), messages: tables.iter().cloned().map(|(l, kv)| (l, kv.into_iter().collect())).collect() });
            let app_adapter = std::thread::spawn(move || { let rt = tokio::runtime::Builder::new_current_thread().build().unwrap(); rt.block_on(passage::adapter::localization::DynLocalizationAdapter::from_config(app_cfg)).ok() }).join().ok().flatten().map(std::sync::Arc::new);
            let ttok = if tables.is_empty() { "-".to_string() } else { tables.iter().map(|(l, kv)| format!("{}={}", hex(l.as_bytes()), kv.iter().map(|(k, v)| format!("{}:{}", hex(k.as_bytes()), hex(v.as_bytes()))).collect::<Vec<_>>().join(","))).collect::<Vec<_>>().join(";") };
            let other = rng.pick(&["de_DE", "a_b_c", "é_FR", "日本_JP", "_x", "x_", "a__b", "", "zz"]).to_string();
            for (loc, key) in [(Some(plan.locale.clone()), "disconnect_no_target"), (Some(other), "disconnect_timeout"), (None, "disconnect_no_target"), (Some(plan.locale.clone()), "no_such_key")] {
                let (ad, ad2, l2, k2) = (adapter.clone(), app_adapter.clone(), loc.clone(), key.to_string());
                let via_app = key == "disconnect_timeout" || key == "no_such_key";
                // on its own thread: a panic in the adapter is an observation, not the end of the runner
                let got = std::thread::spawn(move || { let rt = tokio::runtime::Builder::new_current_thread().build().unwrap();
                    match (via_app, ad2) { (true, Some(a)) => rt.block_on(a.localize(l2.as_deref(), &k2, &[])), _ => rt.block_on(ad.localize(l2.as_deref(), &k2, &[])) } }).join();
                let (observed, oracle) = match got { Ok(Ok(s)) => (hex(s.as_bytes()), None), Ok(Err(e)) => (format!("err:{e}"), Some(format!("built-in localisation failed for locale {loc:?}: {e}"))), Err(_) => ("panic".to_string(), Some(format!("built-in localisation panicked for locale {loc:?}"))) };
                cases.push(Case { request: format!("c03.loc {} {} {} {ttok}", hex(default.as_bytes()), loc.as_ref().map_or("-".to_string(), |l| hex(l.as_bytes())), hex(key.as_bytes())), observed, oracle, class: "builtin-localisation".into() });
            }
        }
    }
    // the default locale and the message tables as an operator configures them: tables in a configuration file, the default locale
    // once in that file and once in the environment; read by Config::read(), built by the application's factory
    {
        use passage_adapters::localization::LocalizationAdapter;
        let dir = std::env::temp_dir().join(format!("pv-c03cfg-{}", std::process::id()));
        std::fs::create_dir_all(&dir).unwrap();
        let tables: Vec<(String, Vec<(String, String)>)> = vec![
            ("de".into(), vec![("disconnect_no_target".into(), "Kein Server frei".into()), ("disconnect_timeout".into(), "Zeitüberschreitung".into())]),
            ("en".into(), vec![("disconnect_no_target".into(), "No server available".into())]),
            ("fr_FR".into(), vec![("disconnect_no_target".into(), "Aucun serveur".into())]),
        ];
        let ttok = tables.iter().map(|(l, kv)| format!("{}={}", hex(l.as_bytes()), kv.iter().map(|(k, v)| format!("{}:{}", hex(k.as_bytes()), hex(v.as_bytes()))).collect::<Vec<_>>().join(","))).collect::<Vec<_>>().join(";");
        let msgs: String = tables.iter().map(|(l, kv)| format!("        {l}:\n{}", kv.iter().map(|(k, v)| format!("          {k}: {}\n", serde_json::to_string(v).unwrap())).collect::<String>())).collect();
        for via_env in [false, true] {
            let base = dir.join(if via_env { "env" } else { "file" });
            std::fs::write(base.with_extension("yaml"), format!("adapters:\n  localization:\n    fixed:\n{}      messages:\n{msgs}", if via_env { String::new() } else { "      default_locale: \"de\"\n".to_string() })).unwrap();
            // SAFETY: the scenario engine's threads do not read the environment; no other thread of this runner exists now
            unsafe { std::env::set_var("CONFIG_FILE", &base); if via_env { std::env::set_var("PASSAGE_ADAPTERS_LOCALIZATION_FIXED_DEFAULTLOCALE", "de"); } }
            let cfg = passage::config::Config::read();
            unsafe { std::env::remove_var("CONFIG_FILE"); std::env::remove_var("PASSAGE_ADAPTERS_LOCALIZATION_FIXED_DEFAULTLOCALE"); }
            let how = if via_env { "in the environment" } else { "in the configuration file" };
            let adapter = match cfg { Ok(c) => std::thread::spawn(move || { let rt = tokio::runtime::Builder::new_current_thread().build().unwrap(); rt.block_on(passage::adapter::localization::DynLocalizationAdapter::from_config(c.adapters.localization)).map_err(|e| e.to_string()) }).join().unwrap_or_else(|_| Err("factory panicked".into())), Err(e) => Err(e.to_string()) };
            for (loc, key, want) in [(Some("pt_BR"), "disconnect_no_target", "Kein Server frei"), (Some("fr_FR"), "disconnect_no_target", "Aucun serveur"), (Some("xx_YY"), "disconnect_timeout", "Zeitüberschreitung"), (None, "disconnect_no_target", "Kein Server frei")] {
                let (observed, oracle) = match &adapter {
                    Err(e) => ("unreadable".to_string(), Some(format!("localisation configured with default locale de {how}: not usable: {e}"))),
                    Ok(ad) => { let rt = tokio::runtime::Builder::new_current_thread().build().unwrap();
                        match rt.block_on(ad.localize(loc, key, &[])) { Ok(t) => (hex(t.as_bytes()), if t == want { None } else { Some(format!("default locale de configured {how}: locale {loc:?} got {t:?}, the configured message is {want:?}")) }), Err(e) => (format!("err:{e}"), Some(format!("localisation failed: {e}"))) } }
                };
                cases.push(Case { request: format!("c03.loc {} {} {} {ttok}", hex(b"de"), loc.map_or("-".to_string(), |l| hex(l.as_bytes())), hex(key.as_bytes())), observed, oracle, class: format!("builtin-localisation:config-{}", if via_env { "env" } else { "file" }) });
            }
        }
        let _ = std::fs::remove_dir_all(&dir);
    }
    finish("c03", a, cases);
}

// ------------------------------------------------------------------------------------------ C10
pub fn run_c10(a: &Args) {
    let mut rng = Rng::new(a.seed);
    let mut cases = vec![];
    let mut slow_logins = 0;
    let mut jfields = vec![];
    while cases.len() < a.cases {
        let mut plan = gen_plan(&mut rng);
        plan.intent = *rng.pick(&[2, 3]);
        let slen = *rng.pick(&[0usize, 1, 6, 32, 64, 65, 100]);
        let secret = if rng.chance(1, 6) { None } else { Some(rng.bytes(slen)) };
        plan.session_cookie = session_cookie_payload(&mut rng, &plan.host, plan.port).filter(|p| p != b"{not json");
        plan.routing = routing_steps(&mut rng);
        let mut v = gen_verdicts(&mut rng, &plan);
        v.auth = Ok(gen_profile(&mut rng, &plan.claimed_name, plan.claimed_uuid));
        if rng.chance(5, 6) && !v.targets.is_empty() { let n = v.targets.len(); v.discover = Ok((0..n).collect()); v.filter = Ok((0..n).collect()); v.select = Ok(Some(rng.below(n as u64) as usize)); }
        let mut sc = scenario(&mut rng, &plan, secret.clone(), vec![], v);
        // configured expiries up to "never" (u64::MAX): a freshly issued cookie is within every one of them
        sc.expiry = *rng.pick(&[21600u64, 21600, 60, u64::MAX, u64::MAX - 5, 1 << 40]);
        sc.steps = render(&plan, secret.is_some());
        // a slow login (up to three per run): the client takes 2.2 s of REAL time before it sends Client Information; the cookie
        // issued afterwards is stamped with the time of its issue, not with a time read when the login began
        let slow_login = slow_logins < 3 && secret.is_some() && plan.intent == 2 && matches!(sc.verdicts.select, Ok(Some(_)));
        if slow_login {
            slow_logins += 1;
            if let Some(i) = sc.steps.iter().position(|s| matches!(s, Step::Frame(p) if p.as_slice() == [3u8])) { sc.steps.insert(i + 1, Step::RealSleep(2_200)); }
        }
        let o1 = exec(&sc);
        let f = facts(&sc, &plan, true);
        let mut why = oracle::c10(&f, &o1);
        if slow_login {
            if let Some(ts) = oracle::sends(&o1).iter().find_map(|p| match p { crate::conn::decode::CbPacket::StoreCookie { key, payload } if key == b"passage:authentication" && payload.len() > 32 => serde_json::from_slice::<serde_json::Value>(&payload[32..]).ok().and_then(|j| j["timestamp"].as_u64()), _ => None }) {
                if ts + 1 < o1.wall_after { why.push(format!("the cookie was issued at about {} but is stamped {ts}: {} s of its lifetime were gone at issue (the login took 2.2 s)", o1.wall_after, o1.wall_after - ts)); }
            }
        }
        let stored = oracle::sends(&o1).iter().find_map(|p| match p { crate::conn::decode::CbPacket::StoreCookie { key, payload } if key == b"passage:authentication" => Some(payload.clone()), _ => None });
        cases.push(case_of(&o1, why, format!("first:{}:{}:{}", if secret.is_some() { "secret" } else { "nosecret" }, if stored.is_some() { "issued" } else { "none" }, reach(&o1))));
        // the cookie as issued holds the vouched name and the chosen target as the model's string tokens (serde_json's writer, not a hand-made one)
        if let (Some(payload), Ok(p)) = (&stored, &sc.verdicts.auth) { if payload.len() > 32 {
            jfields.push(Case { request: format!("c10.jfield payload={} key={} s={}", hex(&payload[32..]), hex(b"user_name"), hex(p.name.as_bytes())), observed: "present".into(), oracle: None, class: "jfield:user_name".into() });
        } }
        // second connection: reconnect with what was stored, Transfer intent, same IP
        if let Some(payload) = stored {
            let mut plan2 = plan.clone();
            plan2.intent = 3;
            plan2.claimed_name = "SomeoneElse".into();
            plan2.auth_cookie = Some(payload);
            let mut sc2 = sc.clone();
            sc2.client_addr = std::net::SocketAddr::new(sc.client_addr.ip(), 4242);
            sc2.steps = render(&plan2, true);
            let o2 = exec(&sc2);
            let f2 = facts(&sc2, &plan2, true);
            let mut why2 = oracle::c02(&f2, &o2);
            // cookie issuing rules hold on the cookie-authenticated connection too (no new auth cookie; session cookie iff none presented)
            why2.extend(oracle::c10(&f2, &o2));
            let p = sc.verdicts.auth.as_ref().unwrap();
            match oracle::sends(&o2).iter().find(|p| matches!(p, crate::conn::decode::CbPacket::EncRequest { .. })) {
                Some(crate::conn::decode::CbPacket::EncRequest { should_auth, .. }) => if *should_auth { why2.push("the cookie issued on the first connection was not accepted on the next transfer".into()); },
                _ => why2.push("second connection did not reach the Encryption Request".into()),
            }
            if let Some(crate::conn::decode::CbPacket::LoginSuccess { uuid, name }) = oracle::sends(&o2).iter().find(|p| matches!(p, crate::conn::decode::CbPacket::LoginSuccess { .. })) {
                if *uuid != p.id.as_u128() || name != p.name.as_bytes() { why2.push("second connection runs under another identity than the first".into()); }
            }
            if !oracle::calls(&o2, "call:auth:").is_empty() { why2.push("second connection re-authenticated".into()); }
            cases.push(case_of(&o2, why2, format!("second:{}", reach(&o2))));
        }
    }
    cases.append(&mut jfields);
    // the quoting layer of the cookies' JSON (model: Json/Str.lean, theorems: Props/C10Json.lean) against serde_json, the
    // writer and reader the cookies go through: texts with quotes, backslashes, control bytes, injection attempts, multi-byte
    // UTF-8; then hostile token bodies (stray and unknown escapes, \u00XX well- and ill-formed, raw control bytes, early quotes)
    {
        let n_txt = (a.cases / 2).max(150);
        const PIECES: &[&str] = &["a", "Notch", "\"", "\\", "/", "\n", "\r", "\t", "\u{8}", "\u{c}", "\u{0}", "\u{1}", "\u{1f}", "\u{7f}", " ", "ü", "€", "😀", "\u{2028}", "\",\"user_id\":\"", "\\u0041", "\\\"", "}", "{", ":", ",", "\\n"];
        for i in 0..n_txt {
            let t: String = if i < PIECES.len() { PIECES[i].to_string() } else { (0..rng.range(0, 7)).map(|_| *rng.pick(PIECES)).collect() };
            let w = serde_json::to_vec(&t).expect("serde_json writes a string");
            let r = serde_json::from_slice::<String>(&w).ok();
            let mut why = vec![];
            if r.as_deref() != Some(t.as_str()) { why.push(format!("serde_json does not read {t:?} back from its own token")); }
            cases.push(Case { request: format!("c10.jstr s={}", hex(t.as_bytes())), observed: format!("w={} r={}", hex(&w), r.map_or("bad".to_string(), |r| format!("ok:{}", hex(r.as_bytes())))),
                oracle: if why.is_empty() { None } else { Some(why.join("; ")) }, class: format!("jstr:{}", if t.bytes().any(|b| b < 0x20 || b == b'"' || b == b'\\') { "escaped" } else { "plain" }) });
        }
        const BODY: &[&[u8]] = &[b"a", b"\\\"", b"\\\\", b"\\/", b"\\b", b"\\f", b"\\n", b"\\r", b"\\t", b"\\u0041", b"\\u004a", b"\\u004A", b"\\u0000", b"\\u001f", b"\\u007f", b"\\u00", b"\\u00g1", b"\\u", b"\\", b"\\x", b"\\a", b"\\0", b"\"", b"\n", b"\t", b"\x01", b"\x1f", b"\x7f", b" ", b"/", b"u", b"\\U0041",
            b"\\u00e9", b"\\u0080", b"\\u07ff", b"\\u0800", b"\\u20ac", b"\\uffff", b"\\ud7ff", b"\\ue000", b"\\ud83d\\ude00", b"\\uD83D\\uDE00", b"\\udbff\\udfff", b"\\ud800\\udc00",
            b"\\ud83d", b"\\ude00", b"\\ud83d\\u0041", b"\\ud83d\\ud83d", b"\\ud83dx", b"\\ud83d\\n", b"\xc3\xa9", b"\xe2\x82\xac", b"\xf0\x9f\x98\x80", b"\xff", b"\xc3", b"\xed\xa0\x80", b"\xc0\xaf",
            // pinned: the three bodies on which the first (ASCII-only) reader model answered `unsupported` in a thorough run
            b"\\u00aa", b"\\u00aa\\u0000a", b"\\\"\\\\\\u00aa\x01"];
        for i in 0..n_txt {
            let b: Vec<u8> = if i < BODY.len() { BODY[i].to_vec() } else { (0..rng.range(0, 6)).flat_map(|_| rng.pick(BODY).to_vec()).collect() };
            let mut tok = vec![b'"']; tok.extend(&b); tok.push(b'"');
            let r = serde_json::from_slice::<String>(&tok).ok();
            cases.push(Case { request: format!("c10.jscan b={}", hex(&b)), observed: r.as_ref().map_or("bad".to_string(), |r| format!("ok:{}", hex(r.as_bytes()))), oracle: None,
                class: format!("jscan:{}", if r.is_some() { "accepted" } else { "refused" }) });
        }
    }
    finish("c10", a, cases);
}

pub fn _use(_: Echo) {}

// ------------------------------------------------------------------------------------------ C07
#[derive(Clone, Copy, Debug, PartialEq)]
enum EchoPolicy { Prompt, Delayed(u64), Late, Never, WrongId, Duplicate }

pub fn run_c07(a: &Args) {
    use crate::conn::decode::CbPacket as P;
    let mut rng = Rng::new(a.seed);
    let mut cases = vec![];
    let max_periods = if a.thorough { 40 } else { 6 };
    for _n in 0..a.cases {
        let mut plan = gen_plan(&mut rng);
        plan.intent = *rng.pick(&[2, 3]);
        let secret = if rng.chance(1, 2) { Some(b"s".to_vec()) } else { None };
        plan.session_cookie = None;
        let mut v = gen_verdicts(&mut rng, &plan);
        v.auth = Ok(gen_profile(&mut rng, &plan.claimed_name, plan.claimed_uuid));
        let nt = v.targets.len();
        v.discover = Ok((0..nt).collect()); v.filter = Ok((0..nt).collect());
        v.select = if nt > 0 && rng.chance(3, 4) { Ok(Some(rng.below(nt as u64) as usize)) } else { Ok(None) };
        v.loc_fail = false;
        // timeline (ms since the connection was created)
        let lat = |rng: &mut Rng| *rng.pick(&[0u64, 0, 3_000, 17_000, 33_000, 70_000]).min(&(16_000 * max_periods as u64 / 2));
        let tci = *rng.pick(&[50u64, 5_000, 20_000, 40_000]).min(&(16_000 * (max_periods as u64 - 1)));
        let (l1, l2, l3) = (lat(&mut rng), lat(&mut rng), lat(&mut rng));
        // +37 ms: completions never coincide with a tick instant (all other offsets are multiples of 50 ms)
        let done = [tci + 137 + l1 + 200, tci + 137 + l1 + 200 + l2 + 300, tci + 137 + l1 + 200 + l2 + 300 + l3 + 400];
        let end = done[2] + 500;
        let nticks = (end / 16_000) as usize;
        let bad_at = if rng.chance(2, 5) && nticks > 0 { Some(rng.below(nticks as u64) as usize) } else { None };
        let bad_kind = *rng.pick(&[EchoPolicy::Late, EchoPolicy::Never, EchoPolicy::WrongId]);
        let mut events: Vec<(u64, Step)> = vec![(tci + 100, Step::Frame(b::client_info(plan.locale.as_bytes())))];
        for d in done { events.push((d, Step::AdapterDone)); }
        let mut policies = vec![];
        for j in 0..nticks {
            let t = 16_000 * (j as u64 + 1);
            let pol = if Some(j) == bad_at { bad_kind } else { *rng.pick(&[EchoPolicy::Prompt, EchoPolicy::Prompt, EchoPolicy::Delayed(8_000), EchoPolicy::Delayed(15_700), EchoPolicy::Duplicate]) };
            policies.push(pol);
            match pol {
                EchoPolicy::Prompt => events.push((t + 150, Step::KeepAlive(Echo::Nth(j)))),
                EchoPolicy::Delayed(d) => events.push((t + d, Step::KeepAlive(Echo::Nth(j)))),
                EchoPolicy::Late => events.push((t + 16_150, Step::KeepAlive(Echo::Nth(j)))),
                EchoPolicy::Never => {}
                EchoPolicy::WrongId => events.push((t + 150, Step::KeepAlive(Echo::Wrong))),
                EchoPolicy::Duplicate => { events.push((t + 150, Step::KeepAlive(Echo::Nth(j)))); events.push((t + 700, Step::KeepAlive(Echo::Nth(j)))); }
            }
        }
        if rng.chance(1, 4) { events.push((900, Step::KeepAlive(Echo::Nth(0)))); } // unsolicited, before any Keep Alive
        // Client Information sent again while routing is still running (a client does so when an option changes): ignored, nothing ends
        if rng.chance(1, 4) && done[2] > tci + 2_000 { let t = tci + 100 + 437 + 1_000 * rng.below((done[2] - tci - 1_000) / 1_000); events.push((t, Step::Frame(b::client_info(plan.locale.as_bytes())))); }
        events.sort_by_key(|e| e.0);
        plan.pre_info = vec![]; plan.routing = vec![];
        let mut steps: Vec<Step> = render(&plan, secret.is_some());
        steps.pop(); // the Client Information frame is scheduled on the timeline
        let mut now = 0u64;
        for (t, st) in events { if t > now { steps.push(Step::Wait(t - now)); now = t; } steps.push(st); }
        steps.push(Step::Wait(400));
        let sc = scenario(&mut rng, &plan, secret.clone(), steps, v);
        let o = exec(&sc);
        // ---- oracle on virtual timestamps
        let mut why = vec![];
        let pk: Vec<(&P, u64)> = o.events.iter().filter_map(|e| if let crate::conn::Event::Send(p) = e { Some(p) } else { None }).zip(o.packet_ms.iter().copied()).collect();
        let t_success = pk.iter().find(|(p, _)| matches!(p, P::LoginSuccess { .. })).map(|x| x.1);
        let kas: Vec<u64> = pk.iter().filter(|(p, _)| matches!(p, P::KeepAlive(_))).map(|x| x.1).collect();
        if let (Some(ts), Some(first)) = (t_success, kas.first()) { if *first > ts + 16_100 { why.push(format!("first Keep Alive {} ms after entering the configuration phase", first - ts)); } }
        for w in kas.windows(2) { if w[1] - w[0] > 16_100 || w[1] - w[0] < 15_900 { why.push(format!("Keep Alives {} ms apart", w[1] - w[0])); } }
        // K2: a second Keep Alive only after the first was echoed in time
        for j in 0..kas.len().saturating_sub(1) { if !matches!(policies.get(j), Some(EchoPolicy::Prompt | EchoPolicy::Delayed(_) | EchoPolicy::Duplicate)) { why.push(format!("Keep Alive #{} sent although #{} was not echoed", j + 2, j + 1)); } }
        // expected end of the run
        let timeout_at = bad_at.map(|j| 16_000 * (j as u64 + 2)).filter(|t| *t < done[2]);
        let last = pk.last();
        match timeout_at {
            Some(t) => {
                if o.result != "err:missed-keep-alive" { why.push(format!("Keep Alive #{} left unechoed ({:?}) until the next was due, yet the run ended with {}", bad_at.unwrap() + 1, bad_kind, o.result)); }
                match last { Some((P::Disconnect(text), at)) => { if *at > t + 100 || *at + 100 < t { why.push(format!("timeout Disconnect at {at} ms, due at {t} ms")); } if text != sc.verdicts.loc_answer(Some(&plan.locale), "disconnect_timeout").unwrap().as_bytes() && tci + 100 < t { why.push("timeout Disconnect is not the localized timeout message".into()); } }
                    other => why.push(format!("no timeout Disconnect (last packet {:?})", other.map(|x| x.0.canonical().chars().take(30).collect::<String>()))) }
            }
            None => {
                if o.result == "err:missed-keep-alive" { why.push("client echoed every Keep Alive before the next was due but was dropped for inactivity".into()); }
                match (&sc.verdicts.select, last) {
                    (Ok(Some(i)), Some((P::Transfer { host, port }, at))) => { let t = &sc.verdicts.targets[*i]; if host != t.address.ip().to_string().as_bytes() || *port != i32::from(t.address.port()) { why.push("wrong Transfer after slow routing".into()); } if *at > done[2] + 200 { why.push(format!("Transfer {} ms after routing completed", at - done[2])); } }
                    (Ok(Some(_)), other) => why.push(format!("routing completed with a choice but the run did not end with its Transfer: {:?} / {}", other.map(|x| x.0.canonical().chars().take(30).collect::<String>()), o.result)),
                    _ => {}
                }
            }
        }
        cases.push(case_of(&o, why, format!("lat{}:{}:{}", ((l1 + l2 + l3) / 16_000).min(9), match (bad_at, timeout_at) { (None, _) => "all-echoed".to_string(), (Some(_), Some(_)) => format!("{bad_kind:?}-timeout"), (Some(_), None) => format!("{bad_kind:?}-routed-first") }, reach(&o))));
    }
    cases.extend(crate::byterun::cancelled_keepalive_cases(&mut rng, (a.cases / 40).clamp(8, 400)));
    // a stalled process: the clock jumps over two or more keep-alive instants at once; a client that then echoes every
    // Keep Alive at once is not dropped, gets one Keep Alive per period again and its Transfer when routing completes
    for k in 0..(a.cases / 40).clamp(6, 200) {
        let mut plan = gen_plan(&mut rng);
        plan.intent = *rng.pick(&[2, 3]);
        plan.session_cookie = None;
        let secret = if k % 2 == 0 { Some(b"s".to_vec()) } else { None };
        let mut v = gen_verdicts(&mut rng, &plan);
        v.auth = Ok(gen_profile(&mut rng, &plan.claimed_name, plan.claimed_uuid));
        let nt = v.targets.len();
        v.discover = Ok((0..nt).collect()); v.filter = Ok((0..nt).collect());
        v.select = if nt > 0 { Ok(Some(rng.below(nt as u64) as usize)) } else { Ok(None) };
        v.loc_fail = false;
        plan.pre_info = vec![]; plan.routing = vec![];
        let mut steps: Vec<Step> = render(&plan, secret.is_some());
        let before = *rng.pick(&[1_000u64, 10_000, 15_000, 17_000]);
        let stall = *rng.pick(&[33_000u64, 40_000, 70_000]);
        steps.push(Step::Wait(before));
        if before > 16_000 { steps.push(Step::KeepAlive(Echo::Last)); }
        steps.push(Step::Stall(stall));
        steps.push(Step::KeepAlive(Echo::Last));
        // up to the next keep-alive instant and a little beyond it, echo, then let routing complete
        let woke = before + stall;
        steps.push(Step::Wait(16_000 * (woke / 16_000 + 1) - woke + 150));
        steps.push(Step::KeepAlive(Echo::Last));
        steps.push(Step::Wait(1_037));
        for _ in 0..3 { steps.push(Step::AdapterDone); steps.push(Step::Wait(200)); }
        let sc = scenario(&mut rng, &plan, secret.clone(), steps, v);
        let o = exec(&sc);
        let mut why = vec![];
        if o.result == "err:missed-keep-alive" { why.push(format!("after a stall of {stall} ms the client echoed every Keep Alive at once, yet it was dropped for inactivity")); }
        let ss = oracle::sends(&o);
        let kas = ss.iter().filter(|p| matches!(p, P::KeepAlive(_))).count();
        let want_kas = if before > 16_000 { 3 } else { 2 };
        if kas != want_kas { why.push(format!("{kas} Keep Alives around the stall, {want_kas} were due (one per period, none in a burst)")); }
        match (&sc.verdicts.select, ss.last()) {
            (Ok(Some(i)), Some(P::Transfer { host, port })) => { let t = &sc.verdicts.targets[*i]; if host != t.address.ip().to_string().as_bytes() || *port != i32::from(t.address.port()) { why.push("wrong Transfer after the stall".into()); } }
            (Ok(Some(_)), other) => why.push(format!("routing completed with a choice after the stall, but the run ended with {:?} / {}", other.map(|p| p.canonical().chars().take(30).collect::<String>()), o.result)),
            _ => {}
        }
        cases.push(case_of(&o, why, format!("stall:{}:{}", stall / 16_000, reach(&o))));
    }
    // a slow login: the client takes longer than one keep-alive period to acknowledge the login; the ticks that pass meanwhile are
    // silent, and once the configuration phase has begun Keep Alives come on the same 16 s grid, never earlier
    for k in 0..(a.cases / 40).clamp(6, 200) {
        let mut plan = gen_plan(&mut rng);
        plan.intent = *rng.pick(&[2, 3]);
        plan.session_cookie = None;
        let secret = if k % 2 == 0 { Some(b"s".to_vec()) } else { None };
        let mut v = gen_verdicts(&mut rng, &plan);
        v.auth = Ok(gen_profile(&mut rng, &plan.claimed_name, plan.claimed_uuid));
        let nt = v.targets.len();
        v.discover = Ok((0..nt).collect()); v.filter = Ok((0..nt).collect());
        v.select = if nt > 0 { Ok(Some(rng.below(nt as u64) as usize)) } else { Ok(None) };
        v.loc_fail = false;
        plan.pre_info = vec![]; plan.routing = vec![];
        let legal: Vec<Step> = render(&plan, secret.is_some());
        let slow = *rng.pick(&[17_000u64, 30_000, 31_900, 47_000, 63_500]);
        let delay = *rng.pick(&[150u64, 5_000, 12_000]);
        let ack = legal.iter().position(|s| matches!(s, Step::Frame(p) if p.as_slice() == [3u8])).unwrap_or(legal.len() - 1);
        let mut steps: Vec<Step> = legal[..ack].to_vec();
        steps.push(Step::Wait(slow));
        steps.extend(legal[ack..].iter().cloned());
        let mut now = slow;
        for _ in 0..3 { let tick = 16_000 * (now / 16_000 + 1); steps.push(Step::Wait(tick + delay - now)); now = tick + delay; steps.push(Step::KeepAlive(Echo::Last)); }
        steps.push(Step::Wait(1_037));
        for _ in 0..3 { steps.push(Step::AdapterDone); steps.push(Step::Wait(200)); }
        let sc = scenario(&mut rng, &plan, secret.clone(), steps, v);
        let o = exec(&sc);
        let mut why = vec![];
        if o.result == "err:missed-keep-alive" { why.push(format!("after a login of {slow} ms the client echoed every Keep Alive {delay} ms after it was sent, yet it was dropped for inactivity")); }
        let pk: Vec<(&P, u64)> = o.events.iter().filter_map(|e| if let crate::conn::Event::Send(p) = e { Some(p) } else { None }).zip(o.packet_ms.iter().copied()).collect();
        let kas: Vec<u64> = pk.iter().filter(|(p, _)| matches!(p, P::KeepAlive(_))).map(|x| x.1).collect();
        for t in &kas { if *t < slow || t % 16_000 > 100 && t % 16_000 < 15_900 { why.push(format!("Keep Alive at {t} ms: the configuration phase began at {slow} ms and Keep Alives are due on the 16 s grid")); } }
        if kas.len() != 3 && o.result != "hang" { why.push(format!("{} Keep Alives, 3 were due", kas.len())); }
        match (&sc.verdicts.select, pk.last()) {
            (Ok(Some(i)), Some((P::Transfer { host, port }, _))) => { let t = &sc.verdicts.targets[*i]; if host != t.address.ip().to_string().as_bytes() || *port != i32::from(t.address.port()) { why.push("wrong Transfer after the slow login".into()); } }
            (Ok(Some(_)), other) => why.push(format!("routing completed with a choice after the slow login, but the run ended with {:?} / {}", other.map(|x| x.0.canonical().chars().take(30).collect::<String>()), o.result)),
            _ => {}
        }
        cases.push(case_of(&o, why, format!("slow-login:{}:{}", slow / 16_000, reach(&o))));
    }
    finish("c07", a, cases);
}
