//! C20 — the real `AgonesDiscoveryAdapter` against a loopback mock Kubernetes API (list + watch
//! over chunked HTTP/1.1, KUBECONFIG pointing at it) vs. the Lean cache reducer, plus the object
//! store oracle.
use crate::util::*;
use passage_adapters::discovery::DiscoveryAdapter;
use passage_adapters_agones::AgonesDiscoveryAdapter;
use serde_json::{json, Value};
use std::collections::BTreeMap;
use std::net::IpAddr;
use std::sync::{Arc, Mutex};
use std::time::Duration;
use tokio::io::{AsyncReadExt, AsyncWriteExt};
use tokio::sync::mpsc;

#[derive(Clone, Debug)]
pub struct Gs { name: String, address: String, ports: Vec<u16>, state: String, counters: Option<Vec<(String, Option<u32>)>>, lists: Option<Vec<(String, Vec<String>)>>, labels: Vec<(String, String)>, annotations: Vec<(String, String)>, has_status: bool, namespace: String }

impl Gs {
    fn json(&self, rv: u64) -> Value {
        let mut o = json!({"apiVersion": "agones.dev/v1", "kind": "GameServer",
            "metadata": {"name": self.name, "namespace": self.namespace, "resourceVersion": rv.to_string(), "uid": format!("uid-{}-{}", self.namespace, self.name),
                "labels": self.labels.iter().cloned().collect::<BTreeMap<_, _>>(), "annotations": self.annotations.iter().cloned().collect::<BTreeMap<_, _>>()},
            "spec": {}});
        if self.has_status {
            let mut st = json!({"address": self.address, "ports": self.ports.iter().map(|p| json!({"name": "default", "port": p})).collect::<Vec<_>>(), "state": self.state});
            // a game server without ports has either an empty list or no `ports` key at all (as before its allocation)
            if self.ports.is_empty() && self.address.len() % 2 == 0 { st.as_object_mut().unwrap().remove("ports"); }
            if let Some(c) = &self.counters { st["counters"] = Value::Object(c.iter().map(|(k, v)| (k.clone(), json!({"count": v, "capacity": 100}))).collect()); }
            if let Some(l) = &self.lists { st["lists"] = Value::Object(l.iter().map(|(k, v)| (k.clone(), json!({"capacity": 10, "values": v}))).collect()); }
            o["status"] = st;
        }
        o
    }
    fn tok(&self) -> String {
        let kv = |v: &Vec<(String, String)>| v.iter().map(|(k, x)| format!("{}={}", hex(k.as_bytes()), hex(x.as_bytes()))).collect::<Vec<_>>().join(";");
        let st = if self.has_status { format!("{}:{}:{}:{}:{}", hex(self.address.as_bytes()), self.ports.iter().map(|p| p.to_string()).collect::<Vec<_>>().join(","), hex(self.state.as_bytes()),
            self.counters.as_ref().map_or("-".to_string(), |c| format!("c{}", c.iter().map(|(k, v)| format!("{}={}", hex(k.as_bytes()), v.map_or("-".to_string(), |n| n.to_string()))).collect::<Vec<_>>().join(";"))),
            self.lists.as_ref().map_or("-".to_string(), |l| format!("l{}", l.iter().map(|(k, v)| format!("{}={}", hex(k.as_bytes()), v.iter().map(|x| hex(x.as_bytes())).collect::<Vec<_>>().join(","))).collect::<Vec<_>>().join(";")))) } else { "nostatus".to_string() };
        format!("{}:{}:L{}:A{}", hex(self.name.as_bytes()), st, kv(&self.labels), kv(&self.annotations))
    }
    /// oracle: what this object should be offered as (independent restatement of the conversion)
    fn offered(&self) -> Option<String> {
        if !self.has_status || !(self.state == "Ready" || self.state == "Allocated") { return None; }
        let ip: IpAddr = self.address.parse().ok()?;
        let port = *self.ports.first()?;
        let mut md: BTreeMap<String, String> = BTreeMap::new();
        md.insert("state".into(), self.state.clone());
        for (k, v) in self.counters.iter().flatten() { md.insert(k.clone(), v.unwrap_or(0).to_string()); }
        for (k, v) in self.lists.iter().flatten() { md.insert(k.clone(), v.join(",")); }
        for (k, v) in &self.labels { md.insert(k.clone(), v.clone()); }
        for (k, v) in &self.annotations { md.insert(k.clone(), v.clone()); }
        // a label named "state" overrides the status state in the metadata: readiness is judged on the metadata
        let s = md.get("state").cloned().unwrap_or_default();
        if !(s == "Ready" || s == "Allocated") { return None; }
        Some(format!("{}/{}/{}/{}", hex(self.name.as_bytes()), hex(ip.to_string().as_bytes()), port, md.iter().map(|(k, v)| format!("{}={}", hex(k.as_bytes()), hex(v.as_bytes()))).collect::<Vec<_>>().join(";")))
    }
}

/// the adapter built directly, or by the application's factory behind its wrapper
enum Ad { Direct(AgonesDiscoveryAdapter), App(passage::adapter::discovery::DynDiscoveryAdapter) }
impl Ad { async fn discover(&self) -> passage_adapters::Result<Vec<passage_adapters::Target>> { match self { Ad::Direct(a) => a.discover().await, Ad::App(a) => a.discover().await } } }

#[derive(Clone, Debug)]
enum Ev { Add(Gs), Modify(Gs), Delete(Gs), Bookmark, Relist(Vec<Gs>),
    /// 410 Gone, then a paged re-list whose first page (these objects) arrives and whose second page fails;
    /// the retried list returns the second component
    RelistFail(Vec<Gs>, Vec<Gs>),
    /// 410 Gone, then a re-list in which nothing is ready (these objects, none of them routable, or none at all)
    RelistEmpty(Vec<Gs>),
    /// 410 Gone, then this many consecutive requests answered with 500 before the re-list (this list) succeeds
    Outage(usize, Vec<Gs>),
    /// the watch connection ends (no 410) and this many consecutive requests are answered with 500 before the API works again
    OutageWatch(usize),
    /// these MODIFIED events back to back while four tasks keep calling discover(): a server that stays routable through
    /// all of them is in every snapshot
    Storm(Vec<Gs>) }

struct MockState { list: Vec<Gs>, rv: u64, watch_tx: Option<mpsc::UnboundedSender<String>>, lists_served: usize,
    /// first page to hand out (with a continue token) on the next list request; the continue request then fails once
    page1: Option<Vec<Gs>>, failed_served: usize,
    /// answer this many further requests (list or watch) with 500
    fail_next: usize }

async fn serve(listener: tokio::net::TcpListener, st: Arc<Mutex<MockState>>) {
    loop {
        let Ok((mut sock, _)) = listener.accept().await else { return };
        let st = st.clone();
        tokio::spawn(async move {
            let mut buf = vec![];
            loop {
                let mut tmp = [0u8; 8192];
                let Ok(n) = sock.read(&mut tmp).await else { return };
                if n == 0 { return; }
                buf.extend_from_slice(&tmp[..n]);
                while let Some(end) = buf.windows(4).position(|w| w == b"\r\n\r\n") {
                    let head = String::from_utf8_lossy(&buf[..end]).to_string();
                    buf.drain(..end + 4);
                    let target = head.lines().next().unwrap_or("").split(' ').nth(1).unwrap_or("").to_string();
                    let scope = path_ns(&target);
                    let outage = { let mut m = st.lock().unwrap(); if m.fail_next > 0 { m.fail_next -= 1; m.failed_served += 1; true } else { false } };
                    if outage {
                        let body = json!({"kind": "Status", "apiVersion": "v1", "status": "Failure", "message": "the server is currently unable to handle the request", "reason": "ServiceUnavailable", "code": 500}).to_string();
                        if sock.write_all(format!("HTTP/1.1 500 Internal Server Error\r\ncontent-type: application/json\r\ncontent-length: {}\r\n\r\n{}", body.len(), body).as_bytes()).await.is_err() { return; }
                        continue;
                    }
                    if target.contains("watch=true") {
                        let (tx, mut rx) = mpsc::unbounded_channel::<String>();
                        st.lock().unwrap().watch_tx = Some(tx);
                        if sock.write_all(b"HTTP/1.1 200 OK\r\ncontent-type: application/json\r\ntransfer-encoding: chunked\r\n\r\n").await.is_err() { return; }
                        while let Some(line) = rx.recv().await {
                            if line == "<close>" { let _ = sock.write_all(b"0\r\n\r\n").await; return; }
                            // events carry the namespace of their object in front; a namespaced watch only sees its own
                            let line = match line.split_once('\u{1}') { Some((ns, l)) => { if !ns.is_empty() && scope.as_deref().is_some_and(|s| s != ns) { continue; } l.to_string() } None => line };
                            let body = format!("{line}\n");
                            if sock.write_all(format!("{:x}\r\n{}\r\n", body.len(), body).as_bytes()).await.is_err() { return; }
                        }
                        return;
                    }
                    if target.contains("continue=") {
                        // the second page of the interrupted list: fails
                        st.lock().unwrap().failed_served += 1;
                        let body = json!({"kind": "Status", "apiVersion": "v1", "status": "Failure", "message": "etcdserver: request timed out", "reason": "InternalError", "code": 500}).to_string();
                        if sock.write_all(format!("HTTP/1.1 500 Internal Server Error\r\ncontent-type: application/json\r\ncontent-length: {}\r\n\r\n{}", body.len(), body).as_bytes()).await.is_err() { return; }
                        continue;
                    }
                    let body = { let mut s = st.lock().unwrap(); s.lists_served += 1; let rv = s.rv;
                        match s.page1.take() {
                            Some(p1) => json!({"apiVersion": "agones.dev/v1", "kind": "GameServerList", "metadata": {"resourceVersion": rv.to_string(), "continue": "page-2", "remainingItemCount": 1}, "items": p1.iter().filter(|g| scope.as_deref().is_none_or(|s| s == g.namespace)).map(|g| g.json(rv)).collect::<Vec<_>>()}).to_string(),
                            None => json!({"apiVersion": "agones.dev/v1", "kind": "GameServerList", "metadata": {"resourceVersion": rv.to_string()}, "items": s.list.iter().filter(|g| scope.as_deref().is_none_or(|s| s == g.namespace)).map(|g| g.json(rv)).collect::<Vec<_>>()}).to_string(),
                        } };
                    if sock.write_all(format!("HTTP/1.1 200 OK\r\ncontent-type: application/json\r\ncontent-length: {}\r\n\r\n{}", body.len(), body).as_bytes()).await.is_err() { return; }
                }
            }
        });
    }
}

fn gen_gs(rng: &mut Rng, name: &str) -> Gs {
    let kind = rng.below(12);
    Gs { name: name.to_string(),
        address: if kind == 0 { rng.pick(&["", "not-an-ip", "10.0.0.256", "010.0.0.1", "10.0.0.1.", "10.0.0"]).to_string() } else { rng.pick(&["10.0.0.1", "10.1.2.3", "2001:db8::5", "::1"]).to_string() },
        ports: if kind == 1 { vec![] } else { (0..rng.range(1, 3)).map(|_| *rng.pick(&[7000u16, 7001, 25565, 1])).collect() },
        state: rng.pick(&["Ready", "Ready", "Ready", "Allocated", "Shutdown", "Scheduled", "Unhealthy", "Reserved", "Creating", "RequestReady"]).to_string(),
        counters: if rng.chance(1, 3) { Some(vec![("players".to_string(), if rng.chance(1, 4) { None } else { Some(rng.below(50) as u32) })]) } else { None },
        lists: if rng.chance(1, 4) { Some(vec![(rng.pick(&["rooms", "players"]).to_string(), (0..rng.below(3)).map(|i| format!("r{i}")).collect())]) } else { None },
        labels: if rng.chance(1, 2) { vec![("region".to_string(), rng.pick(&["eu", "us"]).to_string())] } else if rng.chance(1, 12) { vec![("state".to_string(), "label-wins".to_string())] } else { vec![] },
        annotations: if rng.chance(1, 4) { vec![(rng.pick(&["note", "region"]).to_string(), "a".to_string())] } else { vec![] },
        has_status: kind != 2, namespace: ns_of(name).into() }
}

/// every name lives in one namespace (two objects of one name in two namespaces are the recorded finding's witness only)
fn ns_of(name: &str) -> &'static str { match name { "gs-c" => "games", "gs-d" => "lobby", _ => "default" } }

/// the namespace of a namespaced request path (`…/namespaces/<ns>/gameservers`), None for the cluster-wide one
fn path_ns(target: &str) -> Option<String> { target.split('?').next()?.split("/namespaces/").nth(1)?.split('/').next().map(String::from) }

async fn wait_for(adapter: &Ad, pred: impl Fn(&[passage_adapters::Target]) -> bool, ms: u64) -> Option<Vec<passage_adapters::Target>> {
    let deadline = tokio::time::Instant::now() + Duration::from_millis(ms);
    loop {
        let ts = adapter.discover().await.unwrap();
        if pred(&ts) { return Some(ts); }
        if tokio::time::Instant::now() > deadline { return None; }
        tokio::time::sleep(Duration::from_millis(5)).await;
    }
}

fn snapshot(ts: &[passage_adapters::Target]) -> String {
    let mut v: Vec<String> = ts.iter().map(|t| { let mut md: Vec<String> = t.meta.iter().map(|(k, v)| format!("{}={}", hex(k.as_bytes()), hex(v.as_bytes()))).collect(); md.sort();
        format!("{}/{}/{}/{}", hex(t.identifier.as_bytes()), hex(t.address.ip().to_string().as_bytes()), t.address.port(), md.join(";")) }).collect();
    v.sort();
    v.join(" ")
}

pub fn run(a: &Args) {
    let mut rng = Rng::new(a.seed);
    let rt = tokio::runtime::Builder::new_multi_thread().worker_threads(4).enable_all().build().unwrap();
    let mut cases = vec![];
    let dir = std::env::temp_dir().join(format!("pv-c20-{}", std::process::id()));
    std::fs::create_dir_all(&dir).unwrap();
    for n in 0..a.cases {
        let names = ["gs-a", "gs-b", "gs-c", "gs-d"];
        let mut initial: Vec<Gs> = vec![];
        for nm in &names { if rng.chance(1, 2) { initial.push(gen_gs(&mut rng, nm)); } }
        // pinned witness of the recorded finding: two GameServers of one name in two namespaces (the
        // adapter watches all namespaces and identifies a server by metadata.name alone)
        let collision = n == 0;
        if collision {
            initial = vec![gen_gs(&mut rng, "gs-a"), gen_gs(&mut rng, "gs-a")];
            for (g, ns, ad) in [(0usize, "blue", "10.0.0.1"), (1, "green", "10.0.0.2")] { initial[g].namespace = ns.into(); initial[g].address = ad.into(); initial[g].ports = vec![7000]; initial[g].state = "Ready".into(); initial[g].has_status = true; initial[g].labels.retain(|l| l.0 != "state"); }
        }
        let nev = if collision { 1 } else { rng.range(1, if a.thorough { 25 } else { 10 }) };
        let with_relist = !collision && (a.thorough && n % 4 == 0 || n % 6 == 3);
        let mut evs: Vec<Ev> = vec![];
        let mut live: Vec<String> = initial.iter().map(|g| g.name.clone()).collect();
        let mut cur: BTreeMap<String, Gs> = initial.iter().map(|g| (g.name.clone(), g.clone())).collect();
        for i in 0..nev {
            let nm = *rng.pick(&names);
            let ev = if with_relist && i == nev / 2 {
                let mut l: Vec<Gs> = vec![];
                for nm in &names { if rng.chance(1, 2) { l.push(gen_gs(&mut rng, nm)); } }
                live = l.iter().map(|g| g.name.clone()).collect();
                cur = l.iter().map(|g| (g.name.clone(), g.clone())).collect();
                if rng.chance(1, 2) {
                    // the first page of the interrupted attempt holds objects that are gone (or different) by the retry
                    let mut p1: Vec<Gs> = vec![];
                    for nm in &names { if rng.chance(1, 2) { let mut g = gen_gs(&mut rng, nm); if rng.chance(2, 3) { g.state = "Ready".into(); g.has_status = true; g.address = "10.0.0.1".into(); g.ports = vec![7000]; g.labels.retain(|x| x.0 != "state"); } p1.push(g); } }
                    Ev::RelistFail(p1, l)
                } else if rng.chance(1, 3) {
                    // nothing ready any more: an empty list, or only objects that are not routable
                    let mut e: Vec<Gs> = vec![];
                    if rng.chance(1, 2) { for nm in &names { if rng.chance(1, 2) { let mut g = gen_gs(&mut rng, nm); g.state = rng.pick(&["Shutdown", "Scheduled", "Unhealthy"]).to_string(); e.push(g); } } }
                    live = e.iter().map(|g| g.name.clone()).collect();
                    cur = e.iter().map(|g| (g.name.clone(), g.clone())).collect();
                    Ev::RelistEmpty(e)
                } else { Ev::Relist(l) }
            } else if live.iter().any(|x| x == nm) {
                match rng.below(5) { 0 | 1 => { live.retain(|x| x != nm); Ev::Delete(gen_gs(&mut rng, nm)) } 2 => Ev::Bookmark,
                    _ => {
                        // half of the modifications keep address and ports and change only what is offered
                        // WITH the address (state among the routable ones, counters, lists, labels)
                        let g = match cur.get(nm) {
                            Some(prev) if rng.chance(1, 2) => { let mut g = prev.clone();
                                match rng.below(4) {
                                    0 => g.state = if g.state == "Ready" { "Allocated".into() } else { "Ready".into() },
                                    1 => g.counters = Some(vec![("players".to_string(), Some(rng.below(50) as u32))]),
                                    2 => g.labels = vec![("region".to_string(), rng.pick(&["eu", "us", "ap"]).to_string())],
                                    _ => g.lists = Some(vec![("rooms".to_string(), (0..rng.range(1, 3)).map(|i| format!("m{i}")).collect())]),
                                }
                                g }
                            _ => gen_gs(&mut rng, nm),
                        };
                        cur.insert(nm.to_string(), g.clone());
                        Ev::Modify(g)
                    } }
            } else { live.push(nm.to_string()); let g = gen_gs(&mut rng, nm); cur.insert(nm.to_string(), g.clone()); Ev::Add(g) };
            evs.push(ev);
        }
        if collision { evs = vec![Ev::Bookmark]; }
        let ready = |rng: &mut Rng, name: &str, addr: &str| { let mut g = gen_gs(rng, name); g.state = "Ready".into(); g.has_status = true; g.address = addr.into(); g.ports = vec![7000]; g.labels.retain(|l| l.0 != "state"); g };
        if n == 1 {
            // an outage of the API server: four requests in a row fail before the re-list succeeds
            initial = vec![ready(&mut rng, "gs-a", "10.0.0.1"), ready(&mut rng, "gs-b", "10.1.2.3")];
            evs = vec![Ev::Add(ready(&mut rng, "gs-c", "10.0.0.1")), Ev::OutageWatch(4), Ev::Delete(ready(&mut rng, "gs-a", "10.0.0.1")), Ev::Outage(if a.thorough { 6 } else { 2 }, vec![ready(&mut rng, "gs-b", "10.1.2.3"), ready(&mut rng, "gs-d", "::1")]), Ev::Add(ready(&mut rng, "gs-a", "10.0.0.1"))];
        }
        if n == 2 {
            // readers during a storm of updates
            initial = vec![ready(&mut rng, "gs-a", "10.0.0.1"), ready(&mut rng, "gs-b", "10.1.2.3")];
            let storm: Vec<Gs> = (0..400).map(|i| { let mut g = initial[0].clone(); g.state = if i % 2 == 0 { "Allocated".into() } else { "Ready".into() }; g.counters = Some(vec![("players".to_string(), Some(i as u32))]); g }).collect();
            evs = vec![Ev::Storm(storm)];
        }
        if n == 7 {
            // everything is gone by the time the watch is re-established
            initial = vec![ready(&mut rng, "gs-a", "10.0.0.1"), ready(&mut rng, "gs-b", "10.1.2.3")];
            evs = vec![Ev::RelistEmpty(vec![]), Ev::Add(ready(&mut rng, "gs-d", "10.0.0.1"))];
        }
        let st = Arc::new(Mutex::new(MockState { list: initial.clone(), rv: 7, watch_tx: None, lists_served: 0, page1: None, failed_served: 0, fail_next: 0 }));
        let kubeconfig = dir.join(format!("kc-{n}.yaml"));
        let (observed, model_evs, oracle) = rt.block_on(async {
            let listener = tokio::net::TcpListener::bind("127.0.0.1:0").await.unwrap();
            let port = listener.local_addr().unwrap().port();
            let server = tokio::spawn(serve(listener, st.clone()));
            std::fs::write(&kubeconfig, format!("apiVersion: v1\nkind: Config\nclusters:\n- name: m\n  cluster:\n    server: http://127.0.0.1:{port}\ncontexts:\n- name: m\n  context:\n    cluster: m\n    user: m\ncurrent-context: m\nusers:\n- name: m\n  user: {{}}\n")).unwrap();
            // SAFETY: single scenario at a time
            unsafe { std::env::set_var("KUBECONFIG", &kubeconfig); }
            // every other history through the application's factory and wrapper (its own watcher configuration: bookmarks, pages of 500)
            let adapter = if n % 2 == 1 { Ad::App(passage::adapter::discovery::DynDiscoveryAdapter::from_config(passage::config::DiscoveryAdapter::Agones(passage::config::AgonesDiscovery { namespace: None, label_selector: None, field_selector: None })).await.expect("agones adapter through the factory")) }
                else { Ad::Direct(AgonesDiscoveryAdapter::new(None, Default::default()).await.expect("agones adapter")) };
            let adapter = Arc::new(adapter);
            let mut snaps = vec![];
            let mut model: Vec<String> = vec!["init".into()];
            let mut store: BTreeMap<(String, String), Gs> = BTreeMap::new();
            let mut why: Vec<String> = vec![];
            for g in &initial { model.push(format!("ia:{}", g.tok())); store.insert((g.namespace.clone(), g.name.clone()), g.clone()); }
            model.push("done".into());
            // wait until the watch connection exists (the list has been consumed)
            let t0 = tokio::time::Instant::now();
            while st.lock().unwrap().watch_tx.is_none() && t0.elapsed() < Duration::from_secs(5) { tokio::time::sleep(Duration::from_millis(5)).await; }
            let mut sentinel = 0;
            let mut check = |snaps: &mut Vec<String>, store: &BTreeMap<(String, String), Gs>, ts: Option<Vec<passage_adapters::Target>>, why: &mut Vec<String>, what: &str| {
                match ts {
                    None => { why.push(format!("cache did not settle after {what}")); snaps.push("timeout".into()); }
                    Some(ts) => {
                        let got = snapshot(&ts);
                        let mut want: Vec<String> = store.values().filter_map(|g| g.offered()).collect();
                        want.sort();
                        if got != want.join(" ") { why.push(format!("after {what}: offered {:?} but the ready game servers are {:?}", ts.iter().map(|t| t.identifier.clone()).collect::<Vec<_>>(), store.values().filter(|g| g.offered().is_some()).map(|g| g.name.clone()).collect::<Vec<_>>())); }
                        snaps.push(got);
                    }
                }
            };
            for ev in &evs {
                let send = |ns: &str, line: String| { if let Some(tx) = &st.lock().unwrap().watch_tx { let _ = tx.send(format!("{ns}\u{1}{line}")); } };
                let rv = { let mut s = st.lock().unwrap(); s.rv += 1; s.rv };
                let what;
                match ev {
                    Ev::Add(g) => { what = format!("ADDED {}", g.name); send(&g.namespace, json!({"type": "ADDED", "object": g.json(rv)}).to_string()); model.push(format!("ap:{}", g.tok())); store.insert((g.namespace.clone(), g.name.clone()), g.clone()); }
                    Ev::Modify(g) => { what = format!("MODIFIED {} -> {}", g.name, g.state); send(&g.namespace, json!({"type": "MODIFIED", "object": g.json(rv)}).to_string()); model.push(format!("ap:{}", g.tok())); store.insert((g.namespace.clone(), g.name.clone()), g.clone()); }
                    Ev::Delete(g) => { what = format!("DELETED {}", g.name); send(&g.namespace, json!({"type": "DELETED", "object": g.json(rv)}).to_string()); model.push(format!("de:{}", g.tok())); store.remove(&(g.namespace.clone(), g.name.clone())); }
                    Ev::Bookmark => { what = "BOOKMARK".into(); send("", json!({"type": "BOOKMARK", "object": {"apiVersion": "agones.dev/v1", "kind": "GameServer", "metadata": {"resourceVersion": rv.to_string()}}}).to_string()); }
                    Ev::RelistFail(p1, l) => {
                        what = "410 Gone + re-list interrupted after its first page + retried re-list".into();
                        sentinel += 1;
                        let s = Gs { name: format!("sentinel-{sentinel}"), address: "127.0.0.9".into(), ports: vec![9], state: "Ready".into(), counters: None, lists: None, labels: vec![], annotations: vec![], has_status: true, namespace: "default".into() };
                        let mut l2 = l.clone(); l2.push(s.clone());
                        let failed_before = st.lock().unwrap().failed_served;
                        let old_tx = { let mut m = st.lock().unwrap(); m.list = l2.clone(); m.page1 = Some(p1.clone()); m.watch_tx.take() };
                        if let Some(tx) = old_tx {
                            let _ = tx.send(json!({"type": "ERROR", "object": {"kind": "Status", "apiVersion": "v1", "status": "Failure", "message": "too old resource version", "reason": "Expired", "code": 410}}).to_string());
                            let _ = tx.send("<close>".to_string());
                        }
                        // first attempt: Init, the first page, then the failure — nothing may change for callers of discover()
                        model.push("init".into());
                        for g in p1 { model.push(format!("ia:{}", g.tok())); }
                        let t1 = tokio::time::Instant::now();
                        while st.lock().unwrap().failed_served == failed_before && t1.elapsed() < Duration::from_secs(8) { tokio::time::sleep(Duration::from_millis(5)).await; }
                        tokio::time::sleep(Duration::from_millis(150)).await;
                        let mid = adapter.discover().await.unwrap();
                        model.push("S".into());
                        check(&mut snaps, &store, Some(mid), &mut why, "the first page of a re-list that then failed (the previous complete state still stands)");
                        // the retry
                        model.push("init".into()); store.clear();
                        for g in &l2 { model.push(format!("ia:{}", g.tok())); store.insert((g.namespace.clone(), g.name.clone()), g.clone()); }
                        model.push("done".into());
                        let want = format!("sentinel-{sentinel}");
                        let ts = wait_for(&adapter, |ts| ts.iter().any(|t| t.identifier == want), 12000).await;
                        let t1 = tokio::time::Instant::now();
                        while st.lock().unwrap().watch_tx.is_none() && t1.elapsed() < Duration::from_secs(5) { tokio::time::sleep(Duration::from_millis(5)).await; }
                        model.push("S".into());
                        check(&mut snaps, &store, ts, &mut why, &what);
                        continue;
                    }
                    Ev::Storm(gs) => {
                        what = format!("{} MODIFIED events back to back with four concurrent readers", gs.len());
                        let stop = Arc::new(std::sync::atomic::AtomicBool::new(false));
                        let name = gs[0].name.clone();
                        let readers: Vec<_> = (0..4).map(|_| { let (ad, stop, name) = (adapter.clone(), stop.clone(), name.clone()); tokio::spawn(async move {
                            let (mut total, mut missing) = (0u64, 0u64);
                            while !stop.load(std::sync::atomic::Ordering::Relaxed) { if let Ok(ts) = ad.discover().await { total += 1; if !ts.iter().any(|t| t.identifier == name) { missing += 1; } } tokio::task::yield_now().await; }
                            (total, missing) }) }).collect();
                        for g in gs {
                            let rv = { let mut m = st.lock().unwrap(); m.rv += 1; m.rv };
                            send(&g.namespace, json!({"type": "MODIFIED", "object": g.json(rv)}).to_string());
                            model.push(format!("ap:{}", g.tok())); store.insert((g.namespace.clone(), g.name.clone()), g.clone());
                            tokio::task::yield_now().await;
                        }
                        sentinel += 1;
                        let s = Gs { name: format!("sentinel-{sentinel}"), address: "127.0.0.9".into(), ports: vec![9], state: "Ready".into(), counters: None, lists: None, labels: vec![], annotations: vec![], has_status: true, namespace: "default".into() };
                        let rv = { let mut m = st.lock().unwrap(); m.rv += 1; m.rv };
                        send(&s.namespace, json!({"type": "ADDED", "object": s.json(rv)}).to_string());
                        model.push(format!("ap:{}", s.tok())); store.insert((s.namespace.clone(), s.name.clone()), s.clone());
                        let want = s.name.clone();
                        let ts = wait_for(&adapter, |ts| ts.iter().any(|t| t.identifier == want), 8000).await;
                        stop.store(true, std::sync::atomic::Ordering::Relaxed);
                        let (mut total, mut missing) = (0u64, 0u64);
                        for r in readers { if let Ok((t, m)) = r.await { total += t; missing += m; } }
                        if missing > 0 { why.push(format!("{missing} of {total} concurrent snapshots lacked {name}, which was Ready or Allocated throughout")); }
                        model.push("S".into());
                        check(&mut snaps, &store, ts, &mut why, &what);
                        continue;
                    }
                    Ev::RelistEmpty(l) => {
                        what = "410 Gone + a re-list in which nothing is ready".into();
                        let old_tx = { let mut m = st.lock().unwrap(); m.list = l.clone(); m.watch_tx.take() };
                        if let Some(tx) = old_tx {
                            let _ = tx.send(json!({"type": "ERROR", "object": {"kind": "Status", "apiVersion": "v1", "status": "Failure", "message": "too old resource version", "reason": "Expired", "code": 410}}).to_string());
                            let _ = tx.send("<close>".to_string());
                        }
                        model.push("init".into()); store.clear();
                        for g in l { model.push(format!("ia:{}", g.tok())); store.insert((g.namespace.clone(), g.name.clone()), g.clone()); }
                        model.push("done".into());
                        // no marker object can tell when this list has been applied: wait until nothing is offered (or give up)
                        let ts = wait_for(&adapter, |ts| ts.is_empty(), 8000).await;
                        let t1 = tokio::time::Instant::now();
                        while st.lock().unwrap().watch_tx.is_none() && t1.elapsed() < Duration::from_secs(5) { tokio::time::sleep(Duration::from_millis(5)).await; }
                        model.push("S".into());
                        check(&mut snaps, &store, ts, &mut why, &what);
                        continue;
                    }
                    Ev::OutageWatch(k) => {
                        what = format!("watch dropped + {k} consecutive failing requests");
                        let old_tx = { let mut m = st.lock().unwrap(); m.fail_next = *k; m.watch_tx.take() };
                        if let Some(tx) = old_tx { let _ = tx.send("<close>".to_string()); }
                        // until the API has answered again and a watch is re-established (the watcher backs off 0.8 s doubling between attempts)
                        let t1 = tokio::time::Instant::now();
                        while (st.lock().unwrap().fail_next > 0 || st.lock().unwrap().watch_tx.is_none()) && t1.elapsed() < Duration::from_secs(60) { tokio::time::sleep(Duration::from_millis(20)).await; }
                        if st.lock().unwrap().watch_tx.is_none() { why.push(format!("after {what} the adapter never asked the API again (waited 60 s): its cache is frozen")); }
                    }
                    Ev::Outage(k, l) => {
                        what = format!("410 Gone + {k} consecutive failing requests + re-list");
                        sentinel += 1;
                        let s = Gs { name: format!("sentinel-{sentinel}"), address: "127.0.0.9".into(), ports: vec![9], state: "Ready".into(), counters: None, lists: None, labels: vec![], annotations: vec![], has_status: true, namespace: "default".into() };
                        let mut l2 = l.clone(); l2.push(s.clone());
                        let failed_before = st.lock().unwrap().failed_served;
                        let old_tx = { let mut m = st.lock().unwrap(); m.list = l2.clone(); m.fail_next = *k; m.watch_tx.take() };
                        if let Some(tx) = old_tx {
                            let _ = tx.send(json!({"type": "ERROR", "object": {"kind": "Status", "apiVersion": "v1", "status": "Failure", "message": "too old resource version", "reason": "Expired", "code": 410}}).to_string());
                            let _ = tx.send("<close>".to_string());
                        }
                        model.push("init".into()); store.clear();
                        for g in &l2 { model.push(format!("ia:{}", g.tok())); store.insert((g.namespace.clone(), g.name.clone()), g.clone()); }
                        model.push("done".into());
                        let want = format!("sentinel-{sentinel}");
                        // the watcher backs off between attempts (0.8 s doubling): give it a minute
                        let t_out = tokio::time::Instant::now();
                        let ts = wait_for(&adapter, |ts| ts.iter().any(|t| t.identifier == want), 60000).await;
                        eprintln!("c20 outage: {} failing requests served, settled={} after {} ms", st.lock().unwrap().failed_served - failed_before, ts.is_some(), t_out.elapsed().as_millis());
                        let t1 = tokio::time::Instant::now();
                        while st.lock().unwrap().watch_tx.is_none() && t1.elapsed() < Duration::from_secs(5) { tokio::time::sleep(Duration::from_millis(5)).await; }
                        model.push("S".into());
                        check(&mut snaps, &store, ts, &mut why, &what);
                        continue;
                    }
                    Ev::Relist(l) => {
                        what = "410 Gone + re-list".into();
                        sentinel += 1;
                        let s = Gs { name: format!("sentinel-{sentinel}"), address: "127.0.0.9".into(), ports: vec![9], state: "Ready".into(), counters: None, lists: None, labels: vec![], annotations: vec![], has_status: true, namespace: "default".into() };
                        let mut l2 = l.clone(); l2.push(s.clone());
                        // the new list is in place before the watch reports 410 Gone; the connection is closed after it
                        let old_tx = { let mut m = st.lock().unwrap(); m.list = l2.clone(); m.watch_tx.take() };
                        if let Some(tx) = old_tx {
                            let _ = tx.send(json!({"type": "ERROR", "object": {"kind": "Status", "apiVersion": "v1", "status": "Failure", "message": "too old resource version", "reason": "Expired", "code": 410}}).to_string());
                            let _ = tx.send("<close>".to_string());
                        }
                        // the old watch connection is still registered under the previous sender: close it
                        model.push("init".into()); store.clear();
                        for g in &l2 { model.push(format!("ia:{}", g.tok())); store.insert((g.namespace.clone(), g.name.clone()), g.clone()); }
                        model.push("done".into());
                        let want = format!("sentinel-{sentinel}");
                        let ts = wait_for(&adapter, |ts| ts.iter().any(|t| t.identifier == want), 8000).await;
                        let t1 = tokio::time::Instant::now();
                        while st.lock().unwrap().watch_tx.is_none() && t1.elapsed() < Duration::from_secs(5) { tokio::time::sleep(Duration::from_millis(5)).await; }
                        model.push("S".into());
                        check(&mut snaps, &store, ts, &mut why, &what);
                        continue;
                    }
                }
                // a sentinel object applied after the event marks the point at which the snapshot is taken
                sentinel += 1;
                let s = Gs { name: format!("sentinel-{sentinel}"), address: "127.0.0.9".into(), ports: vec![9], state: "Ready".into(), counters: None, lists: None, labels: vec![], annotations: vec![], has_status: true, namespace: "default".into() };
                let rv = { let mut m = st.lock().unwrap(); m.rv += 1; m.rv };
                send(&s.namespace, json!({"type": "ADDED", "object": s.json(rv)}).to_string());
                model.push(format!("ap:{}", s.tok())); store.insert((s.namespace.clone(), s.name.clone()), s.clone());
                let want = s.name.clone();
                let ts = wait_for(&adapter, |ts| ts.iter().any(|t| t.identifier == want), 3000).await;
                model.push("S".into());
                check(&mut snaps, &store, ts, &mut why, &what);
            }
            drop(adapter);
            server.abort();
            (snaps.join(" | "), model, why)
        });
        let _ = std::fs::remove_file(&kubeconfig);
        // ip oracle tokens
        let mut ips: Vec<String> = vec![];
        for tok in ["", "not-an-ip", "10.0.0.256", "10.0.0.1", "10.0.0.2", "10.1.2.3", "2001:db8::5", "::1", "127.0.0.9"] { ips.push(format!("ip={}:{}", hex(tok.as_bytes()), tok.parse::<IpAddr>().map_or("-".to_string(), |i| hex(i.to_string().as_bytes())))); }
        let class = if collision { "finding:namespace-collision".to_string() } else { format!("{}:{}", if evs.iter().any(|e| matches!(e, Ev::Outage(..) | Ev::OutageWatch(_))) { "outage" } else if evs.iter().any(|e| matches!(e, Ev::RelistEmpty(_))) { "relist-empty" } else if evs.iter().any(|e| matches!(e, Ev::RelistFail(..))) { "relist-interrupted" } else if evs.iter().any(|e| matches!(e, Ev::Relist(_))) { "relist" } else { "watch" }, if evs.iter().any(|e| matches!(e, Ev::Delete(_))) { "with-delete" } else { "no-delete" }) };
        cases.push(Case { request: format!("c20.run {} | {}", ips.join(" "), model_evs.join(" ")), observed, oracle: if oracle.is_empty() { None } else { Some(oracle.join("; ")) }, class });
    }
    let _ = std::fs::remove_dir_all(&dir);
    write_cases(&a.out, &cases).expect("write cases");
    println!("c20: {} histories", cases.len());
}
