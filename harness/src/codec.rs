//! Generic access to passage-packets: build any packet from a list of plain values, encode and
//! decode it with the REAL writer/reader, plus an independent reference encoder (the harness's
//! own transcription of the wire layout, sharing no code with passage or with the Lean model).
use passage_packets::configuration::{clientbound as ccb, serverbound as csb};
use passage_packets::handshake::serverbound as hsb;
use passage_packets::login::{clientbound as lcb, serverbound as lsb};
use passage_packets::status::{clientbound as scb, serverbound as ssb};
use passage_packets::{
    ChatMode, DisplayedSkinParts, MainHand, Packet, ParticleStatus, ReadPacket, ResourcePackResult,
    State, WritePacket,
};
use std::io::Cursor;
use uuid::Uuid;

#[derive(Clone, Debug, PartialEq)]
pub enum V {
    I(i128),
    B(Vec<u8>),
    T(bool),
    U,
    N,
}

impl V {
    pub fn tok(&self) -> String {
        match self {
            V::I(i) => format!("i{i}"),
            V::B(b) => crate::util::hex(b),
            V::T(true) => "t".into(),
            V::T(false) => "f".into(),
            V::U => "u".into(),
            V::N => "-".into(),
        }
    }
    fn i(&self) -> i128 { if let V::I(i) = self { *i } else { panic!("int expected") } }
    fn s(&self) -> String { if let V::B(b) = self { String::from_utf8(b.clone()).expect("utf8") } else { panic!("bytes expected") } }
    fn b(&self) -> Vec<u8> { if let V::B(b) = self { b.clone() } else { panic!("bytes expected") } }
    fn t(&self) -> bool { if let V::T(b) = self { *b } else { panic!("bool expected") } }
    fn u128(&self) -> Uuid { Uuid::from_u128(self.i() as u128) }
}

/// the harness's own view of the wire types (third transcription)
#[derive(Clone, Copy, Debug, PartialEq)]
pub enum Ty { VarInt, Str, Bytes, Bool, U8, I8, U16, I32, U64, Uuid, Text, Enum(i32, i32), Tok32, Port, Zero }
#[derive(Clone, Copy, Debug, PartialEq)]
pub enum F { Req(Ty), Opt(Ty) }

pub struct Pk { pub name: &'static str, pub id: i32, pub sch: &'static [F] }

use F::*;
use Ty::*;
pub const PACKETS: &[Pk] = &[
    Pk { name: "handshake.Handshake", id: 0, sch: &[Req(VarInt), Req(Str), Req(U16), Req(Enum(1, 3))] },
    Pk { name: "status.StatusResponse", id: 0, sch: &[Req(Str)] },
    Pk { name: "status.Pong", id: 1, sch: &[Req(U64)] },
    Pk { name: "status.StatusRequest", id: 0, sch: &[] },
    Pk { name: "status.Ping", id: 1, sch: &[Req(U64)] },
    Pk { name: "login.Disconnect", id: 0, sch: &[Req(Str)] },
    Pk { name: "login.EncryptionRequest", id: 1, sch: &[Req(Str), Req(Bytes), Req(Tok32), Req(Bool)] },
    Pk { name: "login.LoginSuccess", id: 2, sch: &[Req(Uuid), Req(Str), Req(Zero)] },
    Pk { name: "login.SetCompression", id: 3, sch: &[] },
    Pk { name: "login.LoginPluginRequest", id: 4, sch: &[] },
    Pk { name: "login.CookieRequest", id: 5, sch: &[Req(Str)] },
    Pk { name: "login.LoginStart", id: 0, sch: &[Req(Str), Req(Uuid)] },
    Pk { name: "login.EncryptionResponse", id: 1, sch: &[Req(Bytes), Req(Bytes)] },
    Pk { name: "login.LoginPluginResponse", id: 2, sch: &[] },
    Pk { name: "login.LoginAcknowledged", id: 3, sch: &[] },
    Pk { name: "login.CookieResponse", id: 4, sch: &[Req(Str), Opt(Bytes)] },
    Pk { name: "configuration.CookieRequest", id: 0, sch: &[Req(Str)] },
    Pk { name: "configuration.PluginMessage", id: 1, sch: &[] },
    Pk { name: "configuration.Disconnect", id: 2, sch: &[Req(Text)] },
    Pk { name: "configuration.FinishConfiguration", id: 3, sch: &[] },
    Pk { name: "configuration.KeepAlive", id: 4, sch: &[Req(U64)] },
    Pk { name: "configuration.Ping", id: 5, sch: &[Req(I32)] },
    Pk { name: "configuration.ResetChat", id: 6, sch: &[] },
    Pk { name: "configuration.RegistryData", id: 7, sch: &[] },
    Pk { name: "configuration.RemoveResourcePack", id: 8, sch: &[] },
    Pk { name: "configuration.AddResourcePack", id: 9, sch: &[Req(Uuid), Req(Str), Req(Str), Req(Bool), Opt(Text)] },
    Pk { name: "configuration.StoreCookie", id: 10, sch: &[Req(Str), Req(Bytes)] },
    Pk { name: "configuration.Transfer", id: 11, sch: &[Req(Str), Req(Port)] },
    Pk { name: "configuration.FeatureFlags", id: 12, sch: &[] },
    Pk { name: "configuration.UpdateTags", id: 13, sch: &[] },
    Pk { name: "configuration.KnownPacks", id: 14, sch: &[] },
    Pk { name: "configuration.CustomReportDetails", id: 15, sch: &[] },
    Pk { name: "configuration.ServerLinks", id: 16, sch: &[] },
    Pk { name: "configuration.ClientInformation", id: 0, sch: &[Req(Str), Req(I8), Req(Enum(0, 2)), Req(Bool), Req(U8), Req(Enum(0, 1)), Req(Bool), Req(Bool), Req(Enum(0, 2))] },
    Pk { name: "configuration.CookieResponse", id: 1, sch: &[] },
    Pk { name: "configuration.PluginMessage.sb", id: 2, sch: &[] },
    Pk { name: "configuration.AckFinishConfiguration", id: 3, sch: &[] },
    Pk { name: "configuration.KeepAlive.sb", id: 4, sch: &[Req(U64)] },
    Pk { name: "configuration.Pong", id: 5, sch: &[Req(I32)] },
    Pk { name: "configuration.ResourcePackResponse", id: 6, sch: &[Req(Uuid), Req(Enum(0, 7))] },
    Pk { name: "configuration.KnownPacks.sb", id: 7, sch: &[] },
];

pub fn rt() -> tokio::runtime::Runtime {
    tokio::runtime::Builder::new_current_thread().enable_all().build().unwrap()
}

fn enc<P: WritePacket + Send + Sync>(p: P) -> Result<(i32, Vec<u8>), String> {
    let mut out: Vec<u8> = vec![];
    rt().block_on(p.write_to_buffer(&mut out)).map_err(|e| err_name(&e))?;
    Ok((P::ID, out))
}

pub fn err_name(e: &passage_packets::Error) -> String {
    use passage_packets::Error as E;
    match e {
        E::Io(io) if io.kind() == std::io::ErrorKind::UnexpectedEof => "eof".into(),
        E::Io(io) => format!("io-{:?}", io.kind()),
        E::IllegalPacketLength => "illegal-length".into(),
        E::IllegalEnumValue { .. } => "illegal-enum".into(),
        E::IllegalPacketId { .. } => "illegal-id".into(),
        E::InvalidEncoding => "invalid-encoding".into(),
        E::ArrayConversionFailed => "array-conversion".into(),
        E::Json(_) | E::Nbt(_) => "nbt".into(),
    }
}

fn state(i: i128) -> State { match i { 1 => State::Status, 2 => State::Login, 3 => State::Transfer, _ => panic!("state") } }
fn chat(i: i128) -> ChatMode { match i { 0 => ChatMode::Enabled, 1 => ChatMode::CommandsOnly, 2 => ChatMode::Hidden, _ => panic!("chat") } }
fn hand(i: i128) -> MainHand { match i { 0 => MainHand::Left, 1 => MainHand::Right, _ => panic!("hand") } }
fn part(i: i128) -> ParticleStatus { match i { 0 => ParticleStatus::All, 1 => ParticleStatus::Decreased, 2 => ParticleStatus::Minimal, _ => panic!("part") } }
fn rpr(i: i128) -> ResourcePackResult {
    use ResourcePackResult::*;
    [Success, Declined, DownloadFailed, Accepted, Downloaded, InvalidUrl, ReloadFailed, Discorded][i as usize]
}
fn ord<T: Into<i32>>(t: T) -> V { V::I(i128::from(t.into())) }

/// encode with the real writer: (packet id constant, body bytes)
pub fn encode_real(name: &str, v: &[V]) -> Result<(i32, Vec<u8>), String> {
    match name {
        "handshake.Handshake" => enc(hsb::HandshakePacket { protocol_version: v[0].i() as i32, server_address: v[1].s(), server_port: v[2].i() as u16, next_state: state(v[3].i()) }),
        "status.StatusResponse" => enc(scb::StatusResponsePacket { body: v[0].s() }),
        "status.Pong" => enc(scb::PongPacket { payload: v[0].i() as u64 }),
        "status.StatusRequest" => enc(ssb::StatusRequestPacket),
        "status.Ping" => enc(ssb::PingPacket { payload: v[0].i() as u64 }),
        "login.Disconnect" => enc(lcb::DisconnectPacket { reason: v[0].s() }),
        "login.EncryptionRequest" => enc(lcb::EncryptionRequestPacket { server_id: v[0].s(), public_key: v[1].b(), verify_token: v[2].b().try_into().expect("32"), should_authenticate: v[3].t() }),
        "login.LoginSuccess" => enc(lcb::LoginSuccessPacket { user_id: v[0].u128(), user_name: v[1].s() }),
        "login.SetCompression" => enc(lcb::SetCompressionPacket),
        "login.LoginPluginRequest" => enc(lcb::LoginPluginRequestPacket),
        "login.CookieRequest" => enc(lcb::CookieRequestPacket { key: v[0].s() }),
        "login.LoginStart" => enc(lsb::LoginStartPacket { user_name: v[0].s(), user_id: v[1].u128() }),
        "login.EncryptionResponse" => enc(lsb::EncryptionResponsePacket { shared_secret: v[0].b(), verify_token: v[1].b() }),
        "login.LoginPluginResponse" => enc(lsb::LoginPluginResponsePacket),
        "login.LoginAcknowledged" => enc(lsb::LoginAcknowledgedPacket),
        "login.CookieResponse" => enc(lsb::CookieResponsePacket { key: v[0].s(), payload: if v[1] == V::N { None } else { Some(v[1].b()) } }),
        "configuration.CookieRequest" => enc(ccb::CookieRequestPacket { key: v[0].s() }),
        "configuration.PluginMessage" => enc(ccb::PluginMessagePacket),
        "configuration.Disconnect" => enc(ccb::DisconnectPacket { reason: v[0].s() }),
        "configuration.FinishConfiguration" => enc(ccb::FinishConfigurationPacket),
        "configuration.KeepAlive" => enc(ccb::KeepAlivePacket { id: v[0].i() as u64 }),
        "configuration.Ping" => enc(ccb::PingPacket { id: v[0].i() as i32 }),
        "configuration.ResetChat" => enc(ccb::ResetChatPacket),
        "configuration.RegistryData" => enc(ccb::RegistryDataPacket),
        "configuration.RemoveResourcePack" => enc(ccb::RemoveResourcePackPacket),
        "configuration.AddResourcePack" => enc(ccb::AddResourcePackPacket { uuid: v[0].u128(), url: v[1].s(), hash: v[2].s(), forced: v[3].t(), prompt_message: if v[4] == V::N { None } else { Some(v[4].s()) } }),
        "configuration.StoreCookie" => enc(ccb::StoreCookiePacket { key: v[0].s(), payload: v[1].b() }),
        "configuration.Transfer" => enc(ccb::TransferPacket { host: v[0].s(), port: v[1].i() as u16 }),
        "configuration.FeatureFlags" => enc(ccb::FeatureFlagsPacket),
        "configuration.UpdateTags" => enc(ccb::UpdateTagsPacket),
        "configuration.KnownPacks" => enc(ccb::KnownPacksPacket),
        "configuration.CustomReportDetails" => enc(ccb::CustomReportDetailsPacket),
        "configuration.ServerLinks" => enc(ccb::ServerLinksPacket),
        "configuration.ClientInformation" => enc(csb::ClientInformationPacket { locale: v[0].s(), view_distance: v[1].i() as i8, chat_mode: chat(v[2].i()), chat_colors: v[3].t(), displayed_skin_parts: DisplayedSkinParts(v[4].i() as u8), main_hand: hand(v[5].i()), enable_text_filtering: v[6].t(), allow_server_listing: v[7].t(), particle_status: part(v[8].i()) }),
        "configuration.CookieResponse" => enc(csb::CookieResponsePacket),
        "configuration.PluginMessage.sb" => enc(csb::PluginMessagePacket),
        "configuration.AckFinishConfiguration" => enc(csb::AckFinishConfigurationPacket),
        "configuration.KeepAlive.sb" => enc(csb::KeepAlivePacket { id: v[0].i() as u64 }),
        "configuration.Pong" => enc(csb::PongPacket { id: v[0].i() as i32 }),
        "configuration.ResourcePackResponse" => enc(csb::ResourcePackResponsePacket { uuid: v[0].u128(), result: rpr(v[1].i()) }),
        "configuration.KnownPacks.sb" => enc(csb::KnownPacksPacket),
        _ => Err(format!("unknown packet {name}")),
    }
}

fn dec<P: ReadPacket + Send + Sync, Fm: Fn(P) -> Vec<V>>(bytes: &[u8], f: Fm) -> Result<(Vec<V>, usize), String> {
    let mut cur = Cursor::new(bytes.to_vec());
    let p = rt().block_on(P::read_from_buffer(&mut cur)).map_err(|e| err_name(&e))?;
    Ok((f(p), bytes.len() - cur.position() as usize))
}

fn sv(s: String) -> V { V::B(s.into_bytes()) }
fn uv(u: Uuid) -> V { V::I(u.as_u128() as i128) }

/// decode with the real reader: (values, number of unread bytes)
pub fn decode_real(name: &str, b: &[u8]) -> Result<(Vec<V>, usize), String> {
    match name {
        "handshake.Handshake" => dec(b, |p: hsb::HandshakePacket| vec![V::I(p.protocol_version.into()), sv(p.server_address), V::I(p.server_port.into()), ord(p.next_state)]),
        "status.StatusResponse" => dec(b, |p: scb::StatusResponsePacket| vec![sv(p.body)]),
        "status.Pong" => dec(b, |p: scb::PongPacket| vec![V::I(p.payload.into())]),
        "status.StatusRequest" => dec(b, |_: ssb::StatusRequestPacket| vec![]),
        "status.Ping" => dec(b, |p: ssb::PingPacket| vec![V::I(p.payload.into())]),
        "login.Disconnect" => dec(b, |p: lcb::DisconnectPacket| vec![sv(p.reason)]),
        "login.EncryptionRequest" => dec(b, |p: lcb::EncryptionRequestPacket| vec![sv(p.server_id), V::B(p.public_key), V::B(p.verify_token.to_vec()), V::T(p.should_authenticate)]),
        "login.LoginSuccess" => dec(b, |p: lcb::LoginSuccessPacket| vec![uv(p.user_id), sv(p.user_name), V::U]),
        "login.SetCompression" => dec(b, |_: lcb::SetCompressionPacket| vec![]),
        "login.LoginPluginRequest" => dec(b, |_: lcb::LoginPluginRequestPacket| vec![]),
        "login.CookieRequest" => dec(b, |p: lcb::CookieRequestPacket| vec![sv(p.key)]),
        "login.LoginStart" => dec(b, |p: lsb::LoginStartPacket| vec![sv(p.user_name), uv(p.user_id)]),
        "login.EncryptionResponse" => dec(b, |p: lsb::EncryptionResponsePacket| vec![V::B(p.shared_secret), V::B(p.verify_token)]),
        "login.LoginPluginResponse" => dec(b, |_: lsb::LoginPluginResponsePacket| vec![]),
        "login.LoginAcknowledged" => dec(b, |_: lsb::LoginAcknowledgedPacket| vec![]),
        "login.CookieResponse" => dec(b, |p: lsb::CookieResponsePacket| vec![sv(p.key), p.payload.map_or(V::N, V::B)]),
        "configuration.CookieRequest" => dec(b, |p: ccb::CookieRequestPacket| vec![sv(p.key)]),
        "configuration.PluginMessage" => dec(b, |_: ccb::PluginMessagePacket| vec![]),
        "configuration.Disconnect" => dec(b, |p: ccb::DisconnectPacket| vec![sv(p.reason)]),
        "configuration.FinishConfiguration" => dec(b, |_: ccb::FinishConfigurationPacket| vec![]),
        "configuration.KeepAlive" => dec(b, |p: ccb::KeepAlivePacket| vec![V::I(p.id.into())]),
        "configuration.Ping" => dec(b, |p: ccb::PingPacket| vec![V::I(p.id.into())]),
        "configuration.ResetChat" => dec(b, |_: ccb::ResetChatPacket| vec![]),
        "configuration.RegistryData" => dec(b, |_: ccb::RegistryDataPacket| vec![]),
        "configuration.RemoveResourcePack" => dec(b, |_: ccb::RemoveResourcePackPacket| vec![]),
        "configuration.AddResourcePack" => dec(b, |p: ccb::AddResourcePackPacket| vec![uv(p.uuid), sv(p.url), sv(p.hash), V::T(p.forced), p.prompt_message.map_or(V::N, sv)]),
        "configuration.StoreCookie" => dec(b, |p: ccb::StoreCookiePacket| vec![sv(p.key), V::B(p.payload)]),
        "configuration.Transfer" => dec(b, |p: ccb::TransferPacket| vec![sv(p.host), V::I(p.port.into())]),
        "configuration.FeatureFlags" => dec(b, |_: ccb::FeatureFlagsPacket| vec![]),
        "configuration.UpdateTags" => dec(b, |_: ccb::UpdateTagsPacket| vec![]),
        "configuration.KnownPacks" => dec(b, |_: ccb::KnownPacksPacket| vec![]),
        "configuration.CustomReportDetails" => dec(b, |_: ccb::CustomReportDetailsPacket| vec![]),
        "configuration.ServerLinks" => dec(b, |_: ccb::ServerLinksPacket| vec![]),
        "configuration.ClientInformation" => dec(b, |p: csb::ClientInformationPacket| vec![sv(p.locale), V::I(p.view_distance.into()), ord(p.chat_mode), V::T(p.chat_colors), V::I(p.displayed_skin_parts.0.into()), ord(p.main_hand), V::T(p.enable_text_filtering), V::T(p.allow_server_listing), ord(p.particle_status)]),
        "configuration.CookieResponse" => dec(b, |_: csb::CookieResponsePacket| vec![]),
        "configuration.PluginMessage.sb" => dec(b, |_: csb::PluginMessagePacket| vec![]),
        "configuration.AckFinishConfiguration" => dec(b, |_: csb::AckFinishConfigurationPacket| vec![]),
        "configuration.KeepAlive.sb" => dec(b, |p: csb::KeepAlivePacket| vec![V::I(p.id.into())]),
        "configuration.Pong" => dec(b, |p: csb::PongPacket| vec![V::I(p.id.into())]),
        "configuration.ResourcePackResponse" => dec(b, |p: csb::ResourcePackResponsePacket| vec![uv(p.uuid), ord(p.result)]),
        "configuration.KnownPacks.sb" => dec(b, |_: csb::KnownPacksPacket| vec![]),
        _ => Err(format!("unknown packet {name}")),
    }
}

// ---------------------------------------------------------------- reference encoder (oracle)

pub fn ref_leb128(mut n: u64) -> Vec<u8> {
    let mut out = vec![];
    loop {
        if n < 128 { out.push(n as u8); return out; }
        out.push((n % 128) as u8 + 128);
        n /= 128;
    }
}
pub fn ref_varint(i: i32) -> Vec<u8> { ref_leb128(u64::from(i as u32)) }
pub fn ref_varlong(i: i64) -> Vec<u8> { ref_leb128(i as u64) }

fn ref_ty(t: Ty, v: &V, out: &mut Vec<u8>) {
    match (t, v) {
        (VarInt, V::I(i)) | (Enum(_, _), V::I(i)) | (Port, V::I(i)) => out.extend(ref_varint(*i as i32)),
        (Str, V::B(b)) | (Bytes, V::B(b)) | (Tok32, V::B(b)) => { out.extend(ref_varint(b.len() as i32)); out.extend(b); }
        (Bool, V::T(b)) => out.push(u8::from(*b)),
        (U8, V::I(i)) | (I8, V::I(i)) => out.push(*i as u8),
        (U16, V::I(i)) => out.extend((*i as u16).to_be_bytes()),
        (I32, V::I(i)) => out.extend((*i as i32).to_be_bytes()),
        (U64, V::I(i)) => out.extend((*i as u64).to_be_bytes()),
        (Uuid, V::I(i)) => out.extend((*i as u128).to_be_bytes()),
        (Text, V::B(b)) => { out.push(8); out.extend((b.len() as u16).to_be_bytes()); out.extend(b); }
        (Zero, V::U) => out.push(0),
        _ => panic!("ref_ty shape {t:?} {v:?}"),
    }
}

pub fn ref_encode(pk: &Pk, v: &[V]) -> Vec<u8> {
    let mut out = vec![];
    for (f, x) in pk.sch.iter().zip(v) {
        match (f, x) {
            (Req(t), x) => ref_ty(*t, x, &mut out),
            (Opt(_), V::N) => out.push(0),
            (Opt(t), x) => { out.push(1); ref_ty(*t, x, &mut out); }
        }
    }
    out
}

pub fn packet_id_const(name: &str) -> i32 {
    macro_rules! id { ($t:ty) => { <$t as Packet>::ID } }
    match name {
        "handshake.Handshake" => id!(hsb::HandshakePacket),
        _ => PACKETS.iter().find(|p| p.name == name).map(|p| p.id).unwrap(),
    }
}
