//! C12 — the real `MojangAdapter` against a plain-HTTP mock session server on loopback (hook:
//! PASSAGE_VERIF_SESSION_BASE), raw request line captured; vs. the Lean URL model; plus an
//! independent query parser.
use crate::util::*;
use passage_adapters::authentication::AuthenticationAdapter;
use passage_adapters_http::MojangAdapter;
use std::sync::{Arc, Mutex};
use tokio::io::{AsyncReadExt, AsyncWriteExt};

#[derive(Clone, Copy, Debug, PartialEq)]
enum Reply { Profile, NoContent, ServerError, NotJson,
    /// 200 with a JSON object that is no profile: `{}`, or an error document
    EmptyObject, ErrorDoc }

/// independent form decoding ('+' → space, %XX → byte)
fn form_decode(s: &[u8]) -> Vec<u8> {
    let mut out = vec![];
    let mut i = 0;
    while i < s.len() {
        if s[i] == b'+' { out.push(b' '); i += 1; continue; }
        if s[i] == b'%' && i + 3 <= s.len() {
            if let Some(v) = std::str::from_utf8(&s[i + 1..i + 3]).ok().and_then(|h| u8::from_str_radix(h, 16).ok()) { out.push(v); i += 3; continue; }
        }
        out.push(s[i]);
        i += 1;
    }
    out
}

fn parse_target(t: &[u8]) -> (Vec<u8>, Vec<(Vec<u8>, Vec<u8>)>) {
    let (path, query) = match t.iter().position(|c| *c == b'?') { Some(i) => (&t[..i], &t[i + 1..]), None => (t, &[][..]) };
    let params = query.split(|c| *c == b'&').map(|kv| match kv.iter().position(|c| *c == b'=') { Some(i) => (form_decode(&kv[..i]), form_decode(&kv[i + 1..])), None => (form_decode(kv), vec![]) }).collect();
    (path.to_vec(), params)
}

pub struct SessionMock {
    pub rt: tokio::runtime::Runtime,
    pub captured: Arc<Mutex<Vec<String>>>,
    reply: Arc<Mutex<Reply>>,
}

impl SessionMock {
    /// plain-HTTP mock session server on loopback; PASSAGE_VERIF_SESSION_BASE points the real adapter at it
    pub fn start() -> SessionMock {
    let rt = tokio::runtime::Builder::new_multi_thread().worker_threads(2).enable_all().build().unwrap();
    let captured: Arc<Mutex<Vec<String>>> = Arc::new(Mutex::new(vec![]));
    let reply: Arc<Mutex<Reply>> = Arc::new(Mutex::new(Reply::Profile));
    let port = rt.block_on(async {
        let listener = tokio::net::TcpListener::bind("127.0.0.1:0").await.unwrap();
        let port = listener.local_addr().unwrap().port();
        let (cap, rep) = (captured.clone(), reply.clone());
        tokio::spawn(async move {
            loop {
                let Ok((mut sock, _)) = listener.accept().await else { break };
                let (cap, rep) = (cap.clone(), rep.clone());
                tokio::spawn(async move {
                    let mut buf = vec![];
                    loop {
                        let mut tmp = [0u8; 4096];
                        let Ok(n) = sock.read(&mut tmp).await else { return };
                        if n == 0 { return; }
                        buf.extend_from_slice(&tmp[..n]);
                        while let Some(end) = buf.windows(4).position(|w| w == b"\r\n\r\n") {
                            let head = String::from_utf8_lossy(&buf[..end]).to_string();
                            cap.lock().unwrap().push(head.lines().next().unwrap_or("").to_string());
                            buf.drain(..end + 4);
                            let r = *rep.lock().unwrap();
                            let body = r#"{"id":"09879557e47945a9b434a56377674627","name":"Vouched","properties":[{"name":"textures","value":"dg==","signature":"c2ln"}]}"#;
                            let resp = match r {
                                Reply::Profile => format!("HTTP/1.1 200 OK\r\ncontent-type: application/json\r\ncontent-length: {}\r\n\r\n{}", body.len(), body),
                                Reply::NoContent => "HTTP/1.1 204 No Content\r\ncontent-length: 0\r\n\r\n".to_string(),
                                Reply::ServerError => "HTTP/1.1 500 Internal Server Error\r\ncontent-length: 0\r\n\r\n".to_string(),
                                Reply::NotJson => "HTTP/1.1 200 OK\r\ncontent-type: text/plain\r\ncontent-length: 9\r\n\r\nnot json!".to_string(),
                                Reply::EmptyObject => "HTTP/1.1 200 OK\r\ncontent-type: application/json\r\ncontent-length: 2\r\n\r\n{}".to_string(),
                                Reply::ErrorDoc => { let b = r#"{"path":"/session/minecraft/hasJoined","errorMessage":"Service temporarily unavailable"}"#; format!("HTTP/1.1 200 OK\r\ncontent-type: application/json\r\ncontent-length: {}\r\n\r\n{}", b.len(), b) }
                            };
                            if sock.write_all(resp.as_bytes()).await.is_err() { return; }
                        }
                    }
                });
            }
        });
        port
    });
    // SAFETY: set before any other thread reads the environment for this purpose
    unsafe { std::env::set_var("PASSAGE_VERIF_SESSION_BASE", format!("http://127.0.0.1:{port}")); }
        SessionMock { rt, captured, reply }
    }

    /// one real `MojangAdapter::authenticate` call; the request lines the server saw
    pub fn hash_seen(&self, server_id: &str, name: &str, secret: &[u8], public: &[u8]) -> Option<Vec<u8>> {
        *self.reply.lock().unwrap() = Reply::Profile;
        self.captured.lock().unwrap().clear();
        let adapter = MojangAdapter::default().with_server_id(server_id.to_string());
        let client: std::net::SocketAddr = "192.0.2.1:5".parse().unwrap();
        let uid = uuid::Uuid::from_u128(7);
        let _ = self.rt.block_on(adapter.authenticate(&client, ("h", 1), 767, (name, &uid), secret, public));
        let lines = self.captured.lock().unwrap().clone();
        let t = lines.first()?.split(' ').nth(1)?.as_bytes().to_vec();
        let (_, params) = parse_target(&t);
        params.into_iter().find(|(k, _)| k == b"serverId").map(|(_, v)| v)
    }
}

/// The server id as the operator configured it, through the application's own configuration reader — once through the
/// environment layer (`PASSAGE_ADAPTERS_AUTHENTICATION_MOJANG_SERVERID`), once through a configuration file with the
/// documented key `adapters.authentication.mojang.server_id` — and the application's adapter factory: number- or
/// boolean-looking ids must reach the hash verbatim, and neither spelling may be dropped.
pub fn config_id_cases(mock: &SessionMock, rng: &mut Rng) -> Vec<Case> {
    let (rt, captured, reply) = (&mock.rt, mock.captured.clone(), mock.reply.clone());
    let mut cases = vec![];
    let dir = std::env::temp_dir().join(format!("pv-cfgid-{}", std::process::id()));
    std::fs::create_dir_all(&dir).unwrap();
    for (i, id) in ["justchunks", "", "007", "1e3", "TRUE", "+5", "12.50", "0x10", "null", " 7 ", "1_000", "lobby-7", "exactly-twenty-chars", "twenty-one-characters", "network.example.org/minecraft/java/eu-1", "network.example.org/minecraft/java/eu-2"].iter().enumerate() {
        for via_file in [false, true] {
            // SAFETY: this runner is single-threaded apart from the mock server, which does not read the environment
            let cfg = if via_file {
                let base = dir.join(format!("c{i}"));
                std::fs::write(base.with_extension("yaml"), format!("adapters:\n  authentication:\n    mojang:\n      server_id: {}\n", serde_json::to_string(id).unwrap())).unwrap();
                unsafe { std::env::set_var("CONFIG_FILE", &base); }
                let c = passage::config::Config::read();
                unsafe { std::env::remove_var("CONFIG_FILE"); }
                c
            } else {
                unsafe { std::env::set_var("PASSAGE_ADAPTERS_AUTHENTICATION_MOJANG_SERVERID", id); }
                let c = passage::config::Config::read();
                unsafe { std::env::remove_var("PASSAGE_ADAPTERS_AUTHENTICATION_MOJANG_SERVERID"); }
                c
            };
            let how = if via_file { "in the configuration file" } else { "in the environment" };
            let secret = rng.bytes(16);
            let public = rng.bytes(162);
            let name = "Player";
            let mut why = vec![];
            *reply.lock().unwrap() = Reply::Profile;
            captured.lock().unwrap().clear();
            let mut seen: Option<Vec<u8>> = None;
            match cfg {
                Err(e) => why.push(format!("configuration with server id {id:?} {how} was not readable: {e}")),
                Ok(cfg) => {
                    match rt.block_on(passage::adapter::authentication::DynAuthenticationAdapter::from_config(cfg.adapters.authentication)) {
                        Err(e) => why.push(format!("adapter factory failed: {e}")),
                        Ok(adapter) => {
                            let client: std::net::SocketAddr = "192.0.2.1:5".parse().unwrap();
                            let uid = uuid::Uuid::from_u128(7);
                            let _ = rt.block_on(adapter.authenticate(&client, ("h", 1), 767, (name, &uid), &secret, &public));
                            let lines = captured.lock().unwrap().clone();
                            if let Some(t) = lines.first().and_then(|l| l.split(' ').nth(1)) { let (_, params) = parse_target(t.as_bytes()); seen = params.into_iter().find(|(k, _)| k == b"serverId").map(|(_, v)| v); }
                        }
                    }
                }
            }
            let want = crate::c11::ref_hash(id, &secret, &public);
            if seen.as_deref() != Some(want.as_bytes()) { why.push(format!("server id configured as {id:?} {how}: the request carried serverId={:?}, the hash for that id is {want}", seen.as_ref().map(|h| String::from_utf8_lossy(h).to_string()))); }
            cases.push(Case {
                request: format!("c11.hash {} {} {}", hex(id.as_bytes()), hex(&secret), hex(&public)),
                observed: seen.as_ref().map_or("no-request".into(), |h| hex(h)),
                oracle: if why.is_empty() { None } else { Some(why.join("; ")) },
                class: format!("config-{}:{}", if via_file { "file" } else { "env" }, if i < 2 || i == 11 { "plain" } else { "scalar-looking" }),
            });
        }
    }
    // both layers at once: what the environment says overrides what the file says
    for (i, (file_id, env_id)) in [("from-file", "from-env"), ("", "from-env"), ("from-file", "")].iter().enumerate() {
        let base = dir.join(format!("both{i}"));
        std::fs::write(base.with_extension("yaml"), format!("adapters:\n  authentication:\n    mojang:\n      serverid: {}\n", serde_json::to_string(file_id).unwrap())).unwrap();
        // SAFETY: as above
        unsafe { std::env::set_var("CONFIG_FILE", &base); std::env::set_var("PASSAGE_ADAPTERS_AUTHENTICATION_MOJANG_SERVERID", env_id); }
        let cfg = passage::config::Config::read();
        unsafe { std::env::remove_var("CONFIG_FILE"); std::env::remove_var("PASSAGE_ADAPTERS_AUTHENTICATION_MOJANG_SERVERID"); }
        let secret = rng.bytes(16);
        let public = rng.bytes(162);
        let mut why = vec![];
        *reply.lock().unwrap() = Reply::Profile;
        captured.lock().unwrap().clear();
        let mut seen: Option<Vec<u8>> = None;
        match cfg {
            Err(e) => why.push(format!("configuration with server id {file_id:?} in the file and {env_id:?} in the environment was not readable: {e}")),
            Ok(cfg) => match rt.block_on(passage::adapter::authentication::DynAuthenticationAdapter::from_config(cfg.adapters.authentication)) {
                Err(e) => why.push(format!("adapter factory failed: {e}")),
                Ok(adapter) => {
                    let client: std::net::SocketAddr = "192.0.2.1:5".parse().unwrap();
                    let uid = uuid::Uuid::from_u128(7);
                    let _ = rt.block_on(adapter.authenticate(&client, ("h", 1), 767, ("Player", &uid), &secret, &public));
                    let lines = captured.lock().unwrap().clone();
                    if let Some(t) = lines.first().and_then(|l| l.split(' ').nth(1)) { let (_, params) = parse_target(t.as_bytes()); seen = params.into_iter().find(|(k, _)| k == b"serverId").map(|(_, v)| v); }
                }
            },
        }
        let want = crate::c11::ref_hash(env_id, &secret, &public);
        if seen.as_deref() != Some(want.as_bytes()) { why.push(format!("server id {file_id:?} in the file, {env_id:?} in the environment (which takes precedence): the request carried serverId={:?}, the hash for the environment's id is {want}", seen.as_ref().map(|h| String::from_utf8_lossy(h).to_string()))); }
        cases.push(Case {
            request: format!("c11.hash {} {} {}", hex(env_id.as_bytes()), hex(&secret), hex(&public)),
            observed: seen.as_ref().map_or("no-request".into(), |h| hex(h)),
            oracle: if why.is_empty() { None } else { Some(why.join("; ")) },
            class: "config-both-layers".into(),
        });
    }
    let _ = std::fs::remove_dir_all(&dir);
    cases
}

pub fn run(a: &Args) {
    let mut rng = Rng::new(a.seed);
    let mock = SessionMock::start();
    let (rt, captured, reply) = (&mock.rt, mock.captured.clone(), mock.reply.clone());

    let specials = ["&", "=", "#", "?", "%", "+", " ", "/", "\\", "\u{0}", "\n", "\r\n", "é", "日本", "😀", "%26", "%3D", "a&serverId=deadbeef", "x&username=Other", "..%2f..", "?x=1#frag", "Victim&serverId=-1a2b", "\"quoted\"", "<>", "{}", "|", "^", "`", ";", ":", "@", ",", "$", "!", "'", "(", ")", "*", "~", "_-.", "\t"];
    let mut cases = vec![];
    for n in 0..a.cases {
        let name: String = match n % 4 {
            0 => rng.pick(&specials).to_string(),
            1 => format!("{}{}{}", rng.pick(&["Player", "a", ""]), rng.pick(&specials), rng.pick(&specials)),
            2 => (0..rng.range(1, 16)).map(|_| char::from_u32(rng.range(1, 0x7f) as u32).unwrap()).collect(),
            _ => rng.pick(&["Notch", "jeb_", "Hydrofin", "Player_16_chars__", ""]).to_string(),
        };
        let server_id: String = rng.pick(&["", "passage", "srv & id"]).to_string();
        let secret = rng.bytes(16);
        let plen = rng.range(1, 170) as usize;
        let public = rng.bytes(plen);
        let r = *rng.pick(&[Reply::Profile, Reply::Profile, Reply::Profile, Reply::NoContent, Reply::ServerError, Reply::NotJson, Reply::EmptyObject, Reply::ErrorDoc]);
        *reply.lock().unwrap() = r;
        captured.lock().unwrap().clear();
        let adapter = MojangAdapter::default().with_server_id(server_id.clone());
        let client: std::net::SocketAddr = "192.0.2.1:5".parse().unwrap();
        let uid = uuid::Uuid::from_u128(7);
        let res = rt.block_on(adapter.authenticate(&client, ("h", 1), 767, (&name, &uid), &secret, &public));
        let lines = captured.lock().unwrap().clone();
        let mut why = vec![];
        // expected hash from the independent reference (own limb arithmetic over the sha1 crate), not from passage
        let hash = crate::c11::ref_hash(&server_id, &secret, &public);
        let target: Vec<u8> = match lines.as_slice() {
            [l] => { let mut it = l.split(' '); let m = it.next(); let t = it.next().unwrap_or(""); if m != Some("GET") { why.push(format!("method {m:?}")); } t.as_bytes().to_vec() }
            other => { why.push(format!("{} requests reached the session server", other.len())); vec![] }
        };
        let (path, params) = parse_target(&target);
        if path != b"/session/minecraft/hasJoined" { why.push(format!("request path is {:?}", String::from_utf8_lossy(&path))); }
        let want = vec![(b"username".to_vec(), name.as_bytes().to_vec()), (b"serverId".to_vec(), hash.as_bytes().to_vec())];
        if params != want { why.push(format!("server sees parameters {:?} for the claimed name {:?}", params.iter().map(|(k, v)| (String::from_utf8_lossy(k).to_string(), String::from_utf8_lossy(v).to_string())).collect::<Vec<_>>(), name)); }
        // non-2xx and non-JSON are errors; 200 + profile is the profile
        match (r, &res) {
            (Reply::Profile, Ok(p)) => if p.name != "Vouched" { why.push("profile altered".into()); },
            (Reply::Profile, Err(e)) => why.push(format!("valid profile rejected: {e}")),
            (_, Ok(_)) => why.push(format!("{r:?} reply accepted as a profile")),
            (_, Err(_)) => {}
        }
        cases.push(Case {
            request: format!("c12.req {} {} {} {}", hex(server_id.as_bytes()), hex(&secret), hex(&public), hex(name.as_bytes())),
            observed: format!("target={} params={}", hex(&target), params.iter().map(|(k, v)| format!("{}={}", hex(k), hex(v))).collect::<Vec<_>>().join(",")),
            oracle: if why.is_empty() { None } else { Some(why.join("; ")) },
            class: format!("{}:{:?}", if name.chars().all(|c| c.is_ascii_alphanumeric() || c == '_') { "plain" } else if name.contains('&') || name.contains('=') { "injection" } else { "special" }, r),
        });
    }
    cases.extend(config_id_cases(&mock, &mut rng));
    // the name the connection handler asks about: the one claimed in Login Start, whatever cookie was presented
    cases.extend(crate::connrun::auth_name_cases(&mut rng, (a.cases / 10).max(24)));
    write_cases(&a.out, &cases).expect("write cases");
    println!("c12: {} requests", cases.len());
}
