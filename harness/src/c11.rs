//! C11 — real `minecraft_hash` vs. the Lean model, plus an independent oracle.
use crate::util::*;
use passage_adapters::authentication::minecraft_hash;
use sha1::{Digest, Sha1};

fn digest(id: &str, secret: &[u8], public: &[u8]) -> [u8; 20] {
    let mut h = Sha1::new();
    h.update(id.as_bytes());
    h.update(secret);
    h.update(public);
    h.finalize().into()
}

/// Independent formatting: 160-bit arithmetic on five u32 limbs, no bignum, no byte-wise carry.
pub fn oracle_signed_hex(d: &[u8; 20]) -> String {
    let mut limbs = [0u32; 5]; // most significant first
    for i in 0..5 {
        limbs[i] = u32::from_be_bytes([d[4 * i], d[4 * i + 1], d[4 * i + 2], d[4 * i + 3]]);
    }
    let neg = limbs[0] & 0x8000_0000 != 0;
    if neg {
        // 2^160 - N  by subtraction from zero with borrow
        let mut borrow = 0u64;
        for i in (0..5).rev() {
            let v = (1u64 << 32) - u64::from(limbs[i]) - borrow;
            limbs[i] = v as u32;
            borrow = if v >> 32 == 0 { 1 } else { 0 };
        }
    }
    let mut s = String::new();
    for l in limbs {
        s.push_str(&format!("{l:08x}"));
    }
    let t = s.trim_start_matches('0');
    let t = if t.is_empty() { "0" } else { t };
    if neg { format!("-{t}") } else { t.to_string() }
}

pub fn ref_hash(id: &str, secret: &[u8], public: &[u8]) -> String { oracle_signed_hex(&digest(id, secret, public)) }

fn class_of(d: &[u8; 20]) -> String {
    let neg = d[0] & 0x80 != 0;
    let lead = if d[0] == 0 { "lead-zero-byte" } else if d[0] < 16 { "lead-zero-nibble" }
        else if d[0] == 0xff { "lead-ff-byte" } else if d[0] == 0x80 && d[1] == 0 { "edge-8000" } else { "plain" };
    format!("{}:{}", if neg { "neg" } else { "pos" }, lead)
}

fn one(id: &str, secret: &[u8], public: &[u8]) -> Case {
    let got = minecraft_hash(id, secret, public);
    let d = digest(id, secret, public);
    let want = oracle_signed_hex(&d);
    Case {
        request: format!("c11.hash {} {} {}", hex(id.as_bytes()), hex(secret), hex(public)),
        observed: hex(got.as_bytes()),
        oracle: if got == want { None } else { Some(format!("minecraft_hash={got} oracle={want} digest={}", hex(&d))) },
        class: class_of(&d),
    }
}

pub fn run(a: &Args) {
    let mut rng = Rng::new(a.seed);
    let mut cases = vec![];
    // corpus first
    for line in read_corpus(&a.corpus) {
        let t: Vec<&str> = line.split_whitespace().collect();
        if t.len() == 4 && t[0] == "c11.hash" {
            let id = String::from_utf8(unhex(t[1]).unwrap()).unwrap();
            cases.push(one(&id, &unhex(t[2]).unwrap(), &unhex(t[3]).unwrap()));
        }
    }
    // the three published vectors (server id only, empty secret and key)
    for v in ["Notch", "jeb_", "simon"] {
        cases.push(one(v, b"", b""));
    }
    // searched edge digests: brute force over a counter until the digest has the wanted prefix
    let wanted: &[&[u8]] = &[&[0x00], &[0x00, 0x00], &[0x0f], &[0xff], &[0xff, 0xff], &[0x80, 0x00], &[0x7f, 0xff], &[0x80], &[0x7f], &[0xf0]];
    let per = if a.thorough { 40 } else { 6 };
    for w in wanted {
        let mut found = 0;
        let secret = rng.bytes(16);
        let n = rng.range(0, 200) as usize;
        let public = rng.bytes(n);
        let mut ctr = rng.next() % 1_000_000;
        let budget = if w.len() == 2 { 4_000_000 } else { 100_000 };
        let mut tries = 0;
        while found < per && tries < budget {
            let id = format!("srv{ctr}");
            let d = digest(&id, &secret, &public);
            if d.starts_with(w) || (w.len() == 1 && w[0] == 0x0f && d[0] < 16 && d[0] > 0) {
                cases.push(one(&id, &secret, &public));
                found += 1;
            }
            ctr += 1;
            tries += 1;
        }
    }
    // random inputs, the three parts varied independently (covers the concatenation order)
    while cases.len() < a.cases {
        let id_len = rng.range(0, 24) as usize;
        let id: String = (0..id_len).map(|_| *rng.pick(&['a', 'Z', '0', '_', '-', 'é', '✓', ' '])).collect();
        let secret = if rng.chance(1, 8) { vec![] } else { rng.bytes(16) };
        let public = match rng.below(4) { 0 => vec![], 1 => rng.bytes(162), _ => { let n = rng.range(1, 300) as usize; rng.bytes(n) } };
        cases.push(one(&id, &secret, &public));
    }
    // the hash as the session server receives it: the real MojangAdapter against a loopback mock
    // (secret, key and server id all different, so an argument mix-up at the call site is visible)
    let mock = crate::c12::SessionMock::start();
    for i in 0..(a.cases / 20).max(8) {
        // configured server ids of every length (the protocol's own field is limited to 20 characters, the setting is not)
        let id: String = rng.pick(&["", "passage", "srv-1", "exactly-twenty-chars", "twenty-one-characters", "a-server-id-of-thirty-charact.", "lobby.eu-central-1.network.example.org/minecraft/java/production", "sérvér-ïd-with-ünïcödé-chäräctérs-ß"]).to_string();
        let secret = rng.bytes(16);
        let plen = if i % 2 == 0 { 162 } else { rng.range(1, 200) as usize };
        let public = rng.bytes(plen);
        let d = digest(&id, &secret, &public);
        let want = oracle_signed_hex(&d);
        let seen = mock.hash_seen(&id, "Player", &secret, &public);
        cases.push(Case {
            request: format!("c11.hash {} {} {}", hex(id.as_bytes()), hex(&secret), hex(&public)),
            observed: seen.as_ref().map_or("no-request".into(), |h| hex(h)),
            oracle: if seen.as_deref() == Some(want.as_bytes()) { None } else { Some(format!("hasJoined request carried serverId={:?}, Minecraft's hash of (server id, secret, key) is {want}", seen.map(|h| String::from_utf8_lossy(&h).to_string()))) },
            class: format!("request:{}", class_of(&d)),
        });
    }
    // the server id as configured by the operator (environment and file), through the application's reader and factory
    cases.extend(crate::c12::config_id_cases(&mock, &mut rng));
    // many logins hashing at the same moment: eight threads over the same inputs, every result judged like a sequential one
    let inputs: Vec<(String, Vec<u8>, Vec<u8>)> = (0..if a.thorough { 40_000 } else { 4_000 }).map(|i| (format!("srv{}", i % 7), rng.bytes(16), rng.bytes(if i % 3 == 0 { 162 } else { 40 }))).collect();
    let inputs = std::sync::Arc::new(inputs);
    let handles: Vec<_> = (0..8).map(|t| { let inputs = inputs.clone(); std::thread::spawn(move || {
        inputs.iter().enumerate().filter(|(i, _)| i % 8 == t).map(|(_, (id, s, p))| { let mut c = one(id, s, p); c.class = format!("concurrent:{}", c.class); c }).collect::<Vec<Case>>() }) }).collect();
    for h in handles { cases.extend(h.join().expect("hash thread")); }
    write_cases(&a.out, &cases).expect("write cases");
    println!("c11: {} cases", cases.len());
}
