//! Byte-level runners: C04 (hostile bytes: no panic, bounded allocation, termination) and
//! C08 (segmentation / event placement / write-acceptance independence).
use crate::codec::ref_varint;
use crate::conn::scen::*;
use crate::conn::{self, build as b, frame, Echo, EncKind, Outcome, Scenario, Step, WAns};
use crate::util::*;
use std::sync::OnceLock;

fn other_key() -> &'static rsa::RsaPublicKey {
    static K: OnceLock<rsa::RsaPublicKey> = OnceLock::new();
    K.get_or_init(|| {
        let mut rng = rand::rand_core::UnwrapErr(rand::rngs::SysRng);
        rsa::RsaPublicKey::from(&rsa::RsaPrivateKey::new(&mut rng, 1024).expect("keygen"))
    })
}

fn exec(sc: &Scenario) -> Outcome {
    for _ in 0..3 { let o = conn::execute(sc, other_key()); if o.wall_before == o.wall_after { return o; } }
    conn::execute(sc, other_key())
}

fn full_plan(rng: &mut Rng, long: bool) -> (Plan, Option<Vec<u8>>) {
    let mut plan = gen_plan(rng);
    if long { plan.host = "h".repeat(*rng.pick(&[120usize, 127, 128, 200, 300])); plan.claimed_name = "N".repeat(*rng.pick(&[16usize, 100, 130])); }
    let secret = if rng.chance(3, 4) { Some(b"s3cret-key".to_vec()) } else { None };
    plan.session_cookie = session_cookie_payload(rng, &plan.host, plan.port).filter(|p| p != b"{not json");
    if plan.intent == 3 && rng.chance(1, 2) {
        if let Some(s) = &secret {
            let t = std::time::SystemTime::now().duration_since(std::time::UNIX_EPOCH).unwrap().as_secs();
            // client address is chosen later; use a cookie that is valid for 127.0.0.1 only sometimes
            let j = crate::connrun::cookie_json(t, "127.0.0.1:9", "CookieName", 0xc00c1e, None, serde_json::json!([]));
            plan.auth_cookie = Some(crate::conn::oracle::sign(s, &j));
        }
    }
    (plan, secret)
}

fn routed_verdicts(rng: &mut Rng, plan: &Plan, must_send: bool) -> crate::conn::mocks::Verdicts {
    let mut v = gen_verdicts(rng, plan);
    if must_send || rng.chance(3, 4) {
        if v.auth.is_err() { v.auth = Ok(gen_profile(rng, &plan.claimed_name, plan.claimed_uuid)); }
        let n = v.targets.len();
        v.discover = Ok((0..n).collect()); v.filter = Ok((0..n).collect());
        v.select = if n > 0 && rng.chance(3, 4) { Ok(Some(rng.below(n as u64) as usize)) } else { Ok(None) };
        v.loc_fail = false;
        if matches!(v.status, Err(())) { v.status = Ok(None); }
    }
    v
}

/// canonical trace for comparing two runs of the same scenario: random values replaced by names
fn canon(o: &Outcome) -> String {
    let mut ka = 0;
    let parts: Vec<String> = o.observed.split(';').map(|e| {
        if e.starts_with("send:encRequest:") { let f: Vec<&str> = e.rsplitn(3, ':').collect(); format!("send:encRequest:TOKEN:{}", f[0]) }
        else if e.starts_with("send:keepAlive:") { ka += 1; format!("send:keepAlive:#{ka}") }
        else if e.starts_with("send:storeAuth:") { "send:storeAuth".into() }
        else { e.to_string() }
    }).collect();
    parts.join(";")
}

fn is_frame_step(s: &Step) -> bool { matches!(s, Step::Frame(_) | Step::EncResp(_) | Step::KeepAlive(_)) }

// ------------------------------------------------------------------------------------------ C08
pub fn run_c08(a: &Args) {
    let mut rng = Rng::new(a.seed);
    let mut cases = vec![];
    let nbase = (a.cases / 12).max(2);
    for bi in 0..nbase {
        let (plan, secret) = full_plan(&mut rng, bi % 3 == 0);
        let mut plan = plan;
        // keep-alive traffic and noise while routing, so that frames are in flight when adapters complete
        plan.pre_info = if rng.chance(1, 2) { vec![Step::Tick, Step::KeepAlive(Echo::Last), Step::Frame(b::plugin_message())] } else { vec![] };
        // one packet the configuration phase ignores per routing stage, while the adapter call of that stage is still pending
        let ign = |rng: &mut Rng| match rng.below(4) { 0 => b::plugin_message(), 1 => b::client_info(b"zz_ZZ"), 2 => b::config_cookie_response(), _ => b::resource_pack_response(5, 1) };
        plan.routing = vec![Step::Tick, Step::KeepAlive(Echo::Last), Step::Frame(ign(&mut rng)), Step::AdapterDone, Step::Frame(ign(&mut rng)), Step::AdapterDone, Step::Tick, Step::KeepAlive(Echo::Last), Step::Frame(ign(&mut rng)), Step::AdapterDone];
        let v = routed_verdicts(&mut rng, &plan, true);
        let mut base = scenario(&mut rng, &plan, secret.clone(), vec![], v);
        base.steps = render(&plan, secret.is_some());
        let o0 = exec(&base);
        let c0 = canon(&o0);
        cases.push(Case { request: o0.request1.clone(), observed: o0.observed.clone(), oracle: None, class: "unsegmented".into() });
        let frame_idx: Vec<usize> = base.steps.iter().enumerate().filter(|(_, s)| is_frame_step(s)).map(|(i, _)| i).collect();
        let variants = if a.thorough { 40 } else { 11 };
        for vi in 0..variants {
            let mut sc = base.clone();
            let class;
            match if vi % 11 == 7 { 6 } else if vi % 11 == 8 { 7 } else if vi % 11 == 9 { 8 } else { vi % 6 } {
                7 => { // an ignored packet arrives just AFTER the adapter completion it used to precede
                    class = "completion-swapped";
                    let mut steps = base.steps.clone();
                    let mut i = 0;
                    while i + 1 < steps.len() {
                        if matches!(steps[i], Step::Frame(_)) && matches!(steps[i + 1], Step::AdapterDone) && i > 6 && rng.chance(2, 3) { steps.swap(i, i + 1); i += 2; } else { i += 1; }
                    }
                    sc.steps = steps;
                }
                8 => { // the client pauses across a tick before Login Acknowledged / before Client Information (answering what it is sent)
                    class = "tick-in-pause";
                    let mut steps = vec![];
                    for st in &base.steps {
                        if let Step::Frame(p) = st {
                            if *p == b::login_ack() && rng.chance(1, 2) { steps.push(Step::Tick); }
                            else if p.first() == Some(&0) && p.len() > 8 && steps.iter().any(|x| matches!(x, Step::Frame(q) if *q == b::login_ack())) && !steps.iter().any(|x| matches!(x, Step::AdapterDone)) && rng.chance(2, 3) { steps.push(Step::Tick); steps.push(Step::KeepAlive(Echo::Last)); }
                        }
                        steps.push(st.clone());
                    }
                    sc.steps = steps;
                }
                6 => { // coalesced: every run of consecutive frames goes out in one write (a new run starts at the
                       // Encryption Response, which needs the server's token first)
                    class = "coalesced";
                    let mut steps: Vec<Step> = vec![];
                    let mut run: Vec<Step> = vec![];
                    for st in &base.steps {
                        if is_frame_step(st) && !matches!(st, Step::KeepAlive(_)) {
                            if matches!(st, Step::EncResp(_)) && !run.is_empty() { steps.push(Step::Batch(std::mem::take(&mut run))); }
                            run.push(st.clone());
                        } else {
                            if !run.is_empty() { steps.push(Step::Batch(std::mem::take(&mut run))); }
                            steps.push(st.clone());
                        }
                    }
                    if !run.is_empty() { steps.push(Step::Batch(run)); }
                    sc.steps = steps;
                }
                0 => { // every frame split at one random offset
                    class = "split-each";
                    for &i in &frame_idx { let c = rng.range(1, 12) as usize; sc.steps[i] = Step::Seg { inner: Box::new(base.steps[i].clone()), cuts: vec![c], events: vec![] }; }
                }
                1 => { // one byte at a time, one frame (all frames in thorough)
                    class = "byte-by-byte";
                    let pick = *rng.pick(&frame_idx);
                    for &i in &frame_idx { if a.thorough || i == pick || rng.chance(1, 3) { sc.steps[i] = Step::Seg { inner: Box::new(base.steps[i].clone()), cuts: (1..400).collect(), events: vec![] }; } }
                }
                2 => { // random multi-splits
                    class = "multi-split";
                    for &i in &frame_idx { let n = rng.range(1, 5); let cuts = (0..n).map(|_| rng.range(1, 180) as usize).collect(); sc.steps[i] = Step::Seg { inner: Box::new(base.steps[i].clone()), cuts, events: vec![] }; }
                }
                3 | 4 => { // an adapter completion / tick moved INSIDE the frame that precedes it
                    class = if vi % 6 == 3 { "event-inside-frame" } else { "event-inside-prefix" };
                    let mut steps = vec![];
                    let mut i = 0;
                    while i < base.steps.len() {
                        if i + 1 < base.steps.len() && is_frame_step(&base.steps[i]) && (matches!(base.steps[i + 1], Step::AdapterDone) || (matches!(base.steps[i + 1], Step::Tick) && matches!(base.steps[i], Step::Frame(_)))) && rng.chance(2, 3) && !matches!(base.steps[i], Step::EncResp(_)) {
                            // frame-level order: the frame completes AFTER the event, so the event is emitted first
                            let flen = match &base.steps[i] { Step::Frame(p) => frame(p).len(), _ => 10 };
                            let off = if vi % 6 == 3 && flen > 2 { rng.range(2, (flen - 1).min(9) as u64) as usize } else { 1 };
                            steps.push(Step::Seg { inner: Box::new(base.steps[i].clone()), cuts: vec![], events: vec![(off, base.steps[i + 1].clone())] });
                            i += 2;
                        } else { steps.push(base.steps[i].clone()); i += 1; }
                    }
                    sc.steps = steps;
                }
                _ => { // throttled writes: the Keep Alive frame is accepted a few bytes at a time and the
                       // future sending it is dropped by the adapter completion that follows; the rest
                       // of that frame must still reach the client before the next packet
                    class = "throttled-writes";
                    let mut p2 = plan.clone();
                    let k = rng.range(1, 6) as usize;
                    p2.pre_info = vec![];
                    p2.routing = match rng.below(4) {
                        // the Keep Alive is cut short by the completion that follows, is never answered, and the next tick is due
                        3 => vec![Step::AdapterDone, Step::Throttle(vec![WAns::Accept(k), WAns::Pending, WAns::Pending, WAns::Pending]), Step::Tick, Step::AdapterDone, Step::Throttle(vec![]), Step::Tick, Step::AdapterDone],
                        0 => vec![Step::Throttle(vec![WAns::Accept(k), WAns::Pending, WAns::Pending, WAns::Pending]), Step::Tick, Step::AdapterDone, Step::Throttle(vec![]), Step::AdapterDone, Step::AdapterDone],
                        1 => vec![Step::AdapterDone, Step::Throttle(vec![WAns::Accept(k), WAns::Pending, WAns::Pending, WAns::Pending]), Step::Tick, Step::AdapterDone, Step::AdapterDone],
                        _ => vec![Step::AdapterDone, Step::AdapterDone, Step::Throttle(vec![WAns::Accept(k), WAns::Pending, WAns::Accept(1), WAns::Pending, WAns::Pending]), Step::Tick, Step::AdapterDone],
                    };
                    sc.steps = render(&p2, secret.is_some());
                }
            }
            let o = exec(&sc);
            let mut why = vec![];
            // reference for the variants that move an event in front of a frame: the unsegmented run
            // with that frame-level order
            let cref = if vi % 11 == 7 || vi % 11 == 8 || vi % 11 == 9 { c0.clone() } else if vi % 6 == 3 || vi % 6 == 4 {
                let mut r = sc.clone();
                r.steps = sc.steps.iter().flat_map(|s| match s { Step::Seg { inner, events, .. } => { let mut v: Vec<Step> = events.iter().map(|e| e.1.clone()).collect(); v.push((**inner).clone()); v } other => vec![other.clone()] }).collect();
                let ro = exec(&r);
                cases.push(Case { request: ro.request1.clone(), observed: ro.observed.clone(), oracle: None, class: "reference-run".into() });
                canon(&ro)
            } else if vi % 6 == 5 {
                let mut r = sc.clone();
                r.steps = sc.steps.iter().filter(|s| !matches!(s, Step::Throttle(_))).cloned().collect();
                canon(&exec(&r))
            } else { c0.clone() };
            // a pause across ticks adds Keep Alive exchanges and shifts the later ones; nothing else may change
            let strip = |c: &str| c.split(';').filter(|e| !e.starts_with("send:keepAlive:")).collect::<Vec<_>>().join(";");
            let (cgot, cref) = if vi % 11 == 9 { (strip(&canon(&o)), strip(&cref)) } else { (canon(&o), cref) };
            if cgot != cref {
                let a: Vec<&str> = cgot.split(';').collect();
                let b: Vec<&str> = cref.split(';').collect();
                let k = a.iter().zip(b.iter()).position(|(x, y)| x != y).unwrap_or(a.len().min(b.len()));
                let cut = |v: &Vec<&str>| v.get(k).map_or("<end>".to_string(), |e| e.chars().take(120).collect::<String>());
                why.push(format!("trace differs from the reference run of the same frame-level schedule at event #{k}: got {} / reference {} (events {} vs {})", cut(&a), cut(&b), a.len(), b.len()));
            }
            if o.undecodable { why.push("a frame sent to the client arrived incomplete or interleaved".into()); }
            if o.panicked { why.push("handler panicked".into()); }
            cases.push(Case { request: o.request1.clone(), observed: o.observed.clone(), oracle: if why.is_empty() { None } else { Some(why.join("; ")) }, class: class.into() });
        }
    }
    write_cases(&a.out, &cases).expect("write cases");
    println!("c08: {} runs", cases.len());
}

/// every run of consecutive client frames handed over in one write (the cipher switch falls inside a write), compared
/// with the frame-by-frame run: used by C05 as well (one continuous cipher stream whatever the segmentation)
pub fn coalesced_cases(rng: &mut Rng, n: usize) -> Vec<Case> {
    let mut cases = vec![];
    for bi in 0..n {
        let (plan, secret) = full_plan(rng, bi % 3 == 0);
        let v = routed_verdicts(rng, &plan, true);
        let mut base = scenario(rng, &plan, secret.clone(), vec![], v);
        base.steps = render(&plan, secret.is_some());
        let c0 = canon(&exec(&base));
        let mut sc = base.clone();
        let mut steps: Vec<Step> = vec![];
        let mut run: Vec<Step> = vec![];
        for st in &base.steps {
            if is_frame_step(st) && !matches!(st, Step::KeepAlive(_)) {
                if matches!(st, Step::EncResp(_)) && !run.is_empty() { steps.push(Step::Batch(std::mem::take(&mut run))); }
                run.push(st.clone());
            } else { if !run.is_empty() { steps.push(Step::Batch(std::mem::take(&mut run))); } steps.push(st.clone()); }
        }
        if !run.is_empty() { steps.push(Step::Batch(run)); }
        sc.steps = steps;
        let o = exec(&sc);
        let mut why = vec![];
        if canon(&o) != c0 { why.push("the run with coalesced frames (Encryption Response and the first encrypted frames in one segment) differs from the frame-by-frame run".to_string()); }
        if o.undecodable { why.push("server bytes after the cipher switch do not decrypt as one continuous stream".into()); }
        cases.push(Case { request: o.request1.clone(), observed: o.observed.clone(), oracle: if why.is_empty() { None } else { Some(why.join("; ")) }, class: "connection:coalesced".into() });
    }
    cases
}

/// a Keep Alive whose write is cut short by the adapter completion that follows (back-pressure), never answered: the
/// next tick must time the client out exactly as without back-pressure — used by C07 as well
pub fn cancelled_keepalive_cases(rng: &mut Rng, n: usize) -> Vec<Case> {
    let mut cases = vec![];
    for bi in 0..n {
        let (mut plan, secret) = full_plan(rng, false);
        let k = rng.range(1, 9) as usize;
        plan.pre_info = vec![];
        plan.routing = if bi % 3 == 2 {
                // the time-out Disconnect itself is cut short by the completion that follows: the connection has ended all the same
                vec![Step::Tick, Step::Throttle(vec![WAns::Accept(k), WAns::Pending, WAns::Pending, WAns::Pending]), Step::Tick, Step::AdapterDone, Step::Throttle(vec![]), Step::AdapterDone, Step::AdapterDone] }
            else if bi % 2 == 0 { vec![Step::AdapterDone, Step::Throttle(vec![WAns::Accept(k), WAns::Pending, WAns::Pending, WAns::Pending]), Step::Tick, Step::AdapterDone, Step::Throttle(vec![]), Step::Tick, Step::AdapterDone] }
            else { vec![Step::Throttle(vec![WAns::Accept(k), WAns::Pending, WAns::Pending, WAns::Pending]), Step::Tick, Step::AdapterDone, Step::Throttle(vec![]), Step::AdapterDone, Step::Tick, Step::AdapterDone] };
        let v = routed_verdicts(rng, &plan, true);
        let mut sc = scenario(rng, &plan, secret.clone(), vec![], v);
        sc.steps = render(&plan, secret.is_some());
        let o = exec(&sc);
        let mut r = sc.clone();
        r.steps = sc.steps.iter().filter(|s| !matches!(s, Step::Throttle(_))).cloned().collect();
        let ro = exec(&r);
        let mut why = vec![];
        if canon(&o) != canon(&ro) { why.push(format!("a Keep Alive written {k} bytes at a time across an adapter completion and never answered: the run ends {} but without back-pressure it ends {}", o.result, ro.result)); }
        cases.push(Case { request: o.request1.clone(), observed: o.observed.clone(), oracle: if why.is_empty() { None } else { Some(why.join("; ")) }, class: "keepalive-write-cancelled".into() });
    }
    cases
}

// ------------------------------------------------------------------------------------------ C04
fn over_long(n: u32) -> Vec<u8> { let mut v: Vec<u8> = (0..4).map(|i| ((n >> (7 * i)) & 0x7f) as u8 | 0x80).collect(); v.push(((n >> 28) & 0x0f) as u8); v }

pub fn run_c04(a: &Args) {
    let mut rng = Rng::new(a.seed);
    let mut cases = vec![];
    for line in read_corpus(&a.corpus) { let _ = line; }
    for n in 0..a.cases {
        let (mut plan, secret) = full_plan(&mut rng, n % 5 == 0);
        plan.routing = routing_steps(&mut rng);
        plan.enc = match n % 9 { 0 => EncKind::Garbage, 1 => EncKind::GarbageToken, 2 => EncKind::SecretLen(*rng.pick(&[0usize, 1, 15, 17, 100])), 3 => EncKind::TokenPrefix(*rng.pick(&[0usize, 1, 4, 31, 33])), _ => EncKind::Honest };
        let v = routed_verdicts(&mut rng, &plan, false);
        let mut sc = scenario(&mut rng, &plan, secret.clone(), vec![], v);
        sc.max_len = if n % 16 == 4 { *rng.pick(&[64, 300, 2048]) } else { *rng.pick(&[10_000, 10_000, 300, 64, 100_000]) };
        let legal = render(&plan, secret.is_some());
        let frame_idx: Vec<usize> = legal.iter().enumerate().filter(|(_, s)| matches!(s, Step::Frame(_))).map(|(i, _)| i).collect();
        let at = *rng.pick(&frame_idx);
        let Step::Frame(p) = legal[at].clone() else { unreachable!() };
        let mut steps: Vec<Step> = legal[..at].to_vec();
        let max = sc.max_len;
        let class: String;
        let raw = |bytes: Vec<u8>| Step::Raw(bytes);
        match n % 16 {
            0 => { class = "outer-len-neg".into(); steps.push(Step::BadLen(*rng.pick(&[-1, i32::MIN, -128]))); steps.push(raw(p.clone())); }
            1 => { class = "outer-len-zero".into(); steps.push(Step::BadLen(0)); steps.push(raw(p.clone())); }
            2 => { class = "outer-len-max+1".into(); let mut f = ref_varint(max + 1); f.extend(vec![0u8; 64]); steps.push(raw(f)); }
            3 => { class = "outer-len-2^31-1".into(); let mut f = ref_varint(i32::MAX); f.extend(p.clone()); steps.push(raw(f)); }
            4 => { class = "outer-len-max".into(); let mut body = p.clone(); body.resize(max as usize, 0); steps.push(Step::RawAs(frame(&body), body.clone())); }
            5 => { class = "outer-overlong-varint".into(); let mut f = over_long(p.len() as u32); f.extend(p.clone()); steps.push(Step::RawAs(f, p.clone())); steps.extend(legal[at + 1..].iter().cloned()); }
            6 => { class = "outer-len-off-by-one".into(); let d = if rng.chance(1, 2) { 1 } else { -1 }; let mut f = ref_varint(p.len() as i32 + d); f.extend(p.clone()); steps.push(Step::RawAs(f, p.clone()));
                // what follows is misaligned: one more static frame at most, then the end of the stream
                if let Some(Step::Frame(q)) = legal.get(at + 1) { steps.push(Step::Frame(q.clone())); }
                steps.push(Step::Eof); }
            7 | 8 => {
                // inner length prefix (first length-prefixed field after the id) replaced
                let bad = if n % 16 == 7 { *rng.pick(&[-1, i32::MIN, -2]) } else { *rng.pick(&[i32::MAX, 1 << 30, p.len() as i32, p.len() as i32 + 1, 70_000]) };
                class = if n % 16 == 7 { "inner-len-neg".into() } else { "inner-len-huge".into() };
                // locate: handshake has a varint before the string; others start with the string/bytes
                let (_, idl) = crate::conn::decode::read_varint(&p).unwrap();
                let mut off = idl;
                if at == 0 { off += crate::conn::decode::read_varint(&p[off..]).map_or(0, |x| x.1); }
                if off < p.len() {
                    let (_, l) = crate::conn::decode::read_varint(&p[off..]).unwrap_or((0, 1));
                    let mut q = p[..off].to_vec(); q.extend(ref_varint(bad)); q.extend(&p[(off + l).min(p.len())..]);
                    steps.push(Step::Frame(q));
                } else { steps.push(Step::Frame(p.clone())); }
                steps.extend(legal[at + 1..].iter().cloned());
            }
            9 => { class = "truncated+eof".into(); let f = frame(&p); let k = rng.below(f.len() as u64) as usize; steps.push(raw(f[..k].to_vec())); steps.push(Step::Eof); }
            10 => { class = "invalid-utf8".into(); let mut q = p.clone(); let k = q.len().saturating_sub(1).min(3 + rng.below(8) as usize); if k < q.len() { q[k] = 0xff; } steps.push(Step::Frame(q)); steps.extend(legal[at + 1..].iter().cloned()); }
            11 => { class = "random-bytes".into(); let k = rng.range(1, 300) as usize; steps.push(raw(rng.bytes(k))); steps.push(Step::Eof); }
            12 => { class = "random-bytes-after-switch".into(); steps = legal.iter().take_while(|s| !matches!(s, Step::Frame(q) if q == &b::login_ack())).cloned().collect(); let k = rng.range(1, 300) as usize; steps.push(raw(rng.bytes(k))); steps.push(Step::Eof); }
            13 => { class = "enum-out-of-range".into(); steps = legal[..legal.len().min(at + 1)].to_vec(); steps.push(Step::Frame(b::resource_pack_response(1, *rng.pick(&[8, -1, i32::MAX])))); steps.push(Step::Frame(b::handshake(1, b"x", 1, *rng.pick(&[0, 4, -1])))); }
            14 => { class = "eof-anywhere".into(); steps = legal[..rng.below(legal.len() as u64 + 1) as usize].to_vec(); steps.push(Step::Eof); steps.push(Step::Tick); }
            _ => {
                class = "legal".into(); steps = legal.clone();
                // half of the legal runs end in a message from the REAL built-in localisation, looked up for whatever
                // locale text the client reported (multi-byte characters around the separators included)
                if rng.chance(1, 2) {
                    let tables = ["en", "en_us", "é", "é_FR", "日本"].iter().filter(|_| rng.chance(2, 3)).map(|l| (l.to_string(), vec![("disconnect_no_target".to_string(), format!("kein Ziel [{l}] ✓")), ("disconnect_timeout".to_string(), format!("Zeitüberschreitung [{l}]"))])).collect();
                    sc.real_localization = Some((rng.pick(&["en_us", "é_FR", "zz"]).to_string(), tables));
                    sc.verdicts.select = Ok(None);
                }
            }
        }
        sc.steps = steps;
        let o = exec(&sc);
        let mut why = vec![];
        if o.panicked { why.push("handler panicked".into()); }
        if o.result == "hang" { why.push("the handler did not settle within 20 s of real time on this input (busy loop or dead-lock): it neither ended the connection nor waited for input".into()); }
        let bound = 4 * (sc.max_len as usize + 5) + 65_536;
        if o.max_alloc > bound { why.push(format!("single allocation of {} bytes requested (configured maximum frame {} bytes; bound {bound})", o.max_alloc, sc.max_len)); }
        if sc.steps.iter().any(|s| matches!(s, Step::Eof)) && o.result == "running" { why.push("handler still running after the client's end of stream".into()); }
        // a declared length that is non-positive or above the configured maximum is refused as such, at the prefix
        if matches!(class.as_str(), "outer-len-neg" | "outer-len-zero" | "outer-len-max+1" | "outer-len-2^31-1") && matches!(o.result.as_str(), "ok" | "running" | "err:unexpected-id" | "err:invalid-encoding" | "err:illegal-enum" | "err:array-conversion") {
            // (runs that ended earlier for a reason of their own — a rejected Encryption Response, a failing service — say nothing about the prefix)
            why.push(format!("a frame declaring an illegal length (class {class}, configured maximum {}) was not refused as an illegal length: the run ended with {}", sc.max_len, o.result));
        }
        cases.push(Case { request: o.request1.clone(), observed: o.observed.clone(), oracle: if why.is_empty() { None } else { Some(why.join("; ")) }, class: format!("{class}:{}:alloc<2^{}", o.result.split(':').next_back().unwrap_or(""), usize::BITS - o.max_alloc.leading_zeros()) });
    }
    cases.extend(crate::lst::c04_listener_cases());
    write_cases(&a.out, &cases).expect("write cases");
    println!("c04: {} scenarios", cases.len());
}
