//! C05 — the real `CipherStream` over a scripted transport (Pending, partial acceptance, reads of
//! arbitrary sizes) vs. the Lean model (with its own AES-128-CFB8) vs. an independent CFB8 built
//! on the raw AES block function of the `aes` crate.
use crate::util::*;
use aes::cipher::{BlockEncrypt, KeyInit};
use passage_protocol::crypto::stream::{Aes128Cfb8Dec, Aes128Cfb8Enc, CipherStream, create_ciphers};
use std::collections::VecDeque;
use std::future::Future;
use std::pin::Pin;
use std::sync::{Arc, Mutex};
use std::task::{Context, Poll, Waker};
use tokio::io::{AsyncRead, AsyncReadExt, AsyncWrite, AsyncWriteExt, ReadBuf};

#[derive(Clone, Debug)]
pub enum W { Pending, Accept(usize),
    /// the transport refuses this poll with a transient error and takes nothing (the write ends there; a later write goes on)
    Fail }
#[derive(Clone, Debug)]
pub enum R { Pending, Data(Vec<u8>) }

#[derive(Default)]
pub struct Shared { pub wsched: VecDeque<W>, pub rsched: VecDeque<R>, pub accepted: Vec<u8>, pub produced: Vec<u8> }

/// transport whose every poll consumes one scripted answer; an exhausted script = Pending forever
#[derive(Clone)]
pub struct Script(pub Arc<Mutex<Shared>>);

impl AsyncWrite for Script {
    fn poll_write(self: Pin<&mut Self>, _cx: &mut Context<'_>, buf: &[u8]) -> Poll<std::io::Result<usize>> {
        let mut s = self.0.lock().unwrap();
        match s.wsched.pop_front() {
            None | Some(W::Pending) => Poll::Pending,
            Some(W::Accept(n)) => { let k = n.min(buf.len()); s.accepted.extend_from_slice(&buf[..k]); Poll::Ready(Ok(k)) }
            Some(W::Fail) => { s.wsched.clear(); Poll::Ready(Err(std::io::Error::from(std::io::ErrorKind::Interrupted))) }
        }
    }
    fn poll_flush(self: Pin<&mut Self>, _cx: &mut Context<'_>) -> Poll<std::io::Result<()>> { Poll::Ready(Ok(())) }
    fn poll_shutdown(self: Pin<&mut Self>, _cx: &mut Context<'_>) -> Poll<std::io::Result<()>> { Poll::Ready(Ok(())) }
}

impl AsyncRead for Script {
    fn poll_read(self: Pin<&mut Self>, _cx: &mut Context<'_>, buf: &mut ReadBuf<'_>) -> Poll<std::io::Result<()>> {
        let mut s = self.0.lock().unwrap();
        match s.rsched.pop_front() {
            None | Some(R::Pending) => Poll::Pending,
            Some(R::Data(mut d)) => {
                // the caller's buffer bounds the chunk; the remainder stays scripted as the next chunk
                if d.len() > buf.remaining() { let rest = d.split_off(buf.remaining()); s.rsched.push_front(R::Data(rest)); }
                buf.put_slice(&d);
                s.produced.extend_from_slice(&d);
                Poll::Ready(Ok(()))
            }
        }
    }
}

/// poll a future until it is ready or `more()` says the script is exhausted
fn drive<F: Future>(fut: F, mut more: impl FnMut() -> bool) -> Option<F::Output> {
    let mut fut = std::pin::pin!(fut);
    let mut cx = Context::from_waker(Waker::noop());
    loop {
        if let Poll::Ready(v) = fut.as_mut().poll(&mut cx) { return Some(v); }
        if !more() { return None; }
    }
}

/// independent CFB8 (shift register + raw AES block encryption)
pub struct RefCfb8 { aes: aes::Aes128, iv: [u8; 16] }
impl RefCfb8 {
    pub fn new(secret: &[u8]) -> Self { RefCfb8 { aes: aes::Aes128::new_from_slice(secret).unwrap(), iv: secret.try_into().unwrap() } }
    fn ks(&self) -> u8 { let mut b = aes::Block::clone_from_slice(&self.iv); self.aes.encrypt_block(&mut b); b[0] }
    pub fn enc(&mut self, p: &[u8]) -> Vec<u8> { p.iter().map(|&x| { let c = x ^ self.ks(); self.iv.copy_within(1.., 0); self.iv[15] = c; c }).collect() }
    pub fn dec(&mut self, c: &[u8]) -> Vec<u8> { c.iter().map(|&x| { let p = x ^ self.ks(); self.iv.copy_within(1.., 0); self.iv[15] = x; p }).collect() }
}

#[derive(Clone)]
enum Op { Write(Vec<u8>, Vec<W>), Switch(Vec<u8>), Read(Vec<R>, bool),
    /// the same bytes handed over as several slices through `write_vectored`, one byte accepted per poll
    WriteV(Vec<Vec<u8>>, Vec<W>),
    /// the sending side is shut down (half-close): what the peer still sends is deciphered as before, and so is whatever is written later
    Shutdown }

fn gen_wsched(rng: &mut Rng, len: usize) -> Vec<W> {
    let style = rng.below(5);
    let mut v = vec![];
    let mut left = len as i64 + rng.below(3) as i64 - 1; // sometimes one short (incomplete write), sometimes generous
    let mut guard = 0;
    while left > 0 && guard < 10_000 {
        guard += 1;
        if rng.chance(1, 4) { v.push(W::Pending); continue; }
        let n = match style { 0 => 1, 1 => len.max(1), 2 => rng.range(1, 3) as usize, 3 => rng.range(1, 17) as usize, _ => rng.range(1, len.max(1) as u64) as usize };
        v.push(W::Accept(n));
        left -= n as i64;
    }
    if rng.chance(1, 10) { v.insert(rng.below(v.len() as u64 + 1) as usize, W::Accept(0)); }
    // one write in eight is cut short by a transient transport error (nothing taken on that poll)
    if rng.chance(1, 8) { v.truncate(rng.below(v.len() as u64 + 1) as usize); v.push(W::Fail); }
    v
}

fn run_session(ops: &[Op]) -> (String, String, Option<String>) {
    let shared = Arc::new(Mutex::new(Shared::default()));
    let mut stream: CipherStream<Script, Aes128Cfb8Enc, Aes128Cfb8Dec> = CipherStream::from_stream(Script(shared.clone()));
    let (mut req, mut obs, mut why) = (vec![], vec![], vec![]);
    let mut renc: Option<RefCfb8> = None;
    let mut rdec: Option<RefCfb8> = None;
    for op in ops {
        match op {
            Op::Switch(secret) => {
                let (e, d) = create_ciphers(secret).expect("ciphers");
                stream.set_encryption(Some(e), Some(d));
                renc = Some(RefCfb8::new(secret));
                rdec = Some(RefCfb8::new(secret));
                req.push(format!("s {}", hex(secret)));
                obs.push("s".to_string());
            }
            Op::Write(plain, sch) => {
                { let mut s = shared.lock().unwrap(); s.wsched = sch.iter().cloned().collect(); s.accepted.clear(); }
                // what the caller learns: write_all either completes (all bytes written) or not; the number of
                // bytes reported written so far is observed through a counting wrapper around poll_write results
                let counter = Arc::new(Mutex::new(0usize));
                let res = {
                    let c2 = counter.clone();
                    let mut cw = CountingWriter { inner: &mut stream, n: c2 };
                    let sh = shared.clone();
                    drive(cw.write_all(plain), move || !sh.lock().unwrap().wsched.is_empty())
                };
                let written = *counter.lock().unwrap();
                let accepted = shared.lock().unwrap().accepted.clone();
                let _ = res;
                let expect = match renc.as_mut() { Some(c) => c.enc(&plain[..written]), None => plain[..written].to_vec() };
                if accepted != expect {
                    why.push(format!("write {}B under {:?}: transport accepted {} but one continuous stream of the {} bytes reported written is {}", plain.len(), sch, hex(&accepted), written, hex(&expect)));
                }
                req.push(format!("w {} {}", hex(plain), sch.iter().map(|w| match w { W::Pending => "p".to_string(), W::Accept(n) => format!("a{n}"), W::Fail => "e".to_string() }).collect::<Vec<_>>().join(" ")).trim_end().to_string());
                obs.push(format!("w:{written}:{}", hex(&accepted)));
            }
            Op::Shutdown => {
                let sh = shared.clone();
                let _ = drive(stream.shutdown(), move || !sh.lock().unwrap().wsched.is_empty());
                req.push("h".to_string());
                obs.push("h".to_string());
            }
            Op::WriteV(parts, sch) => {
                let plain: Vec<u8> = parts.concat();
                { let mut s = shared.lock().unwrap(); s.wsched = sch.iter().cloned().collect(); s.accepted.clear(); }
                let counter = Arc::new(Mutex::new(0usize));
                {
                    let c2 = counter.clone();
                    let mut cw = CountingWriter { inner: &mut stream, n: c2 };
                    let sh = shared.clone();
                    let _ = drive(write_all_vectored(&mut cw, parts), move || !sh.lock().unwrap().wsched.is_empty());
                }
                let written = *counter.lock().unwrap();
                let accepted = shared.lock().unwrap().accepted.clone();
                let expect = match renc.as_mut() { Some(c) => c.enc(&plain[..written]), None => plain[..written].to_vec() };
                if accepted != expect {
                    why.push(format!("vectored write of {} slices ({}B): transport accepted {} but one continuous stream of the {} bytes reported written is {}", parts.len(), plain.len(), hex(&accepted), written, hex(&expect)));
                }
                // one byte per poll: the same transcript as a plain write under this schedule
                req.push(format!("w {} {}", hex(&plain), sch.iter().map(|w| match w { W::Pending => "p".to_string(), W::Accept(n) => format!("a{n}"), W::Fail => "e".to_string() }).collect::<Vec<_>>().join(" ")).trim_end().to_string());
                obs.push(format!("w:{written}:{}", hex(&accepted)));
            }
            Op::Read(sch, exact) => {
                let total: usize = sch.iter().map(|r| if let R::Data(d) = r { d.len() } else { 0 }).sum();
                { let mut s = shared.lock().unwrap(); s.rsched = sch.iter().cloned().collect(); s.produced.clear(); }
                let mut got = vec![0u8; total];
                let mut filled = 0;
                if *exact {
                    // read_exact: one ReadBuf with a growing filled region (cursor > 0 inside poll_read)
                    let sh = shared.clone();
                    if drive(stream.read_exact(&mut got), move || !sh.lock().unwrap().rsched.is_empty()).is_some() { filled = total; }
                    else { filled = shared.lock().unwrap().produced.len(); }
                } else {
                    while filled < total {
                        let sh = shared.clone();
                        match drive(stream.read(&mut got[filled..]), move || !sh.lock().unwrap().rsched.is_empty()) { Some(Ok(n)) if n > 0 => filled += n, _ => break }
                    }
                }
                let produced = shared.lock().unwrap().produced.clone();
                let surfaced = got[..filled.min(produced.len())].to_vec();
                let expect = match rdec.as_mut() { Some(c) => c.dec(&produced), None => produced.clone() };
                if surfaced != expect { why.push(format!("read: surfaced {} but the matching decryption of what the socket produced is {}", hex(&surfaced), hex(&expect))); }
                // the model is told what the transport actually produced per poll (chunks as delivered)
                req.push(format!("r {}", sch.iter().map(|r| match r { R::Pending => "p".to_string(), R::Data(d) => hex(d) }).collect::<Vec<_>>().join(" ")).trim_end().to_string());
                obs.push(format!("r:{}", hex(&surfaced)));
            }
        }
    }
    (format!("c05.session {}", req.join(" | ")), obs.join("|"), if why.is_empty() { None } else { Some(why.join("; ")) })
}

/// counts the bytes `poll_write` reports as written to its caller
struct CountingWriter<'a, S> { inner: &'a mut S, n: Arc<Mutex<usize>> }
impl<S: AsyncWrite + Unpin> AsyncWrite for CountingWriter<'_, S> {
    fn poll_write(mut self: Pin<&mut Self>, cx: &mut Context<'_>, buf: &[u8]) -> Poll<std::io::Result<usize>> {
        let r = Pin::new(&mut *self.inner).poll_write(cx, buf);
        if let Poll::Ready(Ok(k)) = &r { *self.n.lock().unwrap() += *k; }
        r
    }
    fn poll_flush(mut self: Pin<&mut Self>, cx: &mut Context<'_>) -> Poll<std::io::Result<()>> { Pin::new(&mut *self.inner).poll_flush(cx) }
    fn poll_shutdown(mut self: Pin<&mut Self>, cx: &mut Context<'_>) -> Poll<std::io::Result<()>> { Pin::new(&mut *self.inner).poll_shutdown(cx) }
    // forward the vectored entry point as such (the default would route it through poll_write of this wrapper)
    fn poll_write_vectored(mut self: Pin<&mut Self>, cx: &mut Context<'_>, bufs: &[std::io::IoSlice<'_>]) -> Poll<std::io::Result<usize>> {
        let r = Pin::new(&mut *self.inner).poll_write_vectored(cx, bufs);
        if let Poll::Ready(Ok(k)) = &r { *self.n.lock().unwrap() += *k; }
        r
    }
    fn is_write_vectored(&self) -> bool { self.inner.is_write_vectored() }
}

/// `write_all` for a list of slices, through `write_vectored`
async fn write_all_vectored<S: AsyncWrite + Unpin>(w: &mut S, parts: &[Vec<u8>]) -> std::io::Result<()> {
    let (mut i, mut off) = (0usize, 0usize);
    while i < parts.len() {
        if off >= parts[i].len() { i += 1; off = 0; continue; }
        let mut slices = vec![std::io::IoSlice::new(&parts[i][off..])];
        for p in &parts[i + 1..] { slices.push(std::io::IoSlice::new(p)); }
        let mut n = w.write_vectored(&slices).await?;
        if n == 0 { return Err(std::io::ErrorKind::WriteZero.into()); }
        while n > 0 && i < parts.len() { let left = parts[i].len() - off; if n >= left { n -= left; i += 1; off = 0; } else { off += n; n = 0; } }
    }
    Ok(())
}

fn parse_session(line: &str) -> Option<Vec<Op>> {
    let t: Vec<&str> = line.split_whitespace().collect();
    if t.first() != Some(&"c05.session") { return None; }
    let mut ops = vec![];
    for op in t[1..].split(|x| *x == "|") {
        match op.first()? {
            &"w" => ops.push(Op::Write(unhex(op[1])?, op[2..].iter().map(|x| if *x == "p" { Some(W::Pending) } else if *x == "e" { Some(W::Fail) } else { x.strip_prefix('a')?.parse().ok().map(W::Accept) }).collect::<Option<Vec<_>>>()?)),
            &"s" => ops.push(Op::Switch(unhex(op[1])?)),
            &"h" => ops.push(Op::Shutdown),
            &"r" => ops.push(Op::Read(op[1..].iter().map(|x| if *x == "p" { Some(R::Pending) } else { unhex(x).map(R::Data) }).collect::<Option<Vec<_>>>()?, true)),
            _ => return None,
        }
    }
    Some(ops)
}

pub fn run(a: &Args) {
    let mut rng = Rng::new(a.seed);
    let mut cases = vec![];
    for line in read_corpus(&a.corpus) {
        if let Some(ops) = parse_session(&line) {
            let (request, observed, oracle) = run_session(&ops);
            cases.push(Case { request, observed, oracle, class: "corpus".into() });
        }
    }
    let max_len = if a.thorough { 4096 } else { 600 };
    for n in 0..a.cases {
        let mut ops = vec![];
        let nops = rng.range(1, 6);
        let switch_at = if n % 5 == 0 { nops } else { rng.below(nops) };   // sometimes never encrypted
        let mut class = vec![];
        for i in 0..nops {
            if i == switch_at { ops.push(Op::Switch(rng.bytes(16))); class.push("s"); }
            if rng.chance(1, 30) { ops.push(Op::Shutdown); class.push("h"); }
            if rng.chance(1, 25) {
                // a write that is abandoned while pending (nothing accepted), then OTHER bytes of the same length
                let len = rng.range(1, 64) as usize;
                ops.push(Op::Write(rng.bytes(len), vec![W::Pending])); class.push("w");
                ops.push(Op::Write(rng.bytes(len), vec![W::Accept(len)])); class.push("w");
                continue;
            }
            if rng.chance(3, 5) {
                // mostly short; now and then larger than any internal chunk size a stream wrapper might use (4 KiB, 8 KiB)
                let len = match rng.below(80) { 0..=11 => 1, 12..=23 => 2, 24..=35 => 17, 36 => *rng.pick(&[4096usize, 4097, 5000, 8193, 10_000]), _ => rng.range(1, max_len) as usize };
                let plain = rng.bytes(len);
                if rng.chance(1, 6) {
                    // vectored: 1–4 slices (some empty), one byte accepted per poll, a few Pendings
                    let len = len.min(200);
                    let plain = &plain[..len];
                    let mut parts: Vec<Vec<u8>> = vec![];
                    let mut at = 0;
                    while at < len { let k = rng.range(0, (len - at).min(64) as u64) as usize; parts.push(plain[at..at + k].to_vec()); at += k; if parts.len() >= 3 { parts.push(plain[at..].to_vec()); at = len; } }
                    let mut sch = vec![];
                    for _ in 0..len { if rng.chance(1, 8) { sch.push(W::Pending); } sch.push(W::Accept(1)); }
                    ops.push(Op::WriteV(parts, sch)); class.push("v");
                    continue;
                }
                let sch = gen_wsched(&mut rng, len);
                ops.push(Op::Write(plain, sch)); class.push("w");
            } else {
                let nch = rng.range(1, 6);
                let mut sch = vec![];
                for _ in 0..nch {
                    if rng.chance(1, 4) { sch.push(R::Pending); }
                    let l = match rng.below(4) { 0 => 1, 1 => 16, _ => rng.range(1, 80) as usize };
                    sch.push(R::Data(rng.bytes(l)));
                }
                ops.push(Op::Read(sch, rng.chance(1, 2))); class.push("r");
            }
        }
        let (request, observed, oracle) = run_session(&ops);
        cases.push(Case { request, observed, oracle, class: class.join("") });
    }
    // the cipher stream as the connection handler composes it: Encryption Response and the first encrypted frames in one segment
    cases.extend(crate::byterun::coalesced_cases(&mut rng, (a.cases / 100).clamp(8, 400)));
    write_cases(&a.out, &cases).expect("write cases");
    println!("c05: {} sessions", cases.len());
}
