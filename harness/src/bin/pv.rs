//! pv <runner> [--seed N] [--cases N] [--out DIR] [--thorough] [--corpus FILE]
#[global_allocator]
static ALLOC: pv::util::CountingAlloc = pv::util::CountingAlloc;

fn main() {
    let argv: Vec<String> = std::env::args().collect();
    if argv.len() < 2 {
        eprintln!("usage: pv <runner> [options]");
        std::process::exit(2);
    }
    // helper mode, run as a child process with a small descriptor limit: `pv lstfd <accept|drain>`
    if argv[1] == "lstfd" { pv::lst::run_lstfd(argv.get(2).map_or("accept", |s| s.as_str())); return; }
    let args = pv::util::parse_args(&argv[2..]);
    match argv[1].as_str() {
        "c11" => pv::c11::run(&args),
        "c09" => pv::c09::run(&args),
        "c13" => pv::c13::run(&args),
        "c18" => pv::c18::run(&args),
        "c05" => pv::c05::run(&args),
        "c06" => pv::connrun::run_c06(&args),
        "c01" => pv::connrun::run_c01(&args),
        "c02" => pv::connrun::run_c02(&args),
        "c03" => pv::connrun::run_c03(&args),
        "c10" => pv::connrun::run_c10(&args),
        "c07" => pv::connrun::run_c07(&args),
        "c04" => pv::byterun::run_c04(&args),
        "c12" => pv::c12::run(&args),
        "c19" => pv::c19::run(&args),
        "c20" => pv::c20::run(&args),
        "c08" => pv::byterun::run_c08(&args),
        "c14" => pv::lst::run_c14(&args),
        "c15" => pv::lst::run_c15(&args),
        "c16" => pv::lst::run_c16(&args),
        "c17" => pv::lst::run_c17(&args),
        other => {
            eprintln!("unknown runner {other}");
            std::process::exit(2);
        }
    }
}
