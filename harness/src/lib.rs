//! Shared pieces of the correspondence harness.
pub mod util;
pub mod c11;
pub mod codec;
pub mod c09;
pub mod c13;
pub mod c18;
pub mod c05;
pub mod conn;
pub mod connrun;
pub mod byterun;
pub mod c12;
pub mod c19;
pub mod c20;
pub mod lst;
