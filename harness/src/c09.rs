//! C09 — real packet codec vs. the Lean model (M1) vs. the harness's reference encoder.
use crate::codec::*;
use crate::util::*;
use passage_packets::{AsyncReadPacket, AsyncWritePacket};
use std::io::Cursor;

fn real_write_varint(i: i32) -> Vec<u8> {
    let mut out: Vec<u8> = vec![];
    rt().block_on(out.write_varint(i)).unwrap();
    out
}
fn real_write_varlong(i: i64) -> Vec<u8> {
    let mut out: Vec<u8> = vec![];
    rt().block_on(out.write_varlong(i)).unwrap();
    out
}
fn real_read_varint(b: &[u8]) -> Result<(i32, usize), String> {
    let mut c = Cursor::new(b.to_vec());
    let v = rt().block_on(c.read_varint()).map_err(|e| err_name(&e))?;
    Ok((v, b.len() - c.position() as usize))
}
fn real_read_varlong(b: &[u8]) -> Result<(i64, usize), String> {
    let mut c = Cursor::new(b.to_vec());
    let v = rt().block_on(c.read_varlong()).map_err(|e| err_name(&e))?;
    Ok((v, b.len() - c.position() as usize))
}

fn varint_case(i: i32) -> Case {
    let w = real_write_varint(i);
    let back = real_read_varint(&w);
    let mut why = vec![];
    if w != ref_varint(i) { why.push(format!("layout {} != reference {}", hex(&w), hex(&ref_varint(i)))); }
    if w.len() > 5 { why.push("longer than 5 bytes".into()); }
    if back != Ok((i, 0)) { why.push(format!("decode(encode({i})) = {back:?}")); }
    Case { request: format!("c09.varint {i}"), observed: hex(&w),
        oracle: if why.is_empty() { None } else { Some(why.join("; ")) }, class: format!("varint:{}B", w.len()) }
}
fn varlong_case(i: i64) -> Case {
    let w = real_write_varlong(i);
    let back = real_read_varlong(&w);
    let mut why = vec![];
    if w != ref_varlong(i) { why.push(format!("layout {} != reference {}", hex(&w), hex(&ref_varlong(i)))); }
    if w.len() > 10 { why.push("longer than 10 bytes".into()); }
    if back != Ok((i, 0)) { why.push(format!("decode(encode({i})) = {back:?}")); }
    Case { request: format!("c09.varlong {i}"), observed: hex(&w),
        oracle: if why.is_empty() { None } else { Some(why.join("; ")) }, class: format!("varlong:{}B", w.len()) }
}
fn unvar_case(long: bool, b: &[u8]) -> Case {
    let observed = if long {
        match real_read_varlong(b) { Ok((v, r)) => format!("ok {v} {r}"), Err(e) => format!("err {e}") }
    } else {
        match real_read_varint(b) { Ok((v, r)) => format!("ok {v} {r}"), Err(e) => format!("err {e}") }
    };
    Case { request: format!("{} {}", if long { "c09.unvarlong" } else { "c09.unvarint" }, hex(b)), observed, oracle: None,
        class: format!("{}:{}", if long { "unvarlong" } else { "unvarint" }, b.len()) }
}

const STRS: &[&str] = &["", "a", "localhost", "mc.example.org", "日本語", "é✓😀", "{not json", "with space & = ? # % +", "\u{0}\u{7f}", "x", "play.example.org\u{0}FML\u{0}", "host\u{0}ip\u{0}uuid", "\u{0}", "a\u{0}b", " padded ", "UPPER.Example.ORG."];

fn gen_str(rng: &mut Rng, max: usize) -> Vec<u8> {
    match rng.below(10) {
        0 => {
            // long string around a VarInt group boundary (127/128, 16383/16384) or the protocol limit
            // … and beyond 16 bits: a protocol string may hold 32767 UTF-16 units = up to 98301 UTF-8 bytes
            let n = *rng.pick(&[127usize, 128, 129, 255, 256, 16383, 16384, 32767, 40000, 65535, 65536, 65537, 70000, 98301]);
            let n = n.min(max);
            let three = n > 60000;
            let s: String = (0..n).map(|k| if three { '€' } else if k % 7 == 3 { 'é' } else { 'a' }).collect();
            let mut b = s.into_bytes();
            b.truncate(n);
            while std::str::from_utf8(&b).is_err() { b.pop(); }
            b
        }
        1..=6 => rng.pick(STRS).as_bytes().to_vec(),
        _ => {
            let n = rng.range(0, 40) as usize;
            let s: String = (0..n).map(|_| *rng.pick(&['a', 'Z', '0', '_', 'é', 'ß', '✓', '😀', ' ', '\n'])).collect();
            s.into_bytes()
        }
    }
}

fn boundary_i(rng: &mut Rng, lo: i128, hi: i128) -> i128 {
    let cands = [lo, lo + 1, hi, hi - 1, 0, 1, -1, 127, 128, 255, 256, 16383, 16384, 32767, 32768, 65535, 65536,
        2097151, 2097152, 268435455, 268435456, i128::from(i32::MAX), i128::from(i32::MIN), i128::from(u32::MAX)];
    if rng.chance(2, 3) {
        for _ in 0..8 {
            let c = *rng.pick(&cands);
            if c >= lo && c <= hi { return c; }
        }
    }
    let span = (hi - lo) as u128 + 1;
    let r = ((u128::from(rng.next()) << 64) | u128::from(rng.next())) % span;
    lo + r as i128
}

fn gen_val(rng: &mut Rng, t: Ty) -> V {
    match t {
        Ty::VarInt => V::I(boundary_i(rng, i128::from(i32::MIN), i128::from(i32::MAX))),
        Ty::Str => V::B(gen_str(rng, 98301)),
        Ty::Text => {
            // plain texts; among them texts that are themselves complete JSON values (numbers, literals, strings, arrays) but not objects
            if rng.chance(1, 5) { return V::B(rng.pick(&["404", "2024", "true", "false", "null", "\"bye\"", "[1,2]", "-1.5e3", "0", "[]", " 7"]).as_bytes().to_vec()); }
            let mut b = gen_str(rng, 40000);
            if b.first() == Some(&b'{') { b[0] = b'['; }
            V::B(b)
        }
        Ty::Bytes => { let n = *rng.pick(&[0usize, 1, 16, 32, 127, 128, 300, 162]); V::B(rng.bytes(n)) }
        Ty::Bool => V::T(rng.chance(1, 2)),
        Ty::U8 => V::I(boundary_i(rng, 0, 255)),
        Ty::I8 => V::I(boundary_i(rng, -128, 127)),
        Ty::U16 | Ty::Port => V::I(boundary_i(rng, 0, 65535)),
        Ty::I32 => V::I(boundary_i(rng, i128::from(i32::MIN), i128::from(i32::MAX))),
        Ty::U64 => V::I(boundary_i(rng, 0, i128::from(u64::MAX))),
        Ty::Uuid => V::I(if rng.chance(1, 4) { *rng.pick(&[0i128, 1, i128::MAX, -1i128]) } else { ((u128::from(rng.next()) << 64) | u128::from(rng.next())) as i128 }),
        Ty::Enum(lo, hi) => V::I(rng.range(lo as u64, hi as u64) as i128),
        Ty::Tok32 => V::B(rng.bytes(32)),
        Ty::Zero => V::U,
    }
}

/// uuid values travel as unsigned 128-bit numbers; i128 is only the container
fn tok(v: &V, t: Option<Ty>) -> String {
    match (v, t) {
        (V::I(i), Some(Ty::Uuid)) => format!("i{}", *i as u128),
        _ => v.tok(),
    }
}

fn fty(f: &F) -> Ty { match f { F::Req(t) | F::Opt(t) => *t } }

fn vals_tok(pk: &Pk, vals: &[V]) -> String {
    vals.iter().zip(pk.sch).map(|(v, f)| tok(v, Some(fty(f)))).collect::<Vec<_>>().join(" ")
}

fn gen_vals(rng: &mut Rng, pk: &Pk) -> Vec<V> {
    pk.sch.iter().map(|f| match f {
        F::Req(t) => gen_val(rng, *t),
        F::Opt(t) => if rng.chance(1, 3) { V::N } else { gen_val(rng, *t) },
    }).collect()
}

fn enc_case(pk: &Pk, vals: &[V]) -> (Case, Vec<u8>) {
    let real = encode_real(pk.name, vals);
    let reference = ref_encode(pk, vals);
    let (observed, bytes, oracle) = match &real {
        Ok((id, b)) => {
            let mut why = vec![];
            if *id != pk.id { why.push(format!("packet id {id} != protocol id {}", pk.id)); }
            if *b != reference { why.push(format!("layout {} != reference {}", hex(b), hex(&reference))); }
            (format!("id={id} {}", hex(b)), b.clone(), if why.is_empty() { None } else { Some(why.join("; ")) })
        }
        Err(e) => (format!("err {e}"), vec![], Some(format!("encoder failed: {e}"))),
    };
    (Case { request: format!("c09.enc {} {}", pk.name, vals_tok(pk, vals)).trim_end().to_string(), observed, oracle,
        class: format!("enc:{}", pk.name) }, bytes)
}

fn dec_case(pk: &Pk, bytes: &[u8], expect: Option<(&[V], usize)>, class: &str) -> Case {
    let real = decode_real(pk.name, bytes);
    let observed = match &real {
        Ok((vals, rest)) => format!("ok {} rest={rest}", vals_tok(pk, vals)).replace("  ", " "),
        Err(e) => format!("err {e}"),
    };
    let oracle = match (expect, &real) {
        (Some((vals, trailing)), Ok((got, rest))) =>
            if got.as_slice() == vals && *rest == trailing { None } else { Some(format!("round trip lost data: sent {} got {}", vals_tok(pk, vals), observed)) },
        (Some((vals, _)), Err(e)) => Some(format!("round trip failed with {e} for {}", vals_tok(pk, vals))),
        // hand-made wire images that are not a legal encoding must be refused, never mapped to some value
        (None, Ok(_)) if class == "dec-bad-enum" => Some(format!("an ordinal outside the enumeration was accepted: {observed}")),
        // every field is fixed-size or length-prefixed: a strict prefix of a packet's bytes always ends inside a field
        (None, Ok(_)) if class == "dec-truncated" => Some(format!("a strict prefix of the packet's bytes was decoded as a complete packet: {observed}")),
        (None, Ok(_)) if class == "dec-bad-utf8" => Some(format!("a string that is not valid UTF-8 was accepted: {observed}")),
        (None, _) => None,
    };
    Case { request: format!("c09.dec {} {}", pk.name, hex(bytes)), observed, oracle, class: format!("{class}:{}", pk.name) }
}

// ---- compound text components (network NBT): a tree, the JSON text built from it, the real encoder's bytes

#[derive(Clone)]
enum Nbt { S(String), B(bool), C(Vec<(String, Nbt)>) }

fn gen_nbt(rng: &mut Rng, depth: u32) -> Nbt {
    // keys in ascending byte order and distinct: serde_json's map is ordered by key unless built with preserve_order —
    // either way the entries then come out in this order
    let pool = ["", "bold", "color", "hover", "italic", "text", "translate", "with", "é", "日本"];
    let n = rng.below(if depth == 0 { 5 } else { 3 }) as usize;
    let mut keys: Vec<&str> = vec![];
    while keys.len() < n { let k = *rng.pick(&pool); if !keys.contains(&k) { keys.push(k); } }
    keys.sort_by(|a, b| a.as_bytes().cmp(b.as_bytes()));
    Nbt::C(keys.into_iter().map(|k| (k.to_string(), match rng.below(if depth < 2 { 5 } else { 4 }) {
        // strings within the Basic Multilingual Plane and without NUL: beyond that NBT's modified UTF-8 differs from UTF-8 (not modelled)
        0 | 1 => Nbt::S(rng.pick(&["", "Disconnected", "No available server for you.", "line\nbreak \"quoted\" back\\slash", "ünï ✓ 日本", "{\"text\":\"nested-looking\"}", "§cred"]).to_string()),
        2 => Nbt::S("x".repeat(*rng.pick(&[1usize, 127, 128, 255, 256, 300]))),
        3 => Nbt::B(rng.chance(1, 2)),
        _ => gen_nbt(rng, depth + 1),
    })).collect())
}

fn nbt_json(n: &Nbt) -> serde_json::Value {
    match n { Nbt::S(s) => serde_json::Value::String(s.clone()), Nbt::B(b) => serde_json::Value::Bool(*b),
        Nbt::C(es) => serde_json::Value::Object(es.iter().map(|(k, v)| (k.clone(), nbt_json(v))).collect()) }
}
/// what reading the bytes back can yield: NBT has no boolean, `true`/`false` travel as the bytes 1/0 (as in the game itself)
fn nbt_json_back(n: &Nbt) -> serde_json::Value {
    match n { Nbt::S(s) => serde_json::Value::String(s.clone()), Nbt::B(b) => serde_json::Value::from(u8::from(*b)),
        Nbt::C(es) => serde_json::Value::Object(es.iter().map(|(k, v)| (k.clone(), nbt_json_back(v))).collect()) }
}
fn nbt_tok(n: &Nbt) -> String {
    match n { Nbt::S(s) => format!("S {}", hex(s.as_bytes())), Nbt::B(b) => format!("B {}", u8::from(*b)),
        Nbt::C(es) => format!("C {}{}", es.len(), es.iter().map(|(k, v)| format!(" {} {}", hex(k.as_bytes()), nbt_tok(v))).collect::<String>()) }
}
/// independent reference: tag, then for a compound `entries ‖ 0x00`; an entry is tag ‖ u16 name length ‖ name ‖ payload; no root name
fn nbt_ref(n: &Nbt, out: &mut Vec<u8>) {
    fn tag(n: &Nbt) -> u8 { match n { Nbt::S(_) => 8, Nbt::B(_) => 1, Nbt::C(_) => 10 } }
    fn payload(n: &Nbt, out: &mut Vec<u8>) {
        match n { Nbt::S(s) => { out.extend((s.len() as u16).to_be_bytes()); out.extend(s.as_bytes()); } Nbt::B(b) => out.push(u8::from(*b)),
            Nbt::C(es) => { for (k, v) in es { out.push(tag(v)); out.extend((k.len() as u16).to_be_bytes()); out.extend(k.as_bytes()); payload(v, out); } out.push(0); } }
    }
    out.push(tag(n)); payload(n, out);
}

fn nbt_case(rng: &mut Rng) -> Case {
    let tree = gen_nbt(rng, 0);
    let text = serde_json::to_string(&nbt_json(&tree)).unwrap();
    let real = encode_real("configuration.Disconnect", &[V::B(text.clone().into_bytes())]);
    let mut reference = vec![]; nbt_ref(&tree, &mut reference);
    let (observed, oracle) = match &real {
        Ok((id, b)) => { let mut why = vec![];
            if *id != 2 { why.push(format!("packet id {id} != protocol id 2")); }
            if *b != reference { why.push(format!("compound text component {text}: layout {} != network NBT {}", hex(b), hex(&reference))); }
            // and back: the reader yields a text that is the same JSON value
            match decode_real("configuration.Disconnect", b) {
                Ok((vals, 0)) => match vals.first() { Some(V::B(t)) => { if serde_json::from_slice::<serde_json::Value>(t).ok() != Some(nbt_json_back(&tree)) { why.push(format!("decoded back as {}", String::from_utf8_lossy(t))); } } _ => why.push("decoded to something else than a text".into()) },
                Ok((_, rest)) => why.push(format!("decoding left {rest} bytes")),
                Err(e) => why.push(format!("the reader refuses the writer's bytes: {e}")),
            }
            (format!("id={id} {}", hex(b)), if why.is_empty() { None } else { Some(why.join("; ")) }) }
        Err(e) => (format!("err {e}"), Some(format!("encoder failed on {text}: {e}"))),
    };
    Case { request: format!("c09.nbt {}", nbt_tok(&tree)), observed, oracle, class: "enc:compound-text".into() }
}

pub fn run(a: &Args) {
    let mut rng = Rng::new(a.seed);
    let mut cases = vec![];
    for line in read_corpus(&a.corpus) {
        let t: Vec<&str> = line.split_whitespace().collect();
        match t.as_slice() {
            ["c09.varint", i] => cases.push(varint_case(i.parse().unwrap())),
            ["c09.varlong", i] => cases.push(varlong_case(i.parse().unwrap())),
            ["c09.unvarint", h] => cases.push(unvar_case(false, &unhex(h).unwrap())),
            ["c09.unvarlong", h] => cases.push(unvar_case(true, &unhex(h).unwrap())),
            ["c09.dec", name, h] => if let Some(pk) = PACKETS.iter().find(|p| p.name == *name) { cases.push(dec_case(pk, &unhex(h).unwrap(), None, "dec-corpus")) },
            _ => {}
        }
    }
    if a.cases == 0 { write_cases(&a.out, &cases).unwrap(); return; }
    // VarInt / VarLong: every group boundary ±1, powers of two, negatives, extremes, random
    let mut ints: Vec<i64> = vec![0, 1, -1, i64::from(i32::MAX), i64::from(i32::MIN), i64::MAX, i64::MIN];
    for k in 0..64 { let p = 1i64.wrapping_shl(k); for d in [-1i64, 0, 1] { ints.push(p.wrapping_add(d)); ints.push(p.wrapping_add(d).wrapping_neg()); } }
    for g in 1..10 { let p = 1i64 << (7 * g); for d in [-1i64, 0, 1] { ints.push(p.wrapping_add(d)); } }
    let nrand = a.cases / 8;
    for _ in 0..nrand { ints.push(rng.next() as i64 >> rng.below(64)); }
    for &i in &ints {
        cases.push(varlong_case(i));
        cases.push(varint_case(i as i32));
    }
    // arbitrary byte strings through the readers (over-long, truncated, continuation on the last group)
    for _ in 0..a.cases / 10 {
        let n = rng.range(0, 12) as usize;
        let mut b = rng.bytes(n);
        if rng.chance(1, 2) { for x in b.iter_mut() { *x |= 0x80; } if let Some(l) = b.last_mut() { if rng.chance(1, 2) { *l &= 0x7f; } } }
        cases.push(unvar_case(false, &b));
        cases.push(unvar_case(true, &b));
    }
    // compound text components (every message of the shipped localisation is one)
    for _ in 0..(a.cases / 20).max(50) { cases.push(nbt_case(&mut rng)); }
    // packets: encode boundary-dense values, decode them back (with and without trailing bytes)
    let per = (a.cases / PACKETS.len()).max(4);
    for pk in PACKETS {
        let n = if pk.sch.is_empty() { 2 } else { per };
        for k in 0..n {
            let vals = gen_vals(&mut rng, pk);
            let (c, bytes) = enc_case(pk, &vals);
            let ok = c.oracle.is_none() || !c.observed.starts_with("err");
            cases.push(c);
            if !ok { continue; }
            let trailing = if k % 3 == 0 { rng.range(1, 5) as usize } else { 0 };
            let mut b = bytes.clone();
            b.extend(rng.bytes(trailing));
            cases.push(dec_case(pk, &b, Some((&vals, trailing)), "dec-roundtrip"));
            // truncation at a random offset, and enum ordinals just outside the table
            if !bytes.is_empty() && k % 4 == 1 {
                let cut = rng.below(bytes.len() as u64) as usize;
                cases.push(dec_case(pk, &bytes[..cut], None, "dec-truncated"));
            }
        }
        // enum ordinals outside the range: re-encode with the reference encoder
        for (fi, f) in pk.sch.iter().enumerate() {
            if let F::Req(Ty::Enum(lo, hi)) = f {
                // just outside the table, extremes, and ordinals that only become valid when cut to 8 or 16 bits
                for bad in [lo - 1, hi + 1, -1, i32::MAX, i32::MIN, hi + 128, lo + 256, hi + 256, lo + 512, hi + 65536, lo - 256, i32::MIN + lo] {
                    let mut vals = gen_vals(&mut rng, pk);
                    for v in vals.iter_mut() { if let V::B(b) = v { b.truncate(64); while std::str::from_utf8(b).is_err() { b.pop(); } } }
                    vals[fi] = V::I(i128::from(bad));
                    let b = ref_encode(pk, &vals);
                    cases.push(dec_case(pk, &b, None, "dec-bad-enum"));
                }
            }
        }
        // invalid UTF-8 in the first string field
        if let Some(fi) = pk.sch.iter().position(|f| matches!(f, F::Req(Ty::Str) | F::Req(Ty::Text))) {
            let mut vals = gen_vals(&mut rng, pk);
            for v in vals.iter_mut() { if let V::B(b) = v { b.truncate(32); while std::str::from_utf8(b).is_err() { b.pop(); } } }
            vals[fi] = V::B(rng.pick(&[vec![0xffu8], vec![0xc0, 0x80], vec![0xed, 0xa0, 0x80], vec![0xf4, 0x90, 0x80, 0x80], vec![b'a', 0xe2, 0x82]]).clone());
            let b = ref_encode(pk, &vals);
            cases.push(dec_case(pk, &b, None, "dec-bad-utf8"));
        }
    }
    write_cases(&a.out, &cases).expect("write cases");
    println!("c09: {} cases", cases.len());
}
