//! C19 — the real gRPC discovery / strategy adapters against an in-process tonic mock generated
//! from the repository's own .proto files, vs. the Lean conversion model, plus field-wise oracles.
use crate::util::*;
use passage_adapters::discovery::DiscoveryAdapter;
use passage_adapters::strategy::StrategyAdapter;
use passage_adapters::Target;
use passage_adapters_grpc::{GrpcDiscoveryAdapter, GrpcStrategyAdapter};
use std::collections::HashMap;
use std::net::{IpAddr, SocketAddr};
use std::sync::{Arc, Mutex};

pub mod pb { tonic::include_proto!("scrayosnet.passage.adapter"); }

#[derive(Default)]
struct Shared { disc_reply: Vec<pb::Target>, sel_reply: Option<Option<pb::Target>>, sel_error: bool, last_req: Option<pb::SelectRequest>,
    /// concurrent phase: answer every request with its own first candidate
    echo_first: bool }

#[derive(Clone)]
struct Mock(Arc<Mutex<Shared>>);

#[tonic::async_trait]
impl pb::discovery_server::Discovery for Mock {
    async fn get_targets(&self, _r: tonic::Request<pb::TargetRequest>) -> Result<tonic::Response<pb::TargetsResponse>, tonic::Status> {
        Ok(tonic::Response::new(pb::TargetsResponse { targets: self.0.lock().unwrap().disc_reply.clone() }))
    }
}
#[tonic::async_trait]
impl pb::strategy_server::Strategy for Mock {
    async fn select_target(&self, r: tonic::Request<pb::SelectRequest>) -> Result<tonic::Response<pb::SelectResponse>, tonic::Status> {
        let mut s = self.0.lock().unwrap();
        let r = r.into_inner();
        if s.echo_first { return Ok(tonic::Response::new(pb::SelectResponse { target: r.targets.first().cloned() })); }
        s.last_req = Some(r);
        if s.sel_error { return Err(tonic::Status::internal("scripted")); }
        Ok(tonic::Response::new(pb::SelectResponse { target: s.sel_reply.clone().flatten() }))
    }
}

fn md_str(m: &[(String, String)]) -> String { let mut v: Vec<String> = m.iter().map(|(k, v)| format!("{}={}", hex(k.as_bytes()), hex(v.as_bytes()))).collect(); v.sort(); v.join(";") }
fn wire_str(w: &pb::Target) -> String {
    let md: Vec<(String, String)> = w.meta.iter().map(|e| (e.key.clone(), e.value.clone())).collect();
    match &w.address { None => format!("{}/-/0/{}", hex(w.identifier.as_bytes()), md_str(&md)), Some(a) => format!("{}/{}/{}/{}", hex(w.identifier.as_bytes()), hex(a.hostname.as_bytes()), a.port, md_str(&md)) }
}
/// wire target token for the model: metadata in reply order (duplicates matter)
fn wire_tok(w: &pb::Target) -> String {
    let md = w.meta.iter().map(|e| format!("{}={}", hex(e.key.as_bytes()), hex(e.value.as_bytes()))).collect::<Vec<_>>().join(";");
    match &w.address { None => format!("{}/-/0/{md}", hex(w.identifier.as_bytes())), Some(a) => format!("{}/{}/{}/{md}", hex(w.identifier.as_bytes()), hex(a.hostname.as_bytes()), a.port) }
}
fn target_str(t: &Target) -> String {
    let md: Vec<(String, String)> = t.meta.iter().map(|(k, v)| (k.clone(), v.clone())).collect();
    format!("{}/{}/{}/{}", hex(t.identifier.as_bytes()), hex(t.address.ip().to_string().as_bytes()), t.address.port(), md_str(&md))
}
fn ip_tok(h: &str) -> String { format!("ip={}:{}", hex(h.as_bytes()), h.parse::<IpAddr>().map_or("-".to_string(), |ip| hex(ip.to_string().as_bytes()))) }

const IPS: &[&str] = &["10.0.0.1", "127.0.0.1", "0.0.0.0", "255.255.255.255", "::1", "::", "2001:db8::1", "2001:db8:0:0:1:0:0:1", "::ffff:10.1.2.3", "fe80::1", "2001:0db8:0000:0000:0000:0000:0000:0001", "FE80::A", "0064:ff9b:0000:0000:0000:0000:192.168.100.200", "0000:0000:0000:0000:0000:ffff:10.100.200.30", "2001:0db8:0000:0000:0000:0000:1.2.3.4"];
const BAD_HOSTS: &[&str] = &["", "localhost", "10.0.0", "10.0.0.256", "[::1]", "[10.0.0.7]", "10.0.0.7]", "[[2001:db8::7", "[2001:db8::7]", "::1%eth0", "1.2.3.4:80", "mc.example.org", " 10.0.0.1", "2001:db8::g"];

fn gen_md(rng: &mut Rng, dups: bool) -> Vec<(String, String)> {
    let n = rng.below(4) as usize;
    let mut v: Vec<(String, String)> = (0..n).map(|_| (rng.pick(&["region", "players", "", "k é"]).to_string(), rng.pick(&["eu", "", "10", "v=;/"]).to_string())).collect();
    if !dups { let mut seen = std::collections::HashSet::new(); v.retain(|(k, _)| seen.insert(k.clone())); }
    v
}

/// a status backend that takes 300 ms per answer and answers concurrently
#[derive(Clone)]
struct SlowStatus(Arc<std::sync::atomic::AtomicUsize>, Arc<std::sync::atomic::AtomicUsize>, Arc<Mutex<Vec<pb::StatusRequest>>>);
#[tonic::async_trait]
impl pb::status_server::Status for SlowStatus {
    async fn get_status(&self, r: tonic::Request<pb::StatusRequest>) -> Result<tonic::Response<pb::StatusResponse>, tonic::Status> {
        use std::sync::atomic::Ordering::SeqCst;
        self.2.lock().unwrap().push(r.into_inner());
        let now = self.0.fetch_add(1, SeqCst) + 1;
        self.1.fetch_max(now, SeqCst);
        tokio::time::sleep(std::time::Duration::from_millis(300)).await;
        self.0.fetch_sub(1, SeqCst);
        Ok(tonic::Response::new(pb::StatusResponse { status: Some(pb::StatusData { version: Some(pb::ProtocolVersion { name: "x".into(), protocol: 767 }), players: None, description: None, favicon: None, enforces_secure_chat: None }) }))
    }
}

/// C16 through the gRPC status adapter: twenty clients ask for the status at once; a further client's request is answered as fast
/// as the backend answers one request, not behind the others' (one long-lived adapter instance serves every connection)
pub fn status_overlap_case() -> Case {
    use passage_adapters::status::StatusAdapter;
    let rt = tokio::runtime::Builder::new_multi_thread().worker_threads(4).enable_all().build().unwrap();
    let lat_peak_notes = rt.block_on(async {
        let listener = tokio::net::TcpListener::bind("127.0.0.1:0").await.unwrap();
        let port = listener.local_addr().unwrap().port();
        let svc = SlowStatus(Arc::new(0.into()), Arc::new(0.into()), Arc::new(Mutex::new(vec![])));
        let peak = svc.1.clone();
        let seen = svc.2.clone();
        tokio::spawn(tonic::transport::Server::builder().add_service(pb::status_server::StatusServer::new(svc)).serve_with_incoming(tokio_stream::wrappers::TcpListenerStream::new(listener)));
        tokio::time::sleep(std::time::Duration::from_millis(50)).await;
        let adapter = Arc::new(passage_adapters_grpc::GrpcStatusAdapter::new(format!("http://127.0.0.1:{port}")).await.expect("status adapter"));
        let client: SocketAddr = "192.0.2.7:50000".parse().unwrap();
        let others: Vec<_> = (0..20).map(|_| { let a = adapter.clone(); tokio::spawn(async move { let _ = a.status(&client, ("h", 1), 767).await; }) }).collect();
        tokio::time::sleep(std::time::Duration::from_millis(30)).await;
        let t0 = std::time::Instant::now();
        let victim: SocketAddr = "203.0.113.7:40000".parse().unwrap();
        let ok = adapter.status(&victim, ("play.example.org", 25577), 767).await.is_ok();
        let lat = t0.elapsed();
        for o in others { let _ = o.await; }
        // what the backend was told about that client, and a handshake announcing a negative protocol version
        let mut notes = vec![];
        match seen.lock().unwrap().iter().find(|r| r.client_address.as_ref().is_some_and(|a| a.hostname == "203.0.113.7")) {
            Some(r) => { let (c, sv) = (r.client_address.clone().unwrap(), r.server_address.clone());
                if c.port != 40000 || sv.as_ref().is_none_or(|a| a.hostname != "play.example.org" || a.port != 25577) || r.protocol != 767 { notes.push(format!("the status backend was told client {}:{}, server {:?}, protocol {} for a request from 203.0.113.7:40000 to play.example.org:25577 with protocol 767", c.hostname, c.port, sv.map(|a| (a.hostname, a.port)), r.protocol)); } }
            None => notes.push("the status backend never saw the client's address 203.0.113.7".to_string()),
        }
        let a2 = adapter.clone();
        if tokio::spawn(async move { a2.status(&victim, ("h", 1), -1).await.is_ok() }).await.is_err() { notes.push("the status adapter panicked on protocol version -1".to_string()); }
        (if ok { Some(lat) } else { None }, peak.load(std::sync::atomic::Ordering::SeqCst), notes)
    });
    let (lat, peak, notes) = lat_peak_notes;
    let served = lat.is_some_and(|d| d.as_millis() < 1000);
    Case { request: format!("c16.run proxy=0 limiter=0 gap=0 stalled=post detail=grpc-status-backend-20-waiting latency_us={}", lat.map_or(0, |d| d.as_micros())), observed: if served { "served" } else { "blocked" }.into(),
        oracle: if served && notes.is_empty() { None } else if served { Some(notes.join("; ")) } else { Some(format!("with 20 other status requests in flight at a backend that answers each in 300 ms (at most {peak} reached it at once), a further client's status took {:?}", lat)) },
        class: "grpc-status-backend".into() }
}

pub fn run(a: &Args) {
    let mut rng = Rng::new(a.seed);
    let rt = tokio::runtime::Builder::new_multi_thread().worker_threads(2).enable_all().build().unwrap();
    let shared = Arc::new(Mutex::new(Shared::default()));
    let disc = rt.block_on(async {
        let listener = tokio::net::TcpListener::bind("127.0.0.1:0").await.unwrap();
        let port = listener.local_addr().unwrap().port();
        let m = Mock(shared.clone());
        tokio::spawn(tonic::transport::Server::builder()
            .add_service(pb::discovery_server::DiscoveryServer::new(m.clone()))
            .add_service(pb::strategy_server::StrategyServer::new(m))
            .serve_with_incoming(tokio_stream::wrappers::TcpListenerStream::new(listener)));
        tokio::time::sleep(std::time::Duration::from_millis(50)).await;
        let url = format!("http://127.0.0.1:{port}");
        (GrpcDiscoveryAdapter::new(url.clone()).await.expect("discovery adapter"), GrpcStrategyAdapter::new(url.clone()).await.expect("strategy adapter"), url)
    });
    let (disc, strat, url) = (disc.0, disc.1, disc.2);
    // the same adapters as the application builds and wraps them (configuration value -> factory -> Dyn wrapper)
    let (disc_app, strat_app) = rt.block_on(async {
        (passage::adapter::discovery::DynDiscoveryAdapter::from_config(passage::config::DiscoveryAdapter::Grpc(passage::config::GrpcDiscovery { address: url.clone() })).await.expect("discovery through the factory"),
         passage::adapter::strategy::DynStrategyAdapter::from_config(passage::config::StrategyAdapter::Grpc(passage::config::GrpcStrategy { address: url.clone() })).await.expect("strategy through the factory"))
    });
    let mut cases = vec![];
    for n in 0..a.cases {
        if n % 2 == 0 {
            // discovery replies: valid targets in every textual form, with occasional malformed ones
            let k = rng.below(5) as usize;
            let malformed = rng.chance(1, 3);
            let bad_at = rng.below(k.max(1) as u64) as usize;
            // one reply in four lists servers twice under one identifier (once per address family, say), next to each other
            let dup_ids = rng.chance(1, 4);
            let reply: Vec<pb::Target> = (0..k).map(|i| {
                let bad = malformed && i == bad_at;
                let kind = if bad { rng.below(3) } else { 9 };
                let host = if kind == 1 { rng.pick(BAD_HOSTS).to_string() } else { rng.pick(IPS).to_string() };
                let port = if kind == 2 { *rng.pick(&[65536u32, 70000, u32::MAX]) } else { *rng.pick(&[0u32, 1, 25565, 65535]) };
                pb::Target { identifier: if dup_ids { format!("srv-{}", i / 2) } else { format!("srv-{i}") }, address: if kind == 0 { None } else { Some(pb::Address { hostname: host, port }) },
                    meta: gen_md(&mut rng, true).into_iter().map(|(key, value)| pb::MetaEntry { key, value }).collect() }
            }).collect();
            shared.lock().unwrap().disc_reply = reply.clone();
            let res = if n % 4 == 0 { rt.block_on(disc_app.discover()) } else { rt.block_on(disc.discover()) };
            let mut why = vec![];
            // oracle: field-wise equality, or an error for any malformed entry
            let expect: Option<Vec<(String, SocketAddr, HashMap<String, String>)>> = reply.iter().map(|w| {
                let a = w.address.as_ref()?;
                let ip: IpAddr = a.hostname.parse().ok()?;
                let port = u16::try_from(a.port).ok()?;
                Some((w.identifier.clone(), SocketAddr::new(ip, port), w.meta.iter().map(|e| (e.key.clone(), e.value.clone())).collect()))
            }).collect();
            match (&expect, &res) {
                (Some(e), Ok(got)) => if got.len() != e.len() || got.iter().zip(e).any(|(g, (id, ad, md))| &g.identifier != id || &g.address != ad || &g.meta != md) { why.push("a discovered target reached the router altered".to_string()); },
                (Some(_), Err(err)) => why.push(format!("well-formed discovery reply rejected: {err}")),
                (None, Ok(_)) => why.push("malformed address or port above 65535 accepted".into()),
                (None, Err(_)) => {}
            }
            let mut req = "c19.disc".to_string();
            for w in &reply { if let Some(ad) = &w.address { req.push(' '); req.push_str(&ip_tok(&ad.hostname)); } req.push_str(&format!(" w={}", wire_tok(w))); }
            let observed = match &res { Ok(ts) => std::iter::once("ok".to_string()).chain(ts.iter().map(target_str)).collect::<Vec<_>>().join(" "), Err(_) => "err".into() };
            cases.push(Case { request: req, observed, oracle: if why.is_empty() { None } else { Some(why.join("; ")) },
                class: format!("disc:{}:{}", if malformed && k > 0 { "malformed" } else { "wellformed" }, if reply.iter().any(|w| w.address.as_ref().is_some_and(|a| a.hostname.contains(':'))) { "v6" } else { "v4" }) });
        } else {
            let k = rng.below(5) as usize;
            let cands: Vec<Target> = (0..k).map(|i| Target { identifier: format!("c-{}", if rng.chance(1, 4) { 0 } else { i }), address: SocketAddr::new(rng.pick(IPS).parse().unwrap(), *rng.pick(&[0u16, 1, 25565, 65535])), meta: gen_md(&mut rng, false).into_iter().collect() }).collect();
            let client = SocketAddr::new(rng.pick(IPS).parse().unwrap(), *rng.pick(&[0u16, 40000, 65535]));
            // whatever text the client put into its handshake, verbatim: trailing dots, case, spaces, markers after a NUL
            let server = (rng.pick(&["mc.example.org", "", "ünï", "10.0.0.1", "play.example.org.", "eu.play.example.org..", ".", "Play.Example.ORG", " padded ", "mc.example.org\u{0}FML3\u{0}", "[2001:db8::1]", "xn--nxasmq6b.example"]).to_string(), *rng.pick(&[0u16, 25565, 65535]));
            let proto = *rng.pick(&[0i32, 767, 47, i32::MAX, -1, i32::MIN]);
            let user = rng.pick(&["Notch", "Ünï", "a&b", ""]).to_string();
            let uid = uuid::Uuid::from_u128(rng.next() as u128 * 0x1_0000_0001);
            // reply: echo a candidate as the service received it, a foreign/malformed target, none, or an error
            let mode = if k == 0 { rng.range(1, 3) } else { rng.below(4) };
            { let mut s = shared.lock().unwrap(); s.sel_error = mode == 3; s.sel_reply = None; s.last_req = None; }
            let pick = if k > 0 { rng.below(k as u64) as usize } else { 0 };
            let custom = match mode {
                1 => Some(None),
                2 => Some(Some(pb::Target { identifier: if k > 0 && rng.chance(1, 2) { cands[pick].identifier.clone() } else if rng.chance(1, 3) { String::new() } else { "x".into() }, address: if rng.chance(1, 3) { None } else { Some(pb::Address { hostname: if rng.chance(1, 2) { rng.pick(BAD_HOSTS).to_string() } else { rng.pick(IPS).to_string() }, port: *rng.pick(&[25565u32, 65536, 65535]) }) }, meta: vec![] })),
                _ => None,
            };
            // for "echo" the reply is built from the candidate by the harness's own conversion
            let echo = |t: &Target| pb::Target { identifier: t.identifier.clone(), address: Some(pb::Address { hostname: t.address.ip().to_string(), port: u32::from(t.address.port()) }), meta: t.meta.iter().map(|(k, v)| pb::MetaEntry { key: k.clone(), value: v.clone() }).collect() };
            let reply: Option<Option<pb::Target>> = match mode { 0 => Some(Some(echo(&cands[pick]))), 3 => None, _ => custom };
            shared.lock().unwrap().sel_reply = reply.clone();
            let res = std::panic::catch_unwind(std::panic::AssertUnwindSafe(|| if n % 4 == 1 { rt.block_on(strat_app.select(&client, (&server.0, server.1), proto, (&user, &uid), cands.clone())) } else { rt.block_on(strat.select(&client, (&server.0, server.1), proto, (&user, &uid), cands.clone())) }));
            let got_req = shared.lock().unwrap().last_req.clone();
            let mut why = vec![];
            let res = match res { Ok(r) => r, Err(_) => { why.push(format!("the adapter panicked on protocol version {proto}")); Err(passage_adapters::Error::AdapterUnavailable { adapter_type: "strategy", reason: "panicked" }) } };
            match &got_req {
                None => why.push("the strategy service was not called".to_string()),
                Some(r) => {
                    let ok_addr = |a: &Option<pb::Address>, h: &str, p: u16| a.as_ref().is_some_and(|a| a.hostname == h && a.port == u32::from(p));
                    if !ok_addr(&r.client_address, &client.ip().to_string(), client.port()) { why.push("client address altered in the request".into()); }
                    if !ok_addr(&r.server_address, &server.0, server.1) { why.push("server address altered in the request".into()); }
                    if r.username != user || r.user_id != uid.to_string() || r.protocol as i32 != proto { why.push("player or protocol altered in the request".into()); }
                    if r.targets.len() != cands.len() || r.targets.iter().zip(&cands).any(|(w, t)| wire_str(w) != wire_str(&echo(t))) { why.push("candidates altered, reordered or dropped in the request".into()); }
                }
            }
            match (mode, &res) {
                (0, Ok(Some(t))) => { let c = &cands[pick]; if t.identifier != c.identifier || t.address != c.address || t.meta != c.meta { why.push("the chosen candidate came back altered".into()); } }
                (0, other) => why.push(format!("the chosen candidate (address {}) did not come back: {:?}", cands[pick].address, other.as_ref().map(|o| o.as_ref().map(|t| t.identifier.clone())).map_err(|e| e.to_string()))),
                (1, Ok(None)) => {}
                (1, other) => why.push(format!("empty reply not returned as none: {:?}", other.is_ok())),
                (2, r) => { let w = reply.clone().flatten().unwrap(); let valid = w.address.as_ref().is_some_and(|a| a.hostname.parse::<IpAddr>().is_ok() && a.port <= 65535); if valid != r.is_ok() { why.push(format!("reply with address {:?}: accepted={} although valid={}", w.address.clone().map(|a| (a.hostname, a.port)), r.is_ok(), valid)); }
                    // whatever well-formed target the service names is the one returned: identifier, address and metadata as replied
                    if valid { let ad = w.address.as_ref().unwrap(); let want = SocketAddr::new(ad.hostname.parse().unwrap(), ad.port as u16);
                        match r { Ok(Some(t)) => if t.identifier != w.identifier || t.address != want || !t.meta.is_empty() { why.push(format!("the service named {}@{want} and {}@{} came back", w.identifier, t.identifier, t.address)); },
                                  Ok(None) => why.push("a well-formed reply came back as none".into()), Err(_) => {} } } }
                (_, Ok(_)) => why.push("service error not reported".into()),
                (_, Err(_)) => {}
            }
            let mut req = format!("c19.select client={}:{} server={}:{} proto={proto} user={} uid={}", hex(client.ip().to_string().as_bytes()), client.port(), hex(server.0.as_bytes()), server.1, hex(user.as_bytes()), hex(uid.to_string().as_bytes()));
            for c in &cands { req.push_str(&format!(" c={}", wire_tok(&echo(c)))); }
            match &reply { None => req.push_str(" reply=error"), Some(None) => req.push_str(" reply=none"), Some(Some(w)) => { if let Some(ad) = &w.address { req.push(' '); req.push_str(&ip_tok(&ad.hostname)); } req.push_str(&format!(" reply={}", wire_tok(w))); } }
            let observed = format!("req {} => {}", match &got_req { None => "-".to_string(), Some(r) => format!("{}:{} {}:{} {} {} {} [{}]",
                    hex(r.client_address.as_ref().map_or("", |a| &a.hostname).as_bytes()), r.client_address.as_ref().map_or(0, |a| a.port), hex(r.server_address.as_ref().map_or("", |a| &a.hostname).as_bytes()), r.server_address.as_ref().map_or(0, |a| a.port),
                    r.protocol, hex(r.username.as_bytes()), hex(r.user_id.as_bytes()), r.targets.iter().map(wire_str).collect::<Vec<_>>().join(" ")) },
                match &res { Ok(None) => "ok none".to_string(), Ok(Some(t)) => format!("ok {}", target_str(t)), Err(_) => "err".into() });
            let v6 = mode == 0 && cands[pick].address.is_ipv6();
            cases.push(Case { request: req, observed, oracle: if why.is_empty() { None } else { Some(why.join("; ")) }, class: format!("select:{}:{}", ["echo", "none", "custom", "error"][mode as usize], if v6 { "v6" } else { "other" }) });
        }
    }
    // several logins at once on the one long-lived adapter: every caller's request carries ITS candidates and it gets ITS pick
    // (the service echoes the first candidate of whatever request reaches it)
    {
        { let mut s = shared.lock().unwrap(); s.sel_error = false; s.sel_reply = None; s.echo_first = true; }
        let strat = Arc::new(strat);
        let rounds = if a.thorough { 400 } else { 60 };
        let foreign: u64 = rt.block_on(async {
            let hs: Vec<_> = (0..8u64).map(|t| { let strat = strat.clone(); tokio::spawn(async move {
                let mut bad = 0u64;
                for i in 0..rounds {
                    let mine = Target { identifier: format!("task{t}-call{i}"), address: SocketAddr::new(IpAddr::from([10, 0, t as u8, (i % 250) as u8]), 25565), meta: HashMap::from([("owner".to_string(), format!("{t}/{i}"))]) };
                    let other = Target { identifier: format!("task{t}-spare{i}"), address: SocketAddr::new(IpAddr::from([10, 1, t as u8, (i % 250) as u8]), 25565), meta: HashMap::new() };
                    let client: SocketAddr = "192.0.2.7:50000".parse().unwrap();
                    let uid = uuid::Uuid::from_u128(u128::from(t) << 32 | u128::from(i));
                    match strat.select(&client, ("mc.example.org", 25565), 767, ("Player", &uid), vec![mine.clone(), other]).await { Ok(Some(got)) if got.identifier == mine.identifier && got.address == mine.address && got.meta == mine.meta => {}, _ => bad += 1 }
                }
                bad }) }).collect();
            let mut total = 0; for h in hs { total += h.await.unwrap_or(rounds); } total });
        shared.lock().unwrap().echo_first = false;
        let n_calls = 8 * rounds;
        // (the verdict rides on a copy of the last sequential call's request line, which the model answers as before)
        let (request, observed) = cases.last().map(|c| (c.request.clone(), c.observed.clone())).unwrap_or_default();
        cases.push(Case { request, observed,
            oracle: if foreign == 0 { None } else { Some(format!("{foreign} of {n_calls} concurrent select calls on one adapter came back with a target that was not the caller's first candidate (requests mixed up between callers)")) }, class: "select:concurrent".into() });
    }
    // the model's concrete IPv4 text functions against std::net: every host text of the lists above, then generated
    // ones — canonical texts over the octet classes and near-misses of them (leading zeros, 256 and up, missing, empty
    // and extra groups, blanks, signs, other digits and separators)
    {
        let n_v4 = (a.cases / 3).max(200);
        let mut texts: Vec<(String, &'static str)> = IPS.iter().chain(BAD_HOSTS).map(|s| (s.to_string(), "listed")).collect();
        const OCT: &[&str] = &["0", "1", "9", "10", "99", "100", "199", "200", "249", "250", "255"];
        const NEAR: &[&str] = &["00", "01", "000", "001", "010", "256", "260", "300", "999", "1000", "0255", "", " 1", "1 ", "+1", "-1", "1a", "a", "0x1", "\u{663}", "1,2", "1:2", "2 5", "25 ", "\t7"];
        for i in 0..n_v4 {
            let mut groups: Vec<String> = (0..4).map(|_| if rng.chance(1, 2) { rng.pick(OCT).to_string() } else { rng.below(256).to_string() }).collect();
            let valid = i % 2 == 0;
            if !valid {
                match rng.below(8) {
                    0 => { groups.pop(); }
                    1 => groups.push(rng.pick(OCT).to_string()),
                    2 => { let k = rng.below(4) as usize; groups[k] = String::new(); }
                    3 => { let k = rng.below(4) as usize; groups[k] = format!("0{}", groups[k]); }
                    4 => { let k = rng.below(4) as usize; groups[k] = (256 + rng.below(800)).to_string(); }
                    _ => { let k = rng.below(4) as usize; groups[k] = rng.pick(NEAR).to_string(); }
                }
            }
            let mut t = groups.join(".");
            if !valid { match rng.below(12) { 0 => t.push('.'), 1 => t.insert(0, '.'), 2 => t.push(' '), 3 => t.insert(0, ' '), 4 => t = t.replacen('.', ",", 1), 5 => t = t.replacen('.', "..", 1), 6 => t.push_str(":80"), 7 => t.push('\n'), _ => {} } }
            texts.push((t, if valid { "canonical" } else { "near-miss" }));
        }
        for (t, kind) in texts {
            let std_says = t.parse::<std::net::Ipv4Addr>().ok();
            let mut why = vec![];
            // std's own agreement between the two parsers and the printer (an oracle on the platform, kept separate from the model)
            let as_ip = t.parse::<IpAddr>().ok();
            if let Some(v4) = std_says { if as_ip != Some(IpAddr::V4(v4)) { why.push(format!("IpAddr::from_str and Ipv4Addr::from_str differ on {t:?}")); } }
            let observed = match std_says { None => "v4 -".to_string(), Some(x) => { let o = x.octets(); format!("v4 {}.{}.{}.{} {}", o[0], o[1], o[2], o[3], hex(x.to_string().as_bytes())) } };
            cases.push(Case { request: format!("c19.v4 t={}", hex(t.as_bytes())), observed, oracle: if why.is_empty() { None } else { Some(why.join("; ")) },
                class: format!("v4text:{kind}:{}", if std_says.is_some() { "accepted" } else { "refused" }) });
        }
    }
    write_cases(&a.out, &cases).expect("write cases");
    println!("c19: {} calls", cases.len());
}
