//! C14–C17: the real `Listener` (and `passage::start`) on loopback TCP in real time, driven by a
//! small independent Minecraft client.  Each case starts its own server on its own port.
use crate::c05::RefCfb8;
use crate::conn::build as b;
use crate::conn::decode::{self, CbPacket, ClientPhase};
use crate::conn::frame;
use crate::conn::oracle::sign;
use crate::conn::scen::{AUTH_KEY, SESSION_KEY};
use crate::connrun::cookie_json;
use crate::util::*;
use passage_adapters::authentication::{AuthenticationAdapter, Profile};
use passage_adapters::discovery::DiscoveryAdapter;
use passage_adapters::filter::FilterAdapter;
use passage_adapters::localization::LocalizationAdapter;
use passage_adapters::status::StatusAdapter;
use passage_adapters::strategy::StrategyAdapter;
use passage_adapters::{Protocol, ServerStatus, ServerVersion, Target};
use passage_protocol::listener::{Listener, ParseConfig};
use passage_protocol::rate_limiter::RateLimiter;
use std::net::{IpAddr, Ipv4Addr, SocketAddr};
use std::sync::{Arc, Mutex};
use std::time::{Duration, Instant, SystemTime, UNIX_EPOCH};
use tokio::io::{AsyncReadExt, AsyncWriteExt};
use tokio::net::{TcpSocket, TcpStream};
use tokio::sync::Semaphore;
use tokio_util::sync::CancellationToken;
use uuid::Uuid;

// ---------------------------------------------------------------- adapters

type Seen = Arc<Mutex<Vec<String>>>;
#[derive(Debug)] pub struct LStatus(Seen);
#[derive(Debug)] pub struct LAuth(Seen);
#[derive(Debug)] pub struct LDisc { gate: Arc<Semaphore>, gated: bool }
#[derive(Debug)] pub struct LFilt(Seen);
#[derive(Debug)] pub struct LStrat(Seen);
#[derive(Debug)] pub struct LLoc;

impl StatusAdapter for LStatus {
    async fn status(&self, client_addr: &SocketAddr, s: (&str, u16), _p: Protocol) -> passage_adapters::Result<Option<ServerStatus>> {
        self.0.lock().unwrap().push(format!("status:{}", client_addr.ip()));
        // a status far larger than a small receive window, for clients that ask and then never read
        let favicon = if s.0 == "bigstatus" { Some(format!("data:image/png;base64,{}", "A".repeat(200_000))) } else { None };
        Ok(Some(ServerStatus { version: ServerVersion { name: "pv".into(), protocol: 767 }, players: None, description: None, favicon, enforces_secure_chat: None }))
    }
}
impl AuthenticationAdapter for LAuth {
    async fn authenticate(&self, client_addr: &SocketAddr, _s: (&str, u16), _p: Protocol, user: (&str, &Uuid), _ss: &[u8], _pk: &[u8]) -> passage_adapters::Result<Profile> {
        self.0.lock().unwrap().push(format!("auth:{}", client_addr.ip()));
        Ok(Profile { id: *user.1, name: user.0.to_string(), properties: vec![], profile_actions: vec![] })
    }
}
impl DiscoveryAdapter for LDisc {
    async fn discover(&self) -> passage_adapters::Result<Vec<Target>> {
        if self.gated { self.gate.acquire().await.unwrap().forget(); }
        Ok(vec![Target { identifier: "srv-0".into(), address: "10.0.0.1:25565".parse().unwrap(), meta: Default::default() }])
    }
}
impl FilterAdapter for LFilt {
    async fn filter(&self, client_addr: &SocketAddr, _s: (&str, u16), _p: Protocol, _u: (&str, &Uuid), targets: Vec<Target>) -> passage_adapters::Result<Vec<Target>> {
        self.0.lock().unwrap().push(format!("filter:{}", client_addr.ip()));
        Ok(targets)
    }
}
impl StrategyAdapter for LStrat {
    async fn select(&self, client_addr: &SocketAddr, _s: (&str, u16), _p: Protocol, _u: (&str, &Uuid), targets: Vec<Target>) -> passage_adapters::Result<Option<Target>> {
        self.0.lock().unwrap().push(format!("select:{}", client_addr.ip()));
        Ok(targets.into_iter().next())
    }
}
impl LocalizationAdapter for LLoc {
    async fn localize(&self, _l: Option<&str>, key: &str, _p: &[(&'static str, String)]) -> passage_adapters::Result<String> { Ok(format!("{{\"text\":\"{key}\"}}")) }
}

// ---------------------------------------------------------------- server

#[derive(Clone)]
pub struct SrvOpts {
    pub proxy: Option<(bool, bool)>,
    pub limiter: Option<usize>,
    pub timeout: Duration,
    pub secret: Option<Vec<u8>>,
    pub max_len: i32,
    pub expiry: u64,
    pub gated: bool,
    /// one idle listen()/stop cycle on the same Listener before the cycle under test
    pub warmup: bool,
    /// the same Listener is started again (for 1.2 s) after the cycle under test has returned
    pub cycle_after: bool,
    /// runtime workers of the server (0: one thread, as in every other case)
    pub workers: usize,
}
impl Default for SrvOpts {
    fn default() -> Self { SrvOpts { proxy: None, limiter: None, timeout: Duration::from_secs(3), secret: None, max_len: 10_000, expiry: 21_600, gated: false, warmup: false, cycle_after: false, workers: 0 } }
}

type L = Listener<LStatus, LDisc, LFilt, LStrat, LAuth, LLoc>;

pub fn build_listener(o: &SrvOpts, seen: &Seen, gate: &Arc<Semaphore>) -> L {
    Listener::new(Arc::new(LStatus(seen.clone())), Arc::new(LDisc { gate: gate.clone(), gated: o.gated }), Arc::new(LFilt(seen.clone())),
        Arc::new(LStrat(seen.clone())), Arc::new(LAuth(seen.clone())), Arc::new(LLoc))
        .with_rate_limiter(o.limiter.map(|n| RateLimiter::<IpAddr>::new(Duration::from_secs(3600), n)))
        .with_proxy_protocol(o.proxy.map(|(v1, v2)| ParseConfig { include_tlvs: false, allow_v1: v1, allow_v2: v2 }))
        .with_connection_timeout(o.timeout)
        .with_auth_secret(o.secret.clone())
        .with_max_packet_length(o.max_len)
        .with_auth_cookie_expiry(o.expiry)
}

pub struct Srv {
    pub port: u16,
    pub stop: CancellationToken,
    pub seen: Seen,
    pub gate: Arc<Semaphore>,
    /// when `Listener::listen` returned
    pub returned: Arc<Mutex<Option<Instant>>>,
    /// kernel thread id of the server's runtime thread
    pub tid: Arc<Mutex<Option<u64>>>,
}

pub fn free_port() -> u16 {
    let l = std::net::TcpListener::bind("127.0.0.1:0").expect("bind");
    l.local_addr().unwrap().port()
}

/// waits until a socket listens on the port (reads /proc/net/tcp; connecting would consume an accept)
pub fn wait_listening(port: u16) -> bool {
    let needle = format!(":{port:04X} ");
    for _ in 0..600 {
        if let Ok(t) = std::fs::read_to_string("/proc/net/tcp") {
            for line in t.lines().skip(1) {
                let f: Vec<&str> = line.split_whitespace().collect();
                if f.len() > 3 && format!("{} ", f[1]).ends_with(&needle) && f[3] == "0A" { return true; }
            }
        }
        std::thread::sleep(Duration::from_millis(5));
    }
    false
}

impl Srv {
    /// the real listener on its own thread and current-thread runtime
    pub fn start(o: &SrvOpts) -> Srv {
        // a port probed as free can be taken by a parallel case before the listener binds it: try again
        Self::start_opt(o).expect("the listener did not come up in three attempts (listen() fails or returns at once)")
    }
    pub fn start_opt(o: &SrvOpts) -> Option<Srv> {
        for _ in 0..3 { if let Some(s) = Self::try_start(o) { return Some(s); } }
        None
    }
    fn try_start(o: &SrvOpts) -> Option<Srv> {
        let port = free_port();
        let stop = CancellationToken::new();
        let seen: Seen = Arc::new(Mutex::new(vec![]));
        let gate = Arc::new(Semaphore::new(0));
        let returned = Arc::new(Mutex::new(None));
        let tid = Arc::new(Mutex::new(None));
        let tid2 = tid.clone();
        let (o2, stop2, seen2, gate2, ret2) = (o.clone(), stop.clone(), seen.clone(), gate.clone(), returned.clone());
        std::thread::spawn(move || {
            *tid2.lock().unwrap() = std::fs::read_link("/proc/thread-self").ok().and_then(|p| p.file_name().and_then(|n| n.to_str().and_then(|s| s.parse().ok())));
            let rt = if o2.workers > 0 { tokio::runtime::Builder::new_multi_thread().worker_threads(o2.workers).enable_all().build().unwrap() }
                else { tokio::runtime::Builder::new_current_thread().enable_all().build().unwrap() };
            rt.block_on(async move {
                let mut l = build_listener(&o2, &seen2, &gate2);
                if o2.warmup {
                    // an earlier cycle of the same Listener value: started, stopped while idle
                    let first = CancellationToken::new();
                    let f2 = first.clone();
                    tokio::spawn(async move { tokio::time::sleep(Duration::from_millis(30)).await; f2.cancel(); });
                    let _ = l.listen(("127.0.0.1", 0), first).await;
                }
                let _ = l.listen(("127.0.0.1", port), stop2).await;
                *ret2.lock().unwrap() = Some(Instant::now());
                if o2.cycle_after {
                    let again = CancellationToken::new();
                    let a2 = again.clone();
                    tokio::spawn(async move { tokio::time::sleep(Duration::from_millis(1200)).await; a2.cancel(); });
                    let _ = l.listen(("127.0.0.1", port), again).await;
                }
            });
            // the process would exit here: whatever is still running is cut
            rt.shutdown_timeout(Duration::from_millis(0));
        });
        if !wait_listening(port) { stop.cancel(); return None; }
        Some(Srv { port, stop, seen, gate, returned, tid })
    }
    /// CPU time (user + system) consumed so far by the server's thread, in milliseconds
    pub fn cpu_ms(&self) -> u64 {
        let Some(tid) = *self.tid.lock().unwrap() else { return 0 };
        let Ok(stat) = std::fs::read_to_string(format!("/proc/self/task/{tid}/stat")) else { return 0 };
        let rest = stat.rsplit_once(") ").map_or("", |x| x.1);
        let f: Vec<&str> = rest.split_whitespace().collect();
        let ticks: u64 = f.get(11).and_then(|s| s.parse().ok()).unwrap_or(0) + f.get(12).and_then(|s| s.parse().ok()).unwrap_or(0);
        ticks * 10
    }
    pub fn returned_at(&self) -> Option<Instant> { *self.returned.lock().unwrap() }
}

/// the application entry point with a configuration value (never returns: no stop signal but ctrl-c)
pub fn start_app(cfg: passage::config::Config) -> u16 {
    let mut cfg = cfg;
    for _ in 0..4 {
        let port: u16 = cfg.address.rsplit(':').next().unwrap().parse().unwrap();
        let c2 = cfg.clone();
        std::thread::spawn(move || {
            let rt = tokio::runtime::Builder::new_current_thread().enable_all().build().unwrap();
            let _ = rt.block_on(passage::start(c2)).map_err(|e| eprintln!("start failed: {e}"));
        });
        if wait_listening(port) { return port; }
        cfg.address = format!("127.0.0.1:{}", free_port());
    }
    panic!("the application did not come up in three attempts");
}

// ---------------------------------------------------------------- client

pub enum Recv { Packet(CbPacket), Closed, Timeout, Garbage }

pub struct Cli {
    pub s: TcpStream,
    enc: Option<(RefCfb8, RefCfb8)>,
    rx: Vec<u8>,
    pub phase: ClientPhase,
    pub bytes_in: usize,
    pub t0: Instant,
    pub should_auth: Option<bool>,
    pub got_transfer: bool,
    pub stored_auth: Option<Vec<u8>>,
    /// the server asked for the authentication cookie
    pub auth_requested: bool,
}

impl Cli {
    pub async fn connect(port: u16, from: Option<Ipv4Addr>) -> std::io::Result<Cli> {
        let sock = TcpSocket::new_v4()?;
        if let Some(ip) = from { sock.bind(SocketAddr::new(IpAddr::V4(ip), 0))?; }
        let s = sock.connect(SocketAddr::new(IpAddr::V4(Ipv4Addr::LOCALHOST), port)).await?;
        s.set_nodelay(true)?;
        Ok(Cli { s, enc: None, rx: vec![], phase: ClientPhase::Handshake, bytes_in: 0, t0: Instant::now(), should_auth: None, got_transfer: false, stored_auth: None, auth_requested: false })
    }
    pub async fn raw(&mut self, bytes: &[u8]) -> bool {
        let out = match self.enc.as_mut() { Some((c2s, _)) => c2s.enc(bytes), None => bytes.to_vec() };
        self.s.write_all(&out).await.is_ok()
    }
    pub async fn send(&mut self, payload: &[u8]) -> bool { self.raw(&frame(payload)).await }
    fn take_packet(&mut self) -> Option<Result<CbPacket, ()>> {
        let (len, used) = decode::read_varint(&self.rx)?;
        if len <= 0 { return Some(Err(())); }
        if self.rx.len() < used + len as usize { return None; }
        let payload: Vec<u8> = self.rx[used..used + len as usize].to_vec();
        self.rx.drain(..used + len as usize);
        Some(decode::decode_clientbound(self.phase, &payload).ok_or(()))
    }
    pub async fn recv(&mut self, max: Duration) -> Recv {
        let end = tokio::time::Instant::now() + max;
        loop {
            match self.take_packet() { Some(Ok(p)) => return Recv::Packet(p), Some(Err(())) => return Recv::Garbage, None => {} }
            let mut buf = [0u8; 4096];
            match tokio::time::timeout_at(end, self.s.read(&mut buf)).await {
                Err(_) => return Recv::Timeout,
                Ok(Ok(0)) | Ok(Err(_)) => return Recv::Closed,
                Ok(Ok(n)) => {
                    self.bytes_in += n;
                    let plain = match self.enc.as_mut() { Some((_, s2c)) => s2c.dec(&buf[..n]), None => buf[..n].to_vec() };
                    self.rx.extend(plain);
                }
            }
        }
    }
    /// reads and discards until the server closes; time since connect, or `None` when still open after `max`
    pub async fn wait_close(&mut self, max: Duration) -> Option<Duration> {
        let end = tokio::time::Instant::from_std(self.t0 + max);
        let mut buf = [0u8; 4096];
        loop {
            match tokio::time::timeout_at(end, self.s.read(&mut buf)).await {
                Err(_) => return None,
                Ok(Ok(0)) | Ok(Err(_)) => return Some(self.t0.elapsed()),
                Ok(Ok(n)) => { self.bytes_in += n; }
            }
        }
    }
    /// handshake + status request; the latency of the reply
    pub async fn status(&mut self, max: Duration) -> Option<Duration> {
        let t = Instant::now();
        self.send(&b::handshake(767, b"localhost", 25565, 1)).await;
        self.phase = ClientPhase::Status;
        self.send(&b::status_request()).await;
        match self.recv(max).await { Recv::Packet(CbPacket::StatusResponse(_)) => Some(t.elapsed()), _ => None }
    }
    /// the honest login as far as `upto`; returns the stage reached
    pub async fn login(&mut self, intent: i32, auth_cookie: Option<Vec<u8>>, upto: Stage, max: Duration) -> Stage {
        self.login_hold(intent, auth_cookie, upto, max, None).await
    }
    /// `hold`: at that stage signal `ready` and wait for `go` before continuing
    pub async fn login_hold(&mut self, intent: i32, auth_cookie: Option<Vec<u8>>, upto: Stage, max: Duration, hold: Option<(Stage, Arc<Semaphore>, Arc<Semaphore>)>) -> Stage {
        let pause = async |at: Stage| { if let Some((st, ready, go)) = &hold { if *st == at { ready.add_permits(1); go.acquire().await.unwrap().forget(); } } };
        if !self.send(&b::handshake(767, b"localhost", 25565, intent)).await { return Stage::Connected; }
        self.phase = ClientPhase::Login;
        if upto == Stage::Handshake { return Stage::Handshake; }
        self.send(&b::login_start(b"Tester", 0x0987_9557_e479_45a9_b434_a563_7767_4627)).await;
        pause(Stage::LoginStart).await;
        if upto == Stage::LoginStart { return Stage::LoginStart; }
        let mut token = None;
        loop {
            match self.recv(max).await {
                Recv::Packet(CbPacket::CookieRequest(k)) if k == SESSION_KEY => { self.send(&b::cookie_response(SESSION_KEY, None)).await; }
                Recv::Packet(CbPacket::CookieRequest(k)) if k == AUTH_KEY => { self.auth_requested = true; self.send(&b::cookie_response(AUTH_KEY, auth_cookie.as_deref())).await; }
                Recv::Packet(CbPacket::EncRequest { token: t, should_auth, .. }) => { token = Some(t); self.should_auth = Some(should_auth); break; }
                _ => return Stage::LoginStart,
            }
        }
        if upto == Stage::EncRequest { return Stage::EncRequest; }
        let secret = [0x42u8; 16];
        let pk = &passage_protocol::crypto::KEY_PAIR.1;
        let e = |v: &[u8]| passage_protocol::crypto::encrypt(pk, v).expect("rsa encrypt");
        let (sct, tct) = (e(&secret), e(&token.unwrap()));
        let mut p = vec![0x01];
        p.extend(crate::codec::ref_varint(sct.len() as i32)); p.extend(&sct);
        p.extend(crate::codec::ref_varint(tct.len() as i32)); p.extend(&tct);
        self.send(&p).await;
        self.enc = Some((RefCfb8::new(&secret), RefCfb8::new(&secret)));
        match self.recv(max).await { Recv::Packet(CbPacket::LoginSuccess { .. }) => {} _ => return Stage::EncRequest }
        self.phase = ClientPhase::Configuration;
        if upto == Stage::LoginSuccess { return Stage::LoginSuccess; }
        self.send(&b::login_ack()).await;
        self.send(&b::client_info(b"en_us")).await;
        pause(Stage::Configuration).await;
        if upto == Stage::Configuration { return Stage::Configuration; }
        loop {
            match self.recv(max).await {
                Recv::Packet(CbPacket::KeepAlive(id)) => { self.send(&b::keep_alive(id)).await; }
                Recv::Packet(CbPacket::StoreCookie { key, payload }) => { if key == AUTH_KEY { self.stored_auth = Some(payload); } }
                Recv::Packet(CbPacket::Transfer { .. }) => { self.got_transfer = true; return Stage::Transferred; }
                Recv::Packet(_) => {}
                _ => return Stage::Configuration,
            }
        }
    }
}

#[derive(Clone, Copy, PartialEq, Eq, Debug)]
pub enum Stage { Connected, Handshake, LoginStart, EncRequest, LoginSuccess, Configuration, Transferred }

pub fn rt() -> tokio::runtime::Runtime { tokio::runtime::Builder::new_current_thread().enable_all().build().unwrap() }

fn now_secs() -> u64 { SystemTime::now().duration_since(UNIX_EPOCH).unwrap().as_secs() }

/// runs `n` independent cases on up to 12 threads, keeping the order
fn par_cases<F: Fn(usize, &mut Rng) -> Case + Sync>(seed: u64, n: usize, f: F) -> Vec<Case> {
    let next = std::sync::atomic::AtomicUsize::new(0);
    let out: Mutex<Vec<Option<Case>>> = Mutex::new((0..n).map(|_| None).collect());
    std::thread::scope(|sc| {
        for _ in 0..12.min(n.max(1)) {
            sc.spawn(|| loop {
                let i = next.fetch_add(1, std::sync::atomic::Ordering::SeqCst);
                if i >= n { break; }
                let mut rng = Rng::new(seed ^ (i as u64).wrapping_mul(0x9e37_79b9_7f4a_7c15));
                let c = f(i, &mut rng);
                out.lock().unwrap()[i] = Some(c);
            });
        }
    });
    out.into_inner().unwrap().into_iter().map(|c| c.unwrap()).collect()
}

/// real-time measurements under load: a case whose oracle failed is run again on its own (nothing
/// else running); a genuine defect fails again, scheduling noise does not
fn retry_failed<F: Fn(&str) -> Case>(mut cases: Vec<Case>, reqs: &[String], f: F) -> Vec<Case> {
    for i in 0..cases.len() {
        if cases[i].oracle.is_some() {
            let again = f(&reqs[i]);
            println!("retried case {i}: first run failed ({}), second run {}", cases[i].oracle.as_deref().unwrap_or(""), if again.oracle.is_some() { "failed too" } else { "passed" });
            if again.oracle.is_none() { cases[i] = again; }
        }
    }
    cases
}

/// a case whose client code panics (typically because the server under test vanished or misbehaved in a way the
/// client did not expect) is an observation about that input, not the end of the whole run
fn guarded<F: Fn(&str) -> Case>(req: &str, f: F) -> Case {
    match std::panic::catch_unwind(std::panic::AssertUnwindSafe(|| f(req))) {
        Ok(c) => c,
        Err(e) => {
            let msg = e.downcast_ref::<String>().cloned().or_else(|| e.downcast_ref::<&str>().map(|s| s.to_string())).unwrap_or_else(|| "panic".into());
            Case { request: req.to_string(), observed: "runner-panic".into(), oracle: Some(format!("the client side of this case could not complete against the server under test: {msg}")), class: "runner-panic".into() }
        }
    }
}

fn kvs(line: &str, k: &str) -> Option<String> {
    line.split_whitespace().find_map(|t| t.strip_prefix(&format!("{k}=")).map(|s| s.to_string()))
}
fn kvn(line: &str, k: &str) -> u64 { kvs(line, k).and_then(|s| s.parse().ok()).unwrap_or_else(|| panic!("missing {k} in {line}")) }
fn optn(s: &str) -> Option<u64> { if s == "none" { None } else { Some(s.parse().unwrap()) } }


// ---------------------------------------------------------------- C14

const SLACK_MS: u64 = 350;

fn app_config(port: u16, max_len: u64, expiry: u64, secret: Option<&str>, timeout_s: u64, proxy: bool) -> passage::config::Config {
    app_config_full(port, max_len, expiry, secret, timeout_s, if proxy { Some((true, true)) } else { None }, None)
}

fn app_config_full(port: u16, max_len: u64, expiry: u64, secret: Option<&str>, timeout_s: u64, proxy: Option<(bool, bool)>, limit: Option<usize>) -> passage::config::Config {
    app_config_t(port, max_len, expiry, secret, timeout_s, proxy, limit, false)
}

#[allow(clippy::too_many_arguments)]
fn app_config_t(port: u16, max_len: u64, expiry: u64, secret: Option<&str>, timeout_s: u64, proxy: Option<(bool, bool)>, limit: Option<usize>, with_target: bool) -> passage::config::Config {
    use passage::config as c;
    c::Config {
        // 20 s: longer than any history here, short enough that a window built in the wrong unit rolls over between connections
        rate_limiter: limit.map(|limit| c::RateLimiter { duration: 20, limit }),
        address: format!("127.0.0.1:{port}"), timeout: timeout_s, max_packet_length: max_len, auth_cookie_expiry: expiry,
        auth_secret: secret.map(|s| s.to_string()),
        proxy_protocol: proxy.map(|(allow_v1, allow_v2)| c::ProxyProtocol { allow_v1, allow_v2 }),
        adapters: c::Adapters {
            authentication: c::AuthenticationAdapter::Fixed(c::FixedAuthentication::default()),
            discovery: c::DiscoveryAdapter::Fixed(c::FixedDiscovery { targets: if with_target { vec![Target { identifier: "t-0".into(), address: "10.0.0.1:25565".parse().unwrap(), meta: Default::default() }] } else { vec![] } }),
            ..Default::default()
        },
        ..Default::default()
    }
}

/// sleeps `ms` unless the server closes first (then: time of the close since connect)
async fn sleep_or_close(c: &mut Cli, ms: u64) -> Option<Duration> {
    tokio::select! {
        _ = tokio::time::sleep(Duration::from_millis(ms)) => None,
        t = c.wait_close(Duration::from_secs(3600)) => t,
    }
}

fn snap(ms: u64, cands: &[u64]) -> u64 {
    cands.iter().copied().filter(|c| c.abs_diff(ms) <= SLACK_MS).min_by_key(|c| c.abs_diff(ms)).unwrap_or(ms)
}

/// one probe; limits and simple client behaviours go through `passage::start(Config)`
/// configured secrets: the text the operator wrote is the key, byte for byte (a mounted secret file ends in a newline)
const SECRETS: &[&str] = &["configured secret", "s3cret-from-a-file\n", "  padded  ", "\ttab-led"];

const ENV_SECRETS: &[&str] = &["plain-secret", "007700", "TRUE", "31415926535897932384626", "1e3"];
/// `PASSAGE_AUTHSECRET=<text>` read by the application's `Config::read()`, once per text, before any worker thread exists
fn env_secret_cfgs() -> &'static Vec<Result<passage::config::Config, String>> {
    static CFGS: std::sync::OnceLock<Vec<Result<passage::config::Config, String>>> = std::sync::OnceLock::new();
    CFGS.get_or_init(|| ENV_SECRETS.iter().map(|sec| {
        // SAFETY: called first from `run_c14` before any worker thread exists
        unsafe { std::env::set_var("PASSAGE_AUTHSECRET", sec); }
        let c = passage::config::Config::read().map_err(|e| e.to_string());
        unsafe { std::env::remove_var("PASSAGE_AUTHSECRET"); }
        c
    }).collect())
}

fn c14_case(req: &str) -> Case {
    let op = req.split_whitespace().next().unwrap().to_string();
    let configured = SECRETS[kvs(req, "sec").and_then(|s| s.parse::<usize>().ok()).unwrap_or(0) % SECRETS.len()];
    rt().block_on(async {
        match op.as_str() {
            "c14.limit" => {
                let (cfgmax, len) = (kvn(req, "cfgmax"), kvn(req, "len"));
                let p = start_app(app_config(free_port(), cfgmax, 21_600, None, 1, false));
                let mut c = Cli::connect(p, None).await.expect("connect");
                c.raw(&crate::codec::ref_varint(len as i32)).await;
                // refused: closed at once; otherwise the body is awaited until the connection deadline
                let closed = c.wait_close(Duration::from_millis(500)).await;
                let observed = if closed.is_some() { "refused" } else { "buffered" };
                let want = if len > cfgmax { "refused" } else { "buffered" };
                let oracle = if observed == want { None } else { Some(format!("configured max_packet_length={cfgmax}: a frame declaring {len} bytes must be {want}, the server {observed} it")) };
                Case { request: req.into(), observed: observed.into(), oracle, class: format!("limit:{}", if len > cfgmax { "over" } else { "within" }) }
            }
            "c14.cookie" => {
                let (cfgexp, age, same) = (kvn(req, "cfgexp"), kvn(req, "age"), kvn(req, "same"));
                // `nosecret=1`: the operator configured no secret at all (cookies are switched off); the client signs with the empty key
                let nosecret = kvs(req, "nosecret").as_deref() == Some("1");
                let envsec = kvs(req, "envsec").and_then(|s| s.parse::<usize>().ok());
                let configured = match envsec { Some(k) => ENV_SECRETS[k % ENV_SECRETS.len()], None => configured };
                let p = match envsec {
                    None => start_app(app_config(free_port(), 10_000, cfgexp, if nosecret { None } else { Some(configured) }, 2, false)),
                    Some(k) => match &env_secret_cfgs()[k % ENV_SECRETS.len()] {
                        Ok(cfg) => { let mut cfg = cfg.clone(); cfg.address = format!("127.0.0.1:{}", free_port()); cfg.timeout = 2; cfg.auth_cookie_expiry = cfgexp;
                            cfg.adapters.authentication = passage::config::AuthenticationAdapter::Fixed(passage::config::FixedAuthentication::default()); start_app(cfg) }
                        Err(e) => return Case { request: req.into(), observed: "unreadable".into(), oracle: Some(format!("the secret {configured:?} in the environment made the configuration unreadable: {e}")), class: "cookie:env-secret".into() },
                    },
                };
                let key: &[u8] = if nosecret { b"" } else if same == 1 { configured.as_bytes() } else { b"another secret" };
                let cookie = sign(key, &cookie_json(now_secs() - age, "127.0.0.1:7", "Tester", 0x0987_9557_e479_45a9_b434_a563_7767_4627, Some("srv-0"), serde_json::json!([])));
                let mut c = Cli::connect(p, None).await.expect("connect");
                c.login(3, Some(cookie), Stage::EncRequest, Duration::from_millis(1500)).await;
                let observed = match (c.auth_requested, c.should_auth) { (false, _) => "norequest", (true, Some(false)) => "accept", (true, Some(true)) => "reject", (true, None) => "closed" };
                let want = if nosecret { "norequest" } else if same == 1 && age <= cfgexp { "accept" } else { "reject" };
                let oracle = if observed == want { None } else { Some(format!("configured auth_cookie_expiry={cfgexp}s and secret: a cookie aged {age}s signed with {} secret must be {want}ed, the server's answer was {observed}", if same == 1 { "the configured" } else { "another" })) };
                Case { request: req.into(), observed: observed.into(), oracle, class: format!("cookie:{}:{}", if nosecret { "no-secret-configured" } else if same == 1 { "same-secret" } else { "other-secret" }, if age <= cfgexp { "fresh" } else { "expired" }) }
            }
            "c14.issued" => {
                // a cookie issued by the server itself, presented again `wait` seconds later
                let (cfgexp, wait) = (kvn(req, "cfgexp"), kvn(req, "wait"));
                let p = start_app(app_config_t(free_port(), 10_000, cfgexp, Some(configured), 3, None, None, true));
                let mut c1 = Cli::connect(p, None).await.expect("connect");
                let st = c1.login(2, None, Stage::Transferred, Duration::from_millis(2000)).await;
                let cookie = c1.stored_auth.clone();
                tokio::time::sleep(Duration::from_millis(1000 * wait + 300)).await;
                let mut c2 = Cli::connect(p, None).await.expect("connect");
                c2.login(3, cookie.clone(), Stage::EncRequest, Duration::from_millis(1500)).await;
                let observed = match (cookie.is_some(), c2.should_auth) { (false, _) => "noissue", (_, Some(false)) => "accept", (_, Some(true)) => "reject", (_, None) => "norequest" };
                let want = if wait <= cfgexp { "accept" } else { "reject" };
                let mut oracle = if observed == want { None } else { Some(format!("configured auth_cookie_expiry={cfgexp}s: the cookie the server issued (first login reached {st:?}) presented {wait}s later must be {want}ed, the server's answer was {observed}")) };
                // whoever holds the configured secret can verify the issued cookie: tag = HMAC-SHA256(secret as configured, body)
                if let Some(ck) = &cookie { if ck.len() < 32 || sign(configured.as_bytes(), &ck[32..]) != *ck { oracle = Some(format!("{}the issued cookie's tag is not HMAC-SHA256 under the configured secret {configured:?}", oracle.map_or(String::new(), |o| o + "; "))); } }
                Case { request: req.into(), observed: observed.into(), oracle, class: format!("issued:{}", if wait <= cfgexp { "fresh" } else { "expired" }) }
            }
            "c14.deadline" => {
                let (timeout, proxy) = (kvn(req, "timeout"), kvn(req, "proxy") == 1);
                let header = optn(&kvs(req, "header").unwrap());
                let proto = optn(&kvs(req, "proto").unwrap());
                let style = kvs(req, "style").unwrap_or_else(|| "silent".into());
                let gated = style == "config" || style == "keepalive" || style == "flood";
                let srv;
                let port = if gated {
                    srv = Srv::start(&SrvOpts { proxy: if proxy { Some((true, true)) } else { None }, timeout: Duration::from_millis(timeout), gated: true, ..Default::default() });
                    srv.port
                } else { start_app(app_config(free_port(), 10_000, 21_600, None, timeout / 1000, proxy)) };
                let mut c = Cli::connect(port, None).await.expect("connect");
                let horizon = Duration::from_millis(2 * timeout + header.unwrap_or(0) + 700);
                let long = Duration::from_secs(3600);
                let mut closed: Option<Option<Duration>> = None; // Some(x): decided
                if proxy {
                    match header {
                        None => { if style == "drip" { c.raw(b"PROXY TCP4 1.2.").await; } closed = Some(c.wait_close(horizon).await); }
                        Some(h) => {
                            if let Some(t) = sleep_or_close(&mut c, h).await { closed = Some(Some(t)); }
                            else { c.raw(b"PROXY TCP4 10.1.1.1 10.9.9.9 1111 2222\r\n").await; }
                        }
                    }
                }
                if closed.is_none() {
                    match proto {
                        Some(_) if style == "idle-after-pong" => {
                            // a complete status exchange (reply and pong received), then the client neither sends nor closes
                            c.status(Duration::from_millis(400)).await;
                            c.send(&b::ping(7)).await;
                            let _ = c.recv(Duration::from_millis(400)).await;
                            closed = Some(c.wait_close(horizon).await);
                        }
                        Some(pm) => {
                            c.status(Duration::from_millis(400)).await;
                            if let Some(t) = sleep_or_close(&mut c, pm).await { closed = Some(Some(t)); }
                            else { let _ = c.s.shutdown().await; closed = Some(c.wait_close(horizon).await); }
                        }
                        None => {
                            match style.as_str() {
                                "drip" => {
                                    // one byte every 40 ms, never completing the frame
                                    let f = frame(&b::handshake(767, &[b'a'; 250], 25565, 2));
                                    let Cli { s, t0, .. } = c;
                                    let (mut r, mut w) = s.into_split();
                                    let wr = tokio::spawn(async move { for x in f.iter().take(f.len() - 1) { if w.write_all(&[*x]).await.is_err() { break; } tokio::time::sleep(Duration::from_millis(40)).await; } std::future::pending::<()>().await });
                                    let mut buf = [0u8; 512];
                                    let end = tokio::time::Instant::from_std(t0 + horizon);
                                    let mut res = None;
                                    loop {
                                        match tokio::time::timeout_at(end, r.read(&mut buf)).await { Err(_) => break, Ok(Ok(0)) | Ok(Err(_)) => { res = Some(t0.elapsed()); break; } Ok(Ok(_)) => {} }
                                    }
                                    wr.abort();
                                    return finish_deadline(req, timeout, proxy, header, proto, &style, res);
                                }
                                "login" => { c.login(2, None, Stage::LoginStart, Duration::from_millis(300)).await; }
                                "config" => { c.login(2, None, Stage::Configuration, Duration::from_millis(1500)).await; }
                                "flood" => {
                                    // logged in, then ignorable frames back to back across the deadline: the handler never has to wait for input
                                    c.login(2, None, Stage::Configuration, Duration::from_millis(1500)).await;
                                    let one = frame(&crate::conn::build::plugin_message());
                                    let batch: Vec<u8> = one.iter().copied().cycle().take(one.len() * 512).collect();
                                    let mut res = None;
                                    while c.t0.elapsed() < horizon { if !c.raw(&batch).await { res = Some(c.t0.elapsed()); break; } }
                                    return finish_deadline(req, timeout, proxy, header, proto, &style, res);
                                }
                                "keepalive" => {
                                    // answers every keep-alive for ever; routing never completes (backend gate stays shut)
                                    let st = tokio::time::timeout(horizon, c.login(2, None, Stage::Transferred, long)).await;
                                    let _ = st;
                                }
                                _ => {}
                            }
                            closed = Some(c.wait_close(horizon).await);
                        }
                    }
                }
                finish_deadline(req, timeout, proxy, header, proto, &style, closed.unwrap())
            }
            _ => Case { request: req.into(), observed: "bad-op".into(), oracle: None, class: "bad".into() },
        }
    })
}

fn finish_deadline(req: &str, timeout: u64, proxy: bool, header: Option<u64>, proto: Option<u64>, style: &str, closed: Option<Duration>) -> Case {
    let h = if proxy { header } else { Some(0) };
    let mut cands = vec![timeout];
    if let Some(h) = h { cands.push(h + timeout); if let Some(p) = proto { cands.push(h + p); } }
    let observed = match closed { None => "never".to_string(), Some(d) => format!("at={}", snap(d.as_millis() as u64, &cands)) };
    let oracle = match closed {
        None => Some(format!("configured timeout {timeout} ms: the connection was still open {} ms after the accept", 2 * timeout + header.unwrap_or(0) + 700)),
        Some(d) if d.as_millis() as u64 > timeout + SLACK_MS => Some(format!("configured timeout {timeout} ms: the server closed the connection only {} ms after the accept", d.as_millis())),
        _ => None,
    };
    let class = format!("deadline:{}:{}:{}", if proxy { match header { None => "header-withheld", Some(_) => "header-late" } } else { "no-proxy" }, match proto { None => "never-finishes", Some(_) => "finishes" }, style);
    Case { request: req.into(), observed, oracle, class }
}

pub fn run_c14(a: &Args) {
    let mut reqs: Vec<String> = read_corpus(&a.corpus).into_iter().filter(|l| l.starts_with("c14.")).collect();
    let mut rng = Rng::new(a.seed);
    for i in 0..a.cases {
        reqs.push(match i % 3 {
            0 => {
                let cfgmax = *rng.pick(&[64u64, 256, 1000, 5000, 9999, 10_000, 20_000, 100_000]);
                let len = match rng.below(6) { 0 => cfgmax, 1 => cfgmax + 1, 2 => cfgmax - 1, 3 => 10_000, 4 => 10_001, _ => rng.range(1, 2 * cfgmax) };
                format!("c14.limit cfgmax={cfgmax} len={len}")
            }
            1 => {
                let cfgexp = *rng.pick(&[30u64, 600, 21_600, 100_000]);
                let age = match rng.below(5) { 0 => cfgexp.saturating_sub(10), 1 => cfgexp + 10, 2 => 21_600 - 10, 3 => 21_600 + 10, _ => rng.range(0, 2 * cfgexp) };
                // keep clear of the boundary: the two clocks are real
                let age = if age.abs_diff(cfgexp) < 5 { cfgexp + 10 } else { age };
                format!("c14.cookie cfgexp={cfgexp} age={age} same={} sec={}", u8::from(!rng.chance(1, 4)), rng.below(4))
            }
            _ => {
                let proxy = rng.chance(1, 2);
                if proxy {
                    match rng.below(4) {
                        0 => "c14.deadline timeout=1000 proxy=1 header=none proto=none style=silent".to_string(),
                        1 => "c14.deadline timeout=1000 proxy=1 header=none proto=none style=drip".to_string(),
                        2 => format!("c14.deadline timeout=2000 proxy=1 header=800 proto=none style={}", rng.pick(&["silent", "login", "config"])),
                        _ => "c14.deadline timeout=2000 proxy=1 header=800 proto=200 style=silent".to_string(),
                    }
                } else {
                    match rng.below(5) {
                        0 => "c14.deadline timeout=1000 proxy=0 header=none proto=200 style=silent".to_string(),
                        _ => format!("c14.deadline timeout={} proxy=0 header=none proto=none style={}", rng.pick(&[1000, 2000]), rng.pick(&["silent", "drip", "login", "config", "flood"])),
                    }
                }
            }
        });
    }
    // fixed probes on every run: no secret configured; the server's own cookie before and after its expiry; idle after a completed exchange
    reqs.push("c14.cookie cfgexp=21600 age=0 same=1 nosecret=1".into());
    reqs.push("c14.issued cfgexp=2 wait=4".into());
    reqs.push("c14.issued cfgexp=4 wait=6".into());
    reqs.push("c14.issued cfgexp=600 wait=1".into());
    reqs.push("c14.deadline timeout=2000 proxy=0 header=none proto=none style=flood".into());
    // a configured timeout of zero is a deadline like any other: the connection is closed at once
    reqs.push("c14.deadline timeout=0 proxy=0 header=none proto=none style=silent".into());
    reqs.push("c14.deadline timeout=0 proxy=1 header=none proto=none style=silent".into());
    // the secret as an operator hands it over in the environment: number- or boolean-looking texts are keys like any other
    let _ = env_secret_cfgs();
    for k in 0..ENV_SECRETS.len() { reqs.push(format!("c14.cookie cfgexp=21600 age=0 same=1 envsec={k}")); }
    reqs.push("c14.issued cfgexp=600 wait=0 sec=1".into());
    reqs.push("c14.issued cfgexp=600 wait=0 sec=2".into());
    reqs.push("c14.deadline timeout=2000 proxy=0 header=none proto=0 style=idle-after-pong".into());
    reqs.push("c14.deadline timeout=2000 proxy=1 header=300 proto=0 style=idle-after-pong".into());
    if a.thorough {
        // a client answering every keep-alive while routing never completes (first keep-alive after 16 s)
        reqs.push("c14.deadline timeout=20000 proxy=0 header=none proto=none style=keepalive".into());
        reqs.push("c14.deadline timeout=18000 proxy=1 header=800 proto=none style=keepalive".into());
    }
    let cases = retry_failed(par_cases(a.seed, reqs.len(), |i, _| guarded(&reqs[i], c14_case)), &reqs, |r| guarded(r, c14_case));
    write_cases(&a.out, &cases).expect("write cases");
    println!("c14: {} cases", cases.len());
}

// ---------------------------------------------------------------- C15

fn v2(cmd: u8, fam: u8, addr: &[u8]) -> Vec<u8> {
    let mut v = b"\r\n\r\n\0\r\nQUIT\n".to_vec();
    v.push(cmd); v.push(fam); v.extend((addr.len() as u16).to_be_bytes()); v.extend(addr); v
}
fn v2_tcp4(src: [u8; 4]) -> Vec<u8> { let mut a = src.to_vec(); a.extend([10, 9, 9, 9]); a.extend(4000u16.to_be_bytes()); a.extend(25565u16.to_be_bytes()); v2(0x21, 0x11, &a) }
fn v2_tcp6(src: std::net::Ipv6Addr) -> Vec<u8> { let mut a = src.octets().to_vec(); a.extend("2001:db8::99".parse::<std::net::Ipv6Addr>().unwrap().octets()); a.extend(4000u16.to_be_bytes()); a.extend(25565u16.to_be_bytes()); v2(0x21, 0x21, &a) }

/// the header menu (index → bytes sent before the Minecraft handshake)
pub fn header_menu(i: usize) -> Vec<u8> {
    match i {
        0 => b"PROXY TCP4 10.1.1.1 10.9.9.9 4000 25565\r\n".to_vec(),
        1 => b"PROXY TCP4 10.1.1.2 10.9.9.9 4001 25565\r\n".to_vec(),
        2 => b"PROXY TCP6 2001:db8::1 2001:db8::99 4000 25565\r\n".to_vec(),
        3 => b"PROXY UNKNOWN\r\n".to_vec(),
        4 => v2_tcp4([10, 1, 1, 1]),
        5 => v2_tcp6("2001:db8::1".parse().unwrap()),
        6 => v2(0x20, 0x00, &[]),
        7 => vec![],                                                        // absent: the handshake follows at once
        8 => b"PROXY TCP4 999.1.1.1 10.9.9.9 4000 25565\r\n".to_vec(),
        9 => { let mut h = v2_tcp4([10, 1, 1, 3]); h[12] = 0x31; h }       // version 3
        10 => b"PROXY TCP6 ::ffff:10.1.1.1 2001:db8::99 4000 25565\r\n".to_vec(),
        11 => v2_tcp4([10, 1, 1, 3]),
        12 => b"PROXY TCP5 10.1.1.1 10.9.9.9 4000 25565\r\n".to_vec(),     // unknown protocol family
        13 => v2_tcp6("2001:db8::2".parse().unwrap()),
        // IPv4 texts that are not the canonical dotted decimal of any address (std refuses them; the model's parser decides)
        14 => b"PROXY TCP4 010.1.1.1 10.9.9.9 4000 25565\r\n".to_vec(),
        15 => b"PROXY TCP4 10.1.1.2 10.9.9.256 4001 25565\r\n".to_vec(),
        16 => b"PROXY TCP4 10.1.1 10.9.9.9 4000 25565\r\n".to_vec(),
        _ => b"PROXY TCP4 255.255.255.255 0.0.0.0 4000 25565\r\n".to_vec(),
    }
}
pub const MENU: usize = 18;

#[derive(Clone, Debug, PartialEq)]
enum HClass { Source(IpAddr), NoAddr, Invalid }

fn status_bytes() -> Vec<u8> { let mut v = frame(&b::handshake(767, b"localhost", 25565, 1)); v.extend(frame(&b::status_request())); v }

/// verdict of the real PROXY parser on what the client sends first
fn classify(bytes: &[u8], cfg: ParseConfig) -> HClass {
    match proxy_header::ProxyHeader::parse(bytes, cfg) {
        Ok((h, _)) => match h.proxied_address() { Some(a) => HClass::Source(a.source.ip()), None => HClass::NoAddr },
        // an incomplete header is a stalled client (C14/C16), not a header-less one: the menu has none
        Err(proxy_header::Error::BufferTooShort) => panic!("header menu entry is incomplete for the parser: {bytes:02x?}"),
        Err(_) => HClass::Invalid,
    }
}

/// The limiter and PROXY settings as an operator writes them — environment variables, or a configuration file with the
/// documented keys — read once by the application's own `Config::read()` (limit 2 per 20 s; the environment switches v2 headers off, the file v1 headers).
fn operator_cfgs() -> &'static (Result<passage::config::Config, String>, Result<passage::config::Config, String>) {
    static CFGS: std::sync::OnceLock<(Result<passage::config::Config, String>, Result<passage::config::Config, String>)> = std::sync::OnceLock::new();
    CFGS.get_or_init(|| {
        // each layer spells out only the version it switches off: the other one keeps its default (allowed)
        let envs = [("PASSAGE_RATELIMITER_DURATION", "20"), ("PASSAGE_RATELIMITER_LIMIT", "2"), ("PASSAGE_PROXYPROTOCOL_ALLOWV2", "false")];
        // SAFETY: called first from `run_c15` before any worker thread exists
        for (k, v) in envs { unsafe { std::env::set_var(k, v); } }
        let from_env = passage::config::Config::read().map_err(|e| e.to_string());
        for (k, _) in envs { unsafe { std::env::remove_var(k); } }
        let base = std::env::temp_dir().join(format!("pv-c15cfg-{}", std::process::id()));
        std::fs::write(base.with_extension("yaml"), "rate_limiter:\n  duration: 20\n  limit: 2\nproxy_protocol:\n  allow_v1: false\n").unwrap();
        unsafe { std::env::set_var("CONFIG_FILE", &base); }
        let from_file = passage::config::Config::read().map_err(|e| e.to_string());
        unsafe { std::env::remove_var("CONFIG_FILE"); }
        let _ = std::fs::remove_file(base.with_extension("yaml"));
        (from_env, from_file)
    })
}

fn c15_case(req: &str) -> Case {
    let proxy = kvn(req, "proxy") == 1;
    let allow = kvs(req, "allow").unwrap_or_else(|| "11".into());
    let (v1, v2ok) = (allow.as_bytes()[0] == b'1', allow.as_bytes()[1] == b'1');
    let limit = kvs(req, "limit").unwrap();
    let limit: Option<usize> = if limit == "off" { None } else { Some(limit.parse().unwrap()) };
    let hdrs: Vec<(u8, usize)> = kvs(req, "hdrs").unwrap().split(';').map(|t| { let (p, h) = t.split_once('/').unwrap(); (p.parse().unwrap(), h.parse().unwrap()) }).collect();
    let pcfg = ParseConfig { include_tlvs: false, allow_v1: v1, allow_v2: v2ok };
    let mut ids: Vec<IpAddr> = vec![];
    let mut id_of = |ip: IpAddr| -> usize {
        if let IpAddr::V4(v) = ip { if v.octets()[0] == 127 { return v.octets()[3] as usize; } }
        match ids.iter().position(|x| *x == ip) { Some(i) => 10 + i, None => { ids.push(ip); 9 + ids.len() } }
    };
    let via = kvs(req, "via").unwrap_or_default();
    let via_app = via == "app" || via == "env" || via == "file";
    if kvs(req, "burst").as_deref() == Some("1") { return c15_burst(req, proxy, (v1, v2ok), &allow, limit, &hdrs, pcfg); }
    rt().block_on(async {
        // either the Listener built by hand, or the application entry point with a configuration value
        let srv = if via_app { None } else { Some(Srv::start(&SrvOpts { proxy: if proxy { Some((v1, v2ok)) } else { None }, limiter: limit, timeout: Duration::from_secs(2), secret: Some(b"s3cret".to_vec()), ..Default::default() })) };
        let port = match &srv { Some(s) => s.port, None if via == "app" => start_app(app_config_full(free_port(), 10_000, 21_600, None, 2, if proxy { Some((v1, v2ok)) } else { None }, limit)),
            None => {
                // what the operator wrote (limit 2 per 20 s, one header version switched off — the request line says the same) as the application read it
                match if via == "env" { &operator_cfgs().0 } else { &operator_cfgs().1 } {
                    Ok(cfg) => { let mut cfg = cfg.clone(); cfg.address = format!("127.0.0.1:{}", free_port()); cfg.timeout = 2; start_app(cfg) }
                    Err(e) => return Case { request: req.into(), observed: "unreadable".into(), oracle: Some(format!("the operator's limiter and PROXY settings ({via}) were not readable: {e}")), class: format!("{via} unreadable") },
                }
            } };
        let no_seen: Seen = Arc::new(Mutex::new(vec![]));
        let seen_log = srv.as_ref().map_or(no_seen, |s| s.seen.clone());
        let mut reference = limit.map(|n| RateLimiter::<IpAddr>::new(Duration::from_secs(3600), n));
        let mut conns = vec![];
        let mut firsts: Vec<String> = vec![];
        let mut observed = vec![];
        let mut why = vec![];
        for (k, (peer, hi)) in hdrs.iter().enumerate() {
            let peer_ip = Ipv4Addr::new(127, 0, 0, *peer);
            let mut first = if proxy { header_menu(*hi) } else { vec![] };
            first.extend(status_bytes());
            let class = if proxy { classify(&first, pcfg) } else { HClass::NoAddr };
            let eff: Option<IpAddr> = match &class { HClass::Source(ip) => Some(*ip), HClass::NoAddr => Some(IpAddr::V4(peer_ip)), HClass::Invalid => None };
            firsts.push(hex(&first));
            conns.push(format!("{peer}/{}", match &class { HClass::Source(ip) => format!("s{}", id_of(*ip)), HClass::NoAddr => "n".into(), HClass::Invalid => "i".into() }));
            let want = match eff { None => "C".to_string(), Some(ip) => if reference.as_mut().is_none_or(|r| r.enqueue(ip)) { format!("S{}", id_of(ip)) } else { "R".to_string() } };
            let seen_before = seen_log.lock().unwrap().len();
            if via_app { tokio::time::sleep(Duration::from_millis(60)).await; }
            let Ok(mut c) = Cli::connect(port, Some(peer_ip)).await else {
                why.push(format!("connection {k}: could not connect at all (the listener is gone)"));
                observed.push("X".to_string());
                continue;
            };
            c.phase = ClientPhase::Status;
            c.raw(&first).await;
            let got = match c.recv(Duration::from_millis(700)).await {
                Recv::Packet(CbPacket::StatusResponse(_)) => {
                    let seen = seen_log.lock().unwrap();
                    let addr = seen[seen_before..].iter().find_map(|s| s.strip_prefix("status:")).map(|s| s.parse::<IpAddr>().unwrap());
                    // through the application the adapters are the configured ones: the address they see is not observable
                    match (addr, eff) { (Some(ip), _) => format!("S{}", id_of(ip)), (None, Some(ip)) if via_app => format!("S{}", id_of(ip)), (None, None) if via_app => "S!".into(), _ => "S?".into() }
                }
                Recv::Closed => {
                    if c.bytes_in > 0 { why.push(format!("connection {k}: closed after {} bytes were sent to it", c.bytes_in)); }
                    // closed means released: the server does not go on holding (reading from) the socket of a connection it turned away
                    let mut released = false;
                    for _ in 0..8 { if !c.raw(&[0u8; 64]).await { released = true; break; } tokio::time::sleep(Duration::from_millis(25)).await; }
                    if !released { why.push(format!("connection {k}: turned away, but the server kept the socket open and went on accepting bytes from it")); }
                    if class == HClass::Invalid { "C".into() } else { "R".into() }
                }
                Recv::Timeout => "H".into(),
                _ => "G".into(),
            };
            if got != want { why.push(format!("connection {k} (peer 127.0.0.{peer}, header #{hi}, effective address {eff:?}): expected {want}, the listener did {got}")); }
            observed.push(got);
        }
        // the address a cookie is bound to and that the adapters see during a login
        if let (Some("1"), Some(srv)) = (kvs(req, "login").as_deref(), &srv) {
            let mut c = Cli::connect(srv.port, Some(Ipv4Addr::new(127, 0, 0, 3))).await.expect("connect");
            // the same announced source through whichever header version is enabled
            let hdr = header_menu(if v1 { 2 } else { 5 });
            let eff: IpAddr = if proxy { c.raw(&hdr).await; "2001:db8::1".parse().unwrap() } else { "127.0.0.3".parse().unwrap() };
            let admitted = reference.as_mut().is_none_or(|r| r.enqueue(eff));
            let n0 = srv.seen.lock().unwrap().len();
            let st = c.login(2, None, Stage::Transferred, Duration::from_millis(1500)).await;
            if admitted {
                if st != Stage::Transferred { why.push(format!("login from {eff}: ended at {st:?}")); }
                let seen = srv.seen.lock().unwrap()[n0..].to_vec();
                for s in &seen { let ip = s.split_once(':').unwrap().1; if ip.parse::<IpAddr>().ok() != Some(eff) { why.push(format!("adapter call {s} saw another address than the effective {eff}")); } }
                match c.stored_auth.as_ref().and_then(|p| serde_json::from_slice::<serde_json::Value>(&p[32..]).ok()) {
                    Some(v) => { let a = v["client_addr"].as_str().unwrap_or("").parse::<SocketAddr>().map(|a| a.ip()).ok(); if a != Some(eff) { why.push(format!("the issued cookie is bound to {a:?}, not to the effective address {eff}")); } }
                    None => why.push("no authentication cookie was issued".into()),
                }
            }
        }
        if let Some(srv) = &srv { srv.stop.cancel(); }
        // for the parser model: the raw first segments, std::net's verdict on every address text of the menu, and the address ids
        let texts = ["10.1.1.1", "10.1.1.2", "10.1.1.3", "10.9.9.9", "999.1.1.1", "010.1.1.1", "10.9.9.256", "10.1.1", "255.255.255.255", "0.0.0.0", "2001:db8::1", "2001:db8::2", "2001:db8::99", "::ffff:10.1.1.1"];
        let ip4o: Vec<String> = texts.iter().map(|t| format!("{}:{}", hex(t.as_bytes()), t.parse::<Ipv4Addr>().map_or("-".to_string(), |a| hex(&a.octets())))).collect();
        let ip6o: Vec<String> = texts.iter().map(|t| format!("{}:{}", hex(t.as_bytes()), t.parse::<std::net::Ipv6Addr>().map_or("-".to_string(), |a| hex(&a.octets())))).collect();
        let mut idtab: Vec<String> = vec![];
        for t in texts { if let Ok(ip) = t.parse::<IpAddr>() { let oct = match ip { IpAddr::V4(a) => a.octets().to_vec(), IpAddr::V6(a) => a.octets().to_vec() }; idtab.push(format!("{}:{}", hex(&oct), id_of(ip))); } }
        let request = format!("c15.run proxy={} allow={allow} limit={} via={} hdrs={} login={} conns={} firsts={} ip4o={} ip6o={} ids={}", u8::from(proxy), limit.map_or("off".to_string(), |n| n.to_string()), if via_app { via.as_str() } else { "listener" },
            kvs(req, "hdrs").unwrap(), kvs(req, "login").unwrap_or_else(|| "0".into()), conns.join(";"), firsts.join(";"), ip4o.join(","), ip6o.join(","), idtab.join(","));
        let refused = observed.iter().filter(|o| *o == "R").count();
        let closed = observed.iter().filter(|o| *o == "C").count();
        Case { request, observed: observed.join(","), oracle: if why.is_empty() { None } else { Some(why.join("; ")) },
            class: format!("{} proxy={} limiter={} refused={} unserved={}", if via_app { via.as_str() } else { "listener" }, u8::from(proxy), if limit.is_some() { "on" } else { "off" }, if refused > 0 { "some" } else { "none" }, if closed > 0 { "some" } else { "none" }) }
    })
}

/// All connections of the case at once, against a server on several runtime workers (as the application runs it): whatever
/// the order in which they reach the limiter, every address gets exactly its budget. The case uses ONE peer and ONE header,
/// so the multiset of outcomes is the same for every schedule; it is reported served-first, the order of the sequential model.
fn c15_burst(req: &str, proxy: bool, allowed: (bool, bool), allow: &str, limit: Option<usize>, hdrs: &[(u8, usize)], pcfg: ParseConfig) -> Case {
    let srv = Srv::start(&SrvOpts { proxy: if proxy { Some(allowed) } else { None }, limiter: limit, timeout: Duration::from_secs(5), secret: Some(b"s3cret".to_vec()), workers: 8, ..Default::default() });
    let port = srv.port;
    let (peer, hi) = hdrs[0];
    assert!(hdrs.iter().all(|h| *h == (peer, hi)), "a burst case uses one peer and one header");
    let peer_ip = Ipv4Addr::new(127, 0, 0, peer);
    let mut first = if proxy { header_menu(hi) } else { vec![] };
    first.extend(status_bytes());
    let class = if proxy { classify(&first, pcfg) } else { HClass::NoAddr };
    let eff: Option<IpAddr> = match &class { HClass::Source(ip) => Some(*ip), HClass::NoAddr => Some(IpAddr::V4(peer_ip)), HClass::Invalid => None };
    let id = match eff { Some(IpAddr::V4(v)) if v.octets()[0] == 127 => v.octets()[3] as usize, _ => 10 };
    let n = hdrs.len();
    let crt = tokio::runtime::Builder::new_multi_thread().worker_threads(8).enable_all().build().unwrap();
    let barrier = Arc::new(tokio::sync::Barrier::new(n));
    let first = Arc::new(first);
    let mut observed: Vec<String> = crt.block_on(async {
        let mut hs = vec![];
        for _ in 0..n {
            let (b, first) = (barrier.clone(), first.clone());
            hs.push(tokio::spawn(async move {
                // without a header the limiter is reached on accept, with one after the header: line up before whichever it is
                if proxy { let Ok(mut c) = Cli::connect(port, Some(peer_ip)).await else { b.wait().await; return "X".to_string() }; c.phase = ClientPhase::Status; b.wait().await; c.raw(&first).await;
                    match c.recv(Duration::from_millis(4000)).await { Recv::Packet(CbPacket::StatusResponse(_)) => format!("S{id}"), Recv::Closed => "R".into(), Recv::Timeout => "H".into(), _ => "G".into() } }
                else { b.wait().await; let Ok(mut c) = Cli::connect(port, Some(peer_ip)).await else { return "X".to_string() }; c.phase = ClientPhase::Status; c.raw(&first).await;
                    match c.recv(Duration::from_millis(4000)).await { Recv::Packet(CbPacket::StatusResponse(_)) => format!("S{id}"), Recv::Closed => "R".into(), Recv::Timeout => "H".into(), _ => "G".into() } }
            }));
        }
        let mut out = vec![];
        for h in hs { out.push(h.await.unwrap_or_else(|_| "P".into())); }
        out
    });
    crt.shutdown_timeout(Duration::from_millis(0));
    srv.stop.cancel();
    observed.sort_by_key(|o| !o.starts_with('S'));
    if class == HClass::Invalid { for o in observed.iter_mut() { if o == "R" { *o = "C".into(); } } }
    let served = observed.iter().filter(|o| o.starts_with('S')).count();
    let budget = match (eff, limit) { (None, _) => 0, (_, None) => n, (_, Some(l)) => l.min(n) };
    let mut why = vec![];
    if served != budget { why.push(format!("{n} simultaneous connections of one address with a budget of {budget}: {served} were served")); }
    if observed.iter().any(|o| !(o.starts_with('S') || o == "R" || o == "C")) { why.push(format!("outcomes other than served/turned away: {:?}", observed.iter().filter(|o| !(o.starts_with('S') || *o == "R" || *o == "C")).collect::<Vec<_>>())); }
    let texts = ["10.1.1.1", "10.1.1.2", "10.1.1.3", "10.9.9.9", "999.1.1.1", "010.1.1.1", "10.9.9.256", "10.1.1", "255.255.255.255", "0.0.0.0", "2001:db8::1", "2001:db8::2", "2001:db8::99", "::ffff:10.1.1.1"];
    let conn_tok = format!("{peer}/{}", match &class { HClass::Source(_) => format!("s{id}"), HClass::NoAddr => "n".into(), HClass::Invalid => "i".into() });
    let request = format!("c15.run proxy={} allow={allow} limit={} via=listener burst=1 hdrs={} login=0 conns={}", u8::from(proxy), limit.map_or("off".to_string(), |n| n.to_string()),
        kvs(req, "hdrs").unwrap(), vec![conn_tok; n].join(";"));
    let _ = texts;
    Case { request, observed: observed.join(","), oracle: if why.is_empty() { None } else { Some(why.join("; ")) }, class: format!("burst proxy={} limiter={}", u8::from(proxy), if limit.is_some() { "on" } else { "off" }) }
}

/// C04 at the listener: whatever a client sends first — every PROXY header of the menu, with either version switched
/// off, or no header at all — no task of the listener panics (a panicking task is silent for everybody but that client).
pub fn c04_listener_cases() -> Vec<Case> {
    static PANICS: std::sync::atomic::AtomicUsize = std::sync::atomic::AtomicUsize::new(0);
    static LAST: Mutex<String> = Mutex::new(String::new());
    let prev = std::panic::take_hook();
    std::panic::set_hook(Box::new(|info| { PANICS.fetch_add(1, std::sync::atomic::Ordering::SeqCst); *LAST.lock().unwrap_or_else(|e| e.into_inner()) = info.to_string(); }));
    let all: Vec<String> = (0..MENU).map(|h| format!("1/{h}")).collect();
    let mut out = vec![];
    for (proxy, allow) in [(1, "11"), (1, "10"), (1, "01"), (0, "11")] {
        let req = format!("c15.run proxy={proxy} allow={allow} limit=off via=listener hdrs={} login=0", all.join(";"));
        let before = PANICS.load(std::sync::atomic::Ordering::SeqCst);
        let mut c = guarded(&req, c15_case);
        if PANICS.load(std::sync::atomic::Ordering::SeqCst) > before {
            let msg = format!("a task panicked while the listener handled a client's first bytes: {}", LAST.lock().unwrap_or_else(|e| e.into_inner()).replace('\n', " "));
            c.oracle = Some(match c.oracle.take() { Some(o) => format!("{msg}; {o}"), None => msg });
        }
        c.class = format!("listener:first-bytes proxy={proxy} allow={allow}");
        out.push(c);
    }
    std::panic::set_hook(prev);
    out
}

pub fn run_c15(a: &Args) {
    let mut reqs: Vec<String> = read_corpus(&a.corpus).into_iter().filter(|l| l.starts_with("c15.")).collect();
    let mut rng = Rng::new(a.seed);
    for _ in 0..a.cases {
        let proxy = !rng.chance(1, 4);
        let allow = *rng.pick(&["11", "11", "10", "01"]);
        let limit = if rng.chance(1, 5) { "off".to_string() } else if rng.chance(1, 8) { "0".to_string() } else { rng.range(1, 4).to_string() };
        let n = rng.range(4, 14) as usize;
        // a few hot headers so budgets are exhausted, bad ones in between
        let hot: Vec<usize> = (0..3).map(|_| rng.below(MENU as u64) as usize).collect();
        let hdrs: Vec<String> = (0..n).map(|_| format!("{}/{}", rng.range(1, 3), if rng.chance(2, 3) { *rng.pick(&hot) } else { rng.below(MENU as u64) as usize })).collect();
        reqs.push(format!("c15.run proxy={} allow={allow} limit={limit} via={} hdrs={} login={}", u8::from(proxy), if rng.chance(1, 4) { "app" } else { "listener" }, hdrs.join(";"), u8::from(rng.chance(1, 3))));
    }
    // the boundary configuration "nobody is admitted", through the application entry point and through the Listener
    reqs.push("c15.run proxy=0 allow=11 limit=0 via=app hdrs=1/7;2/7;1/7 login=0".into());
    reqs.push("c15.run proxy=1 allow=11 limit=0 via=listener hdrs=1/0;2/4;1/1 login=0".into());
    // the operator's own spelling of the limiter and PROXY settings, through the environment and through a file
    let _ = operator_cfgs();
    reqs.push("c15.run proxy=1 allow=10 limit=2 via=env hdrs=1/4;1/0;2/0;1/0;1/5;2/1;1/1;1/1;1/7 login=0".into());
    reqs.push("c15.run proxy=1 allow=01 limit=2 via=file hdrs=1/0;1/4;2/4;1/1;1/4;2/5;1/5;1/5;1/6;1/6;2/6 login=0".into());
    // bursts: many simultaneous connections of one address, server on several workers
    for k in 0..(if a.thorough { 12 } else { 4 }) {
        let proxy = k % 2 == 1;
        let h = if proxy { [0usize, 4][(k / 2) % 2] } else { 0 };
        reqs.push(format!("c15.run proxy={} allow=11 limit={} via=listener burst=1 hdrs={} login=0", u8::from(proxy), 1 + k % 3, vec![format!("{}/{h}", 1 + k % 2); 96].join(";")));
    }
    // … and with a budget wider than the burst: nobody is turned away because somebody else is at the limiter
    reqs.push(format!("c15.run proxy=0 allow=11 limit=500 via=listener burst=1 hdrs={} login=0", vec!["1/0".to_string(); 96].join(";")));
    reqs.push(format!("c15.run proxy=1 allow=11 limit=500 via=listener burst=1 hdrs={} login=0", vec!["2/4".to_string(); 96].join(";")));
    let cases = retry_failed(par_cases(a.seed, reqs.len(), |i, _| guarded(&reqs[i], c15_case)), &reqs, |r| guarded(r, c15_case));
    write_cases(&a.out, &cases).expect("write cases");
    println!("c15: {} cases", cases.len());
}

// ---------------------------------------------------------------- descriptor exhaustion (child process)

/// opens /dev/null until the process has no free descriptor, then closes `spare` of them again
fn exhaust_fds(spare: usize) -> Vec<std::fs::File> {
    let mut held = vec![];
    while let Ok(f) = std::fs::File::open("/dev/null") { held.push(f); if held.len() > 100_000 { break; } }
    for _ in 0..spare.min(held.len()) { held.pop(); }
    held
}

/// child process body: a small RLIMIT_NOFILE, the real Listener, descriptor exhaustion at a chosen moment.
/// `accept`: while the accept loop is running, a connection arrives that cannot be accepted (EMFILE); afterwards a
/// well-behaved client must still be served.  `drain`: the same during the drain after a stop request; the
/// in-flight session must still get its Transfer and listen() must return only afterwards.
pub fn run_lstfd(mode: &str) {
    // SAFETY: plain setrlimit on this (child) process
    unsafe { let lim = libc::rlimit { rlim_cur: 160, rlim_max: 160 }; libc::setrlimit(libc::RLIMIT_NOFILE, &lim); }
    // "drain": stop first, exhaustion during the drain; "drain-late": exhaustion first, the stop request arrives while accept() keeps failing
    let late_stop = mode == "drain-late";
    // "accept-long": the episode without descriptors lasts 4 s; whatever the listener does meanwhile, once it is over a client is served at once
    let long_episode = mode == "accept-long";
    let drain = mode == "drain" || late_stop;
    let line = rt().block_on(async {
        let Some(srv) = Srv::start_opt(&SrvOpts { timeout: Duration::from_millis(2500), gated: drain, secret: Some(b"s3cret".to_vec()), ..Default::default() }) else { return "RESULT up=0".to_string() };
        let mut inflight = None;
        if drain {
            let port = srv.port;
            let ready = Arc::new(Semaphore::new(0));
            let r2 = ready.clone();
            inflight = Some(tokio::spawn(async move {
                let mut c = Cli::connect(port, None).await.expect("connect");
                let free = Arc::new(Semaphore::new(1));
                let st = c.login_hold(2, None, Stage::Transferred, Duration::from_millis(6000), Some((Stage::Configuration, r2, free))).await;
                (st == Stage::Transferred, Instant::now())
            }));
            let _ = tokio::time::timeout(Duration::from_millis(2000), ready.acquire()).await;
            tokio::time::sleep(Duration::from_millis(50)).await;
            if !late_stop { srv.stop.cancel(); tokio::time::sleep(Duration::from_millis(100)).await; }
        }
        // exactly one free descriptor: the hostile client's own socket takes it, the server's accept() finds none
        let held = exhaust_fds(1);
        let hostile = std::net::TcpStream::connect(("127.0.0.1", srv.port));
        tokio::time::sleep(Duration::from_millis(if long_episode { 4000 } else { 300 })).await;
        if late_stop { srv.stop.cancel(); tokio::time::sleep(Duration::from_millis(250)).await; }
        let returned_while_exhausted = srv.returned_at().is_some();
        drop(held);
        drop(hostile);
        tokio::time::sleep(Duration::from_millis(150)).await;
        if drain {
            srv.gate.add_permits(8);
            let (transfer, done) = inflight.unwrap().await.unwrap_or((false, Instant::now()));
            let t0 = Instant::now();
            while srv.returned_at().is_none() && t0.elapsed() < Duration::from_millis(4000) { tokio::time::sleep(Duration::from_millis(10)).await; }
            let ret = srv.returned_at();
            let early = returned_while_exhausted || ret.is_some_and(|r| r + Duration::from_millis(50) < done);
            format!("RESULT up=1 transfer={} early_return={} returned={}", u8::from(transfer), u8::from(early), u8::from(ret.is_some()))
        } else {
            let served = match Cli::connect(srv.port, None).await { Ok(mut c) => c.status(Duration::from_millis(SERVE_BOUND_MS)).await.is_some(), Err(_) => false };
            srv.stop.cancel();
            format!("RESULT up=1 served={} listener_gone={}", u8::from(served), u8::from(returned_while_exhausted))
        }
    });
    println!("{line}");
}

/// runs `pv lstfd <mode>` as a child and returns its RESULT line
fn lstfd_child(mode: &str) -> String {
    let exe = std::env::current_exe().expect("current exe");
    match std::process::Command::new(exe).args(["lstfd", mode]).output() {
        Ok(o) => String::from_utf8_lossy(&o.stdout).lines().find(|l| l.starts_with("RESULT")).unwrap_or("RESULT none").to_string(),
        Err(e) => format!("RESULT spawn-failed {e}"),
    }
}

// ---------------------------------------------------------------- C16

const SERVE_BOUND_MS: u64 = 1000;

/// what a stalled client does before it goes silent
async fn stall(port: u16, proxy: bool, stage: &str) -> Option<Cli> {
    if stage == "rst-burst" {
        // connect scanners / health checkers: connect and abort (RST) at once — 300 in a row, so that some are reset while still in the accept queue
        for _ in 0..300 {
            // from the hostile peer's own address (127.0.0.2), so it never spends the well-behaved client's budget
            let Ok(s) = socket2::Socket::new(socket2::Domain::IPV4, socket2::Type::STREAM, None) else { continue };
            let _ = s.bind(&SocketAddr::new(IpAddr::V4(Ipv4Addr::new(127, 0, 0, 2)), 0).into());
            if s.connect(&SocketAddr::new(IpAddr::V4(Ipv4Addr::LOCALHOST), port).into()).is_ok() { let _ = s.set_linger(Some(Duration::from_secs(0))); }
            drop(s);
        }
        return None;
    }
    if stage == "no-read" {
        // asks for a large status with a tiny receive window and never reads: the reply stays queued in the server's socket
        let sock = socket2::Socket::new(socket2::Domain::IPV4, socket2::Type::STREAM, None).ok()?;
        let _ = sock.set_recv_buffer_size(1024);
        let _ = sock.bind(&SocketAddr::new(IpAddr::V4(Ipv4Addr::new(127, 0, 0, 2)), 0).into());
        sock.connect(&SocketAddr::new(IpAddr::V4(Ipv4Addr::LOCALHOST), port).into()).ok()?;
        sock.set_nonblocking(true).ok()?;
        let s = TcpStream::from_std(sock.into()).ok()?;
        let mut c = Cli { s, enc: None, rx: vec![], phase: ClientPhase::Status, bytes_in: 0, t0: Instant::now(), should_auth: None, got_transfer: false, stored_auth: None, auth_requested: false };
        if proxy { c.raw(&header_menu(0)).await; }
        c.send(&b::handshake(767, b"bigstatus", 25565, 1)).await;
        c.send(&b::status_request()).await;
        return Some(c);
    }
    let mut c = Cli::connect(port, Some(Ipv4Addr::new(127, 0, 0, 2))).await.ok()?;
    let hdr = header_menu(0);
    match stage {
        "pre" => return Some(c),
        "in" => { c.raw(&hdr[..hdr.len() / 2]).await; return Some(c); }
        _ => { if proxy { c.raw(&hdr).await; } }
    }
    match stage {
        "accepted" => {}
        "mid-frame" => { let f = frame(&b::handshake(767, b"localhost", 25565, 2)); c.raw(&f[..f.len() / 2]).await; }
        "mid-login" => { c.login(2, None, Stage::LoginStart, Duration::from_millis(300)).await; }
        "enc" => { c.login(2, None, Stage::EncRequest, Duration::from_millis(800)).await; }
        "no-keepalive" => { c.login(2, None, Stage::Configuration, Duration::from_millis(1500)).await; }
        "junk" => { c.raw(&vec![0xffu8; 4096]).await; }
        // half a frame, then the client closes its sending side and keeps the socket
        "half-closed" => { let f = frame(&b::handshake(767, b"localhost", 25565, 2)); c.raw(&f[..f.len() / 2]).await; let _ = c.s.shutdown().await; }
        _ => {}
    }
    Some(c)
}

fn c16_case(req: &str) -> Case {
    if req.contains("stalled=grpc-status") { return crate::c19::status_overlap_case(); }
    if req.contains("stalled=fd-exhaustion") {
        // in a child process with 160 descriptors: a connection arrives that the server cannot accept for want of a descriptor
        let long = req.contains("episode=long");
        let r = lstfd_child(if long { "accept-long" } else { "accept" });
        let served = r.contains("served=1");
        return Case { request: format!("c16.run proxy=0 limiter=0 gap=0 stalled=post detail=fd-exhaustion{} latency_us=0", if long { "-4s" } else { "" }), observed: if served { "served" } else { "blocked" }.into(),
            oracle: if served { None } else { Some(format!("after a moment without free descriptors (one connection could not be accepted) a well-behaved client is no longer served: {r}")) }, class: "fd-exhaustion".into() };
    }
    let proxy = kvn(req, "proxy") == 1;
    let limiter = kvn(req, "limiter") == 1;
    let st = kvs(req, "stalled").unwrap();
    let stages: Vec<&str> = if st == "-" { vec![] } else { st.split(',').collect() };
    // an idle gap longer than the connection timeout before the well-behaved client arrives (the others were reaped meanwhile)
    let gap = kvs(req, "gap").and_then(|s| s.parse::<u64>().ok()).unwrap_or(0);
    let timeout_ms = if gap > 0 { 1000 } else { 4000 };
    rt().block_on(async {
        let srv = Srv::start(&SrvOpts { proxy: if proxy { Some((true, true)) } else { None }, limiter: if limiter { Some(2) } else { None }, timeout: Duration::from_millis(timeout_ms), gated: true, ..Default::default() });
        let mut held = vec![];
        for s in &stages {
            // "crowd": six hundred connections that are opened and then say nothing (from the hostile peer's own address)
            // "junk-crowd": eleven hundred connections that send something other than a PROXY header (or nothing useful) and are turned away
            if *s == "junk-crowd" { for _ in 0..1100 { if let Ok(mut c) = Cli::connect(srv.port, Some(Ipv4Addr::new(127, 0, 0, 2))).await { c.raw(b"GET / HTTP/1.1\r\n\r\n").await; let _ = c.wait_close(Duration::from_millis(200)).await; } } continue; }
            if *s == "crowd" { for _ in 0..600 { held.push(Cli::connect(srv.port, Some(Ipv4Addr::new(127, 0, 0, 2))).await.ok()); } tokio::time::sleep(Duration::from_millis(1000)).await; }
            else { held.push(stall(srv.port, proxy, s).await); }
        }
        tokio::time::sleep(Duration::from_millis(50)).await;
        // with every other connection stalled the server has nothing to do: CPU it burns now is taken from everyone else
        let cpu0 = srv.cpu_ms();
        tokio::time::sleep(Duration::from_millis(300)).await;
        let burnt = srv.cpu_ms().saturating_sub(cpu0);
        if gap > 0 { tokio::time::sleep(Duration::from_millis(gap)).await; }
        let (lat, refused) = match Cli::connect(srv.port, Some(Ipv4Addr::new(127, 0, 0, 1))).await {
            Ok(mut w) => { if proxy { w.raw(&header_menu(1)).await; } (w.status(Duration::from_millis(SERVE_BOUND_MS)).await, false) }
            Err(_) => (None, true),
        };
        let observed = if lat.is_some() { "served" } else { "blocked" };
        let mut oracle = if lat.is_some() { None } else if refused { Some(format!("a well-behaved client could not even connect (the listener is gone) after other connection(s) did [{st}]")) }
            else { Some(format!("a well-behaved client got no status reply within {SERVE_BOUND_MS} ms while {} other connection(s) were stalled at [{st}]", stages.len())) };
        if oracle.is_none() && burnt >= 200 { oracle = Some(format!("the server thread burnt {burnt} ms of CPU in a 300 ms window in which every connection was stalled at [{st}]: a stalled client keeps the server busy, delaying every other client in proportion to the number of such clients")); }
        srv.stop.cancel();
        drop(held);
        let model_stages: Vec<&str> = stages.iter().map(|s| if *s == "pre" || *s == "in" { *s } else { "post" }).collect();
        let request = format!("c16.run proxy={} limiter={} gap={gap} stalled={} detail={st} latency_us={}", u8::from(proxy), u8::from(limiter), if model_stages.is_empty() { "-".to_string() } else { model_stages.join(",") }, lat.map_or(0, |d| d.as_micros()));
        Case { request, observed: observed.into(), oracle, class: format!("proxy={} limiter={} gap={} stalled={}", u8::from(proxy), u8::from(limiter), u8::from(gap > 0), if stages.is_empty() { "none".to_string() } else { let mut k: Vec<&str> = stages.clone(); k.sort_unstable(); k.dedup(); k.join("+") }) }
    })
}

pub fn run_c16(a: &Args) {
    let mut reqs: Vec<String> = read_corpus(&a.corpus).into_iter().filter(|l| l.starts_with("c16.")).map(|l| {
        // replay: `detail=` carries the concrete stages
        match kvs(&l, "detail") { Some(d) => format!("c16.run proxy={} limiter={} gap={} stalled={d}", kvn(&l, "proxy"), kvn(&l, "limiter"), kvs(&l, "gap").unwrap_or_else(|| "0".into())), None => l }
    }).collect();
    let mut rng = Rng::new(a.seed);
    for _ in 0..a.cases {
        let proxy = rng.chance(2, 3);
        let menu: Vec<&str> = if proxy { vec!["pre", "in", "accepted", "mid-frame", "mid-login", "enc", "no-keepalive", "junk", "half-closed", "rst-burst", "no-read"] } else { vec!["accepted", "mid-frame", "mid-login", "enc", "no-keepalive", "junk", "half-closed", "rst-burst", "no-read"] };
        let k = rng.below(5) as usize;
        let st: Vec<&str> = (0..k).map(|_| *rng.pick(&menu)).collect();
        reqs.push(format!("c16.run proxy={} limiter={} gap={} stalled={}", u8::from(proxy), u8::from(rng.chance(1, 2)), if rng.chance(1, 6) { 1300 } else { 0 }, if st.is_empty() { "-".to_string() } else { st.join(",") }));
    }
    reqs.push("c16.run proxy=0 limiter=0 gap=0 stalled=fd-exhaustion".into());
    reqs.push("c16.run proxy=0 limiter=0 gap=0 stalled=fd-exhaustion episode=long".into());
    reqs.push("c16.run proxy=0 limiter=0 gap=0 stalled=grpc-status".into());
    reqs.push("c16.run proxy=0 limiter=0 gap=0 stalled=crowd".into());
    reqs.push("c16.run proxy=1 limiter=0 gap=0 stalled=crowd,pre".into());
    reqs.push("c16.run proxy=1 limiter=0 gap=0 stalled=junk-crowd".into());
    reqs.push("c16.run proxy=1 limiter=1 gap=0 stalled=junk-crowd".into());
    let cases = retry_failed(par_cases(a.seed, reqs.len(), |i, _| guarded(&reqs[i], c16_case)), &reqs, |r| guarded(r, c16_case));
    write_cases(&a.out, &cases).expect("write cases");
    println!("c16: {} cases", cases.len());
}

// ---------------------------------------------------------------- C17

const C17_TIMEOUT_MS: u64 = 2000;

fn c17_case(req: &str) -> Case {
    if req.starts_with("c17.race") { return c17_race(req); }
    if req.starts_with("c17.app") { return c17_app(req); }
    if req.starts_with("c17.fd") {
        let late_stop = req.contains("late-stop");
        let r = lstfd_child(if late_stop { "drain-late" } else { "drain" });
        let (transfer, early, ret) = (r.contains("transfer=1"), r.contains("early_return=1"), r.contains("returned=1"));
        let mut why = vec![];
        if !r.contains("up=1") { why.push(format!("child run failed: {r}")); }
        if !transfer { why.push("the in-flight client cooperated but never received its Transfer (a connection that could not be accepted for want of a descriptor arrived during the drain)".to_string()); }
        if early { why.push("listen() returned while the in-flight session was still running".into()); }
        if !ret { why.push("listen() did not return".into()); }
        return Case { request: "c17.run inflight=1 late=1 stages=backend open_after=300 via=fd-exhaustion".into(), observed: format!("late=0 early_return={} returned={}", u8::from(early), u8::from(ret)),
            oracle: if why.is_empty() { None } else { Some(why.join("; ")) }, class: if late_stop { "stop-during-fd-exhaustion".into() } else { "fd-exhaustion-during-drain".into() } };
    }
    let late = kvn(req, "late") as usize;
    let st = kvs(req, "stages").unwrap();
    let stages: Vec<String> = if st == "-" { vec![] } else { st.split(',').map(String::from).collect() };
    let open_after = kvn(req, "open_after");
    let timeout_ms = kvs(req, "timeout").and_then(|s| s.parse().ok()).unwrap_or(C17_TIMEOUT_MS);
    let proxy = kvs(req, "proxy").as_deref() == Some("1");
    let restart = kvs(req, "restart").as_deref() == Some("1");
    // `again=1`: the same Listener is started once more after listen() returned; connections that arrived after the stop must not be served then either
    let again = kvs(req, "again").as_deref() == Some("1");
    rt().block_on(async {
        let Some(srv) = Srv::start_opt(&SrvOpts { proxy: if proxy { Some((true, true)) } else { None }, warmup: restart, cycle_after: again, timeout: Duration::from_millis(timeout_ms), gated: true, secret: Some(b"s3cret".to_vec()), ..Default::default() }) else {
            let request = format!("c17.run inflight={} late={late} stages={st} open_after={open_after} timeout={timeout_ms} proxy={} restart={} again={}", stages.len(), u8::from(proxy), u8::from(restart), u8::from(again));
            return Case { request, observed: "late=0 early_return=0 returned=0".into(), oracle: Some(format!("the Listener never listened on the address it was given{}", if restart { " (it had been started and stopped once before on another address)" } else { "" })), class: "listener-not-up".into() };
        };
        let ready = Arc::new(Semaphore::new(0));
        let go = Arc::new(Semaphore::new(0));
        let mut tasks = vec![];
        for s in &stages {
            let (s, ready, go, port) = (s.clone(), ready.clone(), go.clone(), srv.port);
            tasks.push(tokio::spawn(async move {
                // a client that cannot even connect counts as a cooperating client that never got its Transfer
                let Ok(mut c) = Cli::connect(port, None).await else { ready.add_permits(1); return (true, false, None); };
                let long = Duration::from_millis(3 * timeout_ms);
                if proxy && s != "pre-header" && s != "accepted" { c.raw(&header_menu(0)).await; }
                match s.as_str() {
                    // accepted, its PROXY header still outstanding when the stop is requested; then it cooperates
                    "pre-header" => { ready.add_permits(1); go.acquire().await.unwrap().forget(); if proxy { c.raw(&header_menu(0)).await; } let free = Arc::new(Semaphore::new(1)); let r = c.login_hold(2, None, Stage::Transferred, long, Some((Stage::Configuration, Arc::new(Semaphore::new(0)), free))).await; (true, r == Stage::Transferred, Some(Instant::now())) }
                    // connected, says nothing: ends by the connection timeout
                    "accepted" => { ready.add_permits(1); let t = c.wait_close(long).await; (false, false, t.map(|_| Instant::now())) }
                    // stops after Login Start until the stop was requested, then cooperates
                    "mid-login" => { let r = c.login_hold(2, None, Stage::Transferred, long, Some((Stage::LoginStart, ready, go))).await; (true, r == Stage::Transferred, Some(Instant::now())) }
                    // in the configuration phase, the backend answers only later
                    _ => { let free = Arc::new(Semaphore::new(1)); let r = c.login_hold(2, None, Stage::Transferred, long, Some((Stage::Configuration, ready, free))).await; (true, r == Stage::Transferred, Some(Instant::now())) }
                }
            }));
        }
        let all_ready = tokio::time::timeout(Duration::from_millis(1500), ready.acquire_many(stages.len() as u32)).await.is_ok();
        tokio::time::sleep(Duration::from_millis(30)).await;
        // ---- shutdown requested
        srv.stop.cancel();
        let t_stop = Instant::now();
        go.add_permits(stages.len());
        tokio::time::sleep(Duration::from_millis(100)).await;
        // connections opened after the stop: each sends its status request at once and keeps waiting for an answer
        // (briefly; with `again=1` until after the Listener has been started a second time)
        let mut late_tasks = vec![];
        for _ in 0..late {
            let (port, wait) = (srv.port, if again { timeout_ms + 2500 } else { 300 });
            late_tasks.push(tokio::spawn(async move {
                match Cli::connect(port, None).await { Ok(mut c) => { let at = c.t0; if proxy { c.raw(&header_menu(1)).await; } (Some(at), c.status(Duration::from_millis(wait)).await.is_some()) } Err(_) => (None, false) }
            }));
        }
        if !again { tokio::time::sleep(Duration::from_millis(320)).await; }
        let returned_early_probe = srv.returned_at();
        if open_after > 0 { tokio::time::sleep(Duration::from_millis(open_after)).await; }
        srv.gate.add_permits(64);
        let mut why = vec![];
        let mut last_done: Option<Instant> = None;
        for (i, t) in tasks.into_iter().enumerate() {
            let (coop, transferred, done) = t.await.unwrap_or((true, false, None));
            if coop && !transferred { why.push(format!("in-flight client {i} ({}) cooperated but never received its Transfer", stages[i])); }
            if let Some(d) = done { if last_done.is_none_or(|l| d > l) { last_done = Some(d); } }
        }
        // a connection established only after listen() had returned belongs to the next cycle of a restarted Listener, not to this one
        let mut late_served = 0;
        let mut late_results = vec![];
        for t in late_tasks { late_results.push(t.await.unwrap_or((None, false))); }
        // listen() must return, and only after the last session finished
        let deadline = t_stop + Duration::from_millis(timeout_ms + 1500);
        while srv.returned_at().is_none() && Instant::now() < deadline { tokio::time::sleep(Duration::from_millis(10)).await; }
        let ret = srv.returned_at();
        for (at, served) in late_results { if served && !(again && matches!((at, ret), (Some(a), Some(r)) if a >= r)) { late_served += 1; } }
        let in_flight = !stages.is_empty();
        let early = in_flight && (returned_early_probe.is_some() || match (ret, last_done) { (Some(r), Some(l)) => r + Duration::from_millis(50) < l, _ => false });
        if !all_ready { why.push("set-up: not every in-flight client reached its stage".into()); }
        if late_served > 0 { why.push(format!("{late_served} connection(s) opened after the stop request were served")); }
        if early { why.push("listen() returned while in-flight sessions were still running".into()); }
        if ret.is_none() { why.push(format!("listen() had not returned {} ms after the stop request", timeout_ms + 1500)); }
        let observed = format!("late={late_served} early_return={} returned={}", u8::from(early), u8::from(ret.is_some()));
        let request = format!("c17.run inflight={} late={late} stages={st} open_after={open_after} timeout={timeout_ms} proxy={} restart={} again={}", stages.len(), u8::from(proxy), u8::from(restart), u8::from(again));
        Case { request, observed, oracle: if why.is_empty() { None } else { Some(why.join("; ")) }, class: format!("inflight={} late={} backend={} proxy={} restart={}", stages.len().min(3), late.min(2), if open_after > 0 { "slow" } else { "prompt" }, u8::from(proxy), u8::from(restart)) }
    })
}

/// the stop request, then a new connection, both before the accept loop runs again: on a
/// current-thread runtime that polls the I/O driver on every tick the loop sees both ready
fn c17_race(req: &str) -> Case {
    let trials = kvs(req, "trials").and_then(|s| s.parse().ok()).unwrap_or(16usize);
    let mut served = 0;
    for _ in 0..trials {
        let rt = tokio::runtime::Builder::new_current_thread().enable_all().event_interval(1).build().unwrap();
        let hit = rt.block_on(async {
            let port = free_port();
            let stop = CancellationToken::new();
            let seen: Seen = Arc::new(Mutex::new(vec![]));
            let gate = Arc::new(Semaphore::new(0));
            let mut l = build_listener(&SrvOpts { timeout: Duration::from_millis(400), ..Default::default() }, &seen, &gate);
            let stop2 = stop.clone();
            let server = async { let _ = l.listen(("127.0.0.1", port), stop2).await; };
            let client = async {
                for _ in 0..200 { tokio::time::sleep(Duration::from_millis(2)).await; if wait_listening_once(port) { break; } }
                tokio::time::sleep(Duration::from_millis(10)).await;
                stop.cancel();
                // the kernel completes the handshake: the connection arrives after the stop request
                let s = std::net::TcpStream::connect(("127.0.0.1", port));
                tokio::task::yield_now().await;
                let Ok(s) = s else { return false };
                s.set_nonblocking(true).unwrap();
                let s = TcpStream::from_std(s).unwrap();
                let mut c = Cli { s, enc: None, rx: vec![], phase: ClientPhase::Handshake, bytes_in: 0, t0: Instant::now(), should_auth: None, got_transfer: false, stored_auth: None, auth_requested: false };
                c.status(Duration::from_millis(300)).await.is_some()
            };
            let (_, hit) = tokio::join!(server, client);
            hit
        });
        if hit { served += 1; }
    }
    let late = u8::from(served > 0);
    Case { request: format!("c17.race trials={trials}"), observed: format!("late={late}"),
        oracle: if served > 0 { Some(format!("{served} of {trials} connections that arrived after the stop request (both pending when the accept loop next ran) were accepted and served")) } else { None },
        class: "race:stop-then-arrive".into() }
}

/// `passage::start` run the way `main` runs it (own runtime, dropped when start returns), stopped by a real SIGINT
/// while a login is in flight; the session must still get its Transfer and start() must return only afterwards
fn c17_app(_req: &str) -> Case {
    let returned: Arc<Mutex<Option<Instant>>> = Arc::new(Mutex::new(None));
    let mut cfg = app_config_t(free_port(), 10_000, 21_600, Some("s3cret"), 3, None, None, true);
    let mut port = 0;
    for _ in 0..4 {
        let c2 = cfg.clone();
        let r2 = returned.clone();
        let p: u16 = cfg.address.rsplit(':').next().unwrap().parse().unwrap();
        std::thread::spawn(move || {
            let rt = tokio::runtime::Builder::new_current_thread().enable_all().build().unwrap();
            let _ = rt.block_on(passage::start(c2)).map_err(|e| eprintln!("start failed: {e}"));
            *r2.lock().unwrap() = Some(Instant::now());
            rt.shutdown_timeout(Duration::from_millis(0));
        });
        if wait_listening(p) { port = p; break; }
        cfg.address = format!("127.0.0.1:{}", free_port());
    }
    assert!(port != 0, "the application did not come up");
    rt().block_on(async {
        let ready = Arc::new(Semaphore::new(0));
        let go = Arc::new(Semaphore::new(0));
        let (r2, g2) = (ready.clone(), go.clone());
        let task = tokio::spawn(async move {
            let mut c = Cli::connect(port, None).await.expect("connect");
            let st = c.login_hold(2, None, Stage::Transferred, Duration::from_millis(2500), Some((Stage::LoginStart, r2, g2))).await;
            (st, Instant::now())
        });
        let is_ready = tokio::time::timeout(Duration::from_millis(1500), ready.acquire()).await.is_ok();
        tokio::time::sleep(Duration::from_millis(50)).await;
        // only once the application's ctrl-c handler is installed (SigCgt has the SIGINT bit): otherwise the signal would end this process
        let caught = || std::fs::read_to_string("/proc/self/status").ok().and_then(|t| t.lines().find_map(|l| l.strip_prefix("SigCgt:").map(|h| u64::from_str_radix(h.trim(), 16).unwrap_or(0)))).is_some_and(|m| m & 0x2 != 0);
        let t_wait = Instant::now();
        while !caught() && t_wait.elapsed() < Duration::from_secs(2) { tokio::time::sleep(Duration::from_millis(10)).await; }
        if !caught() {
            go.add_permits(1);
            let _ = task.await;
            return Case { request: "c17.run inflight=1 late=0 stages=mid-login open_after=0 via=app".into(), observed: "late=0 early_return=0 returned=0".into(), oracle: Some("the application never installed a ctrl-c handler: it cannot be stopped by SIGINT".into()), class: "app:ctrl-c".into() };
        }
        // SAFETY: raising a signal for which the application has installed its handler
        unsafe { libc::raise(libc::SIGINT); }
        let t_stop = Instant::now();
        tokio::time::sleep(Duration::from_millis(300)).await;
        let early = returned.lock().unwrap().is_some();
        go.add_permits(1);
        let (st, done) = task.await.expect("client task");
        let deadline = t_stop + Duration::from_millis(5000);
        while returned.lock().unwrap().is_none() && Instant::now() < deadline { tokio::time::sleep(Duration::from_millis(10)).await; }
        let ret = *returned.lock().unwrap();
        let mut why = vec![];
        if !is_ready { why.push("set-up: the client did not reach Login Start".into()); }
        if st != Stage::Transferred { why.push(format!("the in-flight client cooperated after ctrl-c but ended at {st:?} without its Transfer")); }
        if early || ret.is_some_and(|r| r + Duration::from_millis(50) < done) { why.push("passage::start returned while the in-flight session was still running".into()); }
        if ret.is_none() { why.push("passage::start had not returned 5 s after ctrl-c".into()); }
        let early_flag = early || ret.is_some_and(|r| r + Duration::from_millis(50) < done);
        Case { request: "c17.run inflight=1 late=0 stages=mid-login open_after=0 via=app".into(), observed: format!("late=0 early_return={} returned={}", u8::from(early_flag), u8::from(ret.is_some())),
            oracle: if why.is_empty() { None } else { Some(why.join("; ")) }, class: "app:ctrl-c".into() }
    })
}

fn wait_listening_once(port: u16) -> bool {
    let needle = format!(":{port:04X}");
    std::fs::read_to_string("/proc/net/tcp").map(|t| t.lines().skip(1).any(|l| { let f: Vec<&str> = l.split_whitespace().collect(); f.len() > 3 && f[1].ends_with(&needle) && f[3] == "0A" })).unwrap_or(false)
}

pub fn run_c17(a: &Args) {
    let mut reqs: Vec<String> = read_corpus(&a.corpus).into_iter().filter(|l| l.starts_with("c17.")).collect();
    let mut rng = Rng::new(a.seed);
    reqs.push(format!("c17.race trials={}", if a.thorough { 64 } else { 16 }));
    // the application entry point: ctrl-c (SIGINT) while a session is in flight
    reqs.push("c17.app".into());
    reqs.push("c17.fd".into());
    reqs.push("c17.fd late-stop".into());
    // a session that legitimately outlasts the DEFAULT connection timeout (10 s) under a longer configured one
    reqs.push("c17.run inflight=2 late=1 stages=backend,mid-login open_after=11500 timeout=15000".into());
    for _ in 0..a.cases {
        let k = rng.below(5) as usize;
        let proxy = rng.chance(1, 3);
        let st: Vec<&str> = (0..k).map(|_| *rng.pick(if proxy { &["accepted", "pre-header", "pre-header", "mid-login", "backend", "transfer"][..] } else { &["accepted", "mid-login", "backend", "backend", "transfer"][..] })).collect();
        reqs.push(format!("c17.run inflight={k} late={} stages={} open_after={} proxy={} restart={} again={}", rng.below(3), if st.is_empty() { "-".to_string() } else { st.join(",") }, rng.pick(&[0u64, 0, 300, 600]), u8::from(proxy), u8::from(rng.chance(1, 3)), u8::from(rng.chance(1, 4))));
    }
    let cases = retry_failed(par_cases(a.seed, reqs.len(), |i, _| guarded(&reqs[i], c17_case)), &reqs, |r| guarded(r, c17_case));
    write_cases(&a.out, &cases).expect("write cases");
    println!("c17: {} cases", cases.len());
}
