//! C18 — filters and strategies built FROM CONFIGURATION VALUES (DynFilterAdapters::from_config,
//! DynStrategyAdapter::from_config) vs. the Lean model vs. a naive evaluator.
use crate::util::*;
use passage::adapter::filter::DynFilterAdapters;
use passage::adapter::strategy::DynStrategyAdapter;
use passage::config;
use passage_adapters::filter::FilterAdapter;
use passage_adapters::strategy::StrategyAdapter;
use passage_adapters::Target;
use serde_json::{json, Value};
use std::collections::HashMap;
use std::net::SocketAddr;
use uuid::Uuid;

#[derive(Clone)]
enum Op { Eq(String), Ne(String), Ex, Nex, In(Vec<String>), Nin(Vec<String>) }
#[derive(Clone)]
struct PList { names: Option<Vec<String>>, rx: Option<String>, ids: Option<Vec<Uuid>> }
#[derive(Clone)]
enum Kind { Rules(Vec<(String, Op)>), Allow(PList), Block(PList) }
#[derive(Clone)]
struct Filt { host: Option<String>, kind: Kind }
#[derive(Clone)]
enum Strat { Any, Fill(String, u32) }

const KEYS: &[&str] = &["region", "players", "mode", "x", "état"];
const VALS: &[&str] = &["eu", "us", "1", "10", "3", "abc", "+7", "-1", "4294967295", "4294967296", "", " 5", "007", "५"];
const NAMES: &[&str] = &["Alice", "Bob", "alice", "Ünïcode", "a_b", "Steve123", ""];
const HOSTS: &[&str] = &["lobby.example.org", "survival.example.org", "localhost", "EXAMPLE.org", ""];
const HOST_RX: &[&str] = &["^lobby\\.", "example\\.org$", ".*", "^$", "(?i)example", "survival|lobby", "^x"];
const NAME_RX: &[&str] = &["^A", "(?i)^alice$", "\\d+$", ".*", "^$", "_", "", "", "()", "^", "a|"];

fn gen_op(rng: &mut Rng) -> Op {
    let v = |rng: &mut Rng| rng.pick(VALS).to_string();
    let vs = |rng: &mut Rng| { let n = rng.below(4) as usize; (0..n).map(|_| rng.pick(VALS).to_string()).collect::<Vec<_>>() };
    match rng.below(6) { 0 => Op::Eq(v(rng)), 1 => Op::Ne(v(rng)), 2 => Op::Ex, 3 => Op::Nex, 4 => Op::In(vs(rng)), _ => Op::Nin(vs(rng)) }
}

fn gen_plist(rng: &mut Rng, uuids: &[Uuid]) -> PList {
    PList {
        names: if rng.chance(1, 2) { let n = rng.below(3) as usize; Some((0..n).map(|_| rng.pick(NAMES).to_string()).collect()) } else { None },
        rx: if rng.chance(1, 3) { Some(rng.pick(NAME_RX).to_string()) } else { None },
        ids: if rng.chance(1, 2) { let n = rng.below(3) as usize; Some((0..n).map(|_| *rng.pick(uuids)).collect()) } else { None },
    }
}

fn op_json(key: &str, op: &Op, alias: bool) -> Value {
    let k = if alias { "field" } else { "key" };
    match op {
        Op::Eq(v) => json!({k: key, "op": "equals", "value": v}),
        Op::Ne(v) => json!({k: key, "op": if alias { "notequals" } else { "not_equals" }, "value": v}),
        Op::Ex => json!({k: key, "op": "exists"}),
        Op::Nex => json!({k: key, "op": if alias { "notexists" } else { "not_exists" }}),
        Op::In(v) => json!({k: key, "op": "in", "value": v}),
        Op::Nin(v) => json!({k: key, "op": if alias { "notin" } else { "not_in" }, "value": v}),
    }
}

fn plist_json(l: &PList, simple_uuid: bool) -> Value {
    let mut m = serde_json::Map::new();
    if let Some(n) = &l.names { m.insert("usernames".into(), json!(n)); }
    if let Some(r) = &l.rx { m.insert("username".into(), json!(r)); }
    if let Some(i) = &l.ids { m.insert("ids".into(), json!(i.iter().map(|u| if simple_uuid { u.simple().to_string() } else { u.to_string() }).collect::<Vec<_>>())); }
    Value::Object(m)
}

fn filt_json(f: &Filt, alias: bool) -> Value {
    let mut m = serde_json::Map::new();
    if let Some(h) = &f.host { m.insert("hostname".into(), json!(h)); }
    match &f.kind {
        Kind::Rules(rs) => { m.insert(if alias { "fixed" } else { "meta" }.into(), json!({"rules": rs.iter().map(|(k, o)| op_json(k, o, alias)).collect::<Vec<_>>()})); }
        Kind::Allow(l) => { m.insert(if alias { "playerallow" } else { "player_allow" }.into(), plist_json(l, alias)); }
        Kind::Block(l) => { m.insert(if alias { "playerblock" } else { "player_block" }.into(), plist_json(l, alias)); }
    }
    Value::Object(m)
}

fn listed(l: &PList, name: &str, id: &Uuid) -> bool {
    l.names.as_ref().is_some_and(|n| n.iter().any(|x| x == name))
        || l.rx.as_ref().is_some_and(|r| regex::Regex::new(r).unwrap().is_match(name))
        || l.ids.as_ref().is_some_and(|i| i.contains(id))
}

fn rule_holds(op: &Op, fv: Option<&String>) -> bool {
    match op {
        Op::Eq(v) => fv == Some(v),
        Op::Ne(v) => fv != Some(v),
        Op::Ex => fv.is_some(),
        Op::Nex => fv.is_none(),
        Op::In(vs) => fv.is_some_and(|x| vs.contains(x)),
        Op::Nin(vs) => fv.is_none_or(|x| !vs.contains(x)),
    }
}

fn opt_bit(pre: &str, b: Option<bool>) -> String { match b { None => format!("{pre}-"), Some(false) => format!("{pre}0"), Some(true) => format!("{pre}1") } }

fn hexs(s: &str) -> String { hex(s.as_bytes()) }

fn op_tok(op: &Op) -> String {
    match op {
        Op::Eq(v) => format!("eq {}", hexs(v)), Op::Ne(v) => format!("ne {}", hexs(v)), Op::Ex => "ex".into(), Op::Nex => "nex".into(),
        Op::In(vs) => format!("in {} {}", vs.len(), vs.iter().map(|v| hexs(v)).collect::<Vec<_>>().join(" ")).trim_end().to_string(),
        Op::Nin(vs) => format!("nin {} {}", vs.len(), vs.iter().map(|v| hexs(v)).collect::<Vec<_>>().join(" ")).trim_end().to_string(),
    }
}

fn plist_tok(l: &PList, name: &str) -> String {
    let names = match &l.names { None => "-".to_string(), Some(n) => format!("{} {}", n.len(), n.iter().map(|x| hexs(x)).collect::<Vec<_>>().join(" ")).trim_end().to_string() };
    let rx = opt_bit("r", l.rx.as_ref().map(|r| regex::Regex::new(r).unwrap().is_match(name)));
    let ids = match &l.ids { None => "-".to_string(), Some(i) => format!("{} {}", i.len(), i.iter().map(|u| u.as_u128().to_string()).collect::<Vec<_>>().join(" ")).trim_end().to_string() };
    format!("{names} {rx} {ids}")
}

pub fn run(a: &Args) {
    let mut rng = Rng::new(a.seed);
    let rt = crate::codec::rt();
    let uuids: Vec<Uuid> = (0..4).map(|i| Uuid::from_u128(0x1234_5678_9abc_def0_0000_0000_0000_0000 + i)).collect();
    let mut cases = vec![];
    let client: SocketAddr = "192.0.2.7:50000".parse().unwrap();
    // One built adapter chain serves three consecutive queries (different host names, players and
    // target lists), as one running router serves many connections with the adapters it built once.
    let mut built: Option<(Vec<Filt>, Strat, DynFilterAdapters, DynStrategyAdapter)> = None;
    for n in 0..a.cases {
        let alias = (n / 3) % 3 == 2;
        let name = rng.pick(NAMES).to_string();
        let uid = *rng.pick(&uuids);
        let host = rng.pick(HOSTS).to_string();
        let nf = if rng.chance(1, 6) { 6 } else { rng.below(4) as usize };
        let fresh_filters: Vec<Filt> = (0..nf).map(|_| {
            let host = if rng.chance(1, 2) { Some(rng.pick(HOST_RX).to_string()) } else { None };
            let kind = match rng.below(4) {
                0 | 1 => { let k = rng.below(3) as usize; Kind::Rules((0..k).map(|_| (rng.pick(KEYS).to_string(), gen_op(&mut rng))).collect()) }
                2 => { let mut l = gen_plist(&mut rng, &uuids); if rng.chance(2, 3) { l.names.get_or_insert_with(Vec::new).push(name.clone()); } Kind::Allow(l) }
                _ => Kind::Block(gen_plist(&mut rng, &uuids)),
            };
            Filt { host, kind }
        }).collect();
        let fresh_strat = if rng.chance(1, 2) { Strat::Any } else { Strat::Fill(rng.pick(KEYS).to_string(), *rng.pick(&[0u32, 1, 5, 10, 11, 100, u32::MAX])) };
        let nt = rng.below(8) as usize;
        let targets: Vec<Target> = (0..nt).map(|i| {
            let mut meta = HashMap::new();
            for k in KEYS { if rng.chance(1, 2) { meta.insert(k.to_string(), rng.pick(VALS).to_string()); } }
            Target { identifier: format!("t{i}"), address: format!("10.0.0.{}:25565", i + 1).parse().unwrap(), meta }
        }).collect();

        // real adapters, built from configuration values
        if n % 3 == 0 || built.is_none() {
            let cfg: Vec<config::OptionFilterAdapter> = serde_json::from_value(Value::Array(fresh_filters.iter().map(|f| filt_json(f, alias)).collect())).expect("filter config");
            let scfg: config::StrategyAdapter = match &fresh_strat {
                Strat::Any => serde_json::from_value(json!(if alias { "fixed" } else { "any" })).expect("strategy config"),
                Strat::Fill(f, m) => serde_json::from_value(json!({ if alias { "playerfill" } else { "player_fill" }: {"field": f, "max_players": m} })).expect("strategy config"),
            };
            let (fa, sa) = rt.block_on(async {
                (DynFilterAdapters::from_config(cfg).await.expect("filters from config"), DynStrategyAdapter::from_config(scfg).await.expect("strategy from config"))
            });
            built = Some((fresh_filters, fresh_strat, fa, sa));
        }
        let (filters, strat, fa, sa) = built.as_ref().map(|(f, s, fa, sa)| (f.clone(), s.clone(), fa, sa)).unwrap();
        let guarded = std::panic::catch_unwind(std::panic::AssertUnwindSafe(|| rt.block_on(async {
            let filtered = fa.filter(&client, (&host, 25565), 767, (&name, &uid), targets.clone()).await.expect("filter");
            let chosen = sa.select(&client, (&host, 25565), 767, (&name, &uid), filtered.clone()).await.expect("select");
            (filtered, chosen)
        })));
        let (filtered, chosen, panicked) = match guarded { Ok((f, c)) => (f, c, false), Err(_) => (vec![], None, true) };

        // naive evaluator (oracle)
        let applicable = |f: &Filt| f.host.as_ref().is_none_or(|h| regex::Regex::new(h).unwrap().is_match(&host));
        let passes = filters.iter().filter(|f| applicable(f)).all(|f| match &f.kind { Kind::Allow(l) => listed(l, &name, &uid), Kind::Block(l) => !listed(l, &name, &uid), _ => true });
        let eligible: Vec<&Target> = if passes { targets.iter().filter(|t| filters.iter().filter(|f| applicable(f)).all(|f| match &f.kind { Kind::Rules(rs) => rs.iter().all(|(k, o)| rule_holds(o, t.meta.get(k))), _ => true })).collect() } else { vec![] };
        let mut why = vec![];
        if panicked { why.push("a filter or the strategy panicked on this query".to_string()); }
        let ids = |v: &[&Target]| v.iter().map(|t| t.identifier.clone()).collect::<Vec<_>>();
        if ids(&filtered.iter().collect::<Vec<_>>()) != ids(&eligible) { why.push(format!("filters returned {:?}, eligible are {:?}", ids(&filtered.iter().collect::<Vec<_>>()), ids(&eligible))); }
        match &strat {
            Strat::Any => if chosen.as_ref().map(|t| &t.identifier) != eligible.first().map(|t| &t.identifier) { why.push("default strategy did not pick the first eligible target".into()); },
            Strat::Fill(field, max) => {
                let pl = |t: &Target| t.meta.get(field).and_then(|s| s.parse::<u32>().ok()).unwrap_or(0);
                let below: Vec<&&Target> = eligible.iter().filter(|t| pl(t) < *max).collect();
                match &chosen {
                    None => if !below.is_empty() { why.push("player_fill refused although an eligible target is below capacity".into()); },
                    Some(t) => {
                        if !eligible.iter().any(|e| e.identifier == t.identifier) { why.push("player_fill chose a non-eligible target".into()); }
                        if pl(t) >= *max { why.push("player_fill chose a target at or above capacity".into()); }
                        if below.iter().any(|u| pl(u) > pl(t)) { why.push("player_fill: a fuller eligible target exists".into()); }
                    }
                }
            }
        }

        // request line for the model (regex verdicts recorded from the real engine)
        let mut req = format!("c18.run {} {} {}", hexs(&name), uid.as_u128(), filters.len());
        for f in &filters {
            let hb = f.host.as_ref().map(|h| regex::Regex::new(h).unwrap().is_match(&host));
            req.push_str(&format!(" {} ", opt_bit("h", hb)));
            match &f.kind {
                Kind::Rules(rs) => { req.push_str(&format!("rules {}", rs.len())); for (k, o) in rs { req.push_str(&format!(" {} {}", hexs(k), op_tok(o))); } }
                Kind::Allow(l) => req.push_str(&format!("allow {}", plist_tok(l, &name))),
                Kind::Block(l) => req.push_str(&format!("block {}", plist_tok(l, &name))),
            }
        }
        match &strat { Strat::Any => req.push_str(" any"), Strat::Fill(f, m) => req.push_str(&format!(" fill {} {m}", hexs(f))) }
        req.push_str(&format!(" {}", targets.len()));
        for t in &targets {
            let mut kv: Vec<(&String, &String)> = t.meta.iter().collect();
            kv.sort();
            req.push_str(&format!(" {} {}", hexs(&t.identifier), kv.len()));
            for (k, v) in kv { req.push_str(&format!(" {} {}", hexs(k), hexs(v))); }
        }
        let observed = format!("filtered={} chosen={}", filtered.iter().map(|t| hexs(&t.identifier)).collect::<Vec<_>>().join(","),
            chosen.as_ref().map_or("-".to_string(), |t| hexs(&t.identifier)));
        let class = format!("{}:{}:{}", if filters.is_empty() { "nofilter" } else if passes { "passes" } else { "blocked" },
            match strat { Strat::Any => "any", Strat::Fill(..) => "fill" }, if eligible.is_empty() { "none-eligible" } else if eligible.len() == targets.len() { "all-eligible" } else { "some-eligible" });
        cases.push(Case { request: req, observed, oracle: if why.is_empty() { None } else { Some(why.join("; ")) }, class });
    }
    write_cases(&a.out, &cases).expect("write cases");
    println!("c18: {} cases", cases.len());
}
